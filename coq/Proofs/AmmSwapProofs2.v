(* Proofs about Models/AmmSwap.v (C03), part 2: exact-out direction, one-unit claims and their refutation,
   round trip / split corollaries, oracle pools, bonus cap, fee discount, weighted pools (partial).
   All statements over unbounded Z. *)
From Coq Require Import ZArith List Bool Lia.
From Elys Require Import Base.Res Base.Zdec Models.AmmSwap Proofs.AmmSwapProofs.
Import ListNotations.
Open Scope Z_scope.

(* ---------- monotone rounding facts ---------- *)
Lemma dmul_le_l x d : 0 <= x -> 0 <= d <= PREC -> 0 <= dmul x d <= x.
Proof.
  intros Hx Hd. unfold dmul. pose proof PREC_pos as HP.
  assert (H0 : 0 <= x * d) by nia.
  split.
  - destruct (chop_round_bounds (x * d) H0) as [_ B]. exact B.
  - rewrite <- (chop_round_mult x) at 2. apply chop_round_mono. nia.
Qed.

Lemma dquo_ge_l x d : 0 <= x -> 0 < d <= PREC -> x <= dquo x d.
Proof.
  intros Hx Hd. unfold dquo. pose proof PREC_pos as HP.
  rewrite <- (chop_round_mult x) at 1. apply chop_round_mono.
  split; [nia|]. apply Z.quot_le_lower_bound; [lia|]. nia.
Qed.

Lemma dquo_nonneg a b : 0 <= a -> 0 < b -> 0 <= dquo a b.
Proof. intros Ha Hb. destruct (dquo_bounds a b Ha Hb) as [Q _]. exact Q. Qed.

(* ---------- CalcInAmtGivenOut, constant product, equal weights ---------- *)
Lemma dceil_trunc d : 0 <= d -> d <= trunc_int (dceil d) * PREC.
Proof.
  intros Hd. unfold dceil, trunc_int, chop_trunc. pose proof PREC_pos as HP.
  pose proof (Z.quot_rem' d PREC) as E.
  assert (Hr : 0 <= Z.rem d PREC < PREC) by (apply Z.rem_bound_pos; lia).
  destruct (0 <? Z.rem d PREC) eqn:C.
  - rewrite Z.quot_mul by lia. lia.
  - apply Z.ltb_ge in C. rewrite Z.quot_mul by lia. lia.
Qed.

Section EqualWeightIn.
  Variable p : pool.
  Variables o fee inn slip : Z.
  Hypothesis Hno : use_oracle p = false.
  Hypothesis Hw : w_in p = w_out p.
  Hypothesis Hwpos : 0 < w_in p.
  Hypothesis Ho : 0 <= o.
  Hypothesis Hfee : 0 <= fee < PREC.
  Let Bi := ebal (b_in p) (acc_in p).
  Let Bo := ebal (b_out p) (acc_out p).
  Hypothesis HBi : 0 <= Bi.
  Hypothesis Hcalc : calc_in p o fee = Ok (inn, slip).
  Let R := Bo - o.

  Lemma calc_in_equal_shape :
    0 < R /\ exists y tbf, y = dquo (Bo * PREC) (R * PREC) /\ 0 < y /\
      tbf = dquo (Bi * (y - PREC)) (PREC - fee) /\ inn = trunc_int (dceil tbf) /\ 0 < inn.
  Proof.
    pose proof PREC_pos as HP.
    unfold calc_in in Hcalc.
    unfold weights in Hcalc. rewrite Hno in Hcalc. simpl in Hcalc. rewrite <- Hw in Hcalc.
    apply bind_ok in Hcalc. destruct Hcalc as [post [H1 H]]. apply csub_ok in H1.
    apply bind_ok in H. destruct H as [t0 [H2 H]].
    rewrite !eff_ebal in *. fold Bi Bo in H1, H2.
    apply solve_equal in H2; [|exact Hwpos].
    destruct H2 as [Hpost [y [Hy [Hypos Ht0]]]].
    apply bind_ok in H. destruct H as [rate [_ H]].
    apply bind_ok in H. destruct H as [awo [_ H]].
    destruct (- t0 =? 0); [discriminate|].
    apply bind_ok in H. destruct H as [q [_ H]].
    apply bind_ok in H. destruct H as [sl [_ H]].
    destruct (ONE <=? fee); [discriminate|].
    apply bind_ok in H. destruct H as [omf [H3 H]]. apply csub_ok in H3.
    apply bind_ok in H. destruct H as [tbf [H4 H]]. apply cquo_ok in H4. destruct H4 as [_ H4].
    apply bind_ok in H. destruct H as [c [H5 H]]. apply cceil_ok in H5.
    destruct (trunc_int c <=? 0) eqn:Ei; [discriminate|]. apply Z.leb_gt in Ei.
    inversion H; subst inn slip.
    assert (EP : post = R * PREC) by (unfold R; subst; ring). rewrite EP in *.
    split; [nia|]. exists y, tbf. split; [exact Hy|]. split; [exact Hypos|].
    unfold ONE in *. rewrite dmul_int_l in Ht0.
    assert (ET : - t0 = Bi * (y - PREC)) by (subst t0; ring). rewrite ET in H4. subst omf.
    split; [exact H4|]. subst c. split; [reflexivity|exact Ei].
  Qed.

  (* the trader never pays less than the exact constant-product amount (grossed up by the fee) minus the
     rounding of y = B_out/(B_out - o) to the nearest 10^-18 multiplied by the in reserve *)
  Lemma calc_in_equal_lower :
    Bi * o * (PREC * PREC * PREC)
      < inn * (PREC * PREC) * (PREC - fee) * R + Bi * R * PREC * (1 + HALF) + R * (PREC - fee) * (1 + HALF).
  Proof.
    pose proof PREC_pos as HP.
    destruct calc_in_equal_shape as [HR [y [tbf [Hy [Hypos [Htbf [Hinn Hipos]]]]]]].
    assert (HBo : 0 <= Bo * PREC) by (unfold R in HR; nia).
    assert (HRP : 0 < R * PREC) by nia.
    destruct (dquo_bounds (Bo * PREC) (R * PREC) HBo HRP) as [Q0 [Q1 Q2]]. rewrite <- Hy in *.
    (* y >= 1 *)
    assert (Hyge : PREC <= y).
    { subst y. replace (Bo * PREC) with ((Bo * PREC)) by ring.
      assert (E1 : PREC = dquo (R * PREC) (R * PREC)) by (symmetry; apply dquo_self; lia).
      rewrite E1 at 1. unfold dquo. apply chop_round_mono.
      assert (0 <= R * PREC * PREC * PREC) by nia.
      split; [apply Z.quot_pos; lia|].
      apply Z.quot_le_mono; [lia|]. unfold R. nia. }
    assert (Htin : 0 <= Bi * (y - PREC)) by nia.
    assert (Hf : 0 < PREC - fee) by lia.
    destruct (dquo_bounds (Bi * (y - PREC)) (PREC - fee) Htin Hf) as [T0 [T1 T2]]. rewrite <- Htbf in *.
    pose proof (dceil_trunc tbf T0) as C. rewrite <- Hinn in C.
    set (P := PREC) in *. set (H := HALF) in *.
    set (f := P - fee) in *.
    set (tin := Bi * (y - P)) in *.
    (* A2: (y - P)*R*P^2 > o*P^3 - R*P*(1+H) *)
    assert (A2 : o * (P * P * P) - R * P * (1 + H) < (y - P) * R * (P * P)).
    { assert (E : Bo = R + o) by (unfold R; ring). rewrite E in Q1.
      replace ((y - P) * R * (P * P)) with (y * P * (R * P) - R * (P * P * P)) by ring.
      lia. }
    assert (A3 : Bi * (o * (P * P * P) - R * P * (1 + H)) <= tin * R * (P * P)).
    { unfold tin. replace (Bi * (y - P) * R * (P * P)) with (Bi * ((y - P) * R * (P * P))) by ring.
      apply Z.mul_le_mono_nonneg_l; [exact HBi|lia]. }
    (* A4: inn*P*P*f >= tbf*P*f > tin*P^2 - f*(1+H) *)
    assert (M : tbf * (P * f) <= inn * P * (P * f)).
    { apply Z.mul_le_mono_nonneg_r; [nia|exact C]. }
    assert (A4 : tin * (P * P) - f * (1 + H) < inn * (P * P) * f) by lia.
    assert (A5 : (tin * (P * P) - f * (1 + H)) * R < inn * (P * P) * f * R)
      by (apply Z.mul_lt_mono_pos_r; assumption).
    replace (Bi * o * (P * P * P)) with (Bi * (o * (P * P * P) - R * P * (1 + H)) + Bi * R * P * (1 + H)) by ring.
    lia.
  Qed.

  (* explicit form: exact amount B_in*o/((B_out-o)(1-fee)) < in + floor(B_in/(10^18 (1-fee))) + 2 *)
  Lemma calc_in_equal_floor :
    Bi * o * PREC < (inn + Z.div Bi (PREC - fee) + 2) * (R * (PREC - fee)).
  Proof.
    pose proof PREC_pos as HP.
    destruct calc_in_equal_shape as [HR _].
    pose proof calc_in_equal_lower as L.
    assert (Hf : 0 < PREC - fee) by lia.
    set (s := Z.div Bi (PREC - fee)).
    assert (E : Bi < (s + 1) * (PREC - fee)).
    { unfold s. pose proof (Z.div_mod Bi (PREC - fee) ltac:(lia)) as D.
      pose proof (Z.mod_pos_bound Bi (PREC - fee) Hf). nia. }
    assert (Hs : 0 <= s) by (unfold s; apply Z.div_pos; lia).
    assert (H1 : 1 + HALF <= PREC) by (rewrite HALF_eq, PREC_eq; lia).
    assert (HH0 : 0 <= HALF) by (rewrite HALF_eq; lia).
    set (P := PREC) in *. set (H := HALF) in *. set (f := P - fee) in *.
    set (D := R * f).
    assert (HD : 0 < D) by (unfold D; nia).
    assert (PP : 0 < P * P) by nia.
    (* Bi*R*P*(1+H) <= (s+1)*D*P*P *)
    assert (B1 : Bi * R * P * (1 + H) <= (s + 1) * D * (P * P)).
    { assert (X0 : Bi * R <= ((s + 1) * f) * R) by (apply Z.mul_le_mono_nonneg_r; lia).
      assert (X1 : Bi * R <= (s + 1) * D) by (replace ((s + 1) * D) with ((s + 1) * f * R) by (unfold D; ring); exact X0).
      assert (X2 : 0 <= P * (1 + H) <= P * P) by nia.
      assert (X3 : 0 <= Bi * R) by nia.
      assert (X4 : Bi * R * (P * (1 + H)) <= (s + 1) * D * (P * (1 + H))) by (apply Z.mul_le_mono_nonneg_r; lia).
      assert (X5 : (s + 1) * D * (P * (1 + H)) <= (s + 1) * D * (P * P)) by (apply Z.mul_le_mono_nonneg_l; nia).
      lia. }
    assert (B2 : R * f * (1 + H) < D * (P * P)).
    { assert (X6 : 1 + H < P * P) by (unfold P, H; rewrite HALF_eq, PREC_eq; lia).
      fold D. apply Z.mul_lt_mono_pos_l; [exact HD|exact X6]. }
    assert (F : (Bi * o * P) * (P * P) < ((inn + s + 2) * D) * (P * P)).
    { replace (Bi * o * P * (P * P)) with (Bi * o * (P * P * P)) by ring.
      replace ((inn + s + 2) * D * (P * P)) with (inn * (P * P) * f * R + (s + 1) * D * (P * P) + D * (P * P)) by (unfold D; ring).
      lia. }
    apply Z.mul_lt_mono_pos_r in F; [exact F|exact PP].
  Qed.

  (* the stated allowance (one base unit) holds when B_in*(1+HALF) <= 10^18*(10^18 - fee) - (1+HALF),
     e.g. B_in <= 1.96*10^18 for fees up to 2%:   B_in*o/((B_out-o)(1-fee)) < in + 1 *)
  Lemma calc_in_equal_one_unit :
    Bi * PREC * (1 + HALF) + (PREC - fee) * (1 + HALF) <= PREC * PREC * (PREC - fee) ->
    Bi * o * PREC < (inn + 1) * (R * (PREC - fee)).
  Proof.
    intros Hb. pose proof PREC_pos as HP.
    destruct calc_in_equal_shape as [HR _].
    pose proof calc_in_equal_lower as L.
    set (P := PREC) in *. set (H := HALF) in *. set (f := P - fee) in *.
    assert (PP : 0 < P * P) by nia.
    assert (X : (Bi * P * (1 + H) + f * (1 + H)) * R <= P * P * f * R)
      by (apply Z.mul_le_mono_nonneg_r; lia).
    assert (F : (Bi * o * P) * (P * P) < ((inn + 1) * (R * f)) * (P * P)).
    { replace (Bi * o * P * (P * P)) with (Bi * o * (P * P * P)) by ring.
      replace ((inn + 1) * (R * f) * (P * P)) with (inn * (P * P) * f * R + P * P * f * R) by ring.
      replace ((Bi * P * (1 + H) + f * (1 + H)) * R) with (Bi * R * P * (1 + H) + R * f * (1 + H)) in X by ring.
      lia. }
    apply Z.mul_lt_mono_pos_r in F; [exact F|exact PP].
  Qed.
End EqualWeightIn.

(* ---------- pure arithmetic behind the round-trip / split corollaries ----------
   U P c Bi Bo x out  is the cleared form of  out <= Bo*x/(Bi*P + x) + Bo*c/P^2  (x = a*(P - fee), scaled by P). *)
Definition Ub (P c Bi Bo x out : Z) : Prop :=
  out * (P * P) * (Bi * P + x) <= Bo * (P * P) * x + Bo * (Bi * P + x) * c.
Definition Lb (P h Bi Bo x out : Z) : Prop :=
  Bo * (P * P) * x < out * (P * P) * (Bi * P + x) + Bo * (Bi * P + x) * h + P * P * (Bi * P + x).

Lemma Ub_unscale P c Bi Bo x A out :
  0 < P -> 0 <= c -> 0 <= Bi -> 0 <= Bo -> 0 <= x <= A * P -> 0 < Bi * P + x ->
  Ub P c Bi Bo x out ->
  (out * (P * P) - Bo * c) * (Bi + A) <= Bo * (P * P) * A.
Proof.
  intros HP Hc HBi HBo Hx HN HU. unfold Ub in HU.
  set (Q := P * P) in *. assert (HQ : 0 < Q) by (unfold Q; nia).
  set (K := out * Q - Bo * c).
  assert (HA : 0 <= A) by nia.
  assert (HK : K * (Bi * P + x) <= Bo * Q * x).
  { unfold K. replace ((out * Q - Bo * c) * (Bi * P + x)) with (out * Q * (Bi * P + x) - Bo * (Bi * P + x) * c) by ring. lia. }
  destruct (Z_le_gt_dec K 0) as [Kle|Kgt].
  - assert (K * (Bi + A) <= 0) by nia. assert (0 <= Bo * Q * A) by nia. lia.
  - set (D := Bo * Q - K).
    assert (HD1 : K * (Bi * P) <= D * x).
    { unfold D. replace ((Bo * Q - K) * x) with (Bo * Q * x - K * x) by ring.
      replace (K * (Bi * P + x)) with (K * (Bi * P) + K * x) in HK by ring. lia. }
    assert (HD : 0 <= D).
    { destruct (Z_le_gt_dec 0 D) as [L|G]; [exact L|exfalso].
      assert (0 <= K * (Bi * P)) by nia.
      destruct (Z.eq_dec x 0) as [E|E].
      - subst x. assert (0 < Bi * P) by lia. assert (0 < K * (Bi * P)) by nia. lia.
      - assert (0 < x) by lia. assert (D * x < 0) by nia. lia. }
    assert (HD2 : D * x <= D * (A * P)) by (apply Z.mul_le_mono_nonneg_l; lia).
    assert (HD3 : (K * Bi) * P <= (D * A) * P) by (replace (K * Bi * P) with (K * (Bi * P)) by ring; replace (D * A * P) with (D * (A * P)) by ring; lia).
    assert (HD4 : K * Bi <= D * A) by (apply Z.mul_le_mono_pos_r in HD3; assumption).
    replace (K * (Bi + A)) with (K * Bi + K * A) by ring.
    replace (Bo * Q * A) with (D * A + K * A) by (unfold D; ring). lia.
Qed.

(* round trip: leg 1 trades a on (Bi1, Bo1) and gets o1; leg 2 trades o1 back on any pool whose in-reserve is at
   least Bo1 - o1 and whose out-reserve is at most Bi1 + a (fees of either leg only make x smaller) *)
Lemma round_trip_arith P c Bi1 Bo1 x1 a o1 Bi2 Bo2 x2 o2 :
  0 < P -> 0 <= c -> 0 <= Bi1 -> 0 <= Bo1 -> 0 <= x1 <= a * P -> 0 < Bi1 * P + x1 ->
  Ub P c Bi1 Bo1 x1 o1 -> 0 < o1 ->
  0 <= Bi2 -> 0 <= Bo2 -> 0 <= x2 <= o1 * P -> 0 < Bi2 * P + x2 ->
  Ub P c Bi2 Bo2 x2 o2 ->
  Bo1 - o1 <= Bi2 -> Bo2 <= Bi1 + a ->
  o2 * (P * P) <= a * (P * P) + 2 * (Bi1 + a) * c.
Proof.
  intros HP Hc HBi1 HBo1 Hx1 HN1 U1 Ho1 HBi2 HBo2 Hx2 HN2 U2 HB2 HB3.
  pose proof (Ub_unscale P c Bi1 Bo1 x1 a o1 HP Hc HBi1 HBo1 Hx1 HN1 U1) as L1.
  pose proof (Ub_unscale P c Bi2 Bo2 x2 o1 o2 HP Hc HBi2 HBo2 Hx2 HN2 U2) as L2.
  set (Q := P * P) in *. assert (HQ : 0 < Q) by (unfold Q; nia).
  assert (Ha : 0 <= a) by nia.
  assert (HBo1pos : 0 < Bo1).
  { destruct (Z.eq_dec Bo1 0) as [E|E]; [|lia]. exfalso. subst Bo1.
    unfold Ub in U1. fold Q in U1. assert (0 < o1 * Q * (Bi1 * P + x1)) by nia. lia. }
  set (K2 := o2 * Q - Bo2 * c) in *.
  set (S := Bi1 + a) in *.
  assert (HS : 0 <= S) by (unfold S; lia).
  destruct (Z_le_gt_dec K2 0) as [Kle|Kgt].
  - assert (Bo2 * c <= S * c) by (apply Z.mul_le_mono_nonneg_r; lia).
    assert (0 <= a * Q) by nia. unfold K2 in Kle. nia.
  - (* K2*Bo1 <= K2*(Bi2+o1) <= Bo2*Q*o1 <= S*Q*o1 <= Bo1*(Q*a + c*S) *)
    assert (E1 : K2 * Bo1 <= K2 * (Bi2 + o1)) by (apply Z.mul_le_mono_nonneg_l; lia).
    assert (E2 : Bo2 * Q * o1 <= S * Q * o1).
    { replace (Bo2 * Q * o1) with (Bo2 * (Q * o1)) by ring. replace (S * Q * o1) with (S * (Q * o1)) by ring.
      apply Z.mul_le_mono_nonneg_r; [nia|lia]. }
    assert (E3 : o1 * Q * S <= Bo1 * (Q * a + c * S)).
    { replace ((o1 * Q - Bo1 * c) * S) with (o1 * Q * S - Bo1 * c * S) in L1 by ring.
      replace (Bo1 * (Q * a + c * S)) with (Bo1 * Q * a + Bo1 * c * S) by ring. lia. }
    assert (E4 : K2 * Bo1 <= (Q * a + c * S) * Bo1).
    { replace (S * Q * o1) with (o1 * Q * S) in E2 by ring.
      replace ((Q * a + c * S) * Bo1) with (Bo1 * (Q * a + c * S)) by ring. lia. }
    assert (E5 : K2 <= Q * a + c * S) by (apply Z.mul_le_mono_pos_r in E4; assumption).
    assert (Bo2 * c <= S * c) by (apply Z.mul_le_mono_nonneg_r; lia).
    unfold K2 in E5. lia.
Qed.

(* split: a = a1 + a2 (x = x1 + x2 after the same fee); second piece on (Bi2, Bo - o1) with Bi2*P >= Bi*P + x1 *)
Lemma split_arith P c h Bi Bo x1 x2 o1 o2 o Bi2 :
  0 < P -> 0 <= c -> 0 <= Bi -> 0 <= Bo -> 0 <= x1 -> 0 <= x2 -> 0 < Bi * P + x1 ->
  Ub P c Bi Bo x1 o1 -> 0 <= o1 <= Bo ->
  Bi * P + x1 <= Bi2 * P ->
  Ub P c Bi2 (Bo - o1) x2 o2 ->
  Lb P h Bi Bo (x1 + x2) o ->
  (o1 + o2) * (P * P) < o * (P * P) + P * P + Bo * (h + 2 * c).
Proof.
  intros HP Hc HBi HBo Hx1 Hx2 HM1 U1 Ho1 HB2 U2 L.
  unfold Ub, Lb in *.
  set (Q := P * P) in *. assert (HQ : 0 < Q) by (unfold Q; nia).
  set (M1 := Bi * P + x1) in *.
  set (N := Bi * P + (x1 + x2)) in *.
  set (M2 := Bi2 * P + x2) in *.
  assert (HN : 0 < N) by (unfold N, M1 in *; lia).
  assert (HNM : N <= M2) by (unfold N, M2, M1 in *; lia).
  assert (HM1N : M1 <= N) by (unfold N, M1; lia).
  set (B2 := Bo - o1) in *. assert (HB2' : 0 <= B2) by (unfold B2; lia).
  (* step A: o2*Q*N <= B2*(Q*x2 + N*c) *)
  assert (SA : o2 * Q * N <= B2 * Q * x2 + B2 * N * c).
  { set (K := o2 * Q - B2 * c).
    assert (HK : K * M2 <= B2 * Q * x2).
    { unfold K. replace ((o2 * Q - B2 * c) * M2) with (o2 * Q * M2 - B2 * M2 * c) by ring. lia. }
    assert (HR : 0 <= B2 * Q * x2) by (apply Z.mul_nonneg_nonneg; [apply Z.mul_nonneg_nonneg; lia|lia]).
    assert (HKN : K * N <= B2 * Q * x2).
    { destruct (Z_le_gt_dec K 0) as [Kle|Kgt].
      - assert (K * N <= 0) by (apply Z.mul_nonpos_nonneg; lia). lia.
      - assert (K * N <= K * M2) by (apply Z.mul_le_mono_nonneg_l; lia). lia. }
    unfold K in HKN. replace ((o2 * Q - B2 * c) * N) with (o2 * Q * N - B2 * N * c) in HKN by ring. lia. }
  (* step B *)
  assert (SB1 : o1 * Q * N = o1 * Q * M1 + o1 * Q * x2) by (unfold N, M1; ring).
  assert (SB2 : B2 * Q * x2 = Bo * Q * x2 - o1 * Q * x2) by (unfold B2; ring).
  assert (SB3 : B2 * N * c <= Bo * N * c).
  { replace (B2 * N * c) with (B2 * (N * c)) by ring. replace (Bo * N * c) with (Bo * (N * c)) by ring.
    apply Z.mul_le_mono_nonneg_r; [apply Z.mul_nonneg_nonneg; lia|unfold B2; lia]. }
  assert (SB4 : Bo * M1 * c <= Bo * N * c).
  { replace (Bo * M1 * c) with (Bo * c * M1) by ring. replace (Bo * N * c) with (Bo * c * N) by ring.
    apply Z.mul_le_mono_nonneg_l; [apply Z.mul_nonneg_nonneg; lia|exact HM1N]. }
  assert (SB5 : Bo * Q * (x1 + x2) = Bo * Q * x1 + Bo * Q * x2) by ring.
  assert (T : (o1 + o2) * Q * N < (o * Q + Q + Bo * (h + 2 * c)) * N).
  { replace ((o1 + o2) * Q * N) with (o1 * Q * N + o2 * Q * N) by ring.
    replace ((o * Q + Q + Bo * (h + 2 * c)) * N) with (o * Q * N + Bo * N * h + Q * N + 2 * (Bo * N * c)) by ring.
    lia. }
  replace ((o1 + o2) * Q * N) with (((o1 + o2) * Q) * N) in T by ring.
  apply Z.mul_lt_mono_pos_r in T; [lia|exact HN].
Qed.

(* ---------- constant-product, equal-weight pool: the corollaries on calc_out ---------- *)
Definition cp_eq (p : pool) : Prop :=
  use_oracle p = false /\ w_in p = w_out p /\ 0 < w_in p /\
  0 <= ebal (b_in p) (acc_in p) /\ 0 <= ebal (b_out p) (acc_out p).
Definition rin (p : pool) : Z := ebal (b_in p) (acc_in p).     (* effective in-reserve *)
Definition rout (p : pool) : Z := ebal (b_out p) (acc_out p).  (* effective out-reserve *)

Lemma calc_out_Ub p a fee out slip : cp_eq p -> 0 <= a -> 0 <= fee < PREC ->
  calc_out p a fee = Ok (out, slip) ->
  Ub PREC (HALF + 1) (rin p) (rout p) (a * (PREC - fee)) out /\
  Lb PREC HALF (rin p) (rout p) (a * (PREC - fee)) out /\
  0 < rin p * PREC + a * (PREC - fee) /\ 0 < out <= rout p.
Proof.
  intros (H1 & H2 & H3 & H4 & H5) Ha Hf Hc. unfold Ub, Lb, rin, rout.
  pose proof (calc_out_equal_upper p a fee out slip H1 H2 H3 Ha Hf H4 H5 Hc) as U.
  pose proof (calc_out_equal_lower p a fee out slip H1 H2 H3 Ha Hf H4 H5 Hc) as L.
  destruct (calc_out_equal_shape p a fee out slip H1 H2 H3 Hc) as [HN [y [Hy [Hypos [Ho Hopos]]]]].
  split; [exact U|]. split; [exact L|]. split; [exact HN|]. split; [exact Hopos|].
  (* out*P <= Bo*(P-y) < Bo*P *)
  pose proof PREC_pos as HP.
  set (Bo := ebal (b_out p) (acc_out p)) in *.
  destruct (Z.eq_dec Bo 0) as [E|E].
  - rewrite E, Z.mul_0_l in Ho. change (trunc_int 0) with 0 in Ho. lia.
  - assert (HBo : 0 < Bo) by lia.
    destruct (Z_le_gt_dec 0 (Bo * (PREC - y))) as [Hd|Hd].
    + destruct (trunc_int_bounds _ Hd) as [T0 [T1 T2]]. rewrite <- Ho in *. nia.
    + exfalso. unfold trunc_int, chop_trunc in Ho.
      assert (Z.quot (Bo * (PREC - y)) PREC <= 0).
      { rewrite <- (Z.opp_involutive (Bo * (PREC - y))). rewrite Z.quot_opp_l by lia.
        assert (0 <= Z.quot (- (Bo * (PREC - y))) PREC) by (apply Z.quot_pos; lia). lia. }
      lia.
Qed.

(* the stated allowance: when B_out*(HALF+1) <= 10^36 (B_out <= 2*10^18 - 4) a swap never pays more than the
   floor of the exact constant-product amount plus ONE base unit *)
Lemma calc_out_equal_one_unit p a fee out slip : cp_eq p -> 0 <= a -> 0 <= fee < PREC ->
  calc_out p a fee = Ok (out, slip) ->
  rout p * (HALF + 1) <= PREC * PREC ->
  out <= (rout p * (a * (PREC - fee))) / (rin p * PREC + a * (PREC - fee)) + 1.
Proof.
  intros Hp Ha Hf Hc Hb.
  destruct (calc_out_Ub p a fee out slip Hp Ha Hf Hc) as (U & _ & HN & _).
  unfold Ub in U. pose proof PREC_pos as HP.
  set (Bo := rout p) in *. set (N := rin p * PREC + a * (PREC - fee)) in *.
  set (x := a * (PREC - fee)) in *. set (Q := PREC * PREC) in *.
  assert (HQ : 0 < Q) by (unfold Q; nia).
  set (e := Z.div (Bo * x) N).
  assert (E1 : Bo * x < (e + 1) * N).
  { unfold e. pose proof (Z.div_mod (Bo * x) N ltac:(lia)) as D.
    pose proof (Z.mod_pos_bound (Bo * x) N HN). nia. }
  assert (X1 : Bo * N * (HALF + 1) <= Q * N).
  { replace (Bo * N * (HALF + 1)) with (Bo * (HALF + 1) * N) by ring. apply Z.mul_le_mono_nonneg_r; lia. }
  assert (X2 : (Bo * x) * Q < ((e + 1) * N) * Q) by (apply Z.mul_lt_mono_pos_r; assumption).
  assert (F : out * (Q * N) < (e + 2) * (Q * N)).
  { replace (out * (Q * N)) with (out * Q * N) by ring.
    replace ((e + 2) * (Q * N)) with ((e + 1) * N * Q + Q * N) by ring.
    replace (Bo * Q * x) with (Bo * x * Q) in U by ring. lia. }
  assert (0 < Q * N) by nia.
  apply Z.mul_lt_mono_pos_r in F; [lia|assumption].
Qed.

(* round trip A -> B -> A *)
Lemma round_trip_no_gain p1 p2 a f1 f2 o1 s1 o2 s2 :
  cp_eq p1 -> cp_eq p2 -> 0 <= a -> 0 <= f1 < PREC -> 0 <= f2 < PREC ->
  calc_out p1 a f1 = Ok (o1, s1) -> calc_out p2 o1 f2 = Ok (o2, s2) ->
  rout p1 - o1 <= rin p2 -> rout p2 <= rin p1 + a ->
  o2 * (PREC * PREC) <= a * (PREC * PREC) + 2 * (rin p1 + a) * (HALF + 1) /\
  (2 * (rin p1 + a) * (HALF + 1) < PREC * PREC -> o2 <= a).
Proof.
  intros Hp1 Hp2 Ha Hf1 Hf2 C1 C2 HB1 HB2.
  destruct (calc_out_Ub p1 a f1 o1 s1 Hp1 Ha Hf1 C1) as (U1 & _ & HN1 & Ho1 & _).
  assert (Ho1' : 0 <= o1) by lia.
  destruct (calc_out_Ub p2 o1 f2 o2 s2 Hp2 Ho1' Hf2 C2) as (U2 & _ & HN2 & _).
  pose proof PREC_pos as HP.
  assert (Hc : 0 <= HALF + 1) by (rewrite HALF_eq; lia).
  destruct Hp1 as (_ & _ & _ & Hi1 & Hq1). destruct Hp2 as (_ & _ & _ & Hi2 & Hq2).
  assert (Hx1 : 0 <= a * (PREC - f1) <= a * PREC) by nia.
  assert (Hx2 : 0 <= o1 * (PREC - f2) <= o1 * PREC) by nia.
  pose proof (round_trip_arith PREC (HALF + 1) (rin p1) (rout p1) (a * (PREC - f1)) a o1 (rin p2) (rout p2) (o1 * (PREC - f2)) o2
                HP Hc Hi1 Hq1 Hx1 HN1 U1 Ho1 Hi2 Hq2 Hx2 HN2 U2 HB1 HB2) as R.
  split; [exact R|]. intros Hs.
  assert (F : o2 * (PREC * PREC) < (a + 1) * (PREC * PREC)) by lia.
  assert (0 < PREC * PREC) by nia.
  apply Z.mul_lt_mono_pos_r in F; [lia|assumption].
Qed.

(* a trade split into two pieces *)
Lemma split_no_gain p p2 a1 a2 fee o s o1 s1 o2 s2 :
  cp_eq p -> cp_eq p2 -> 0 <= a1 -> 0 <= a2 -> 0 <= fee < PREC ->
  calc_out p (a1 + a2) fee = Ok (o, s) -> calc_out p a1 fee = Ok (o1, s1) -> calc_out p2 a2 fee = Ok (o2, s2) ->
  rout p2 = rout p - o1 -> rin p * PREC + a1 * (PREC - fee) <= rin p2 * PREC ->
  (o1 + o2) * (PREC * PREC) < o * (PREC * PREC) + PREC * PREC + rout p * (3 * HALF + 2) /\
  (rout p * (3 * HALF + 2) <= PREC * PREC -> o1 + o2 <= o + 1).
Proof.
  intros Hp Hp2 Ha1 Ha2 Hf C C1 C2 HB1 HB2.
  assert (Ha : 0 <= a1 + a2) by lia.
  destruct (calc_out_Ub p (a1 + a2) fee o s Hp Ha Hf C) as (_ & L & _ & _).
  destruct (calc_out_Ub p a1 fee o1 s1 Hp Ha1 Hf C1) as (U1 & _ & HN1 & Ho1).
  destruct (calc_out_Ub p2 a2 fee o2 s2 Hp2 Ha2 Hf C2) as (U2 & _ & _ & _).
  pose proof PREC_pos as HP.
  assert (Hc : 0 <= HALF + 1) by (rewrite HALF_eq; lia).
  destruct Hp as (_ & _ & _ & Hi & Hq).
  assert (Hx1 : 0 <= a1 * (PREC - fee)) by nia.
  assert (Hx2 : 0 <= a2 * (PREC - fee)) by nia.
  rewrite HB1 in U2.
  replace ((a1 + a2) * (PREC - fee)) with (a1 * (PREC - fee) + a2 * (PREC - fee)) in L by ring.
  assert (Ho1' : 0 <= o1 <= rout p) by lia.
  pose proof (split_arith PREC (HALF + 1) HALF (rin p) (rout p) (a1 * (PREC - fee)) (a2 * (PREC - fee)) o1 o2 o (rin p2)
                HP Hc Hi Hq Hx1 Hx2 HN1 U1 Ho1' HB2 U2 L) as R.
  replace (HALF + 2 * (HALF + 1)) with (3 * HALF + 2) in R by ring.
  split; [exact R|]. intros Hs.
  assert (F : (o1 + o2) * (PREC * PREC) < (o + 2) * (PREC * PREC)) by lia.
  assert (0 < PREC * PREC) by nia.
  apply Z.mul_lt_mono_pos_r in F; [lia|assumption].
Qed.

(* ---------- the one-unit allowance is EXCEEDED for reserves above 2*10^18: witnesses ---------- *)
Definition cp11 (bi bo : Z) : pool := mkPool bi bo 1 1 0 0 false 0 0 0 0.
Definition W_R : Z := 3000000000000000000000.   (* 3*10^21 base units = 3000 tokens of an 18-decimals asset *)

Lemma one_unit_out_refuted :
  cp_eq (cp11 W_R W_R) /\
  exists out slip, calc_out (cp11 W_R W_R) 1000000000000000000 0 = Ok (out, slip) /\
    out = (W_R * (1000000000000000000 * PREC)) / (W_R * PREC + 1000000000000000000 * PREC) + 918.
Proof.
  split.
  - unfold cp_eq, cp11, ebal, W_R. simpl. repeat split; lia.
  - eexists. eexists. split; vm_compute; reflexivity.
Qed.

(* 2000 in -> 3000 out (exact: 1999), and the 3000 swapped back return 3000: a round trip turns 2000 into 3000 *)
Lemma round_trip_gain_refuted :
  exists s1 s2, calc_out (cp11 W_R W_R) 2000 0 = Ok (3000, s1) /\
                calc_out (cp11 (W_R - 3000) (W_R + 2000)) 3000 0 = Ok (3000, s2).
Proof. eexists. eexists. split; vm_compute; reflexivity. Qed.

(* exact-out: 4400 units are bought for 3000 (exact price: 4401) *)
Lemma one_unit_in_refuted :
  exists s, calc_in (cp11 W_R W_R) 4400 0 = Ok (3000, s) /\
            (W_R * 4400 * PREC) / ((W_R - 4400) * PREC) = 4400.
Proof. eexists. split; vm_compute; reflexivity. Qed.

(* ---------- oracle pools ---------- *)
Lemma given_in_slippage_nonneg r pi po b s : given_in_slippage r pi po b = Ok s -> 0 <= s.
Proof.
  unfold given_in_slippage. intros H.
  apply bind_ok in H. destruct H as [m [_ H]]. apply bind_ok in H. destruct H as [o [_ H]].
  apply bind_ok in H. destruct H as [s0 [_ H]]. inversion H.
  destruct (s0 <? 0) eqn:E; [lia|apply Z.ltb_ge in E; lia].
Qed.

Lemma given_out_slippage_nonneg r pi po b s : given_out_slippage r pi po b = Ok s -> 0 <= s.
Proof.
  unfold given_out_slippage. intros H.
  apply bind_ok in H. destruct H as [m [_ H]]. apply bind_ok in H. destruct H as [o [_ H]].
  apply bind_ok in H. destruct H as [s0 [_ H]]. inversion H.
  destruct (s0 <? 0) eqn:E; [lia|apply Z.ltb_ge in E; lia].
Qed.

Lemma dmul_nonneg a b : 0 <= a -> 0 <= b -> 0 <= dmul a b.
Proof. intros Ha Hb. unfold dmul. assert (H : 0 <= a * b) by nia. destruct (chop_round_bounds _ H) as [_ B]. exact B. Qed.

Lemma dmul_nonpos_l a b : a <= 0 -> 0 <= b -> dmul a b <= 0.
Proof.
  intros Ha Hb. unfold dmul, chop_round.
  destruct (a * b <? 0) eqn:E.
  - apply Z.ltb_lt in E. assert (H : 0 <= - (a * b)) by lia.
    destruct (chop_round_nonneg_bounds _ H) as [_ B]. lia.
  - apply Z.ltb_ge in E. assert (a * b = 0) by nia. rewrite H. vm_compute. discriminate.
Qed.

Lemma trunc_int_nonpos d : d <= 0 -> trunc_int d <= 0.
Proof.
  intros H. unfold trunc_int, chop_trunc. pose proof PREC_pos.
  rewrite <- (Z.opp_involutive d). rewrite Z.quot_opp_l by lia.
  assert (0 <= Z.quot (- d) PREC) by (apply Z.quot_pos; lia). lia.
Qed.

(* exact-in on an oracle pool: with slippage amount >= 0, external-liquidity ratio >= 0, weight-breaking fee in
   [0,1] and swap fee in [0,1): the amount paid out, valued at the oracle prices, is at most the value paid in plus
   half of 10^-18 of one out-token (the rounding of the price quotient) *)
Lemma oracle_out_value a pi po ratio slip wbf fee out oo :
  0 <= a -> 0 <= pi -> 0 < po -> 0 <= ratio -> 0 <= slip -> 0 <= wbf <= PREC -> 0 <= fee ->
  oracle_out a pi po ratio slip wbf fee = Ok (out, oo) ->
  out * po * (PREC * PREC) <= a * pi * (PREC * PREC) + HALF * po /\ out * PREC <= oo.
Proof.
  intros Ha Hpi Hpo Hr Hs Hw Hf H. unfold oracle_out in H. pose proof PREC_pos as HP.
  apply bind_ok in H. destruct H as [m [H1 H]]. apply cmul_ok in H1. rewrite dmul_int_l in H1.
  apply bind_ok in H. destruct H as [O [H2 H]]. apply cquo_ok in H2. destruct H2 as [_ H2].
  apply bind_ok in H. destruct H as [sr [H3 H]]. apply cmul_ok in H3.
  apply bind_ok in H. destruct H as [after [H4 H]]. apply csub_ok in H4.
  destruct (ONE <=? fee) eqn:Ef; [discriminate|]. apply Z.leb_gt in Ef. unfold ONE in *.
  apply bind_ok in H. destruct H as [omw [H5 H]]. apply csub_ok in H5.
  apply bind_ok in H. destruct H as [omf [H6 H]]. apply csub_ok in H6.
  apply bind_ok in H. destruct H as [x1 [H7 H]]. apply cmul_ok in H7.
  apply bind_ok in H. destruct H as [x2 [H8 H]]. apply cmul_ok in H8.
  inversion H; subst out oo. clear H.
  assert (Hm : 0 <= m) by (subst m; nia).
  destruct (dquo_bounds m po Hm Hpo) as [Q0 [_ Q2]]. rewrite <- H2 in *.
  assert (Hsr : 0 <= sr) by (subst sr; apply dmul_nonneg; assumption).
  assert (Hafter : after <= O) by lia.
  assert (Hx : trunc_int x2 * PREC <= O).
  { destruct (Z_le_gt_dec 0 after) as [Hp|Hn].
    - assert (B1 : 0 <= x1 <= after) by (subst x1 omw; apply dmul_le_l; lia).
      assert (B2 : 0 <= x2 <= x1) by (subst x2 omf; apply dmul_le_l; lia).
      destruct (trunc_int_bounds x2 (proj1 B2)) as [_ [_ T]]. lia.
    - assert (B1 : x1 <= 0) by (subst x1 omw; apply dmul_nonpos_l; lia).
      assert (B2 : x2 <= 0) by (subst x2 omf; apply dmul_nonpos_l; lia).
      pose proof (trunc_int_nonpos x2 B2). nia. }
  split; [|exact Hx].
  (* out*P <= O and O*P*po <= m*P*P + HALF*po *)
  assert (X : trunc_int x2 * PREC * (PREC * po) <= O * (PREC * po)) by (apply Z.mul_le_mono_nonneg_r; nia).
  subst m.
  replace (trunc_int x2 * po * (PREC * PREC)) with (trunc_int x2 * PREC * (PREC * po)) by ring.
  replace (a * pi * (PREC * PREC)) with (a * pi * PREC * PREC) by ring.
  replace (O * (PREC * po)) with (O * PREC * po) in X by ring. lia.
Qed.

(* exact-out on an oracle pool: the amount charged, valued at the oracle prices, is at least the value received
   minus (1/2 + 10^-18) * 10^-18 of one in-token *)
Lemma oracle_in_value o pi po ratio slip wbf fee inn oi :
  0 <= o -> 0 < pi -> 0 <= po -> 0 <= ratio -> 0 <= slip -> 0 <= wbf < PREC -> 0 <= fee ->
  oracle_in o pi po ratio slip wbf fee = Ok (inn, oi) ->
  o * po * (PREC * PREC) < inn * pi * (PREC * PREC) + (1 + HALF) * pi /\ oi <= inn * PREC.
Proof.
  intros Ho Hpi Hpo Hr Hs Hw Hf H. unfold oracle_in in H. pose proof PREC_pos as HP.
  apply bind_ok in H. destruct H as [m [H1 H]]. apply cmul_ok in H1. rewrite dmul_int_l in H1.
  apply bind_ok in H. destruct H as [I [H2 H]]. apply cquo_ok in H2. destruct H2 as [_ H2].
  apply bind_ok in H. destruct H as [sr [H3 H]]. apply cmul_ok in H3.
  apply bind_ok in H. destruct H as [after [H4 H]]. apply cadd_ok in H4.
  destruct (ONE <=? fee) eqn:Ef; [discriminate|]. apply Z.leb_gt in Ef. unfold ONE in *.
  apply bind_ok in H. destruct H as [omw [H5 H]]. apply csub_ok in H5.
  apply bind_ok in H. destruct H as [omf [H6 H]]. apply csub_ok in H6.
  apply bind_ok in H. destruct H as [x1 [H7 H]]. apply cquo_ok in H7. destruct H7 as [_ H7].
  apply bind_ok in H. destruct H as [x2 [H8 H]]. apply cquo_ok in H8. destruct H8 as [_ H8].
  apply bind_ok in H. destruct H as [c [H9 H]]. apply cceil_ok in H9.
  inversion H; subst inn oi. clear H.
  assert (Hm : 0 <= m) by (subst m; nia).
  destruct (dquo_bounds m pi Hm Hpi) as [Q0 [Q1 _]]. rewrite <- H2 in *.
  assert (Hsr : 0 <= sr) by (subst sr; apply dmul_nonneg; assumption).
  assert (Hafter : I <= after) by lia.
  assert (B1 : after <= x1) by (subst x1 omw; apply dquo_ge_l; lia).
  assert (B2 : x1 <= x2) by (subst x2 omf; apply dquo_ge_l; lia).
  assert (B3 : x2 <= trunc_int c * PREC) by (subst c; apply dceil_trunc; lia).
  assert (Hx : I <= trunc_int c * PREC) by lia.
  split; [|exact Hx].
  assert (X : I * (PREC * pi) <= trunc_int c * PREC * (PREC * pi)) by (apply Z.mul_le_mono_nonneg_r; nia).
  subst m.
  replace (trunc_int c * pi * (PREC * PREC)) with (trunc_int c * PREC * (PREC * pi)) by ring.
  replace (o * po * (PREC * PREC)) with (o * po * PREC * PREC) by ring.
  replace (I * (PREC * pi)) with (I * PREC * pi) in X by ring. lia.
Qed.

(* the whole oracle swap (resize, balancer slippage of the resized trade, value formula) *)
Lemma oracle_swap_out_value p a ratio wbf fee out s oo :
  0 <= a -> 0 <= ratio -> 0 <= wbf <= PREC -> 0 <= fee -> 0 <= price_in p -> 0 <= price_out p ->
  oracle_swap_out p a ratio wbf fee = Ok (out, s, oo) ->
  0 <= s /\ out * price_out p * (PREC * PREC) <= a * price_in p * (PREC * PREC) + HALF * price_out p.
Proof.
  intros Ha Hr Hw Hf Hpi Hpo H. unfold oracle_swap_out in H.
  destruct (price_in p =? 0); [discriminate|].
  destruct (price_out p =? 0) eqn:Epo; [discriminate|]. apply Z.eqb_neq in Epo.
  destruct (ratio =? 0); [discriminate|].
  apply bind_ok in H. destruct H as [r [_ H]].
  apply bind_ok in H. destruct H as [[bo sl] [_ H]].
  apply bind_ok in H. destruct H as [s0 [Hs H]].
  apply bind_ok in H. destruct H as [[out0 oo0] [Ho H]]. inversion H; subst.
  pose proof (given_in_slippage_nonneg _ _ _ _ _ Hs) as Hs0.
  split; [exact Hs0|].
  eapply (oracle_out_value a (price_in p) (price_out p) ratio s wbf fee out oo); eauto; lia.
Qed.

Lemma oracle_swap_in_value p o ratio wbf fee inn s oi :
  0 <= o -> 0 <= ratio -> 0 <= wbf < PREC -> 0 <= fee -> 0 <= price_in p -> 0 <= price_out p ->
  oracle_swap_in p o ratio wbf fee = Ok (inn, s, oi) ->
  0 <= s /\ o * price_out p * (PREC * PREC) < inn * price_in p * (PREC * PREC) + (1 + HALF) * price_in p.
Proof.
  intros Ho Hr Hw Hf Hpi Hpo H. unfold oracle_swap_in in H.
  destruct (price_in p =? 0) eqn:Epi; [discriminate|]. apply Z.eqb_neq in Epi.
  destruct (price_out p =? 0); [discriminate|].
  destruct (ratio =? 0); [discriminate|].
  apply bind_ok in H. destruct H as [r [_ H]].
  apply bind_ok in H. destruct H as [[bi sl] [_ H]].
  apply bind_ok in H. destruct H as [s0 [Hs H]].
  apply bind_ok in H. destruct H as [[in0 oi0] [Hi H]]. inversion H; subst.
  pose proof (given_out_slippage_nonneg _ _ _ _ _ Hs) as Hs0.
  split; [exact Hs0|].
  eapply (oracle_in_value o (price_in p) (price_out p) ratio s wbf fee inn oi); eauto; lia.
Qed.

(* ---------- the rebalancing bonus of UpdatePoolForSwap: paid from the treasury, capped by its balance ---------- *)
Lemma bonus_capped use_orc base bonus treasury b :
  bonus_paid use_orc base bonus treasury = Ok b ->
  0 <= b /\ (0 < b -> b <= treasury /\ use_orc = true /\ 0 < bonus /\ b * PREC <= base * bonus).
Proof.
  unfold bonus_paid. intros H.
  destruct (use_orc && (0 <? bonus)) eqn:E.
  - apply andb_prop in E. destruct E as [E1 E2]. apply Z.ltb_lt in E2.
    apply bind_ok in H. destruct H as [m [Hm H]]. apply cmul_ok in Hm. rewrite dmul_int_l in Hm.
    inversion H as [Hb]. clear H.
    set (t := trunc_int m) in *.
    assert (HT : 0 < t -> t * PREC <= m).
    { intros Ht. destruct (Z_le_gt_dec 0 m) as [Hm0|Hm0].
      - destruct (trunc_int_bounds m Hm0) as [_ [_ T]]. exact T.
      - pose proof (trunc_int_nonpos m ltac:(lia)). fold t in H. lia. }
    pose proof PREC_pos as HP.
    destruct (treasury <? t) eqn:Et; [apply Z.ltb_lt in Et|apply Z.ltb_ge in Et].
    + destruct (0 <? treasury) eqn:E0; [apply Z.ltb_lt in E0|apply Z.ltb_ge in E0].
      * split; [lia|]. intros _. split; [lia|]. split; [exact E1|]. split; [exact E2|].
        assert (0 < t) by lia. specialize (HT H). subst m. nia.
      * split; [lia|]. lia.
    + destruct (0 <? t) eqn:E0; [apply Z.ltb_lt in E0|apply Z.ltb_ge in E0].
      * split; [lia|]. intros _. split; [lia|]. split; [exact E1|]. split; [exact E2|].
        specialize (HT E0). subst m. lia.
      * split; [lia|]. lia.
  - inversion H. split; lia.
Qed.

(* ---------- ApplyDiscount: the discounted fee stays within [0, fee] ---------- *)
Lemma apply_discount_range fee d f' : 0 <= fee -> 0 <= d <= PREC ->
  apply_discount fee d = Ok f' -> 0 <= f' <= fee.
Proof.
  intros Hf Hd H. unfold apply_discount in H.
  apply bind_ok in H. destruct H as [omd [H1 H]]. apply csub_ok in H1. apply cmul_ok in H. subst.
  unfold ONE. apply dmul_le_l; lia.
Qed.

(* ---------- any weights (constant-product pools): PARTIAL, in terms of the value pw returned by Pow ---------- *)
Lemma solve_shape bb ba wf bu wu v :
  solve bb ba wf bu wu = Ok v ->
  wu <> 0 /\ 0 < ba /\ exists pw, pow (dquo bb ba) (dquo wf wu) = Ok pw /\ v = dmul bu (ONE - pw).
Proof.
  unfold solve. intros H.
  destruct (wu =? 0) eqn:E0; [discriminate|]. apply Z.eqb_neq in E0.
  apply bind_ok in H. destruct H as [ratio [Hr H]]. apply cquo_ok in Hr. destruct Hr as [_ Hr].
  destruct (ba <=? 0) eqn:E1; [discriminate|]. apply Z.leb_gt in E1.
  apply bind_ok in H. destruct H as [y [Hy H]]. apply cquo_ok in Hy. destruct Hy as [_ Hy].
  apply bind_ok in H. destruct H as [yw [Hyw H]].
  apply bind_ok in H. destruct H as [par [Hpar H]]. apply csub_ok in Hpar. apply cmul_ok in H.
  subst. split; [exact E0|]. split; [exact E1|]. exists yw. split; [exact Hyw|reflexivity].
Qed.

Lemma weighted_out_partial p a fee out slip :
  use_oracle p = false -> 0 <= rout p ->
  calc_out p a fee = Ok (out, slip) ->
  exists pw,
    pow (dquo (rin p * PREC) (rin p * PREC + a * (PREC - fee))) (dquo (w_in p * PREC) (w_out p * PREC)) = Ok pw /\
    out = trunc_int (rout p * (PREC - pw)) /\ 0 < out /\
    forall lb, lb <= pw -> out * PREC <= rout p * (PREC - lb).
Proof.
  intros Hno HBo Hcalc. pose proof PREC_pos as HP. unfold rin, rout in *.
  unfold calc_out in Hcalc.
  apply bind_ok in Hcalc. destruct Hcalc as [omf [H1 H]]. apply csub_ok in H1.
  apply bind_ok in H. destruct H as [afee [H2 H]]. apply cmul_ok in H2. rewrite dmul_int_l in H2.
  apply bind_ok in H. destruct H as [post [H3 H]]. apply cadd_ok in H3.
  unfold weights in H. rewrite Hno in H. simpl in H.
  apply bind_ok in H. destruct H as [o [H4 H]].
  rewrite !eff_ebal in *.
  apply solve_shape in H4. destruct H4 as (_ & _ & pw & Hpw & Ho).
  destruct (o =? 0); [discriminate|].
  apply bind_ok in H. destruct H as [rate [_ H]].
  apply bind_ok in H. destruct H as [awo [_ H]].
  destruct (awo =? 0); [discriminate|].
  apply bind_ok in H. destruct H as [q [_ H]].
  apply bind_ok in H. destruct H as [sl [_ H]].
  destruct (trunc_int o <=? 0) eqn:Eoi; [discriminate|]. apply Z.leb_gt in Eoi.
  inversion H; subst out slip. clear H.
  unfold ONE in *. rewrite dmul_int_l in Ho.
  assert (EN : post = ebal (b_in p) (acc_in p) * PREC + a * (PREC - fee)) by (subst; ring).
  rewrite EN in Hpw. exists pw. split; [exact Hpw|]. rewrite Ho in *. split; [reflexivity|]. split; [exact Eoi|].
  intros lb Hlb.
  set (Bo := ebal (b_out p) (acc_out p)) in *.
  destruct (Z_le_gt_dec 0 (Bo * (PREC - pw))) as [Hd|Hd].
  - destruct (trunc_int_bounds _ Hd) as [_ [_ T]].
    assert (Bo * (PREC - pw) <= Bo * (PREC - lb)) by (apply Z.mul_le_mono_nonneg_l; lia). lia.
  - pose proof (trunc_int_nonpos (Bo * (PREC - pw)) ltac:(lia)). lia.
Qed.

Lemma weighted_in_partial p o fee inn slip :
  use_oracle p = false -> 0 <= rin p -> 0 <= fee < PREC ->
  calc_in p o fee = Ok (inn, slip) ->
  exists pw,
    pow (dquo (rout p * PREC) (rout p * PREC - o * PREC)) (dquo (w_out p * PREC) (w_in p * PREC)) = Ok pw /\
    inn = trunc_int (dceil (dquo (rin p * (pw - PREC)) (PREC - fee))) /\ 0 < inn /\
    forall lb, PREC <= lb <= pw -> rin p * (lb - PREC) <= inn * PREC.
Proof.
  intros Hno HBi Hfee Hcalc. pose proof PREC_pos as HP. unfold rin, rout in *.
  unfold calc_in in Hcalc.
  unfold weights in Hcalc. rewrite Hno in Hcalc. simpl in Hcalc.
  apply bind_ok in Hcalc. destruct Hcalc as [post [H1 H]]. apply csub_ok in H1.
  apply bind_ok in H. destruct H as [t0 [H2 H]].
  rewrite !eff_ebal in *.
  apply solve_shape in H2. destruct H2 as (_ & _ & pw & Hpw & Ht0).
  apply bind_ok in H. destruct H as [rate [_ H]].
  apply bind_ok in H. destruct H as [awo [_ H]].
  destruct (- t0 =? 0); [discriminate|].
  apply bind_ok in H. destruct H as [q [_ H]].
  apply bind_ok in H. destruct H as [sl [_ H]].
  destruct (ONE <=? fee); [discriminate|].
  apply bind_ok in H. destruct H as [omf [H3 H]]. apply csub_ok in H3.
  apply bind_ok in H. destruct H as [tbf [H4 H]]. apply cquo_ok in H4. destruct H4 as [_ H4].
  apply bind_ok in H. destruct H as [c [H5 H]]. apply cceil_ok in H5.
  destruct (trunc_int c <=? 0) eqn:Ei; [discriminate|]. apply Z.leb_gt in Ei.
  inversion H; subst inn slip. clear H.
  unfold ONE in *. rewrite dmul_int_l in Ht0.
  set (Bi := ebal (b_in p) (acc_in p)) in *.
  assert (ET : - t0 = Bi * (pw - PREC)) by (subst t0; ring). rewrite ET in H4. subst omf post.
  exists pw. split; [exact Hpw|]. subst c tbf. split; [reflexivity|]. split; [exact Ei|].
  intros lb [Hl1 Hl2].
  assert (Htin : 0 <= Bi * (pw - PREC)) by nia.
  assert (B1 : Bi * (pw - PREC) <= dquo (Bi * (pw - PREC)) (PREC - fee)) by (apply dquo_ge_l; lia).
  assert (B2 : dquo (Bi * (pw - PREC)) (PREC - fee) <= trunc_int (dceil (dquo (Bi * (pw - PREC)) (PREC - fee))) * PREC)
    by (apply dceil_trunc; lia).
  assert (Bi * (lb - PREC) <= Bi * (pw - PREC)) by (apply Z.mul_le_mono_nonneg_l; lia).
  lia.
Qed.

(* non-vacuity: the market fixture's constant-product pool (uusdc/uelys 30e9 : 10e9) made equal-weight, 1e6 in at 0.3% *)
Lemma nonvacuous_example :
  exists slip, calc_out (cp11 30000000000 10000000000) 1000000 3000000000000000 = Ok (332322, slip) /\
  cp_eq (cp11 30000000000 10000000000) /\
  (10000000000 * (1000000 * (PREC - 3000000000000000))) / (30000000000 * PREC + 1000000 * (PREC - 3000000000000000)) = 332322.
Proof.
  eexists. split; [vm_compute; reflexivity|]. split; [|vm_compute; reflexivity].
  unfold cp_eq, cp11, ebal. simpl. repeat split; lia.
Qed.

(* cp_eq-packaged versions of the lemmas of part 1 *)
Lemma cp_out_floor p a fee out slip : cp_eq p -> 0 <= a -> 0 <= fee < PREC ->
  calc_out p a fee = Ok (out, slip) ->
  out <= (rout p * (a * (PREC - fee))) / (rin p * PREC + a * (PREC - fee))
         + rout p / (2 * PREC) + rout p / (PREC * PREC) + 2.
Proof.
  intros (H1 & H2 & H3 & H4 & H5) Ha Hf Hc.
  exact (calc_out_equal_floor p a fee out slip H1 H2 H3 Ha Hf H4 H5 Hc).
Qed.

Lemma cp_out_product p a fee out slip : cp_eq p -> 0 <= a -> 0 <= fee < PREC ->
  calc_out p a fee = Ok (out, slip) ->
  (rin p + a) * (rout p - out) * (PREC * PREC) >=
  rin p * rout p * (PREC * PREC) - rout p * (rin p + a) * (HALF + 1).
Proof.
  intros (H1 & H2 & H3 & H4 & H5) Ha Hf Hc.
  exact (calc_out_equal_product p a fee out slip H1 H2 H3 Ha Hf H4 H5 Hc).
Qed.
