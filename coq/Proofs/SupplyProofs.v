(* C15 - proofs about Models/Supply.v. *)
From Coq Require Import ZArith List Bool String Arith Lia.
From Elys Require Import Base.Fn Models.Supply.
Import ListNotations.
Open Scope Z_scope.

Definition tbl_ok (tbl : list site) : Prop := forallb (site_ok tbl) tbl = true.
Definition hist_ok (W : world) (tbl : list site) (h : list (list bop)) : Prop :=
  Forall (fun st => step_ok W tbl st = true) h.

(* ---------------------------------------------------------------- accounting *)

Lemma apply_op_delta s o d : apply_op s o d = s d + delta d o.
Proof.
  destruct o as [f t d' a|r m d' a|r m d' a]; cbn.
  - lia.
  - unfold upd. rewrite Nat.eqb_sym. destruct (Nat.eqb d' d) eqn:E.
    + apply Nat.eqb_eq in E. subst. lia.
    + lia.
  - unfold upd. rewrite Nat.eqb_sym. destruct (Nat.eqb d' d) eqn:E.
    + apply Nat.eqb_eq in E. subst. lia.
    + lia.
Qed.

Lemma apply_step_delta st : forall s d, apply_step s st d = s d + zsum_map (delta d) st.
Proof.
  unfold apply_step. induction st as [|o r IH]; intros s d; cbn [fold_left zsum_map].
  - lia.
  - rewrite IH. rewrite apply_op_delta. lia.
Qed.

Lemma run_delta h : forall s d, run h s d = s d + zsum_map (fun st => zsum_map (delta d) st) h.
Proof.
  unfold run. induction h as [|st r IH]; intros s d; cbn [fold_left].
  - cbn. lia.
  - rewrite IH. rewrite apply_step_delta. cbn [zsum_map]. lia.
Qed.

Definition mint_amt (d : nat) (o : bop) : Z := match o with MintOp _ _ d' a => if Nat.eqb d' d then a else 0 | _ => 0 end.
Definition burn_amt (d : nat) (o : bop) : Z := match o with BurnOp _ _ d' a => if Nat.eqb d' d then a else 0 | _ => 0 end.

Lemma delta_split d o : delta d o = mint_amt d o - burn_amt d o.
Proof. destruct o as [f t d' a|r m d' a|r m d' a]; cbn; try destruct (Nat.eqb d' d); lia. Qed.

Lemma zsum_map_split {A} (f g k : A -> Z) l : (forall x, f x = g x - k x) -> zsum_map f l = zsum_map g l - zsum_map k l.
Proof. intros H. induction l as [|x r IH]; cbn; [lia|]. rewrite IH, H. lia. Qed.

Lemma supply_accounting h s d : run h s d = s d + minted d h - burned d h.
Proof.
  rewrite run_delta. unfold minted, burned.
  rewrite (zsum_map_split _ (fun st => zsum_map (mint_amt d) st) (fun st => zsum_map (burn_amt d) st)).
  - unfold mint_amt, burn_amt. lia.
  - intros st. apply zsum_map_split. intros o. apply delta_split.
Qed.

(* ---------------------------------------------------------------- what an accepted mint / burn is *)

Lemma tbl_ok_row tbl row s : tbl_ok tbl -> nth_error tbl row = Some s -> site_ok tbl s = true.
Proof.
  intros H Hn. unfold tbl_ok in H. rewrite forallb_forall in H. apply H. eapply nth_error_In. exact Hn.
Qed.

Record accepted (W : world) (tbl : list site) (st : list bop) (k : mkind) (row : nat) (m : string) (d : nat) (a : Z) (s : site) (e : dexpr) : Prop := {
  acc_row : nth_error tbl row = Some s;
  acc_pos : 0 < a;
  acc_kind : s_kind s = k;
  acc_in : In e (origin_of tbl s);
  acc_origin : origin_ok s e = true;
  acc_compat : compat e (w_dcl W d) = true;
  acc_paired : paired W tbl s st k d a = true;
  acc_all : forall e', In e' (origin_of tbl s) -> origin_ok s e' = true }.

Lemma kind_eqb_eq a b : kind_eqb a b = true -> a = b.
Proof. destruct a, b; cbn; congruence. Qed.

Lemma row_ok_accepted W tbl st k row m d a :
  tbl_ok tbl -> row_ok W tbl st k row m d a = true -> exists s e, accepted W tbl st k row m d a s e.
Proof.
  intros Htbl H. unfold row_ok in H. apply andb_prop in H. destruct H as [Hpos H].
  destruct (nth_error tbl row) as [s|] eqn:Hn; [|discriminate].
  apply andb_prop in H. destruct H as [H Hpair].
  apply andb_prop in H. destruct H as [H Hex].
  apply andb_prop in H. destruct H as [H Hmacc].
  apply andb_prop in H. destruct H as [H Hkind].
  apply andb_prop in H. destruct H as [Hentry Hbank].
  pose proof (tbl_ok_row _ _ _ Htbl Hn) as Hok. unfold site_ok in Hok.
  unfold is_entry in Hentry. destruct (s_reach s); try discriminate.
  unfold is_bank in Hbank. destruct (s_target s); try discriminate.
  apply andb_prop in Hok. destruct Hok as [Hall _]. rewrite forallb_forall in Hall.
  apply existsb_exists in Hex. destruct Hex as [e [Hin Hc]].
  exists s, e. constructor; auto.
  - apply Z.ltb_lt. exact Hpos.
  - symmetry. apply kind_eqb_eq. exact Hkind.
Qed.

Lemma zero_site_in tbl s : In DZeroBal (origin_of tbl s) -> zero_site tbl s = true.
Proof. intros H. unfold zero_site. apply existsb_exists. exists DZeroBal. split; [exact H|reflexivity]. Qed.

Lemma zero_site_burner tbl s : (forall e', In e' (origin_of tbl s) -> origin_ok s e' = true) -> zero_site tbl s = true ->
  s_kind s = Burn /\ s_macc s = "burner"%string.
Proof.
  intros Hall Hz. unfold zero_site in Hz. apply existsb_exists in Hz. destruct Hz as [e [Hin He]].
  destruct e; try discriminate. specialize (Hall _ Hin). cbn in Hall.
  apply andb_prop in Hall. destruct Hall as [Hall _]. apply andb_prop in Hall. destruct Hall as [Hk Hm].
  split.
  - destruct (s_kind s); [discriminate|reflexivity].
  - apply String.eqb_eq. exact Hm.
Qed.

(* an accepted operation on an EXTERNAL denomination is a burn by the burner of exactly the coin it has
   collected from the zero address in the same step *)
Lemma accepted_external W tbl st k row m d a s e :
  accepted W tbl st k row m d a s e -> w_dcl W d = RExternal ->
  k = Burn /\ s_macc s = "burner"%string /\ has_exact_send (w_zero W) (w_burner W) d a st = true.
Proof.
  intros A Hd. destruct A as [Hn Hpos Hk Hin Ho Hc Hp Hall].
  unfold paired in Hp. rewrite Hd in Hp.
  destruct (zero_site tbl s) eqn:Hz.
  - apply andb_prop in Hp. destruct Hp as [Hkb Hs]. apply kind_eqb_eq in Hkb.
    destruct (zero_site_burner _ _ Hall Hz) as [_ Hm]. auto.
  - destruct k; discriminate.
Qed.

Lemma accepted_virtual W tbl st k row m d a s e :
  accepted W tbl st k row m d a s e -> w_dcl W d = RVirtual -> False.
Proof.
  intros A Hd. destruct A as [Hn Hpos Hk Hin Ho Hc Hp Hall].
  unfold paired in Hp. rewrite Hd in Hp.
  destruct (zero_site tbl s); [rewrite andb_false_r in Hp|destruct k]; discriminate.
Qed.

Lemma accepted_native_mint W tbl st row m d a s e :
  accepted W tbl st Mint row m d a s e -> w_dcl W d = RNative ->
  s_module s = "commitment"%string /\ s_macc s = "commitment"%string /\ mem (s_func s) vest_release_fns = true /\
  has_release (w_commit W) d a st = true.
Proof.
  intros A Hd. destruct A as [Hn Hpos Hk Hin Ho Hc Hp Hall].
  unfold paired in Hp. rewrite Hd in Hp.
  destruct (zero_site tbl s) eqn:Hz; [cbn in Hp; discriminate|].
  rewrite Hd in Hc.
  assert (Hnz : e <> DZeroBal) by (intros ->; rewrite (zero_site_in _ _ Hin) in Hz; discriminate Hz).
  destruct e; cbn in Hc; try discriminate Hc; try (cbn in Ho; discriminate Ho); try (contradiction Hnz; reflexivity).
  - cbn in Ho. rewrite Hk in Ho. apply andb_prop in Ho. destruct Ho as [Ho Hf]. apply andb_prop in Ho. destruct Ho as [Hm1 Hm2].
    apply String.eqb_eq in Hm1. apply String.eqb_eq in Hm2. auto.
  - cbn in Ho. rewrite Hk in Ho. apply andb_prop in Ho. destruct Ho as [Ho Hf]. apply andb_prop in Ho. destruct Ho as [Hm1 Hm2].
    apply String.eqb_eq in Hm1. apply String.eqb_eq in Hm2. auto.
Qed.

Lemma accepted_native_burn W tbl st row m d a s e :
  accepted W tbl st Burn row m d a s e -> w_dcl W d = RNative ->
  mem (s_macc s) native_burners = true /\
  (s_macc s = "burner"%string -> zero_site tbl s = true -> has_exact_send (w_zero W) (w_burner W) d a st = true).
Proof.
  intros A Hd. destruct A as [Hn Hpos Hk Hin Ho Hc Hp Hall]. split.
  - rewrite Hd in Hc. destruct e; cbn in Hc; try discriminate Hc; try (cbn in Ho; discriminate Ho).
    + cbn in Ho. rewrite Hk in Ho. exact Ho.
    + cbn in Ho. rewrite Hk in Ho. exact Ho.
    + destruct (zero_site_burner _ _ Hall (zero_site_in _ _ Hin)) as [_ Hm]. rewrite Hm. reflexivity.
  - intros _ Hz. unfold paired in Hp. rewrite Hz, Hd in Hp. cbn in Hp. exact Hp.
Qed.

Lemma accepted_share W tbl st k row m d a s e acct :
  accepted W tbl st k row m d a s e -> (w_dcl W d = RPoolShare acct \/ w_dcl W d = RVaultShare acct) ->
  (k = Mint -> has_send_to acct st = true) /\ (k = Burn -> has_send_from acct st || has_moved d a st = true) /\
  (w_dcl W d = RPoolShare acct -> s_macc s = "amm"%string) /\ (w_dcl W d = RVaultShare acct -> s_macc s = "stablestake"%string).
Proof.
  intros A Hd. destruct A as [Hn Hpos Hk Hin Ho Hc Hp Hall].
  unfold paired in Hp.
  destruct (zero_site tbl s) eqn:Hz.
  { destruct Hd as [Hd|Hd]; rewrite Hd in Hp; rewrite andb_false_r in Hp; discriminate. }
  assert (He : e <> DZeroBal) by (intros ->; rewrite (zero_site_in _ _ Hin) in Hz; discriminate).
  destruct Hd as [Hd|Hd]; rewrite Hd in Hp, Hc.
  - split; [intros Ek; rewrite Ek in Hp; exact Hp|].
    split; [intros Ek; rewrite Ek in Hp; exact Hp|].
    split; [|intros X; rewrite Hd in X; discriminate X].
    intros _. destruct e; cbn in Hc; try discriminate Hc; try (contradiction He; reflexivity); try (cbn in Ho; discriminate Ho).
    cbn in Ho. apply andb_prop in Ho. destruct Ho as [Hm _]. apply String.eqb_eq. exact Hm.
  - split; [intros Ek; rewrite Ek in Hp; exact Hp|].
    split; [intros Ek; rewrite Ek in Hp; exact Hp|].
    split; [intros X; rewrite Hd in X; discriminate X|].
    intros _. destruct e; cbn in Hc; try discriminate Hc; try (contradiction He; reflexivity); try (cbn in Ho; discriminate Ho).
    cbn in Ho. apply andb_prop in Ho. destruct Ho as [Hm _]. apply String.eqb_eq. exact Hm.
Qed.

(* ---------------------------------------------------------------- steps *)

Lemma step_ok_op W tbl st o : step_ok W tbl st = true -> In o st -> op_ok W tbl st o = true.
Proof. unfold step_ok. rewrite forallb_forall. auto. Qed.

Lemma zsum_map_nonpos {A} (f : A -> Z) l : (forall x, In x l -> f x <= 0) -> zsum_map f l <= 0.
Proof.
  induction l as [|x r IH]; intros H; cbn; [lia|].
  pose proof (H x (or_introl eq_refl)). assert (zsum_map f r <= 0) by (apply IH; intros; apply H; right; assumption). lia.
Qed.
Lemma zsum_map_nonneg {A} (f : A -> Z) l : (forall x, In x l -> 0 <= f x) -> 0 <= zsum_map f l.
Proof.
  induction l as [|x r IH]; intros H; cbn; [lia|].
  pose proof (H x (or_introl eq_refl)). assert (0 <= zsum_map f r) by (apply IH; intros; apply H; right; assumption). lia.
Qed.
Lemma zsum_map_zero {A} (f : A -> Z) l : (forall x, In x l -> f x = 0) -> zsum_map f l = 0.
Proof.
  induction l as [|x r IH]; intros H; cbn; [lia|].
  rewrite (H x (or_introl eq_refl)). rewrite IH; [lia|]. intros; apply H; right; assumption.
Qed.

(* external: per operation *)
Lemma external_op W tbl st o d :
  tbl_ok tbl -> step_ok W tbl st = true -> In o st -> w_dcl W d = RExternal ->
  mint_amt d o = 0 /\ 0 <= burn_amt d o /\ (burn_amt d o <> 0 -> collects_from_zero W d st = true).
Proof.
  intros Htbl Hst Hin Hd. pose proof (step_ok_op _ _ _ _ Hst Hin) as Ho.
  destruct o as [f t d' a|r m d' a|r m d' a]; cbn.
  - split; [lia|split; [lia|intros X; contradiction X; reflexivity]].
  - destruct (Nat.eqb d' d) eqn:E; [|split; [lia|split; [lia|intros X; contradiction X; reflexivity]]].
    apply Nat.eqb_eq in E. subst d'. cbn in Ho.
    destruct (row_ok_accepted _ _ _ _ _ _ _ _ Htbl Ho) as [s [e A]].
    destruct (accepted_external _ _ _ _ _ _ _ _ _ _ A Hd) as [K _]. discriminate.
  - destruct (Nat.eqb d' d) eqn:E; [|split; [lia|split; [lia|intros X; contradiction X; reflexivity]]].
    apply Nat.eqb_eq in E. subst d'. cbn in Ho.
    destruct (row_ok_accepted _ _ _ _ _ _ _ _ Htbl Ho) as [s [e A]].
    destruct (accepted_external _ _ _ _ _ _ _ _ _ _ A Hd) as [_ [_ Hs]].
    pose proof (acc_pos _ _ _ _ _ _ _ _ _ _ A). split; [lia|]. split; [lia|].
    intros _. unfold has_exact_send in Hs. apply existsb_exists in Hs. destruct Hs as [o [Hino Hm]].
    unfold collects_from_zero. apply existsb_exists. exists o. split; [exact Hino|].
    destruct o; try discriminate.
    apply andb_prop in Hm. destruct Hm as [Hm _].
    apply andb_prop in Hm. destruct Hm as [Hm Hd3].
    apply andb_prop in Hm. destruct Hm as [Hd1 Hd2].
    apply Nat.eqb_eq in Hd1, Hd2, Hd3. subst. rewrite !Nat.eqb_refl. reflexivity.
Qed.

Lemma external_supply W tbl h s d :
  tbl_ok tbl -> hist_ok W tbl h -> w_dcl W d = RExternal ->
  minted d h = 0 /\ 0 <= burned d h /\ run h s d = s d - burned d h /\
  ((forall st, In st h -> collects_from_zero W d st = false) -> run h s d = s d).
Proof.
  intros Htbl Hh Hd. unfold hist_ok in Hh. rewrite Forall_forall in Hh.
  assert (Hm : minted d h = 0).
  { unfold minted. apply zsum_map_zero. intros st Hst. apply zsum_map_zero. intros o Ho.
    destruct (external_op _ _ _ _ _ Htbl (Hh _ Hst) Ho Hd) as [X _]. exact X. }
  assert (Hb : 0 <= burned d h).
  { unfold burned. apply zsum_map_nonneg. intros st Hst. apply zsum_map_nonneg. intros o Ho.
    destruct (external_op _ _ _ _ _ Htbl (Hh _ Hst) Ho Hd) as [_ [X _]]. exact X. }
  repeat split; try assumption.
  - rewrite supply_accounting, Hm. lia.
  - intros Hnc. rewrite supply_accounting, Hm.
    assert (burned d h = 0).
    { unfold burned. apply zsum_map_zero. intros st Hst. apply zsum_map_zero. intros o Ho.
      destruct (external_op _ _ _ _ _ Htbl (Hh _ Hst) Ho Hd) as [_ [_ X]].
      destruct (Z.eq_dec (burn_amt d o) 0) as [E|E]; [exact E|].
      specialize (X E). rewrite (Hnc _ Hst) in X. discriminate. }
    lia.
Qed.

Lemma virtual_supply W tbl h s d :
  tbl_ok tbl -> hist_ok W tbl h -> w_dcl W d = RVirtual -> run h s d = s d.
Proof.
  intros Htbl Hh Hd. unfold hist_ok in Hh. rewrite Forall_forall in Hh.
  rewrite run_delta. rewrite zsum_map_zero; [lia|]. intros st Hst. apply zsum_map_zero. intros o Ho.
  pose proof (step_ok_op _ _ _ _ (Hh _ Hst) Ho) as Hop.
  destruct o as [f t d' a|r m d' a|r m d' a]; cbn; try reflexivity.
  - destruct (Nat.eqb d' d) eqn:E; [|reflexivity]. apply Nat.eqb_eq in E. subst d'. cbn in Hop.
    destruct (row_ok_accepted _ _ _ _ _ _ _ _ Htbl Hop) as [s0 [e A]]. destruct (accepted_virtual _ _ _ _ _ _ _ _ _ _ A Hd).
  - destruct (Nat.eqb d' d) eqn:E; [|reflexivity]. apply Nat.eqb_eq in E. subst d'. cbn in Hop.
    destruct (row_ok_accepted _ _ _ _ _ _ _ _ Htbl Hop) as [s0 [e A]]. destruct (accepted_virtual _ _ _ _ _ _ _ _ _ _ A Hd).
Qed.

Lemma in_mints_of d st r m a : In (r, m, a) (mints_of d st) -> In (MintOp r m d a) st.
Proof.
  unfold mints_of. rewrite in_flat_map. intros [o [Hin Ho]].
  destruct o as [f t d' a'|r' m' d' a'|r' m' d' a']; cbn in Ho; try contradiction.
  destruct (Nat.eqb d' d) eqn:E; [|contradiction]. apply Nat.eqb_eq in E. subst.
  destruct Ho as [Ho|[]]. inversion Ho; subst. exact Hin.
Qed.
Lemma in_burns_of d st r m a : In (r, m, a) (burns_of d st) -> In (BurnOp r m d a) st.
Proof.
  unfold burns_of. rewrite in_flat_map. intros [o [Hin Ho]].
  destruct o as [f t d' a'|r' m' d' a'|r' m' d' a']; cbn in Ho; try contradiction.
  destruct (Nat.eqb d' d) eqn:E; [|contradiction]. apply Nat.eqb_eq in E. subst.
  destruct Ho as [Ho|[]]. inversion Ho; subst. exact Hin.
Qed.

(* native token: who mints, who burns *)
Lemma native_step W tbl st d :
  tbl_ok tbl -> step_ok W tbl st = true -> w_dcl W d = RNative ->
  (forall r m a, In (r, m, a) (mints_of d st) ->
     exists s, nth_error tbl r = Some s /\ s_module s = "commitment"%string /\ s_macc s = "commitment"%string /\
               mem (s_func s) vest_release_fns = true /\ 0 < a /\ has_release (w_commit W) d a st = true) /\
  (forall r m a, In (r, m, a) (burns_of d st) ->
     exists s, nth_error tbl r = Some s /\ mem (s_macc s) native_burners = true /\ 0 < a).
Proof.
  intros Htbl Hst Hd. split; intros r m a Hin.
  - apply in_mints_of in Hin. pose proof (step_ok_op _ _ _ _ Hst Hin) as Hop. cbn in Hop.
    destruct (row_ok_accepted _ _ _ _ _ _ _ _ Htbl Hop) as [s [e A]].
    destruct (accepted_native_mint _ _ _ _ _ _ _ _ _ A Hd) as [H1 [H2 [H3 H4]]].
    exists s. repeat split; auto; apply A.
  - apply in_burns_of in Hin. pose proof (step_ok_op _ _ _ _ Hst Hin) as Hop. cbn in Hop.
    destruct (row_ok_accepted _ _ _ _ _ _ _ _ Htbl Hop) as [s [e A]].
    destruct (accepted_native_burn _ _ _ _ _ _ _ _ _ A Hd) as [H1 _].
    exists s. repeat split; auto; apply A.
Qed.

Lemma mints_of_nil_amt d st : mints_of d st = [] -> forall o, In o st -> mint_amt d o = 0.
Proof.
  intros H o Hin. destruct o as [f t d' a|r m d' a|r m d' a]; cbn; try reflexivity.
  destruct (Nat.eqb d' d) eqn:E; [|reflexivity].
  assert (In (r, m, a) (mints_of d st)).
  { unfold mints_of. apply in_flat_map. exists (MintOp r m d' a). split; [exact Hin|]. cbn. rewrite E. left. reflexivity. }
  rewrite H in H0. destruct H0.
Qed.
Lemma burns_of_nil_amt d st : burns_of d st = [] -> forall o, In o st -> burn_amt d o = 0.
Proof.
  intros H o Hin. destruct o as [f t d' a|r m d' a|r m d' a]; cbn; try reflexivity.
  destruct (Nat.eqb d' d) eqn:E; [|reflexivity].
  assert (In (r, m, a) (burns_of d st)).
  { unfold burns_of. apply in_flat_map. exists (BurnOp r m d' a). split; [exact Hin|]. cbn. rewrite E. left. reflexivity. }
  rewrite H in H0. destruct H0.
Qed.

Lemma op_amounts_nonneg W tbl st o d : step_ok W tbl st = true -> In o st -> 0 <= mint_amt d o /\ 0 <= burn_amt d o.
Proof.
  intros Hst Hin. pose proof (step_ok_op _ _ _ _ Hst Hin) as Hop.
  destruct o as [f t d' a|r m d' a|r m d' a]; cbn; try lia; destruct (Nat.eqb d' d); try lia;
    cbn in Hop; unfold row_ok in Hop; apply andb_prop in Hop; destruct Hop as [Hp _]; apply Z.ltb_lt in Hp; lia.
Qed.

Lemma step_split s st d : apply_step s st d = s d + zsum_map (mint_amt d) st - zsum_map (burn_amt d) st.
Proof. rewrite apply_step_delta. rewrite (zsum_map_split _ (mint_amt d) (burn_amt d)); [lia|]. apply delta_split. Qed.

(* any denomination: without a mint the supply cannot grow, without a burn it cannot fall *)
Lemma monotone_step W tbl st s d :
  step_ok W tbl st = true ->
  (mints_of d st = [] -> apply_step s st d <= s d) /\ (burns_of d st = [] -> s d <= apply_step s st d).
Proof.
  intros Hst. rewrite step_split. split; intros H.
  - rewrite (zsum_map_zero (mint_amt d)) by (apply mints_of_nil_amt; exact H).
    assert (0 <= zsum_map (burn_amt d) st) by (apply zsum_map_nonneg; intros o Ho; apply (op_amounts_nonneg _ _ _ _ d Hst Ho)). lia.
  - rewrite (zsum_map_zero (burn_amt d)) by (apply burns_of_nil_amt; exact H).
    assert (0 <= zsum_map (mint_amt d) st) by (apply zsum_map_nonneg; intros o Ho; apply (op_amounts_nonneg _ _ _ _ d Hst Ho)). lia.
Qed.

(* share denominations: a mint needs a deposit into that pool / vault in the same step, a burn a withdrawal *)
Lemma share_step W tbl st d acct :
  tbl_ok tbl -> step_ok W tbl st = true -> (w_dcl W d = RPoolShare acct \/ w_dcl W d = RVaultShare acct) ->
  (mints_of d st <> [] -> has_send_to acct st = true) /\
  (forall r m a, In (r, m, a) (burns_of d st) -> has_send_from acct st || has_moved d a st = true) /\
  (forall r m a, In (r, m, a) (mints_of d st) \/ In (r, m, a) (burns_of d st) ->
     exists s, nth_error tbl r = Some s /\ (w_dcl W d = RPoolShare acct -> s_macc s = "amm"%string) /\
               (w_dcl W d = RVaultShare acct -> s_macc s = "stablestake"%string)).
Proof.
  intros Htbl Hst Hd. split; [|split].
  - intros Hne. destruct (mints_of d st) as [|[[r m] a] rest] eqn:E; [contradiction Hne; reflexivity|].
    assert (Hin : In (r, m, a) (mints_of d st)) by (rewrite E; left; reflexivity).
    apply in_mints_of in Hin. pose proof (step_ok_op _ _ _ _ Hst Hin) as Hop. cbn in Hop.
    destruct (row_ok_accepted _ _ _ _ _ _ _ _ Htbl Hop) as [s [e A]].
    destruct (accepted_share _ _ _ _ _ _ _ _ _ _ acct A Hd) as [H1 _]. apply H1. reflexivity.
  - intros r m a Hin.
    apply in_burns_of in Hin. pose proof (step_ok_op _ _ _ _ Hst Hin) as Hop. cbn in Hop.
    destruct (row_ok_accepted _ _ _ _ _ _ _ _ Htbl Hop) as [s [e A]].
    destruct (accepted_share _ _ _ _ _ _ _ _ _ _ acct A Hd) as [_ [H1 _]]. apply H1. reflexivity.
  - intros r m a [Hin|Hin].
    + apply in_mints_of in Hin. pose proof (step_ok_op _ _ _ _ Hst Hin) as Hop. cbn in Hop.
      destruct (row_ok_accepted _ _ _ _ _ _ _ _ Htbl Hop) as [s [e A]].
      destruct (accepted_share _ _ _ _ _ _ _ _ _ _ acct A Hd) as [_ [_ [H1 H2]]]. exists s. repeat split; auto. apply A.
    + apply in_burns_of in Hin. pose proof (step_ok_op _ _ _ _ Hst Hin) as Hop. cbn in Hop.
      destruct (row_ok_accepted _ _ _ _ _ _ _ _ Htbl Hop) as [s [e A]].
      destruct (accepted_share _ _ _ _ _ _ _ _ _ _ acct A Hd) as [_ [_ [H1 H2]]]. exists s. repeat split; auto. apply A.
Qed.

Lemma share_supply_changes W tbl st s d acct :
  tbl_ok tbl -> step_ok W tbl st = true -> (w_dcl W d = RPoolShare acct \/ w_dcl W d = RVaultShare acct) ->
  apply_step s st d <> s d ->
  has_send_to acct st = true \/ has_send_from acct st = true \/ exists a, 0 < a /\ has_moved d a st = true.
Proof.
  intros Htbl Hst Hd Hne. destruct (share_step _ _ _ _ _ Htbl Hst Hd) as [Hm [Hb _]].
  destruct (mints_of d st) as [|x r] eqn:Em.
  - destruct (burns_of d st) as [|[[rw m] a] r2] eqn:Eb.
    + exfalso. apply Hne. rewrite step_split.
      rewrite (zsum_map_zero (mint_amt d)) by (apply mints_of_nil_amt; exact Em).
      rewrite (zsum_map_zero (burn_amt d)) by (apply burns_of_nil_amt; exact Eb). lia.
    + right. assert (Hin : In (rw, m, a) (burns_of d st)) by (rewrite Eb; left; reflexivity).
      pose proof (Hb rw m a (or_introl eq_refl)) as Hp. apply orb_prop in Hp. destruct Hp as [Hp|Hp]; [left; exact Hp|].
      right. exists a. split; [|exact Hp].
      apply in_burns_of in Hin. pose proof (step_ok_op _ _ _ _ Hst Hin) as Hop. cbn in Hop.
      unfold row_ok in Hop. apply andb_prop in Hop. destruct Hop as [Hpos _]. apply Z.ltb_lt. exact Hpos.
  - left. apply Hm. discriminate.
Qed.
