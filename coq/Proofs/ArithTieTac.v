(* Tactics shared by the arithmetic ties (Proofs/ArithTieC*.v). The ties are equalities between a definition
   generated from the Go source and a hand-written model definition; they are proved semantically where that
   is cheap (case analysis on every comparison, then linear arithmetic with the fixed-point operations as
   atoms), so that a rewrite of the Go code that keeps the value (a > b for b < a, b - r < 0 for b < r, >= for >
   where the branches agree, extra temporaries) keeps the proof, and any change of the value breaks it. *)
From Coq Require Import ZArith Bool Lia.
Open Scope Z_scope.

Ltac tie_hyps :=
  repeat match goal with
  | H : (_ <? _) = true |- _ => apply Z.ltb_lt in H
  | H : (_ <? _) = false |- _ => apply Z.ltb_ge in H
  | H : (_ <=? _) = true |- _ => apply Z.leb_le in H
  | H : (_ <=? _) = false |- _ => apply Z.leb_gt in H
  | H : (_ =? _) = true |- _ => apply Z.eqb_eq in H
  | H : (_ =? _) = false |- _ => apply Z.eqb_neq in H
  end.

Ltac tie_split :=
  repeat match goal with
  | |- context [if ?c then _ else _] => let E := fresh "E" in destruct c eqn:E
  | |- context [?a <? ?b] => let E := fresh "E" in destruct (a <? b) eqn:E
  | |- context [?a <=? ?b] => let E := fresh "E" in destruct (a <=? b) eqn:E
  | |- context [?a =? ?b] => let E := fresh "E" in destruct (a =? b) eqn:E
  end.

(* value ties: both sides are built from + - * quot on the same atoms under the same conditions *)
Ltac tie_cases :=
  repeat match goal with
  | |- context [if ?c then _ else _] => let E := fresh "E" in destruct c eqn:E
  end;
  tie_hyps; try reflexivity; try (exfalso; lia); try (repeat f_equal; lia).

(* boolean ties: both sides are comparisons *)
Ltac tie_bool := first [ reflexivity | cbv zeta; tie_split; tie_hyps; try reflexivity; exfalso; lia ].
