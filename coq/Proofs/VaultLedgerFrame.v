(* C06, frame: a step on one borrower's debt record leaves every OTHER borrower's record (Borrowed, InterestStacked,
   InterestPaid) exactly as it was; bonds, unbonds and third-party receipts touch no debt record at all; over every
   history a borrower no step names keeps its record. Model: Models/VaultLedger.v. *)
From Coq Require Import ZArith List Bool Arith Lia.
From Elys Require Import Base.Res Base.Fn Base.Zdec Models.SumLedger Models.Stable Models.VaultLedger.
Import ListNotations.
Open Scope Z_scope.

Definition borrower_of (o : vop) : option nat :=
  match o with VBorrow k _ _ | VRepay k _ _ | VAccrue k _ => Some k | _ => None end.

Definition same_record (v v' : vault) (k : nat) : Prop :=
  v_b v' k = v_b v k /\ v_s v' k = v_s v k /\ v_p v' k = v_p v k.

Lemma put_other v tv cash k b s p k' : k' <> k -> same_record v (put v tv cash k b s p) k'.
Proof. intros H. unfold same_record, put. cbn. rewrite !upd_other by exact H. repeat split. Qed.
Lemma del_other v tv cash k k' : k' <> k -> same_record v (del v tv cash k) k'.
Proof. intros H. unfold same_record, del. cbn. rewrite !upd_other by exact H. repeat split. Qed.

Lemma vstep_other_borrowers v o v' : vstep v o = Ok v' ->
  forall k', borrower_of o <> Some k' -> same_record v v' k'.
Proof.
  destruct o as [a|p|k a i|k a i|k i|a|a]; cbn [vstep borrower_of]; unfold guard; intros E k' Hk.
  - destruct (0 <? a); [|discriminate]. inversion E; subst. unfold same_record; cbn. repeat split.
  - destruct (0 <? p); [|discriminate]. destruct (p <=? v_cash v); [|discriminate]. inversion E; subst.
    unfold same_record; cbn. repeat split.
  - assert (Hne : k' <> k) by (intros ->; apply Hk; reflexivity).
    destruct (int_ok v k i); [|discriminate]. destruct (0 <? a); [|discriminate].
    destruct (negb (cap_max (v_tv v) <? cap_borrowed (v_tv v) (v_cash v) a)); [|discriminate].
    destruct (a <=? v_cash v); [|discriminate]. inversion E; subst. apply put_other. exact Hne.
  - assert (Hne : k' <> k) by (intros ->; apply Hk; reflexivity).
    destruct (int_ok v k i); [|discriminate]. destruct (0 <? a); [|discriminate]. cbv zeta in E.
    match type of E with (if ?c then _ else _) = _ => destruct c end; [|discriminate].
    match type of E with (if ?c then _ else _) = _ => destruct c end; inversion E; subst;
      [apply del_other|apply put_other]; exact Hne.
  - assert (Hne : k' <> k) by (intros ->; apply Hk; reflexivity).
    destruct (int_ok v k i); [|discriminate]. inversion E; subst. apply put_other. exact Hne.
  - destruct (0 <? a); [|discriminate]. inversion E; subst. unfold same_record; cbn. repeat split.
  - discriminate.
Qed.

Lemma same_record_refl v k : same_record v v k.
Proof. unfold same_record. repeat split. Qed.
Lemma same_record_trans v1 v2 v3 k : same_record v1 v2 k -> same_record v2 v3 k -> same_record v1 v3 k.
Proof. unfold same_record. intros (A & B & C) (D & E & F). rewrite D, E, F. repeat split; assumption. Qed.

Lemma vsteps_other_borrowers l : forall v v', vsteps vstep v l = Ok v' ->
  forall k', (forall o, In o l -> borrower_of o <> Some k') -> same_record v v' k'.
Proof.
  induction l as [|o r IH]; intros v v' E k' Hk.
  - cbn in E. inversion E; subst. apply same_record_refl.
  - cbn [vsteps] in E. destruct (vstep v o) as [v1| |] eqn:E1; cbn [bind] in E; try discriminate.
    apply (same_record_trans v v1 v' k').
    + exact (vstep_other_borrowers _ _ _ E1 k' (Hk o (or_introl eq_refl))).
    + exact (IH _ _ E k' (fun o' Ho' => Hk o' (or_intror Ho'))).
Qed.

Lemma vrun_other_borrowers h : forall v k', (forall l o, In l h -> In o l -> borrower_of o <> Some k') ->
  same_record v (vrun vstep v h) k'.
Proof.
  induction h as [|l r IH]; intros v k' Hk; [apply same_record_refl|].
  unfold vrun. cbn [fold_left]. fold (vrun vstep (vtx vstep v l) r).
  apply (same_record_trans v (vtx vstep v l) _ k').
  - unfold vtx, run_tx. destruct (vsteps vstep v l) as [v1| |] eqn:E; try apply same_record_refl.
    exact (vsteps_other_borrowers _ _ _ E k' (fun o Ho => Hk l o (or_introl eq_refl) Ho)).
  - apply IH. intros l' o Hl Ho. exact (Hk l' o (or_intror Hl) Ho).
Qed.

(* no code path pays out of the module account other than a redemption or a loan; a payout beyond the cash is refused *)
Lemma unbond_beyond_cash_refused v p : v_cash v < p -> exists c, vstep v (VUnbond p) = Err c.
Proof.
  intros H. cbn [vstep]. unfold guard. destruct (0 <? p); [|eexists; reflexivity].
  assert (L : (p <=? v_cash v) = false) by (apply Z.leb_gt; exact H). rewrite L. eexists; reflexivity.
Qed.
Lemma borrow_beyond_cash_refused v k a i : v_cash v < a -> exists c, vstep v (VBorrow k a i) = Err c.
Proof.
  intros H. cbn [vstep]. unfold guard. destruct (int_ok v k i); [|eexists; reflexivity].
  destruct (0 <? a); [|eexists; reflexivity].
  destruct (negb (cap_max (v_tv v) <? cap_borrowed (v_tv v) (v_cash v) a)); [|eexists; reflexivity].
  assert (L : (a <=? v_cash v) = false) by (apply Z.leb_gt; exact H). rewrite L. eexists; reflexivity.
Qed.
