(* C18 - proofs about Models/StakerRewards.v *)
From Coq Require Import ZArith Lia.
From Elys Require Import Base.Zdec Models.Blocks Models.StakerRewards.
Open Scope Z_scope.

Lemma to_int64_id : forall z, tbpy_int64 z -> to_int64 z = z.
Proof.
  intros z [_ H]. unfold to_int64. destruct (z <? 2 ^ 63) eqn:E; [reflexivity|].
  apply Z.ltb_ge in E. lia.
Qed.

Lemma quot_nonneg_pos : forall a b, 0 <= a -> 0 < b -> 0 <= Z.quot a b.
Proof. intros a b Ha Hb. apply Z.quot_pos; lia. Qed.

(* with TotalBlocksPerYear below 2^63 both amounts are non-negative for every non-negative stake and APR *)
Lemma edenb_amount_nonneg : forall total apr tbpy, 0 <= total -> 0 <= apr -> tbpy_int64 tbpy ->
  0 <= edenb_amount total apr tbpy.
Proof.
  intros total apr tbpy Ht Ha Hy. unfold edenb_amount, round_int, dquo_int, dmul, dec_of_int.
  rewrite (to_int64_id _ Hy). destruct Hy as [Hy _].
  assert (H1 : 0 <= total * PREC * apr).
  { apply Z.mul_nonneg_nonneg; [apply Z.mul_nonneg_nonneg; [lia|]|lia]. pose proof PREC_pos. lia. }
  destruct (chop_round_bounds _ H1) as [_ H2].
  pose proof (quot_nonneg_pos _ _ H2 Hy) as H3.
  destruct (chop_round_bounds _ H3) as [_ H4]. exact H4.
Qed.

Lemma eden_cap_nonneg : forall total apr tbpy, 0 <= total -> 0 <= apr -> tbpy_int64 tbpy ->
  0 <= eden_cap total apr tbpy.
Proof.
  intros total apr tbpy Ht Ha Hy. unfold eden_cap, trunc_int, dquo_int, dmul_int.
  rewrite (to_int64_id _ Hy). destruct Hy as [Hy _].
  assert (H1 : 0 <= apr * total) by (apply Z.mul_nonneg_nonneg; lia).
  pose proof (quot_nonneg_pos _ _ H1 Hy) as H3.
  destruct (chop_trunc_bounds _ H3) as [_ H4]. exact H4.
Qed.

(* ... but BEFORE fix: f62637f x/parameter accepted every non-zero uint64: 2^63 is negative as int64. Witness replayed on the real application
   (harness/c18_stake_test.go, first history of c18StakeCorpus): EdenBoostApr 1000000 (accepted by estaking's validation),
   six users stake their whole uelys balance (about 6*10^12 in total; every total from 4.62*10^12 to 1.38*10^13 gives -1); the end
   blocker panics with "negative coin amount: -1". *)
Lemma edenb_amount_prefix_refuted : exists total apr tbpy,
  0 <= total /\ 0 <= apr /\ tbpy_accepted_prefix tbpy /\ edenb_amount total apr tbpy < 0.
Proof.
  exists 6000000999994, (1000000 * PREC), (2 ^ 63). unfold tbpy_accepted_prefix.
  repeat split; try (vm_compute; congruence); vm_compute; reflexivity.
Qed.

Lemma edenb_amount_witness : edenb_amount 6000000999994 (1000000 * PREC) (2 ^ 63) = -1.
Proof. vm_compute. reflexivity. Qed.

Lemma eden_cap_prefix_refuted : exists total apr tbpy,
  0 <= total /\ 0 <= apr /\ tbpy_accepted_prefix tbpy /\ eden_cap total apr tbpy < 0.
Proof.
  exists 10000000000000, (1000000 * PREC), (2 ^ 63). unfold tbpy_accepted_prefix.
  repeat split; try (vm_compute; congruence); vm_compute; reflexivity.
Qed.

(* since fix: f62637f everything x/parameter accepts is in the int64 range: the amounts are never negative *)
Lemma edenb_amount_nonneg_accepted : forall total apr tbpy, 0 <= total -> 0 <= apr -> tbpy_accepted tbpy ->
  0 <= edenb_amount total apr tbpy.
Proof. intros total apr tbpy Ht Ha Hy. apply edenb_amount_nonneg; assumption. Qed.
Lemma eden_cap_nonneg_accepted : forall total apr tbpy, 0 <= total -> 0 <= apr -> tbpy_accepted tbpy ->
  0 <= eden_cap total apr tbpy.
Proof. intros total apr tbpy Ht Ha Hy. apply eden_cap_nonneg; assumption. Qed.
