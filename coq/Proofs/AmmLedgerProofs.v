(* Proofs about Models/AmmLedger.v (C01). *)
From Coq Require Import ZArith List Bool Arith Lia.
From Elys Require Import Base.Res Base.Fn Models.AmmLedger.
Import ListNotations.
Open Scope Z_scope.

Section WithPools.
Variable ps : list nat.            (* the pools that exist *)
Hypothesis ps_nodup : NoDup ps.

Definition Inv (s : amm) : Prop :=
  (forall p d, pbank s p d = reserve s p d + donated s p d /\ 0 <= donated s p d) /\
  (forall d, liq s d = sumf (fun p => reserve s p d) ps).

Definition pool_of (o : aop) : nat := match o with AIn p _ _ | AOut p _ _ | ADonate p _ _ => p end.

Lemma sum_reserve_upd f p d v d' :
  In p ps ->
  sumf (fun q => upd2 f p d v q d') ps =
  if Nat.eqb d' d then sumf (fun q => f q d') ps - f p d' + v else sumf (fun q => f q d') ps.
Proof.
  intros Hin. destruct (Nat.eqb_spec d' d) as [->|Ne].
  - rewrite (sumf_ext _ (upd (fun q => f q d) p v)).
    + rewrite sumf_upd_in by assumption. reflexivity.
    + intros k _. unfold upd2, upd. rewrite Nat.eqb_refl, andb_true_r. reflexivity.
  - apply sumf_ext. intros k _. apply upd2_other. right. exact Ne.
Qed.

Lemma pair_in_inv s p d a s' :
  Inv s -> In p ps -> 0 <= a ->
  (do s1 <- bank_in s p d a; add_book s1 p d a) = Ok s' -> Inv s'.
Proof.
  intros [Hb Hl] Hin Ha H. cbn in H. inversion H; subst; clear H. split; cbn.
  - intros q e. destruct (Hb q e) as [E D]. split; [|exact D].
    destruct (Nat.eq_dec q p) as [->|Nq]; [destruct (Nat.eq_dec e d) as [->|Ne]|].
    + rewrite !upd2_same. destruct (Hb p d). lia.
    + rewrite !upd2_other by (right; exact Ne). exact E.
    + rewrite !upd2_other by (left; exact Nq). exact E.
  - intros e. rewrite sum_reserve_upd by exact Hin. unfold upd.
    destruct (Nat.eqb_spec e d) as [->|Ne]; [rewrite Hl; lia|apply Hl].
Qed.

Lemma pair_out_inv s p d a s' :
  Inv s -> In p ps -> 0 <= a ->
  (do s1 <- bank_out s p d a; remove_book s1 p d a) = Ok s' ->
  Inv s' /\ a <= reserve s p d.
Proof.
  intros [Hb Hl] Hin Ha H. unfold bank_out in H.
  destruct (pbank s p d <? a) eqn:F; cbn in H; [discriminate|].
  unfold remove_book in H. cbn in H.
  destruct (reserve s p d - a <? 0) eqn:N; [discriminate|]. apply Z.ltb_ge in N.
  destruct (liq s d <? a) eqn:L; [discriminate|].
  inversion H; subst; clear H. split; [|lia]. split; cbn.
  - intros q e. destruct (Hb q e) as [E D]. split; [|exact D].
    destruct (Nat.eq_dec q p) as [->|Nq]; [destruct (Nat.eq_dec e d) as [->|Ne]|].
    + rewrite !upd2_same. lia.
    + rewrite !upd2_other by (right; exact Ne). exact E.
    + rewrite !upd2_other by (left; exact Nq). exact E.
  - intros e. rewrite sum_reserve_upd by exact Hin. unfold upd.
    destruct (Nat.eqb_spec e d) as [->|Ne]; [rewrite Hl; lia|apply Hl].
Qed.

Lemma astep_inv s o s' : Inv s -> In (pool_of o) ps -> astep s o = Ok s' -> Inv s'.
Proof.
  intros HI Hin H. destruct o as [p d a|p d a|p d a]; cbn [astep pool_of] in *; unfold guard in H.
  - destruct (0 <=? a) eqn:A; [apply Z.leb_le in A|discriminate]. eapply pair_in_inv; eauto.
  - destruct (0 <=? a) eqn:A; [apply Z.leb_le in A|discriminate].
    eapply (proj1 (pair_out_inv _ _ _ _ _ HI Hin A H)).
  - destruct (0 <=? a) eqn:A; [apply Z.leb_le in A|discriminate].
    cbn in H. inversion H; subst; clear H. destruct HI as [Hb Hl]. split; cbn.
    + intros q e. destruct (Hb q e) as [E D].
      destruct (Nat.eq_dec q p) as [->|Nq]; [destruct (Nat.eq_dec e d) as [->|Ne]|].
      * rewrite !upd2_same. lia.
      * rewrite !upd2_other by (right; exact Ne). split; assumption.
      * rewrite !upd2_other by (left; exact Nq). split; assumption.
    + exact Hl.
Qed.

Lemma asteps_inv l : forall s s', Inv s -> Forall (fun o => In (pool_of o) ps) l -> asteps s l = Ok s' -> Inv s'.
Proof.
  induction l as [|o r IH]; intros s s' HI Hf H; cbn in H.
  - inversion H; subst. exact HI.
  - inversion Hf; subst. destruct (astep s o) as [s1| |] eqn:E; cbn in H; try discriminate.
    eapply IH; [eapply astep_inv; eauto| assumption | exact H].
Qed.

Lemma atx_inv s l : Inv s -> Forall (fun o => In (pool_of o) ps) l -> Inv (atx s l).
Proof.
  intros HI Hf. unfold atx, run_tx. destruct (asteps s l) as [s'| |] eqn:E; auto.
  eapply asteps_inv; eauto.
Qed.

(* every reachable state: any history of transactions, each any list of paired operations or
   donations with any amounts, failed transactions included *)
Theorem arun_inv h : forall s, Inv s ->
  Forall (Forall (fun o => In (pool_of o) ps)) h -> Inv (arun s h).
Proof.
  induction h as [|l r IH]; intros s HI Hf; cbn; [exact HI|].
  inversion Hf; subst. apply IH; [apply atx_inv; assumption|assumption].
Qed.

(* no drift in either direction: book value + donations = real holdings, donations only add *)
Corollary no_drift h s p d : Inv s -> Forall (Forall (fun o => In (pool_of o) ps)) h ->
  reserve (arun s h) p d <= pbank (arun s h) p d /\
  pbank (arun s h) p d - reserve (arun s h) p d = donated (arun s h) p d.
Proof.
  intros HI Hf. destruct (arun_inv h s HI Hf) as [Hb _]. destruct (Hb p d). lia.
Qed.

(* ---------------- Level B ---------------- *)

Lemma Inv_ext s t :
  (forall p d, reserve t p d = reserve s p d) -> (forall p d, pbank t p d = pbank s p d) ->
  (forall d, liq t d = liq s d) -> (forall p d, donated t p d = donated s p d) -> Inv s -> Inv t.
Proof.
  intros Hr Hb Hl Hd [A B]. split.
  - intros p d. rewrite Hb, Hr, Hd. apply A.
  - intros d. rewrite Hl, B. apply sumf_ext. intros q _. symmetry. apply Hr.
Qed.

Lemma mem_upd_eq p (m : nat -> Z) (f : nat -> nat -> Z) d v q e :
  (forall x, m x = f p x) ->
  (if Nat.eqb q p then upd m d v e else f q e) = upd2 f p d v q e.
Proof.
  intros Hc. unfold upd, upd2. destruct (Nat.eqb_spec q p) as [->|Nq]; cbn.
  - destruct (Nat.eqb e d); [reflexivity|apply Hc].
  - reflexivity.
Qed.

Definition coh (p : nat) (h : hstate) : Prop := forall d, mem h d = reserve (st h) p d.
Definition HInv (p : nat) (h : hstate) : Prop := Inv (st h) /\ coh p h.

Lemma h_pair_in p h d a h' :
  HInv p h -> In p ps -> 0 <= a ->
  (do h1 <- h_bank_in h p d a; h_add h1 p d a) = Ok h' -> HInv p h'.
Proof.
  intros [HI Hc] Hin Ha H. cbn in H. inversion H; subst; clear H.
  assert (E : Inv (mkAmm (upd2 (reserve (st h)) p d (reserve (st h) p d + a))
                         (upd2 (pbank (st h)) p d (pbank (st h) p d + a))
                         (upd (liq (st h)) d (liq (st h) d + a)) (donated (st h)))).
  { eapply (pair_in_inv (st h) p d a); eauto. }
  split.
  - eapply Inv_ext; [| | | |exact E]; cbn; intros; try reflexivity.
    rewrite (Hc d). apply mem_upd_eq. exact Hc.
  - intros e. cbn. rewrite Nat.eqb_refl. reflexivity.
Qed.

Lemma h_pair_out p h d a h' :
  HInv p h -> In p ps -> 0 <= a ->
  (do h1 <- h_bank_out h p d a; h_remove h1 p d a) = Ok h' -> HInv p h'.
Proof.
  intros [HI Hc] Hin Ha H. unfold h_bank_out, bank_out in H.
  destruct (pbank (st h) p d <? a) eqn:F; cbn in H; [discriminate|].
  unfold h_remove in H. cbn in H.
  destruct (mem h d - a <? 0) eqn:N; [discriminate|].
  destruct (liq (st h) d <? a) eqn:L; [discriminate|].
  inversion H; subst; clear H.
  assert (E : Inv (mkAmm (upd2 (reserve (st h)) p d (reserve (st h) p d - a))
                         (upd2 (pbank (st h)) p d (pbank (st h) p d - a))
                         (upd (liq (st h)) d (liq (st h) d - a)) (donated (st h)))).
  { refine (proj1 (pair_out_inv (st h) p d a _ HI Hin Ha _)).
    unfold bank_out. rewrite F. cbn. unfold remove_book. cbn. rewrite <- (Hc d), N, L. reflexivity. }
  split.
  - eapply Inv_ext; [| | | |exact E]; cbn; intros; try reflexivity.
    rewrite (Hc d). apply mem_upd_eq. exact Hc.
  - intros e. cbn. rewrite Nat.eqb_refl. reflexivity.
Qed.

Lemma nested_inv p h din n h' :
  HInv p h -> In p ps -> 0 <= n_in n -> 0 <= n_out n ->
  nested_swap true h p din n = Ok h' -> HInv p h'.
Proof.
  intros HI Hin Ha Hb H. unfold nested_swap in H.
  destruct (n_fail n) as [|k].
  - destruct (h_bank_in h p din (n_in n)) as [h1| |] eqn:E1; cbn [bind] in H; try discriminate.
    destruct (h_add h1 p din (n_in n)) as [h2| |] eqn:E2; cbn [bind] in H; try discriminate.
    assert (HInv p h2). { eapply (h_pair_in p h din (n_in n)); eauto. rewrite E1. cbn [bind]. exact E2. }
    destruct (h_bank_out h2 p (n_dout n) (n_out n)) as [h3| |] eqn:E3; cbn [bind] in H; try discriminate.
    eapply (h_pair_out p h2 (n_dout n) (n_out n)); eauto. rewrite E3. cbn [bind]. exact H.
  - inversion H; subst. destruct HI as [A B]. split; [exact A|exact B].
Qed.

(* the handler as coded after the fix (restore = true) preserves the ledger invariant, for ALL
   amounts, all nested outcomes and failure points *)
Theorem swap_handler_inv s p din dout ain aout fee wb conv s' :
  Inv s -> In p ps -> 0 <= ain -> 0 <= aout -> 0 <= wb ->
  (match conv with Some n => 0 <= n_in n /\ 0 <= n_out n | None => True end) ->
  swap_handler true s p din dout ain aout fee wb conv = Ok s' -> Inv s'.
Proof.
  intros HI Hin Ha Ho Hw Hc H. unfold swap_handler in H.
  set (h0 := mkH s (reserve s p)) in *.
  assert (H0 : HInv p h0) by (split; [exact HI|intros d; reflexivity]).
  destruct (h_bank_in h0 p din ain) as [h1| |] eqn:E1; cbn [bind] in H; try discriminate.
  destruct (h_add h1 p din ain) as [h2| |] eqn:E2; cbn [bind] in H; try discriminate.
  assert (H2 : HInv p h2). { eapply (h_pair_in p h0 din ain); eauto. rewrite E1. cbn [bind]. exact E2. }
  destruct (h_bank_out h2 p dout aout) as [h3| |] eqn:E3; cbn [bind] in H; try discriminate.
  destruct (h_remove h3 p dout aout) as [h4| |] eqn:E4; cbn [bind] in H; try discriminate.
  assert (H4 : HInv p h4). { eapply (h_pair_out p h2 dout aout); eauto. rewrite E3. cbn [bind]. exact E4. }
  match type of H with (do h5 <- ?X; _) = _ => destruct X as [h5| |] eqn:E5 end; cbn [bind] in H; try discriminate.
  assert (H5 : HInv p h5).
  { destruct (0 <? fee) eqn:F; [apply Z.ltb_lt in F|inversion E5; subst; exact H4].
    destruct (h_bank_out h4 p din fee) as [a| |] eqn:Ea; cbn [bind] in E5; try discriminate.
    destruct (h_remove a p din fee) as [b| |] eqn:Eb; cbn [bind] in E5; try discriminate.
    assert (Hb : HInv p b). { eapply (h_pair_out p h4 din fee); eauto; [lia|]. rewrite Ea. cbn [bind]. exact Eb. }
    destruct conv as [n|]; [|inversion E5; subst; exact Hb].
    destruct Hc. eapply nested_inv; eauto. }
  match type of H with (do h6 <- ?X; _) = _ => destruct X as [h6| |] eqn:E6 end; cbn [bind] in H; try discriminate.
  assert (H6 : HInv p h6).
  { destruct (0 <? wb) eqn:F; [|inversion E6; subst; exact H5].
    destruct (h_bank_out h5 p din wb) as [a| |] eqn:Ea; cbn [bind] in E6; try discriminate.
    eapply (h_pair_out p h5 din wb); eauto. rewrite Ea. cbn [bind]. exact E6. }
  inversion H; subst; clear H. destruct H6 as [[Hb Hl] Hco]. split; cbn.
  - intros q e. specialize (Hb q e). destruct (Nat.eqb_spec q p) as [->|Nq]; [rewrite Hco|]; exact Hb.
  - intros e. rewrite Hl. apply sumf_ext. intros q _.
    destruct (Nat.eqb_spec q p) as [->|Nq]; [rewrite Hco|]; reflexivity.
Qed.

End WithPools.

(* the code at the pinned commit (restore = false): a nested conversion rejected by the AfterSwap
   hooks leaves its array writes behind and the outer SetPool stores them: reserve > bank *)
Definition refute_s0 : amm :=
  mkAmm (fun p d => if Nat.eqb p 0 then (if Nat.eqb d 0 then 100000 else if Nat.eqb d 1 then 20000 else 0) else 0)
        (fun p d => if Nat.eqb p 0 then (if Nat.eqb d 0 then 100000 else if Nat.eqb d 1 then 20000 else 0) else 0)
        (fun d => if Nat.eqb d 0 then 100000 else if Nat.eqb d 1 then 20000 else 0)
        (fun _ _ => 0).

Lemma prefix_swap_refuted :
  Inv [0%nat] refute_s0 /\
  exists s', swap_handler false refute_s0 0 1 0 10000 30000 30 0 (Some (mkN 19 90 0 3)) = Ok s' /\
             reserve s' 0%nat 1%nat = pbank s' 0%nat 1%nat + 19 /\
             liq s' 1%nat <> sumf (fun p => reserve s' p 1%nat) [0%nat].
Proof.
  split.
  - split; [intros p d|intros d]; unfold refute_s0; cbn.
    + destruct (Nat.eqb p 0); [destruct (Nat.eqb d 0); [|destruct (Nat.eqb d 1)]|]; lia.
    + destruct (Nat.eqb d 0); [|destruct (Nat.eqb d 1)]; lia.
  - eexists. split; [vm_compute; reflexivity|]. split; vm_compute; [reflexivity|discriminate].
Qed.
