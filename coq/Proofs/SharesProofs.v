From Coq Require Import ZArith List Bool Arith Lia.
From Elys Require Import Base.Res Base.Fn Models.SumLedger Proofs.SumLedgerProofs Models.Shares.
Import ListNotations.
Open Scope Z_scope.

Definition ShInv (s : shares) : Prop :=
  SInv (sh_sl s) /\ sh_tshares s = total (sh_sl s) /\ sh_custody s = total (sh_sl s) /\
  (forall k, sh_wallet s k = 0) /\ sh_amm s = 0.

Lemma shstep_inv s o s' : ShInv s -> shstep s o = Ok s' -> ShInv s'.
Proof.
  intros (HS & HT & HC & HW & HA) H. destruct o as [k a|k a]; cbn [shstep] in H.
  - unfold sh_join, guard in H. destruct (0 <? a) eqn:A; [|discriminate].
    match type of H with (do t <- ?X; _) = _ => destruct X as [t| |] eqn:E end; cbn [bind] in H; try discriminate.
    inversion H; subst; clear H. pose proof (sstep_inv _ _ _ HS E) as HS'.
    assert (Ht : total t = total (sh_sl s) + a).
    { destruct (mem_key k (keys (sh_sl s))); cbn [sstep] in E.
      - destruct (negb (mem_key k (keys (sh_sl s)))); [discriminate|]. destruct (a <? 0); [discriminate|]. inversion E; reflexivity.
      - destruct (mem_key k (keys (sh_sl s))); [discriminate|]. destruct (a <? 0); [discriminate|]. inversion E; reflexivity. }
    split; [exact HS'|]. cbn. repeat split; try lia.
    intros x. unfold upd. destruct (Nat.eqb x k); [rewrite Nat.eqb_refl; rewrite HW; lia|apply HW].
  - unfold sh_exit, guard in H. destruct (0 <? a) eqn:A; [|discriminate].
    destruct (0 <=? sh_tshares s - a) eqn:B; [|discriminate].
    match type of H with (do t <- ?X; _) = _ => destruct X as [t| |] eqn:E end; cbn [bind] in H; try discriminate.
    destruct (a <=? sh_custody s) eqn:C; [|discriminate].
    inversion H; subst; clear H. pose proof (sstep_inv _ _ _ HS E) as HS'.
    assert (Ht : total t = total (sh_sl s) - a).
    { cbn [sstep] in E. destruct (negb (mem_key k (keys (sh_sl s)))); [discriminate|].
      destruct ((a <? 0) || (parts (sh_sl s) k <? a)); [discriminate|]. inversion E; reflexivity. }
    split; [exact HS'|]. cbn. repeat split; try lia.
    intros x. unfold upd. destruct (Nat.eqb x k); [rewrite Nat.eqb_refl; rewrite HW; lia|apply HW].
Qed.

Theorem shrun_inv h : forall s, ShInv s -> ShInv (shrun s h).
Proof.
  induction h as [|o r IH]; intros s HI; cbn; [exact HI|]. apply IH.
  unfold shexec, run_tx. destruct (shstep s o) as [s'| |] eqn:E; auto. eapply shstep_inv; eauto.
Qed.

Lemma sh_empty_inv : ShInv sh_empty.
Proof. split; [apply sl_empty_inv|]. cbn. repeat split; reflexivity. Qed.

Theorem share_agreement h :
  let s := shrun sh_empty h in
  sh_tshares s = total (sh_sl s) /\
  total (sh_sl s) = sumf (parts (sh_sl s)) (keys (sh_sl s)) /\
  sh_custody s = total (sh_sl s) /\
  (forall k, sh_wallet s k = 0) /\ sh_amm s = 0.
Proof.
  intros s. destruct (shrun_inv h sh_empty sh_empty_inv) as ((_ & HT & _) & A & B & C & D). auto.
Qed.

(* supply changes only in join / create / exit steps, by exactly the amount *)
Theorem supply_only_by_join_exit s o :
  ShInv s ->
  total (sh_sl (shexec s o)) = total (sh_sl s) \/
  (exists k a, o = ShJoin k a /\ 0 < a /\ total (sh_sl (shexec s o)) = total (sh_sl s) + a) \/
  (exists k a, o = ShExit k a /\ 0 < a /\ total (sh_sl (shexec s o)) = total (sh_sl s) - a).
Proof.
  intros HI. unfold shexec, run_tx. destruct (shstep s o) as [s'| |] eqn:E; auto.
  destruct o as [k a|k a]; cbn [shstep] in E.
  - right. left. exists k, a. unfold sh_join, guard in E. destruct (0 <? a) eqn:A; [apply Z.ltb_lt in A|discriminate].
    match type of E with (do t <- ?X; _) = _ => destruct X as [t| |] eqn:E1 end; cbn [bind] in E; try discriminate.
    inversion E; subst; clear E. cbn. repeat split; auto.
    destruct (mem_key k (keys (sh_sl s))); cbn [sstep] in E1.
    + destruct (negb (mem_key k (keys (sh_sl s)))); [discriminate|]. destruct (a <? 0); [discriminate|]. inversion E1; reflexivity.
    + destruct (mem_key k (keys (sh_sl s))); [discriminate|]. destruct (a <? 0); [discriminate|]. inversion E1; reflexivity.
  - right. right. exists k, a. unfold sh_exit, guard in E. destruct (0 <? a) eqn:A; [apply Z.ltb_lt in A|discriminate].
    destruct (0 <=? sh_tshares s - a); [|discriminate].
    match type of E with (do t <- ?X; _) = _ => destruct X as [t| |] eqn:E1 end; cbn [bind] in E; try discriminate.
    destruct (a <=? sh_custody s); [|discriminate]. inversion E; subst; clear E. cbn. repeat split; auto.
    cbn [sstep] in E1. destruct (negb (mem_key k (keys (sh_sl s)))); [discriminate|].
    destruct ((a <? 0) || (parts (sh_sl s) k <? a)); [discriminate|]. inversion E1; reflexivity.
Qed.
