(* Proofs about Models/Chef.v. *)
From Coq Require Import ZArith List Bool Arith Lia.
From Elys Require Import Base.Res Base.Zdec Models.Chef.
Import ListNotations.
Open Scope Z_scope.

(* ------------------------------------------------------------------ arithmetic *)

Lemma ONE_pos : 0 < ONE. Proof. reflexivity. Qed.
Lemma ONE_eq : ONE = PREC. Proof. reflexivity. Qed.

Lemma quot_ONE_bounds x : 0 <= x -> 0 <= Z.quot x ONE /\ Z.quot x ONE * ONE <= x < Z.quot x ONE * ONE + ONE.
Proof.
  intros H. pose proof ONE_pos. rewrite Z.quot_div_nonneg by lia.
  pose proof (Z.div_mod x ONE ltac:(lia)). pose proof (Z.mod_pos_bound x ONE ltac:(lia)).
  split; [apply Z.div_pos; lia|]. lia.
Qed.

Lemma chop_round_exact n : 0 <= n -> chop_round (n * PREC) = n.
Proof.
  intros H. pose proof PREC_pos. rewrite chop_round_nonneg_eq by nia. unfold chop_round_nonneg.
  rewrite Z.quot_mul by lia. rewrite Z.rem_mul by lia. reflexivity.
Qed.

Lemma dmul_dec_of_int a b : 0 <= a -> 0 <= b -> dmul a (dec_of_int b) = a * b.
Proof.
  intros Ha Hb. unfold dmul, dec_of_int. replace (a * (b * PREC)) with (a * b * PREC) by ring.
  apply chop_round_exact. nia.
Qed.

Lemma portion_dec_exact a p : portion_dec a p = a * p.
Proof.
  unfold portion_dec, dmul_trunc, dec_of_int, chop_trunc. pose proof PREC_pos.
  replace (a * PREC * p) with (a * p * PREC) by ring. apply Z.quot_mul. lia.
Qed.

Lemma trunc_int_bounds x : 0 <= x -> 0 <= trunc_int x /\ trunc_int x * PREC <= x.
Proof. intros H. unfold trunc_int. destruct (chop_trunc_bounds x H) as [[_ A] B]. split; assumption. Qed.

Lemma trunc_dec_eq x : trunc_dec x = trunc_int x * PREC.
Proof. reflexivity. Qed.

Lemma portion_coin_bounds a p : 0 <= a -> 0 <= p <= PREC -> 0 <= portion_coin a p <= a.
Proof.
  intros Ha Hp. unfold portion_coin, round_int, dmul, dec_of_int. pose proof PREC_pos.
  replace (a * PREC * p) with (a * p * PREC) by ring. rewrite chop_round_exact by nia.
  split; [apply chop_round_bounds; nia|].
  assert (M : chop_round (a * p) <= chop_round (a * PREC)) by (apply chop_round_mono; nia).
  rewrite chop_round_exact in M by lia. exact M.
Qed.

(* ------------------------------------------------------------------ finite sums *)

Lemma sumn_le n f g : (forall i, (i < n)%nat -> f i <= g i) -> sumn n f <= sumn n g.
Proof.
  induction n as [|m IH]; intros H; cbn; [lia|].
  specialize (IH (fun i Hi => H i (Nat.lt_lt_succ_r _ _ Hi))). specialize (H m (Nat.lt_succ_diag_r m)). lia.
Qed.

Lemma sumn_ext n f g : (forall i, (i < n)%nat -> f i = g i) -> sumn n f = sumn n g.
Proof.
  induction n as [|m IH]; intros H; cbn; [reflexivity|].
  rewrite (IH (fun i Hi => H i (Nat.lt_lt_succ_r _ _ Hi))), (H m (Nat.lt_succ_diag_r m)). reflexivity.
Qed.

Lemma sumn_nonneg n f : (forall i, (i < n)%nat -> 0 <= f i) -> 0 <= sumn n f.
Proof.
  induction n as [|m IH]; intros H; cbn; [lia|].
  specialize (IH (fun i Hi => H i (Nat.lt_lt_succ_r _ _ Hi))). specialize (H m (Nat.lt_succ_diag_r m)). lia.
Qed.

Lemma sumn_add n f g : sumn n (fun i => f i + g i) = sumn n f + sumn n g.
Proof. induction n as [|m IH]; cbn; [reflexivity|]. rewrite IH. ring. Qed.

Lemma sumn_scale n c f : sumn n (fun i => c * f i) = c * sumn n f.
Proof. induction n as [|m IH]; cbn; [ring|]. rewrite IH. ring. Qed.

Lemma sumn_zero n f : (forall i, (i < n)%nat -> f i = 0) -> sumn n f = 0.
Proof.
  induction n as [|m IH]; intros H; cbn; [reflexivity|].
  rewrite (IH (fun i Hi => H i (Nat.lt_lt_succ_r _ _ Hi))), (H m (Nat.lt_succ_diag_r m)). reflexivity.
Qed.

(* g differs from f at one index k < n only, by -x *)
Lemma sumn_point n f g k x : (k < n)%nat -> g k = f k - x -> (forall i, i <> k -> g i = f i) ->
  sumn n g = sumn n f - x.
Proof.
  induction n as [|m IH]; intros Hk Hg Ho; [lia|]. cbn.
  destruct (Nat.eq_dec k m) as [->|Ne].
  - rewrite Hg. rewrite (sumn_ext m g f); [lia|]. intros i Hi. apply Ho. lia.
  - rewrite (Ho m) by lia. rewrite IH by (try lia; assumption). lia.
Qed.

Lemma sumn_term_le n f k : (forall i, (i < n)%nat -> 0 <= f i) -> (k < n)%nat -> f k <= sumn n f.
Proof.
  induction n as [|m IH]; intros H Hk; [lia|]. cbn.
  pose proof (H m (Nat.lt_succ_diag_r m)).
  assert (H' : forall i, (i < m)%nat -> 0 <= f i) by (intros i Hi; apply H; lia).
  destruct (Nat.eq_dec k m) as [->|Ne]; [pose proof (sumn_nonneg m f H'); lia|].
  specialize (IH H' ltac:(lia)). lia.
Qed.

(* ------------------------------------------------------------------ well-formedness (every setting of the switches) *)

Definition wf_params (P : params) : Prop :=
  0 <= p_lp P /\ 0 <= p_st P /\ p_lp P + p_st P <= PREC /\ 0 <= p_prov P <= PREC.

Record WF (s : state) : Prop := mkWF {
  w_bal : forall u p, 0 <= bal s u p;
  w_tot : forall p, sumn (nu s) (fun u => bal s u p) <= tot s p;
  w_acc : forall p d, 0 <= acc s p d;
  w_pend : forall u p d, 0 <= pend s u p d;
  w_debt : forall u p d, 0 <= debt s u p d <= acc s p d * bal s u p;
  w_rden : forall p d, is_rden s p d = false -> acc s p d = 0;
  w_incs : forall i, In i (incs s) -> 0 < i_amt i /\ i_from i < i_to i
}.

Lemma wf_init n m h : WF (init_state n m h).
Proof.
  constructor; cbn; intros; try lia; try contradiction.
  all: rewrite sumn_zero; [lia|reflexivity].
Qed.

Lemma wf_tot_nonneg s p : WF s -> 0 <= tot s p.
Proof.
  intros W. pose proof (w_tot s W p). pose proof (sumn_nonneg (nu s) (fun u => bal s u p) (fun i _ => w_bal s W i p)). lia.
Qed.

Lemma eqb3 (a b c : bool) : a && b && c = true -> a = true /\ b = true /\ c = true.
Proof. destruct a, b, c; cbn; intuition congruence. Qed.

(* checkpoint of (u,p) in a state whose (u,p) debt is covered by acc * bold *)
Lemma checkpoint_fields s u p bold :
  nu (checkpoint s u p bold) = nu s /\ np (checkpoint s u p bold) = np s /\ chef (checkpoint s u p bold) = chef s /\
  acc (checkpoint s u p bold) = acc s /\ tot (checkpoint s u p bold) = tot s /\ bal (checkpoint s u p bold) = bal s /\
  xden (checkpoint s u p bold) = xden s /\ incs (checkpoint s u p bold) = incs s /\
  height (checkpoint s u p bold) = height s /\ nextid (checkpoint s u p bold) = nextid s.
Proof. repeat split. Qed.

Lemma is_rden_checkpoint s u p bold p' d : is_rden (checkpoint s u p bold) p' d = is_rden s p' d.
Proof. reflexivity. Qed.

Lemma wf_checkpoint s u p bold :
  (forall u' p', 0 <= bal s u' p') -> (forall p', sumn (nu s) (fun u' => bal s u' p') <= tot s p') ->
  (forall p' d, 0 <= acc s p' d) -> (forall u' p' d, 0 <= pend s u' p' d) ->
  (forall u' p' d, (u' <> u \/ p' <> p) -> 0 <= debt s u' p' d <= acc s p' d * bal s u' p') ->
  (forall d, 0 <= debt s u p d <= acc s p d * bold) ->
  (forall d, is_rden s p d = false -> debt s u p d = 0) ->
  (forall p' d, is_rden s p' d = false -> acc s p' d = 0) ->
  (forall i, In i (incs s) -> 0 < i_amt i /\ i_from i < i_to i) ->
  WF (checkpoint s u p bold).
Proof.
  intros Hb Ht Ha Hp Hd Hdu Hdz Hr Hi. constructor; cbn [checkpoint nu np chef acc tot bal pend debt xden incs height nextid]; auto.
  - intros u' p' d. destruct (Nat.eqb u' u && Nat.eqb p' p && is_rden s p d) eqn:E; [|apply Hp].
    apply eqb3 in E. destruct E as (E1 & E2 & E3). apply Nat.eqb_eq in E1, E2. subst.
    specialize (Hdu d). unfold dquo_int, dmul_int.
    pose proof (quot_ONE_bounds (acc s p d * bold - debt s u p d) ltac:(lia)). specialize (Hp u p d). lia.
  - intros u' p' d. destruct (Nat.eqb u' u && Nat.eqb p' p && is_rden s p d) eqn:E.
    + apply eqb3 in E. destruct E as (E1 & E2 & E3). apply Nat.eqb_eq in E1, E2. subst.
      rewrite dmul_dec_of_int by auto. specialize (Ha p d). specialize (Hb u p). nia.
    + destruct (Nat.eq_dec u' u) as [->|Nu]; [destruct (Nat.eq_dec p' p) as [->|Npp]|].
      * rewrite !Nat.eqb_refl in E. cbn in E. rewrite (Hdz d E), (Hr p d E). lia.
      * apply Hd. right. exact Npp.
      * apply Hd. left. exact Nu.
Qed.

Lemma sum_bal_set s u p b t p' : (u < nu s)%nat ->
  sumn (nu s) (fun u' => bal (set_bal_tot s u p b t) u' p') =
  if Nat.eqb p' p then sumn (nu s) (fun u' => bal s u' p) - bal s u p + b else sumn (nu s) (fun u' => bal s u' p').
Proof.
  intros Hu. cbn [set_bal_tot bal]. destruct (Nat.eqb_spec p' p) as [->|Ne].
  - rewrite (sumn_point (nu s) (fun u' => bal s u' p) _ u (bal s u p - b) Hu).
    + lia.
    + rewrite !Nat.eqb_refl. cbn. lia.
    + intros i Hi. destruct (Nat.eqb_spec i u); [contradiction|reflexivity].
  - apply sumn_ext. intros i _. rewrite andb_false_r. reflexivity.
Qed.

(* effect of a balance change of (u,p) by the hook pair: new balance b' = bold +/- a *)
Lemma balchange_spec s u p b' t' :
  WF s -> (u < nu s)%nat -> 0 <= b' ->
  sumn (nu s) (fun u' => bal s u' p) - bal s u p + b' <= t' ->
  let s' := checkpoint (set_bal_tot s u p b' t') u p (bal s u p) in
  WF s' /\ nu s' = nu s /\ np s' = np s /\ chef s' = chef s /\ incs s' = incs s /\ height s' = height s /\
  xden s' = xden s /\ acc s' = acc s /\
  (forall d p' u', term s' d p' u' <= term s d p' u') /\
  (forall u' p' d, pending_total s' u' p' d = pending_total s u' p' d) /\
  (forall u' p', (u' <> u \/ p' <> p) -> bal s' u' p' = bal s u' p') /\ bal s' u p = b'.
Proof.
  intros W Hu Hb' Ht s'.
  assert (Hbal : forall u' p', bal s' u' p' = if Nat.eqb u' u && Nat.eqb p' p then b' else bal s u' p') by reflexivity.
  assert (Hpend : forall u' p' d, pend s' u' p' d =
     if Nat.eqb u' u && Nat.eqb p' p && is_rden s p d
     then pend s u' p' d + dquo_int (dmul_int (acc s p d) (bal s u p) - debt s u' p' d) ONE else pend s u' p' d) by reflexivity.
  assert (Hdebt : forall u' p' d, debt s' u' p' d =
     if Nat.eqb u' u && Nat.eqb p' p && is_rden s p d
     then dmul (acc s p d) (dec_of_int b') else debt s u' p' d).
  { intros. unfold s'. cbn [checkpoint debt set_bal_tot bal acc]. rewrite !Nat.eqb_refl. reflexivity. }
  split; [|repeat split; try reflexivity].
  - apply wf_checkpoint; cbn [set_bal_tot nu np chef acc tot bal pend debt xden incs height nextid].
    + intros u' p'. destruct (Nat.eqb u' u && Nat.eqb p' p); [exact Hb'|apply (w_bal s W)].
    + intros p'. pose proof (sum_bal_set s u p b' t' p' Hu) as E. cbn [set_bal_tot bal] in E. rewrite E.
      destruct (Nat.eqb_spec p' p) as [_|Ne]; [exact Ht|apply (w_tot s W)].
    + apply (w_acc s W).
    + apply (w_pend s W).
    + intros u' p' d Hne. destruct (Nat.eqb_spec u' u) as [->|Nu]; [destruct (Nat.eqb_spec p' p) as [->|Npp]|]; cbn.
      * destruct Hne; contradiction.
      * apply (w_debt s W).
      * apply (w_debt s W).
    + intros d. apply (w_debt s W).
    + intros d Hd. change (is_rden (set_bal_tot s u p b' t') p d) with (is_rden s p d) in Hd.
      pose proof (w_debt s W u p d). rewrite (w_rden s W p d Hd) in *. lia.
    + intros p' d Hd. apply (w_rden s W p' d Hd).
    + apply (w_incs s W).
  - (* term *)
    intros d p' u'. unfold term. change (acc s' p' d) with (acc s p' d).
    rewrite Hbal, Hpend, Hdebt.
    destruct (Nat.eqb u' u && Nat.eqb p' p) eqn:E; [|cbn; lia].
    apply andb_true_iff in E. destruct E as [E1 E2]. apply Nat.eqb_eq in E1, E2. subst u' p'. cbn [andb].
    destruct (is_rden s p d) eqn:R.
    + rewrite dmul_dec_of_int by (auto; apply (w_acc s W)). unfold dquo_int, dmul_int.
      pose proof (w_debt s W u p d).
      pose proof (quot_ONE_bounds (acc s p d * bal s u p - debt s u p d) ltac:(lia)). lia.
    + pose proof (w_debt s W u p d). rewrite (w_rden s W p d R) in *. lia.
  - (* pending_total *)
    intros u' p' d. unfold pending_total. change (acc s' p' d) with (acc s p' d).
    rewrite Hbal, Hpend, Hdebt.
    destruct (Nat.eqb u' u && Nat.eqb p' p) eqn:E; [|cbn; reflexivity].
    apply andb_true_iff in E. destruct E as [E1 E2]. apply Nat.eqb_eq in E1, E2. subst u' p'. cbn [andb].
    destruct (is_rden s p d) eqn:R.
    + rewrite dmul_dec_of_int by (auto; apply (w_acc s W)). unfold dquo_int, dmul_int.
      replace (acc s p d * b' - acc s p d * b') with 0 by ring. rewrite Z.quot_0_l by (unfold ONE, PREC; lia). lia.
    + pose proof (w_debt s W u p d). rewrite (w_rden s W p d R) in *. unfold dquo_int, dmul_int.
      assert (debt s u p d = 0) by lia. rewrite H0. cbn. reflexivity.
  - intros u' p' Hne. rewrite Hbal.
    destruct (Nat.eqb_spec u' u) as [->|Nu]; [destruct (Nat.eqb_spec p' p) as [->|Npp]|]; cbn; try reflexivity.
    destruct Hne; contradiction.
  - rewrite Hbal, !Nat.eqb_refl. reflexivity.
Qed.

(* ------------------------------------------------------------------ surplus of the module account *)

Definition surplus (s : state) (d : nat) : Z := chef s d * (ONE * ONE) - owed s d.
Definition SOLV (s : state) : Prop := forall d, reserved s d * (ONE * ONE) <= surplus s d.

Record Mono (s s' : state) : Prop := mkMono {
  m_nu : nu s' = nu s; m_np : np s' = np s; m_incs : incs s' = incs s; m_h : height s' = height s;
  m_xden : xden s' = xden s; m_acc : acc s' = acc s;
  m_sur : forall d, surplus s d <= surplus s' d
}.

Lemma mono_refl s : Mono s s.
Proof. constructor; auto. intros; lia. Qed.

Lemma mono_trans a b c : Mono a b -> Mono b c -> Mono a c.
Proof.
  intros [A1 A2 A3 A4 A5 A6 A7] [B1 B2 B3 B4 B5 B6 B7]. constructor; try congruence.
  intros d. specialize (A7 d). specialize (B7 d). lia.
Qed.

Lemma reserved_same s s' d : incs s' = incs s -> height s' = height s -> reserved s' d = reserved s d.
Proof. intros E1 E2. unfold reserved. rewrite E1, E2. reflexivity. Qed.

Lemma mono_solv s s' : Mono s s' -> SOLV s -> SOLV s'.
Proof.
  intros M S d. rewrite (reserved_same s s' d (m_incs _ _ M) (m_h _ _ M)). specialize (S d). pose proof (m_sur _ _ M d). lia.
Qed.

Lemma owed_le s s' d : nu s' = nu s -> np s' = np s ->
  (forall p u, term s' d p u <= term s d p u) -> owed s' d <= owed s d.
Proof.
  intros E1 E2 H. unfold owed. rewrite E1, E2. apply sumn_le. intros p _. apply sumn_le. intros u _. apply H.
Qed.

Lemma term_nonneg s d p u : WF s -> 0 <= term s d p u.
Proof. intros W. unfold term. pose proof (w_pend s W u p d). pose proof (w_debt s W u p d). pose proof ONE_pos. nia. Qed.

Lemma term_le_owed s d p u : WF s -> (p < np s)%nat -> (u < nu s)%nat -> term s d p u <= owed s d.
Proof.
  intros W Hp Hu. unfold owed.
  transitivity (sumn (nu s) (fun u0 => term s d p u0)).
  - apply (sumn_term_le (nu s) (fun u0 => term s d p u0)); [intros; apply term_nonneg; exact W|exact Hu].
  - apply (sumn_term_le (np s) (fun p0 => sumn (nu s) (fun u0 => term s d p0 u0))); [|exact Hp].
    intros i _. apply sumn_nonneg. intros; apply term_nonneg; exact W.
Qed.

Lemma owed_nonneg s d : WF s -> 0 <= owed s d.
Proof. intros W. apply sumn_nonneg. intros p _. apply sumn_nonneg. intros u _. apply term_nonneg. exact W. Qed.

Lemma reserved_nonneg s d : WF s -> 0 <= reserved s d.
Proof.
  intros W. unfold reserved. pose proof (w_incs s W) as H. induction (incs s) as [|i r IH]; cbn; [lia|].
  assert (0 <= fold_right (fun i x => (if Nat.eqb (i_den i) d then i_amt i * inc_rem (height s) i else 0) + x) 0 r)
    by (apply IH; intros j Hj; apply H; right; exact Hj).
  destruct (H i (or_introl eq_refl)) as [A _].
  assert (0 <= inc_rem (height s) i) by (unfold inc_rem; apply Z.le_max_l).
  destruct (Nat.eqb (i_den i) d); nia.
Qed.

(* ------------------------------------------------------------------ deposit / withdraw *)

Lemma ltb_guard u n p m : negb ((u <? n)%nat && (p <? m)%nat) = false -> (u < n)%nat /\ (p < m)%nat.
Proof.
  intros H. apply negb_false_iff in H. apply andb_true_iff in H. destruct H as [A B].
  apply Nat.ltb_lt in A, B. split; assumption.
Qed.

Lemma deposit_spec s u p a s' : WF s -> deposit s u p a = Ok s' ->
  WF s' /\ Mono s s' /\ (forall u' p' d, pending_total s' u' p' d = pending_total s u' p' d).
Proof.
  intros W H. unfold deposit in H.
  destruct (negb ((u <? nu s)%nat && (p <? np s)%nat)) eqn:G; [discriminate|]. apply ltb_guard in G. destruct G as [Hu Hp].
  destruct (a <? 0) eqn:A; [discriminate|]. apply Z.ltb_ge in A.
  assert (E : bal (set_bal_tot s u p (bal s u p + a) (tot s p + a)) u p - a = bal s u p).
  { cbn [set_bal_tot bal]. rewrite !Nat.eqb_refl. cbn. lia. }
  rewrite E in H. inversion H; subst s'; clear H.
  pose proof (w_bal s W u p). pose proof (w_tot s W p).
  destruct (balchange_spec s u p (bal s u p + a) (tot s p + a) W Hu ltac:(lia) ltac:(lia))
    as (W' & E1 & E2 & E3 & E4 & E5 & E6 & E7 & T & PT & _).
  split; [exact W'|]. split; [|exact PT].
  constructor; auto. intros d. unfold surplus. rewrite E3. pose proof (owed_le s _ d E1 E2 (T d)). lia.
Qed.

Lemma withdraw_spec fx s u p a s' : WF s -> withdraw fx s u p a = Ok s' ->
  WF s' /\ Mono s s' /\ (forall u' p' d, pending_total s' u' p' d = pending_total s u' p' d).
Proof.
  intros W H. unfold withdraw in H.
  destruct (negb ((u <? nu s)%nat && (p <? np s)%nat)) eqn:G; [discriminate|]. apply ltb_guard in G. destruct G as [Hu Hp].
  destruct (a <? 0) eqn:A; [discriminate|]. apply Z.ltb_ge in A.
  destruct (bal s u p <? a) eqn:B; [discriminate|]. apply Z.ltb_ge in B.
  set (t' := if fx_unc fx then tot s p - a else tot s p + a) in *.
  assert (E : bal (set_bal_tot s u p (bal s u p - a) t') u p + a = bal s u p).
  { cbn [set_bal_tot bal]. rewrite !Nat.eqb_refl. cbn. lia. }
  rewrite E in H. inversion H; subst s'; clear H.
  pose proof (w_tot s W p).
  assert (Ht : sumn (nu s) (fun u' => bal s u' p) - bal s u p + (bal s u p - a) <= t') by (unfold t'; destruct (fx_unc fx); lia).
  destruct (balchange_spec s u p (bal s u p - a) t' W Hu ltac:(lia) Ht)
    as (W' & E1 & E2 & E3 & E4 & E5 & E6 & E7 & T & PT & _).
  split; [exact W'|]. split; [|exact PT].
  constructor; auto. intros d. unfold surplus. rewrite E3. pose proof (owed_le s _ d E1 E2 (T d)). lia.
Qed.

(* ------------------------------------------------------------------ claims *)

Lemma claim_slot_spec s u p d s' : WF s -> (u < nu s)%nat -> (p < np s)%nat -> claim_slot s u p d = Ok s' ->
  WF s' /\ Mono s s'.
Proof.
  intros W Hu Hp H. unfold claim_slot in H.
  destruct (0 <? pend s u p d) eqn:PP; [|inversion H; subst; split; [exact W|apply mono_refl]].
  apply Z.ltb_lt in PP.
  destruct (chef s d <? trunc_int (pend s u p d)) eqn:C; [discriminate|]. apply Z.ltb_ge in C.
  inversion H; subst s'; clear H.
  set (s' := mkS _ _ _ _ _ _ _ _ _ _ _ _).
  assert (Hpend : forall u' p' d', pend s' u' p' d' = if Nat.eqb u' u && Nat.eqb p' p && Nat.eqb d' d then 0 else pend s u' p' d') by reflexivity.
  split.
  - constructor; cbn [s' nu np chef acc tot bal pend debt xden incs height nextid]; try apply W.
    intros u' p' d'. destruct (Nat.eqb u' u && Nat.eqb p' p && Nat.eqb d' d); [lia|apply (w_pend s W)].
  - constructor; try reflexivity. intros d'. unfold surplus.
    change (chef s' d') with (addc (chef s) d (- trunc_int (pend s u p d)) d'). unfold addc.
    destruct (trunc_int_bounds (pend s u p d) ltac:(lia)) as [T0 T1]. pose proof ONE_pos. rewrite <- ONE_eq in T1.
    destruct (Nat.eqb_spec d' d) as [->|Nd].
    + assert (E : owed s' d = owed s d - pend s u p d * ONE).
      { unfold owed. change (np s') with (np s). change (nu s') with (nu s).
        apply (sumn_point (np s) _ _ p (pend s u p d * ONE) Hp).
        - apply (sumn_point (nu s) _ _ u (pend s u p d * ONE) Hu).
          + unfold term. rewrite Hpend, !Nat.eqb_refl. cbn [andb s' acc bal debt]. lia.
          + intros i Hi. unfold term. rewrite Hpend. destruct (Nat.eqb_spec i u); [contradiction|]. reflexivity.
        - intros i Hi. apply sumn_ext. intros j _. unfold term. rewrite Hpend.
          destruct (Nat.eqb_spec i p); [contradiction|]. rewrite andb_false_r. reflexivity. }
      rewrite E. nia.
    + assert (E : owed s' d' = owed s d').
      { unfold owed. change (np s') with (np s). change (nu s') with (nu s).
        apply sumn_ext. intros i _. apply sumn_ext. intros j _. unfold term. rewrite Hpend.
        destruct (Nat.eqb_spec d' d); [contradiction|]. rewrite andb_false_r. reflexivity. }
      rewrite E. lia.
Qed.

Lemma claim_slot_progress s u p d : WF s -> SOLV s -> (u < nu s)%nat -> (p < np s)%nat ->
  exists s', claim_slot s u p d = Ok s'.
Proof.
  intros W S Hu Hp. unfold claim_slot.
  destruct (0 <? pend s u p d) eqn:PP; [|eexists; reflexivity]. apply Z.ltb_lt in PP.
  destruct (chef s d <? trunc_int (pend s u p d)) eqn:C; [|eexists; reflexivity]. exfalso.
  apply Z.ltb_lt in C.
  destruct (trunc_int_bounds (pend s u p d) ltac:(lia)) as [T0 T1]. rewrite <- ONE_eq in T1.
  pose proof (term_le_owed s d p u W Hp Hu) as TL. unfold term in TL.
  pose proof (w_debt s W u p d). specialize (S d). unfold surplus in S.
  pose proof (reserved_nonneg s d W). pose proof ONE_pos. nia.
Qed.

Lemma claim_slots_spec ds : forall s u p s', WF s -> (u < nu s)%nat -> (p < np s)%nat ->
  claim_slots s u p ds = Ok s' -> WF s' /\ Mono s s'.
Proof.
  induction ds as [|d r IH]; intros s u p s' W Hu Hp H; cbn in H.
  - inversion H; subst. split; [exact W|apply mono_refl].
  - destruct (claim_slot s u p d) as [s1| |] eqn:E; cbn in H; try discriminate.
    destruct (claim_slot_spec s u p d s1 W Hu Hp E) as [W1 M1].
    destruct (IH s1 u p s' W1 ltac:(rewrite (m_nu _ _ M1); exact Hu) ltac:(rewrite (m_np _ _ M1); exact Hp) H) as [W2 M2].
    split; [exact W2|eapply mono_trans; eauto].
Qed.

Lemma claim_slots_progress ds : forall s u p, WF s -> SOLV s -> (u < nu s)%nat -> (p < np s)%nat ->
  exists s', claim_slots s u p ds = Ok s'.
Proof.
  induction ds as [|d r IH]; intros s u p W S Hu Hp; cbn; [eexists; reflexivity|].
  destruct (claim_slot_progress s u p d W S Hu Hp) as [s1 E]. rewrite E. cbn.
  destruct (claim_slot_spec s u p d s1 W Hu Hp E) as [W1 M1].
  apply IH; [exact W1|eapply mono_solv; eauto|rewrite (m_nu _ _ M1); exact Hu|rewrite (m_np _ _ M1); exact Hp].
Qed.

Lemma checkpoint0_spec s u p : WF s -> (u < nu s)%nat ->
  let s' := checkpoint s u p (bal s u p) in WF s' /\ Mono s s'.
Proof.
  intros W Hu s'.
  pose proof (w_bal s W u p). pose proof (w_tot s W p).
  destruct (balchange_spec s u p (bal s u p) (tot s p) W Hu ltac:(lia) ltac:(lia))
    as (W' & E1 & E2 & E3 & E4 & E5 & E6 & E7 & T & PT & _).
  (* set_bal_tot with the same values changes nothing observable: restate through pointwise equality *)
  set (s0 := checkpoint (set_bal_tot s u p (bal s u p) (tot s p)) u p (bal s u p)) in *.
  assert (Pe : forall u' p' d, pend s' u' p' d = pend s0 u' p' d) by reflexivity.
  assert (Be : forall u' p', bal s' u' p' = bal s0 u' p').
  { intros. cbn. destruct (Nat.eqb_spec u' u) as [->|]; [destruct (Nat.eqb_spec p' p) as [->|]|]; reflexivity. }
  assert (Te : forall p', tot s' p' = tot s0 p').
  { intros. cbn. destruct (Nat.eqb_spec p' p) as [->|]; reflexivity. }
  assert (De : forall u' p' d, debt s' u' p' d = debt s0 u' p' d).
  { intros. cbn. rewrite !Nat.eqb_refl. reflexivity. }
  split.
  - destruct W' as [A1 A2 A3 A4 A5 A6 A7]. constructor.
    + intros. rewrite Be. apply A1.
    + intros p'. rewrite Te. erewrite sumn_ext; [apply (A2 p')|]. intros; apply Be.
    + exact A3.
    + intros. rewrite Pe. apply A4.
    + intros. rewrite De, Be. apply A5.
    + exact A6.
    + exact A7.
  - constructor; try reflexivity. intros d. unfold surplus. change (chef s' d) with (chef s d).
    assert (owed s' d = owed s0 d).
    { unfold owed. apply sumn_ext. intros i _. apply sumn_ext. intros j _. unfold term. rewrite Pe, De, Be. reflexivity. }
    pose proof (owed_le s s0 d E1 E2 (T d)). lia.
Qed.

Lemma claim_pool_spec s u p s' : WF s -> (u < nu s)%nat -> claim_pool s u p = Ok s' -> WF s' /\ Mono s s'.
Proof.
  intros W Hu H. unfold claim_pool in H. destruct (p <? np s)%nat eqn:Pp.
  - apply Nat.ltb_lt in Pp. destruct (checkpoint0_spec s u p W Hu) as [W1 M1].
    destruct (claim_slots_spec _ _ u p s' W1 ltac:(exact Hu) ltac:(exact Pp) H) as [W2 M2].
    split; [exact W2|eapply mono_trans; eauto].
  - inversion H; subst. split; [exact W|apply mono_refl].
Qed.

Lemma claim_pool_progress s u p : WF s -> SOLV s -> (u < nu s)%nat -> exists s', claim_pool s u p = Ok s'.
Proof.
  intros W S Hu. unfold claim_pool. destruct (p <? np s)%nat eqn:Pp; [|eexists; reflexivity].
  apply Nat.ltb_lt in Pp. destruct (checkpoint0_spec s u p W Hu) as [W1 M1].
  apply claim_slots_progress; [exact W1|eapply mono_solv; eauto|exact Hu|exact Pp].
Qed.

Lemma claim_pools_spec ps : forall s u s', WF s -> (u < nu s)%nat -> claim_pools s u ps = Ok s' -> WF s' /\ Mono s s'.
Proof.
  induction ps as [|p r IH]; intros s u s' W Hu H; cbn in H.
  - inversion H; subst. split; [exact W|apply mono_refl].
  - destruct (claim_pool s u p) as [s1| |] eqn:E; cbn in H; try discriminate.
    destruct (claim_pool_spec s u p s1 W Hu E) as [W1 M1].
    destruct (IH s1 u s' W1 ltac:(rewrite (m_nu _ _ M1); exact Hu) H) as [W2 M2].
    split; [exact W2|eapply mono_trans; eauto].
Qed.

Lemma claim_pools_progress ps : forall s u, WF s -> SOLV s -> (u < nu s)%nat -> exists s', claim_pools s u ps = Ok s'.
Proof.
  induction ps as [|p r IH]; intros s u W S Hu; cbn; [eexists; reflexivity|].
  destruct (claim_pool_progress s u p W S Hu) as [s1 E]. rewrite E. cbn.
  destruct (claim_pool_spec s u p s1 W Hu E) as [W1 M1].
  apply IH; [exact W1|eapply mono_solv; eauto|rewrite (m_nu _ _ M1); exact Hu].
Qed.

Lemma claim_spec s u ps s' : WF s -> claim s u ps = Ok s' -> WF s' /\ Mono s s'.
Proof.
  intros W H. unfold claim in H. destruct (negb (u <? nu s)%nat) eqn:G; [discriminate|].
  apply negb_false_iff in G. apply Nat.ltb_lt in G. eapply claim_pools_spec; eauto.
Qed.

Lemma claim_progress s u ps : WF s -> SOLV s -> (u < nu s)%nat -> exists s', claim s u ps = Ok s'.
Proof.
  intros W S Hu. unfold claim. destruct (negb (u <? nu s)%nat) eqn:G.
  - apply negb_true_iff in G. apply Nat.ltb_ge in G. lia.
  - apply claim_pools_progress; assumption.
Qed.

Lemma touch_pools_spec n : forall s u, WF s -> (u < nu s)%nat ->
  WF (touch_pools s u n) /\ Mono s (touch_pools s u n) /\
  forall u' p' d, pending_total (touch_pools s u n) u' p' d = pending_total s u' p' d.
Proof.
  induction n as [|m IH]; intros s u W Hu; cbn [touch_pools].
  - split; [exact W|]. split; [apply mono_refl|]. reflexivity.
  - destruct (IH s u W Hu) as (W1 & M1 & P1). set (s1 := touch_pools s u m) in *.
    assert (Hu1 : (u < nu s1)%nat) by (rewrite (m_nu _ _ M1); exact Hu).
    destruct (checkpoint0_spec s1 u m W1 Hu1) as [W2 M2].
    split; [exact W2|]. split; [eapply mono_trans; eauto|].
    intros u' p' d. rewrite <- P1.
    pose proof (w_bal s1 W1 u m). pose proof (w_tot s1 W1 m).
    destruct (balchange_spec s1 u m (bal s1 u m) (tot s1 m) W1 Hu1 ltac:(lia) ltac:(lia))
      as (_ & _ & _ & _ & _ & _ & _ & _ & _ & PT & _).
    rewrite <- (PT u' p' d). unfold pending_total. cbn [checkpoint set_bal_tot acc bal pend debt].
    rewrite !Nat.eqb_refl.
    destruct (Nat.eqb_spec u' u) as [->|]; [destruct (Nat.eqb_spec p' m) as [->|]|]; cbn [andb]; reflexivity.
Qed.

Lemma touch_spec s u s' : WF s -> touch s u = Ok s' ->
  WF s' /\ Mono s s' /\ forall u' p' d, pending_total s' u' p' d = pending_total s u' p' d.
Proof.
  intros W H. unfold touch in H. destruct (negb (u <? nu s)%nat) eqn:G; [discriminate|].
  apply negb_false_iff in G. apply Nat.ltb_lt in G. inversion H; subst. apply touch_pools_spec; assumption.
Qed.

(* ------------------------------------------------------------------ transfer lemmas (pointwise, no record eta needed) *)

Lemma wf_transfer s s' : WF s -> nu s' = nu s ->
  (forall u p, bal s' u p = bal s u p) -> (forall p, tot s' p = tot s p) ->
  (forall u p d, pend s' u p d = pend s u p d) -> (forall u p d, debt s' u p d = debt s u p d) ->
  (forall p d, acc s p d <= acc s' p d) ->
  (forall p d, is_rden s' p d = false -> acc s' p d = 0) ->
  (forall i, In i (incs s') -> In i (incs s)) -> WF s'.
Proof.
  intros W En Eb Et Ep Ed Ha Hr Hi. constructor.
  - intros. rewrite Eb. apply W.
  - intros p. rewrite Et, En. erewrite sumn_ext; [apply (w_tot s W p)|]. intros; apply Eb.
  - intros p d. pose proof (w_acc s W p d). specialize (Ha p d). lia.
  - intros. rewrite Ep. apply W.
  - intros u p d. rewrite Ed, Eb. pose proof (w_debt s W u p d). pose proof (w_bal s W u p). specialize (Ha p d). nia.
  - exact Hr.
  - intros i Hin. apply (w_incs s W). apply Hi. exact Hin.
Qed.

Lemma owed_transfer s s' d p dl : nu s' = nu s -> np s' = np s -> (p < np s)%nat ->
  (forall u p, bal s' u p = bal s u p) ->
  (forall u p d, pend s' u p d = pend s u p d) -> (forall u p d, debt s' u p d = debt s u p d) ->
  (forall p', acc s' p' d = acc s p' d + (if Nat.eqb p' p then dl else 0)) ->
  owed s' d = owed s d + dl * sumn (nu s) (fun u => bal s u p).
Proof.
  intros En Em Hp Eb Ep Ed Ea. unfold owed. rewrite En, Em.
  rewrite (sumn_point (np s) (fun p0 => sumn (nu s) (fun u => term s d p0 u)) _ p (- (dl * sumn (nu s) (fun u => bal s u p))) Hp); [lia| |].
  - rewrite <- sumn_scale. replace (sumn (nu s) (fun u => term s d p u) - - sumn (nu s) (fun i => dl * bal s i p))
      with (sumn (nu s) (fun u => term s d p u) + sumn (nu s) (fun i => dl * bal s i p)) by lia.
    rewrite <- sumn_add. apply sumn_ext. intros u _. unfold term. rewrite Ep, Ed, Eb, Ea, Nat.eqb_refl. ring.
  - intros i Hi. apply sumn_ext. intros u _. unfold term. rewrite Ep, Ed, Eb, Ea.
    destruct (Nat.eqb_spec i p); [contradiction|]. ring.
Qed.

Lemma owed_same s s' d : nu s' = nu s -> np s' = np s ->
  (forall u p, bal s' u p = bal s u p) ->
  (forall u p, pend s' u p d = pend s u p d) -> (forall u p, debt s' u p d = debt s u p d) ->
  (forall p', acc s' p' d = acc s p' d) -> owed s' d = owed s d.
Proof.
  intros En Em Eb Ep Ed Ea. unfold owed. rewrite En, Em. apply sumn_ext. intros p _. apply sumn_ext. intros u _.
  unfold term. rewrite Ep, Ed, Eb, Ea. reflexivity.
Qed.

(* everything but acc (and chef) is literally the same *)
Record SameBook (s s' : state) : Prop := mkSB {
  sb_nu : nu s' = nu s; sb_np : np s' = np s; sb_tot : tot s' = tot s; sb_bal : bal s' = bal s;
  sb_pend : pend s' = pend s; sb_debt : debt s' = debt s; sb_incs : incs s' = incs s;
  sb_h : height s' = height s; sb_id : nextid s' = nextid s }.

Lemma sb_refl s : SameBook s s. Proof. constructor; reflexivity. Qed.
Lemma sb_trans a b c : SameBook a b -> SameBook b c -> SameBook a c.
Proof. intros [] []. constructor; congruence. Qed.

Lemma credit_spec s p d c : WF s -> 0 <= c ->
  let s' := credit s p d c in
  SameBook s s' /\ chef s' = chef s /\ xden s' = xden s /\
  exists dl, 0 <= dl /\ dl * tot s p <= c * (ONE * ONE) /\
    forall p' d', acc s' p' d' = acc s p' d' + (if Nat.eqb p' p && Nat.eqb d' d then dl else 0).
Proof.
  intros W Hc s'. unfold s', credit. destruct (tot s p =? 0) eqn:T.
  - split; [apply sb_refl|]. split; [reflexivity|]. split; [reflexivity|]. exists 0. apply Z.eqb_eq in T. rewrite T.
    split; [lia|]. split; [pose proof ONE_pos; nia|]. intros. destruct (_ && _); lia.
  - apply Z.eqb_neq in T. pose proof (wf_tot_nonneg s p W).
    split; [constructor; reflexivity|]. split; [reflexivity|]. split; [reflexivity|].
    exists (dquo_int (dec_of_int (c * ONE)) (tot s p)). unfold dquo_int, dec_of_int. pose proof ONE_pos.
    assert (N : 0 <= c * ONE * PREC) by (unfold ONE in *; nia).
    rewrite Z.quot_div_nonneg by lia.
    split; [apply Z.div_pos; lia|]. split.
    + pose proof (Z.mul_div_le (c * ONE * PREC) (tot s p) ltac:(lia)). unfold ONE in *. lia.
    + intros p' d'. cbn [set_acc acc]. destruct (Nat.eqb p' p && Nat.eqb d' d); lia.
Qed.

Lemma credit_inv s p d c : WF s -> 0 <= c -> (p < np s)%nat ->
  let s' := credit s p d c in
  (forall xd, (forall p' d', is_rden s p' d' = true -> (Nat.eqb d' USDC || memn d' (xd p')) = true) ->
              (Nat.eqb d USDC || memn d (xd p)) = true ->
              WF (set_xden s' xd)) /\
  (forall d', owed s' d' <= owed s d' + (if Nat.eqb d' d then c * (ONE * ONE) else 0)).
Proof.
  intros W Hc Hp s'. destruct (credit_spec s p d c W Hc) as (SB & Ec & Ex & dl & D0 & D1 & Da). fold s' in SB, Ec, Ex, Da.
  destruct SB as [E1 E2 E3 E4 E5 E6 E7 E8 E9]. split.
  - intros xd Hx Hd.
    assert (A1 : forall p' d', acc s p' d' <= acc (set_xden s' xd) p' d').
    { intros p' d'. cbn [set_xden acc]. rewrite Da. destruct (_ && _); lia. }
    assert (A2 : forall p' d', is_rden (set_xden s' xd) p' d' = false -> acc (set_xden s' xd) p' d' = 0).
    { intros p' d' R. unfold is_rden in R. cbn [set_xden xden] in R. cbn [set_xden acc]. rewrite Da.
      destruct (Nat.eqb_spec p' p) as [->|Np]; [destruct (Nat.eqb_spec d' d) as [->|Nd]|]; cbn [andb].
      * rewrite Hd in R. discriminate.
      * rewrite (w_rden s W p d'); [lia|]. destruct (is_rden s p d') eqn:R2; [|reflexivity]. rewrite (Hx p d' R2) in R. discriminate.
      * rewrite (w_rden s W p' d'); [lia|]. destruct (is_rden s p' d') eqn:R2; [|reflexivity]. rewrite (Hx p' d' R2) in R. discriminate. }
    apply (wf_transfer s (set_xden s' xd) W); cbn [set_xden nu bal tot pend debt incs]; auto; intros; congruence.
  - intros d'. destruct (Nat.eqb_spec d' d) as [->|Nd].
    + rewrite (owed_transfer s s' d p dl E1 E2 Hp); try (intros; congruence).
      * pose proof (w_tot s W p). nia.
      * intros p'. rewrite Da, Nat.eqb_refl, andb_true_r. reflexivity.
    + rewrite (owed_same s s' d' E1 E2); try (intros; congruence); [lia|].
      intros p'. rewrite Da. destruct (Nat.eqb_spec d' d); [contradiction|]. rewrite andb_false_r. lia.
Qed.

Lemma wf_set_xden_same s : WF s -> forall xd, (forall p d, memn d (xd p) = memn d (xden s p)) -> WF (set_xden s xd).
Proof.
  intros W xd H.
  assert (A2 : forall p d, is_rden (set_xden s xd) p d = false -> acc (set_xden s xd) p d = 0).
  { intros p d R. unfold is_rden in R. cbn [set_xden xden] in R. rewrite H in R. apply (w_rden s W p d R). }
  apply (wf_transfer s _ W); cbn [set_xden nu bal tot pend debt acc incs]; auto; intros; lia.
Qed.

(* crediting uusdc keeps WF without touching xden *)
Lemma credit_usdc_wf s p c : WF s -> 0 <= c -> WF (credit s p USDC c).
Proof.
  intros W Hc. destruct (credit_spec s p USDC c W Hc) as (SB & Ec & Ex & dl & D0 & D1 & Da).
  destruct SB as [E1 E2 E3 E4 E5 E6 E7 E8 E9].
  assert (A1 : forall p' d', acc s p' d' <= acc (credit s p USDC c) p' d').
  { intros p' d'. rewrite Da. destruct (_ && _); lia. }
  assert (A2 : forall p' d', is_rden (credit s p USDC c) p' d' = false -> acc (credit s p USDC c) p' d' = 0).
  { intros p' d' R. unfold is_rden in R. rewrite Ex in R. rewrite Da.
    destruct (Nat.eqb d' USDC) eqn:Ed; [cbn in R; discriminate|]. rewrite andb_false_r.
    rewrite (w_rden s W p' d'); [lia|]. unfold is_rden. rewrite Ed. exact R. }
  apply (wf_transfer s _ W); auto; intros; congruence.
Qed.

(* ------------------------------------------------------------------ the collectors only move the module's money *)

Record ChefOnly (s s' : state) : Prop := mkCO { co_sb : SameBook s s'; co_acc : acc s' = acc s; co_xden : xden s' = xden s }.

Lemma co_refl s : ChefOnly s s. Proof. constructor; [apply sb_refl|reflexivity|reflexivity]. Qed.
Lemma co_trans a b c : ChefOnly a b -> ChefOnly b c -> ChefOnly a c.
Proof. intros [A1 A2 A3] [B1 B2 B3]. constructor; [eapply sb_trans; eauto|congruence|congruence]. Qed.
Lemma co_set_chef s f : ChefOnly s (set_chef s f).
Proof. constructor; [constructor|..]; reflexivity. Qed.

Lemma co_wf s s' : ChefOnly s s' -> WF s -> WF s'.
Proof.
  intros [[E1 E2 E3 E4 E5 E6 E7 E8 E9] Ea Ex] W.
  assert (A2 : forall p d, is_rden s' p d = false -> acc s' p d = 0).
  { intros p d R. unfold is_rden in R. rewrite Ex in R. rewrite Ea. apply (w_rden s W p d R). }
  apply (wf_transfer s _ W); auto; try (intros; congruence). intros p d. rewrite Ea. lia.
Qed.

Lemma co_owed s s' d : ChefOnly s s' -> owed s' d = owed s d.
Proof. intros [[E1 E2 E3 E4 E5 E6 E7 E8 E9] Ea Ex]. apply owed_same; intros; congruence. Qed.

Lemma pay_spec s d a s' : pay s d a = Ok s' ->
  ChefOnly s s' /\ forall d', chef s' d' = chef s d' - (if Nat.eqb d' d then a else 0).
Proof.
  unfold pay. destruct (chef s d <? a); [discriminate|]. intros H; inversion H; subst.
  split; [apply co_set_chef|]. intros d'. cbn [set_chef chef]. unfold addc. destruct (Nat.eqb d' d); lia.
Qed.

Lemma pay_all_spec l : forall s s', pay_all s l = Ok s' ->
  ChefOnly s s' /\ forall d', chef s' d' = chef s d' - coin_amt l d'.
Proof.
  induction l as [|[d a] r IH]; intros s s' H; cbn in H.
  - inversion H; subst. split; [apply co_refl|]. intros; cbn; lia.
  - destruct (pay s d a) as [s1| |] eqn:E; cbn in H; try discriminate.
    destruct (pay_spec s d a s1 E) as [C1 F1]. destruct (IH s1 s' H) as [C2 F2].
    split; [eapply co_trans; eauto|]. intros d'. rewrite F2, F1. cbn [coin_amt fold_right].
    fold (coin_amt r d'). destruct (Nat.eqb d' d) eqn:Q; rewrite Nat.eqb_sym in Q; rewrite Q; lia.
Qed.

Lemma recv_all_spec l : forall s, ChefOnly s (recv_all s l) /\ forall d', chef (recv_all s l) d' = chef s d' + coin_amt l d'.
Proof.
  induction l as [|[d a] r IH]; intros s; cbn [recv_all].
  - split; [apply co_refl|]. intros; cbn; lia.
  - destruct (IH (set_chef s (addc (chef s) d a))) as [C F]. split; [eapply co_trans; [apply co_set_chef|exact C]|].
    intros d'. rewrite F. cbn [set_chef chef coin_amt fold_right]. fold (coin_amt r d'). unfold addc.
    destruct (Nat.eqb d' d) eqn:Q; rewrite Nat.eqb_sym in Q; rewrite Q; lia.
Qed.

Lemma collect_gas_spec P s G s' gD : collect_gas P s G = (s', gD) ->
  ChefOnly s s' /\ gD = G * p_lp P /\ forall d, chef s' d = chef s d + (if Nat.eqb d USDC then trunc_int gD else 0).
Proof.
  unfold collect_gas. destruct (G =? 0) eqn:Z0; intros H; inversion H; subst; clear H.
  - apply Z.eqb_eq in Z0. subst. split; [apply co_refl|]. split; [lia|]. intros d. destruct (Nat.eqb d USDC); cbn; lia.
  - split; [apply co_set_chef|]. split; [apply portion_dec_exact|]. intros d. cbn [set_chef chef]. unfold addc.
    destruct (Nat.eqb d USDC); lia.
Qed.

Lemma collect_perp_co fx P s Q s' qD : collect_perp fx P s Q = Ok (s', qD) -> ChefOnly s s' /\ qD = Q * p_lp P.
Proof.
  unfold collect_perp. destruct (Q =? 0) eqn:Z0.
  - intros H; inversion H; subst. apply Z.eqb_eq in Z0. subst. split; [apply co_refl|lia].
  - destruct (_ <? 0); [discriminate|].
    set (s1 := set_chef s _).
    destruct (if (0 <? portion_dec Q (p_st P)) && negb (fx_perp fx) then pay s1 USDC (trunc_int (portion_dec Q (p_st P))) else Ok s1)
      as [s2| |] eqn:E2; cbn [bind]; try discriminate.
    assert (C2 : ChefOnly s s2).
    { destruct ((0 <? portion_dec Q (p_st P)) && negb (fx_perp fx)).
      - apply pay_spec in E2. destruct E2 as [C _]. eapply co_trans; [apply co_set_chef|exact C].
      - inversion E2; subst. apply co_set_chef. }
    destruct (0 <? trunc_int _).
    + destruct (_ <? 0); [discriminate|].
      destruct (if fx_perp fx then Ok s2 else pay s2 USDC _) as [s3| |] eqn:E3; cbn [bind]; try discriminate.
      intros H; inversion H; subst. split; [|apply portion_dec_exact].
      destruct (fx_perp fx); [inversion E3; subst; exact C2|]. apply pay_spec in E3. destruct E3 as [C _]. eapply co_trans; eauto.
    + intros H; inversion H; subst. split; [exact C2|apply portion_dec_exact].
Qed.

Lemma collect_perp_fixed fx P s Q s' qD : fx_perp fx = true -> collect_perp fx P s Q = Ok (s', qD) ->
  forall d, chef s' d = chef s d + (if Nat.eqb d USDC then trunc_int qD else 0).
Proof.
  intros F. unfold collect_perp. rewrite F. destruct (Q =? 0) eqn:Z0.
  - intros H; inversion H; subst. intros d. destruct (Nat.eqb d USDC); cbn; lia.
  - destruct (_ <? 0); [discriminate|]. rewrite andb_false_r. cbn [bind negb].
    assert (E : forall d, chef (set_chef s (addc (chef s) USDC (trunc_int (portion_dec Q (p_lp P))))) d =
                          chef s d + (if Nat.eqb d USDC then trunc_int (portion_dec Q (p_lp P)) else 0)).
    { intros d. cbn [set_chef chef]. unfold addc. destruct (Nat.eqb d USDC); lia. }
    destruct (0 <? trunc_int _).
    + destruct (_ <? 0); [discriminate|]. intros H; inversion H; subst. exact E.
    + intros H; inversion H; subst. exact E.
Qed.

Lemma coin_amt_zero l d : (forall d' a, In (d', a) l -> 0 <= a) -> existsb (fun '(_, a) => 0 <? a) l = false -> coin_amt l d = 0.
Proof.
  induction l as [|[d' a] r IH]; intros Hn H; cbn in *; [reflexivity|].
  apply orb_false_elim in H. destruct H as [H1 H2]. apply Z.ltb_ge in H1.
  specialize (Hn d' a (or_introl eq_refl)) as Ha.
  fold (coin_amt r d). rewrite IH; [destruct (Nat.eqb d' d); lia| |exact H2].
  intros x y Hin. apply (Hn x y). right. exact Hin.
Qed.

Lemma split_bounds P a : wf_params P -> 0 <= a ->
  0 <= st_coin P a /\ 0 <= pr_coin P a /\ (a - st_coin P a - pr_coin P a) * PREC >= a * p_lp P.
Proof.
  intros (L0 & S0 & LS & _) Ha. unfold st_coin, pr_coin. rewrite !portion_dec_exact. unfold dec_of_int.
  destruct (trunc_int_bounds (a * p_st P) ltac:(nia)) as [A1 A2].
  destruct (trunc_int_bounds (a * PREC - a * p_lp P - a * p_st P) ltac:(nia)) as [B1 B2].
  split; [exact A1|]. split; [exact B1|]. lia.
Qed.

Definition keep (P : params) (rev : list (nat * Z)) (d : nat) : Z :=
  coin_amt rev d - coin_amt (map (fun '(d, a) => (d, st_coin P a)) rev) d - coin_amt (map (fun '(d, a) => (d, pr_coin P a)) rev) d.

Lemma keep_bounds P rev d : wf_params P -> (forall d' a, In (d', a) rev -> 0 <= a) ->
  0 <= keep P rev d /\ keep P rev d * PREC >= coin_amt rev d * p_lp P /\ 0 <= coin_amt rev d.
Proof.
  intros WP. unfold keep. induction rev as [|[d' a] r IH]; intros Hn; cbn [map coin_amt fold_right]; [lia|].
  fold (coin_amt r d). fold (coin_amt (map (fun '(d, a) => (d, st_coin P a)) r) d). fold (coin_amt (map (fun '(d, a) => (d, pr_coin P a)) r) d).
  destruct IH as (I1 & I2 & I3); [intros x y Hin; apply (Hn x y); right; exact Hin|].
  destruct (split_bounds P a WP (Hn d' a (or_introl eq_refl))) as (S1 & S2 & S3).
  pose proof (Hn d' a (or_introl eq_refl)). destruct WP as (L0 & _). pose proof PREC_pos.
  destruct (Nat.eqb d' d); [|lia]. split; [nia|]. split; nia.
Qed.

Lemma coin_amt_map_nonneg (f : Z -> Z) (rev : list (nat * Z)) : (forall d a, In (d, a) rev -> 0 <= f a) ->
  forall d' a, In (d', a) (map (fun '(d, a) => (d, f a)) rev) -> 0 <= a.
Proof.
  intros Hf d' a Hin. apply in_map_iff in Hin. destruct Hin as ([x y] & E & Hxy). inversion E; subst. eapply Hf; eauto.
Qed.

Lemma coin_amt_sub (f g : Z -> Z) (rev : list (nat * Z)) d :
  coin_amt (map (fun '(d, a) => (d, f a - g a)) rev) d =
  coin_amt (map (fun '(d, a) => (d, f a)) rev) d - coin_amt (map (fun '(d, a) => (d, g a)) rev) d.
Proof.
  induction rev as [|[d' a] r IH]; cbn [map coin_amt fold_right]; [reflexivity|].
  fold (coin_amt (map (fun '(d, a) => (d, f a - g a)) r) d). fold (coin_amt (map (fun '(d, a) => (d, f a)) r) d).
  fold (coin_amt (map (fun '(d, a) => (d, g a)) r) d). rewrite IH. destruct (Nat.eqb d' d); lia.
Qed.

Lemma collect_dex_pool_co fx P s rev s' : collect_dex_pool fx P s rev = Ok s' -> ChefOnly s s'.
Proof.
  unfold collect_dex_pool. destruct (recv_all_spec rev s) as [C1 _].
  set (s1 := recv_all s rev) in *.
  set (sts := map (fun '(d, a) => (d, st_coin P a)) rev). set (prs := map (fun '(d, a) => (d, pr_coin P a)) rev).
  set (g1 := existsb (fun '(_, a) => 0 <? a) sts). set (g2 := existsb (fun '(_, a) => 0 <? a) prs).
  destruct (if g1 then pay_all s1 sts else Ok s1) as [s2| |] eqn:E2; cbn [bind]; try discriminate.
  assert (C2 : ChefOnly s s2).
  { destruct g1; [apply pay_all_spec in E2; destruct E2 as [C _]; eapply co_trans; eauto|inversion E2; subst; exact C1]. }
  destruct g2; [|intros H; inversion H; subst; exact C2].
  set (g3 := existsb _ _). destruct g3; [discriminate|].
  destruct (pay_all s2 _) as [s3| |] eqn:E3; cbn [bind]; try discriminate.
  intros E4. apply pay_all_spec in E3, E4. destruct E3 as [C3 _], E4 as [C4 _].
  eapply co_trans; [exact C2|]. eapply co_trans; eauto.
Qed.

Lemma collect_dex_pool_fixed fx P s rev s' : fx_dex fx = true -> wf_params P ->
  (forall d a, In (d, a) rev -> 0 <= a) ->
  collect_dex_pool fx P s rev = Ok s' -> forall d, chef s' d = chef s d + keep P rev d.
Proof.
  intros F WP Hn. unfold collect_dex_pool. rewrite F. destruct (recv_all_spec rev s) as [_ F1].
  set (s1 := recv_all s rev) in *.
  set (sts := map (fun '(d, a) => (d, st_coin P a)) rev). set (prs := map (fun '(d, a) => (d, pr_coin P a)) rev).
  assert (Nst : forall d' a, In (d', a) sts -> 0 <= a).
  { apply coin_amt_map_nonneg. intros d a Hin. apply (split_bounds P a WP (Hn d a Hin)). }
  assert (Npr : forall d' a, In (d', a) prs -> 0 <= a).
  { apply coin_amt_map_nonneg. intros d a Hin. apply (split_bounds P a WP (Hn d a Hin)). }
  destruct (existsb (fun '(_, a) => 0 <? a) sts) eqn:X1.
  all: destruct (existsb (fun '(_, a) => 0 <? a) prs) eqn:X.
  all: match goal with |- (do s2 <- ?e; _) = _ -> _ => destruct e as [s2| |] eqn:E2; cbn [bind]; try discriminate end.
  all: assert (F2 : forall d, chef s2 d = chef s1 d - coin_amt sts d)
         by (first [ apply pay_all_spec in E2; apply E2
                   | inversion E2; subst; intros d; rewrite (coin_amt_zero sts d Nst X1); lia ]).
  1,3: set (g3 := existsb _ _); destruct g3; [discriminate|].
  1,2: destruct (pay_all s2 _) as [s3| |] eqn:E3; cbn [bind]; try discriminate.
  1,2: intros E4; apply pay_all_spec in E3, E4; destruct E3 as [_ F3], E4 as [_ F4];
       intros d; rewrite F4, F3, F2, F1; unfold keep; fold sts prs;
       rewrite (coin_amt_sub (pr_coin P) (fun a => portion_coin (pr_coin P a) (p_prov P)) rev d); fold prs; lia.
  all: intros H; inversion H; subst; intros d; rewrite F2, F1; unfold keep; fold sts prs;
       rewrite (coin_amt_zero prs d Npr X); lia.
Qed.


Definition sum_keep (P : params) (l : list pinp) (d : nat) : Z := fold_right (fun pi x => keep P (pi_rev pi) d + x) 0 l.
Definition sum_dex (P : params) (l : list pinp) : Z := fold_right (fun pi x => coin_amt (pi_rev pi) USDC * p_lp P + x) 0 l.
Definition revs_ok (l : list pinp) : Prop := forall pi d a, In pi l -> In (d, a) (pi_rev pi) -> 0 <= a.

Lemma collect_dex_co fx P l : forall s s', collect_dex fx P s l = Ok s' -> ChefOnly s s'.
Proof.
  induction l as [|pi r IH]; intros s s' H; cbn in H; [inversion H; subst; apply co_refl|].
  destruct (collect_dex_pool fx P s (pi_rev pi)) as [s1| |] eqn:E; cbn in H; try discriminate.
  eapply co_trans; [eapply collect_dex_pool_co; eauto|eapply IH; eauto].
Qed.

Lemma collect_dex_fixed fx P l : fx_dex fx = true -> wf_params P -> revs_ok l ->
  forall s s', collect_dex fx P s l = Ok s' -> forall d, chef s' d = chef s d + sum_keep P l d.
Proof.
  intros F WP. induction l as [|pi r IH]; intros RO s s' H d; cbn in H; [inversion H; subst; cbn; lia|].
  destruct (collect_dex_pool fx P s (pi_rev pi)) as [s1| |] eqn:E; cbn in H; try discriminate.
  rewrite (IH (fun pi' d' a Hin => RO pi' d' a (or_intror Hin)) s1 s' H d).
  rewrite (collect_dex_pool_fixed fx P s (pi_rev pi) s1 F WP (fun d' a => RO pi d' a (or_introl eq_refl)) E d).
  cbn [sum_keep fold_right]. fold (sum_keep P r d). lia.
Qed.

Lemma sum_keep_bounds P l d : wf_params P -> revs_ok l -> 0 <= sum_keep P l d.
Proof.
  intros WP. induction l as [|pi r IH]; intros RO; cbn; [lia|]. fold (sum_keep P r d).
  pose proof (IH (fun pi' d' a Hin => RO pi' d' a (or_intror Hin))).
  destruct (keep_bounds P (pi_rev pi) d WP (fun d' a => RO pi d' a (or_introl eq_refl))) as (K1 & _). lia.
Qed.

Lemma sum_keep_dex P l : wf_params P -> revs_ok l -> sum_keep P l USDC * PREC >= sum_dex P l /\ 0 <= sum_dex P l.
Proof.
  intros WP. induction l as [|pi r IH]; intros RO; cbn; [lia|]. fold (sum_keep P r USDC). fold (sum_dex P r).
  destruct (IH (fun pi' d' a Hin => RO pi' d' a (or_intror Hin))) as [I1 I2].
  destruct (keep_bounds P (pi_rev pi) USDC WP (fun d' a => RO pi d' a (or_introl eq_refl))) as (K1 & K2 & K3).
  destruct WP as (L0 & _). split; nia.
Qed.

(* ------------------------------------------------------------------ the distribution loop *)

Definition sum_credit (fx : fixes) (P : params) (total gasD : Z) (l : list pinp) : Z :=
  fold_right (fun pi x => pool_credit fx P total gasD pi + x) 0 l.
Definition ptvls_ok (l : list pinp) : Prop := forall pi, In pi l -> 0 <= pi_ptvl pi.

Lemma chop_round_nn d : 0 <= d -> 0 <= chop_round d.
Proof. intros H. apply chop_round_bounds. exact H. Qed.

Lemma quot_nn a b : 0 <= a -> 0 <= b -> 0 <= Z.quot a b.
Proof. intros. destruct (Z.eq_dec b 0) as [->|]; [rewrite Z.quot_0_r_ext by reflexivity; lia|apply Z.quot_pos; lia]. Qed.

Lemma pool_credit_nn fx P total gasD pi : wf_params P -> 0 <= gasD -> 0 <= pi_ptvl pi ->
  (forall d a, In (d, a) (pi_rev pi) -> 0 <= a) -> 0 <= pool_credit fx P total gasD pi.
Proof.
  intros WP Hg Hp Hr. unfold pool_credit. pose proof PREC_pos.
  set (share := if 0 <? total then _ else 0).
  assert (Hs : 0 <= share).
  { unfold share. destruct (0 <? total) eqn:T; [|lia]. apply Z.ltb_lt in T.
    destruct (fx_round fx); unfold dquo_trunc, dquo; [apply quot_nn; nia|apply chop_round_nn; apply quot_nn; nia]. }
  assert (Hgp : 0 <= (if fx_round fx then dmul_trunc share gasD else dmul share gasD)).
  { destruct (fx_round fx); unfold dmul_trunc, dmul, chop_trunc; [apply quot_nn; nia|apply chop_round_nn; nia]. }
  rewrite portion_dec_exact.
  destruct (keep_bounds P (pi_rev pi) USDC WP Hr) as (_ & _ & K3). destruct WP as (L0 & _).
  apply trunc_int_bounds. nia.
Qed.

Lemma distribute_spec fx P total gasD l : wf_params P -> 0 <= gasD -> ptvls_ok l -> revs_ok l ->
  forall s, WF s ->
  let s' := distribute fx P total gasD s l in
  WF s' /\ SameBook s s' /\ chef s' = chef s /\ xden s' = xden s /\
  forall d, owed s' d <= owed s d + (if Nat.eqb d USDC then sum_credit fx P total gasD l * (ONE * ONE) else 0).
Proof.
  intros WP Hg. induction l as [|pi r IH]; intros PO RO s W; cbn [distribute].
  - split; [exact W|]. split; [apply sb_refl|]. split; [reflexivity|]. split; [reflexivity|]. intros d. cbn. destruct (Nat.eqb d USDC); lia.
  - set (c := pool_credit fx P total gasD pi).
    assert (Hc : 0 <= c) by (apply pool_credit_nn; auto; [apply PO; left; reflexivity|intros d a; apply (RO pi d a); left; reflexivity]).
    set (s1 := if (pi_ptvl pi =? 0) || negb (pi_pool pi <? np s)%nat then s else credit s (pi_pool pi) USDC c).
    assert (H1 : WF s1 /\ SameBook s s1 /\ chef s1 = chef s /\ xden s1 = xden s /\
                 forall d, owed s1 d <= owed s d + (if Nat.eqb d USDC then c * (ONE * ONE) else 0)).
    { unfold s1. destruct ((pi_ptvl pi =? 0) || negb (pi_pool pi <? np s)%nat) eqn:G.
      - split; [exact W|]. split; [apply sb_refl|]. split; [reflexivity|]. split; [reflexivity|].
        intros d. pose proof ONE_pos. destruct (Nat.eqb d USDC); nia.
      - apply orb_false_elim in G. destruct G as [_ G]. apply negb_false_iff in G. apply Nat.ltb_lt in G.
        split; [apply credit_usdc_wf; auto|].
        destruct (credit_spec s (pi_pool pi) USDC c W Hc) as (SB & Ec & Ex & _).
        split; [exact SB|]. split; [exact Ec|]. split; [exact Ex|].
        apply (credit_inv s (pi_pool pi) USDC c W Hc G). }
    destruct H1 as (W1 & SB1 & C1 & X1 & O1).
    destruct (IH (fun pi' Hin => PO pi' (or_intror Hin)) (fun pi' d' a Hin => RO pi' d' a (or_intror Hin)) s1 W1) as (W2 & SB2 & C2 & X2 & O2).
    assert (Enp : np s1 = np s) by apply SB1.
    split; [exact W2|]. split; [eapply sb_trans; eauto|]. split; [congruence|]. split; [congruence|].
    intros d. specialize (O1 d). specialize (O2 d). cbn [sum_credit fold_right]. fold (sum_credit fx P total gasD r). fold c.
    destruct (Nat.eqb d USDC); lia.
Qed.

(* the arithmetic of the repaired credit: shares are truncated, the gas amount is an integer number of coins *)
Definition sum_share (total : Z) (l : list pinp) : Z :=
  fold_right (fun pi x => (if 0 <? total then dquo_trunc (pi_ptvl pi) total else 0) + x) 0 l.

Lemma sum_share_bound total l : ptvls_ok l -> 0 <= sum_share total l /\ sum_share total l * total <= PREC * sum_ptvl l.
Proof.
  pose proof PREC_pos. induction l as [|pi r IH]; intros PO; cbn [sum_share sum_ptvl fold_right]; [lia|]. fold (sum_share total r). fold (sum_ptvl r).
  destruct (IH (fun pi' Hin => PO pi' (or_intror Hin))) as [I1 I2]. pose proof (PO pi (or_introl eq_refl)) as Hp.
  destruct (0 <? total) eqn:T.
  - apply Z.ltb_lt in T. unfold dquo_trunc. rewrite Z.quot_div_nonneg by nia.
    pose proof (Z.mul_div_le (pi_ptvl pi * PREC) total T) as Q1. pose proof (Z.div_pos (pi_ptvl pi * PREC) total ltac:(nia) T) as Q0.
    set (q := pi_ptvl pi * PREC / total) in *. split; [lia|].
    replace ((q + sum_share total r) * total) with (total * q + sum_share total r * total) by ring. lia.
  - apply Z.ltb_ge in T. assert (0 <= sum_ptvl r).
    { clear -PO. induction r as [|x r IH]; cbn [sum_ptvl fold_right]; [lia|]. fold (sum_ptvl r).
      pose proof (PO x (or_intror (or_introl eq_refl))). assert (0 <= sum_ptvl r); [|lia].
      apply IH. intros pi' [E|Hin]; [apply PO; left; exact E|apply PO; right; right; exact Hin]. }
    nia.
Qed.

Lemma sum_credit_fixed fx P total L l : fx_round fx = true -> wf_params P -> 0 <= L -> ptvls_ok l -> revs_ok l ->
  sum_credit fx P total (L * PREC) l * PREC <= L * sum_share total l + sum_dex P l.
Proof.
  intros F WP HL. pose proof PREC_pos. induction l as [|pi r IH]; intros PO RO; cbn [sum_credit sum_share sum_dex fold_right]; [lia|].
  fold (sum_credit fx P total (L * PREC) r). fold (sum_share total r). fold (sum_dex P r).
  specialize (IH (fun pi' Hin => PO pi' (or_intror Hin)) (fun pi' d' a Hin => RO pi' d' a (or_intror Hin))).
  unfold pool_credit. rewrite F. rewrite portion_dec_exact.
  set (share := if 0 <? total then dquo_trunc (pi_ptvl pi) total else 0).
  assert (Hs : 0 <= share).
  { unfold share. destruct (0 <? total) eqn:T; [|lia]. apply Z.ltb_lt in T. unfold dquo_trunc.
    pose proof (PO pi (or_introl eq_refl)). apply quot_nn; nia. }
  assert (E : dmul_trunc share (L * PREC) = share * L).
  { unfold dmul_trunc, chop_trunc. replace (share * (L * PREC)) with (share * L * PREC) by ring. apply Z.quot_mul. lia. }
  rewrite E.
  destruct (keep_bounds P (pi_rev pi) USDC WP (fun d' a => RO pi d' a (or_introl eq_refl))) as (_ & _ & K3).
  destruct WP as (L0 & _).
  destruct (trunc_int_bounds (share * L + coin_amt (pi_rev pi) USDC * p_lp P) ltac:(nia)) as [T0 T1]. lia.
Qed.

(* ------------------------------------------------------------------ external incentives *)

Definition res_list (h : Z) (d : nat) (l : list inc) : Z :=
  fold_right (fun i x => (if Nat.eqb (i_den i) d then i_amt i * inc_rem h i else 0) + x) 0 l.

Lemma reserved_res_list s d : reserved s d = res_list (height s) d (incs s).
Proof. reflexivity. Qed.

Lemma memn_app d l x : memn d (l ++ [x]) = memn d l || Nat.eqb d x.
Proof. unfold memn. rewrite existsb_app. cbn. rewrite orb_false_r. reflexivity. Qed.

Lemma inc_rem_step h i : i_from i < i_to i ->
  inc_rem (h + 1) i = inc_rem h i - (if inc_active h i then 1 else 0) /\ 0 <= inc_rem (h + 1) i /\
  (h = i_to i -> inc_rem (h + 1) i = 0).
Proof.
  intros H. unfold inc_rem, inc_active.
  destruct (i_from i <? h) eqn:A; [apply Z.ltb_lt in A|apply Z.ltb_ge in A];
  (destruct (h <=? i_to i) eqn:B; [apply Z.leb_le in B|apply Z.leb_gt in B]); cbn [andb]; lia.
Qed.

Lemma ext_one_spec s i s1 keep : WF s -> 0 < i_amt i -> i_from i < i_to i -> ext_one s i = (s1, keep) ->
  WF s1 /\ SameBook s s1 /\ chef s1 = chef s /\
  forall d, owed s1 d + (if keep then (if Nat.eqb (i_den i) d then i_amt i * inc_rem (height s + 1) i else 0) else 0) * (ONE * ONE)
            <= owed s d + (if Nat.eqb (i_den i) d then i_amt i * inc_rem (height s) i else 0) * (ONE * ONE).
Proof.
  intros W Ha Hft H. unfold ext_one in H. pose proof ONE_pos.
  destruct (inc_rem_step (height s) i Hft) as (R1 & R2 & R3).
  assert (R0 : 0 <= inc_rem (height s) i) by (unfold inc_rem; apply Z.le_max_l).
  destruct (negb (i_pool i <? np s)%nat) eqn:G.
  - inversion H; subst s1 keep. split; [exact W|]. split; [apply sb_refl|]. split; [reflexivity|].
    intros d. destruct (Nat.eqb (i_den i) d); [|lia]. destruct (inc_active (height s) i); nia.
  - apply negb_false_iff in G. apply Nat.ltb_lt in G. inversion H; subst s1 keep; clear H.
    destruct (inc_active (height s) i) eqn:A.
    + set (s' := credit s (i_pool i) (i_den i) (i_amt i)).
      set (xd := fun p => if Nat.eqb p (i_pool i) && negb (memn (i_den i) (xden s' p)) then xden s' p ++ [i_den i] else xden s' p).
      destruct (credit_spec s (i_pool i) (i_den i) (i_amt i) W ltac:(lia)) as (SB & Ec & Ex & _). fold s' in SB, Ec, Ex.
      destruct (credit_inv s (i_pool i) (i_den i) (i_amt i) W ltac:(lia) G) as [CW CO]. fold s' in CW, CO.
      split; [|split; [|split]].
      * apply CW.
        -- intros p' d' R. unfold is_rden in R. unfold xd. rewrite Ex.
           destruct (Nat.eqb d' USDC); [reflexivity|]. cbn [orb] in *.
           destruct (Nat.eqb p' (i_pool i) && negb (memn (i_den i) (xden s p'))); [rewrite memn_app, R; reflexivity|exact R].
        -- unfold xd. rewrite Ex, Nat.eqb_refl. cbn [andb].
           destruct (memn (i_den i) (xden s (i_pool i))) eqn:M; cbn [negb]; [rewrite M; apply orb_true_r|].
           rewrite memn_app, Nat.eqb_refl, !orb_true_r. reflexivity.
      * destruct SB. constructor; cbn [set_xden nu np tot bal pend debt incs height nextid]; assumption.
      * exact Ec.
      * intros d. assert (E : owed (set_xden s' xd) d = owed s' d) by (apply owed_same; reflexivity).
        rewrite E. specialize (CO d). rewrite (Nat.eqb_sym d (i_den i)) in CO.
        destruct (Nat.eqb (i_den i) d); [|destruct (negb _); lia].
        destruct (height s =? i_to i) eqn:T; cbn [negb].
        -- apply Z.eqb_eq in T. specialize (R3 T). nia.
        -- nia.
    + split; [exact W|]. split; [apply sb_refl|]. split; [reflexivity|].
      intros d. destruct (Nat.eqb (i_den i) d); [|destruct (negb _); lia]. destruct (negb _); nia.
Qed.

Lemma ext_all_spec l : forall s s2 l', WF s -> (forall i, In i l -> 0 < i_amt i /\ i_from i < i_to i) ->
  ext_all s l = (s2, l') ->
  WF s2 /\ SameBook s s2 /\ chef s2 = chef s /\ (forall i, In i l' -> In i l) /\
  forall d, owed s2 d + res_list (height s + 1) d l' * (ONE * ONE) <= owed s d + res_list (height s) d l * (ONE * ONE).
Proof.
  induction l as [|i r IH]; intros s s2 l' W Hl H; cbn [ext_all] in H.
  - inversion H; subst. split; [exact W|]. split; [apply sb_refl|]. split; [reflexivity|]. split; [intros i []|]. intros d. cbn. lia.
  - destruct (ext_one s i) as [s1 keep] eqn:E1. destruct (ext_all s1 r) as [s2' r'] eqn:E2. inversion H; subst s2 l'; clear H.
    destruct (Hl i (or_introl eq_refl)) as [Ha Hft].
    destruct (ext_one_spec s i s1 keep W Ha Hft E1) as (W1 & SB1 & C1 & O1).
    destruct (IH s1 s2' r' W1 (fun j Hj => Hl j (or_intror Hj)) E2) as (W2 & SB2 & C2 & I2 & O2).
    assert (Eh : height s1 = height s) by apply SB1.
    split; [exact W2|]. split; [eapply sb_trans; eauto|]. split; [congruence|]. split.
    + intros j Hj. destruct keep; [destruct Hj as [<-|Hj]; [left; reflexivity|right; apply I2; exact Hj]|right; apply I2; exact Hj].
    + intros d. specialize (O1 d). specialize (O2 d). rewrite Eh in O2. cbn [res_list fold_right].
      fold (res_list (height s) d r). destruct keep; cbn [res_list fold_right]; fold (res_list (height s + 1) d r'); lia.
Qed.

(* ------------------------------------------------------------------ add incentive *)

Lemma res_list_app h d l i : res_list h d (l ++ [i]) = res_list h d l + (if Nat.eqb (i_den i) d then i_amt i * inc_rem h i else 0).
Proof. induction l as [|x r IH]; cbn [app res_list fold_right]; [lia|]. fold (res_list h d (r ++ [i])). fold (res_list h d r). rewrite IH. lia. Qed.

Lemma add_inc_spec s d p from to amt funded s' : WF s -> SOLV s -> add_inc s d p from to amt funded = Ok s' ->
  WF s' /\ SOLV s' /\ nu s' = nu s /\ np s' = np s.
Proof.
  intros W S H. unfold add_inc in H.
  destruct (from <? height s) eqn:A; [discriminate|]. apply Z.ltb_ge in A.
  destruct (to <=? from) eqn:B; [discriminate|]. apply Z.leb_gt in B.
  destruct (amt <=? 0) eqn:C; [discriminate|]. apply Z.leb_gt in C.
  destruct (negb funded); [discriminate|]. inversion H; subst s'; clear H.
  set (s' := mkS _ _ _ _ _ _ _ _ _ _ _ _).
  assert (W' : WF s').
  { assert (A2 : forall p0 d0, is_rden s' p0 d0 = false -> acc s' p0 d0 = 0) by (intros p0 d0 R; apply (w_rden s W p0 d0 R)).
    destruct W as [A1 A3 A4 A5 A6 A7 A8]. constructor; auto.
    intros i Hi. cbn [s' incs] in Hi. apply in_app_or in Hi. destruct Hi as [Hi|[<-|[]]]; [apply A8; exact Hi|cbn; lia]. }
  split; [exact W'|]. split; [|split; reflexivity].
  intros d'. specialize (S d'). unfold surplus in *.
  assert (E : owed s' d' = owed s d') by (apply owed_same; reflexivity). rewrite E.
  rewrite reserved_res_list. cbn [s' incs height chef]. rewrite res_list_app. cbn [i_den i_amt]. rewrite <- reserved_res_list.
  unfold addc, inc_rem. cbn [i_from i_to]. rewrite (Nat.eqb_sym d' d).
  destruct (Nat.eqb d d'); [|lia].
  replace (Z.max 0 (to - Z.max from (height s - 1))) with (to - from) by lia. lia.
Qed.

(* ------------------------------------------------------------------ the end blocker *)

Lemma block_guard b :
  (b_gas b <? 0) || (b_perp b <? 0) || existsb (fun pi => pi_ptvl pi <? 0) (b_pools b)
     || existsb (fun pi => existsb (fun '(_, a) => a <=? 0) (pi_rev pi)) (b_pools b) = false ->
  0 <= b_gas b /\ 0 <= b_perp b /\ ptvls_ok (b_pools b) /\ revs_ok (b_pools b).
Proof.
  intros H. apply orb_false_elim in H. destruct H as [H H4]. apply orb_false_elim in H. destruct H as [H H3].
  apply orb_false_elim in H. destruct H as [H1 H2]. apply Z.ltb_ge in H1, H2.
  split; [exact H1|]. split; [exact H2|]. split.
  - intros pi Hin. destruct (Z_lt_ge_dec (pi_ptvl pi) 0) as [N|N]; [|lia]. exfalso.
    assert (existsb (fun pi => pi_ptvl pi <? 0) (b_pools b) = true); [|congruence].
    apply existsb_exists. exists pi. split; [exact Hin|apply Z.ltb_lt; exact N].
  - intros pi d a Hin Hin2. destruct (Z_lt_ge_dec a 0) as [N|N]; [|lia]. exfalso.
    assert (existsb (fun pi => existsb (fun '(_, a) => a <=? 0) (pi_rev pi)) (b_pools b) = true); [|congruence].
    apply existsb_exists. exists pi. split; [exact Hin|]. apply existsb_exists. exists (d, a). split; [exact Hin2|apply Z.leb_le; lia].
Qed.

Lemma sum_share_zero total l : total <= 0 -> sum_share total l = 0.
Proof.
  intros H. induction l as [|pi r IH]; cbn [sum_share fold_right]; [reflexivity|]. fold (sum_share total r). rewrite IH.
  destruct (0 <? total) eqn:T; [apply Z.ltb_lt in T; lia|reflexivity].
Qed.

Lemma sum_ptvl_nn l : ptvls_ok l -> 0 <= sum_ptvl l.
Proof.
  induction l as [|x r IH]; intros PO; cbn [sum_ptvl fold_right]; [lia|]. fold (sum_ptvl r).
  pose proof (PO x (or_introl eq_refl)). pose proof (IH (fun pi' Hin => PO pi' (or_intror Hin))). lia.
Qed.

(* what every end blocker does, whatever the switches: it never touches balances, pendings or debts,
   keeps WF, and advances the height *)
Record BlockFrame (s s' : state) : Prop := mkBF {
  bf_nu : nu s' = nu s; bf_np : np s' = np s; bf_tot : tot s' = tot s; bf_bal : bal s' = bal s;
  bf_pend : pend s' = pend s; bf_debt : debt s' = debt s; bf_h : height s' = height s + 1 }.

Definition net (s s' : state) (d : nat) : Z :=
  (surplus s' d - reserved s' d * (ONE * ONE)) - (surplus s d - reserved s d * (ONE * ONE)).

Lemma block_spec fx P s b s' : wf_params P -> WF s -> block fx P s b = Ok s' ->
  WF s' /\ BlockFrame s s' /\
  (fx_perp fx = true -> fx_dex fx = true -> fx_round fx = true -> forall d, 0 <= net s s' d).
Proof.
  intros WP W H. unfold block in H.
  destruct (_ || _ || _ || _) eqn:G in H; [discriminate|]. apply block_guard in G. destruct G as (G0 & Q0 & PO & RO).
  destruct (collect_gas P s (b_gas b)) as [s1 gD] eqn:E1.
  destruct (collect_perp fx P s1 (b_perp b)) as [[s2 qD]| |] eqn:E2; cbn [bind] in H; try discriminate.
  destruct (collect_dex fx P s2 (b_pools b)) as [s3| |] eqn:E3; cbn [bind] in H; try discriminate.
  set (gasD := if fx_round fx then trunc_dec gD + trunc_dec qD else gD + qD) in H.
  set (total := sum_ptvl (b_pools b)) in H.
  set (s4 := distribute fx P total gasD s3 (b_pools b)) in H.
  destruct (ext_all s4 (incs s4)) as [s5 incs'] eqn:E5. inversion H; subst s'; clear H.
  destruct (collect_gas_spec P s (b_gas b) s1 gD E1) as (C1 & EgD & F1).
  destruct (collect_perp_co fx P s1 (b_perp b) s2 qD E2) as (C2 & EqD).
  pose proof (collect_dex_co fx P (b_pools b) s2 s3 E3) as C3.
  assert (C13 : ChefOnly s s3) by (eapply co_trans; [exact C1|eapply co_trans; eauto]).
  pose proof (co_wf s s3 C13 W) as W3.
  pose proof WP as (L0 & S0 & LS & PV).
  assert (HgD : 0 <= gD) by (rewrite EgD; nia). assert (HqD : 0 <= qD) by (rewrite EqD; nia).
  assert (Hgas : 0 <= gasD).
  { unfold gasD. destruct (fx_round fx); [|lia]. rewrite !trunc_dec_eq.
    destruct (trunc_int_bounds gD HgD). destruct (trunc_int_bounds qD HqD). pose proof PREC_pos. nia. }
  destruct (distribute_spec fx P total gasD (b_pools b) WP Hgas PO RO s3 W3) as (W4 & SB4 & C4 & X4 & O4). fold s4 in W4, SB4, C4, X4, O4.
  destruct (ext_all_spec (incs s4) s4 s5 incs' W4 (w_incs s4 W4) E5) as (W5 & SB5 & C5 & I5 & O5).
  set (s' := mkS _ _ _ _ _ _ _ _ _ _ _ _).
  destruct C13 as [[A1 A2 A3 A4 A5 A6 A7 A8 A9] Aa Ax]. destruct SB4 as [B1 B2 B3 B4 B5 B6 B7 B8 B9]. destruct SB5 as [D1 D2 D3 D4 D5 D6 D7 D8 D9].
  assert (W' : WF s').
  { assert (R : forall p d, is_rden s' p d = false -> acc s' p d = 0) by (intros p d R; apply (w_rden s5 W5 p d R)).
    apply (wf_transfer s5 s' W5); cbn [s' nu bal tot pend debt acc incs]; auto; try (intros; lia).
    intros i Hi. rewrite D7. apply I5. exact Hi. }
  split; [exact W'|]. split; [constructor; cbn [s' nu np tot bal pend debt height]; congruence|].
  intros Fp Fd Fr d. unfold net, surplus.
  assert (Eo : owed s' d = owed s5 d) by (apply owed_same; reflexivity). rewrite Eo.
  rewrite !reserved_res_list. cbn [s' incs height chef].
  specialize (O5 d). specialize (O4 d). rewrite B7, A7, B8, A8 in O5. rewrite D8, B8, A8.
  assert (Eo3 : owed s3 d = owed s d) by (apply owed_same; intros; congruence). rewrite Eo3 in O4.
  pose proof (collect_perp_fixed fx P s1 (b_perp b) s2 qD Fp E2 d) as F2.
  pose proof (collect_dex_fixed fx P (b_pools b) Fd WP RO s2 s3 E3 d) as F3.
  rewrite C5, C4, F3, F2, F1.
  pose proof (sum_keep_bounds P (b_pools b) d WP RO) as K0. pose proof ONE_pos.
  destruct (Nat.eqb d USDC) eqn:Ud; [|nia].
  apply Nat.eqb_eq in Ud. subst d.
  unfold gasD in O4. rewrite Fr in O4. rewrite !trunc_dec_eq in O4.
  set (Lg := trunc_int gD) in *. set (Lq := trunc_int qD) in *.
  destruct (trunc_int_bounds gD HgD) as [Lg0 _]. destruct (trunc_int_bounds qD HqD) as [Lq0 _]. fold Lg in Lg0. fold Lq in Lq0.
  replace (Lg * PREC + Lq * PREC) with ((Lg + Lq) * PREC) in O4 by ring.
  pose proof (sum_credit_fixed fx P total (Lg + Lq) (b_pools b) Fr WP ltac:(lia) PO RO) as SC.
  destruct (sum_keep_dex P (b_pools b) WP RO) as [KD KD0].
  destruct (sum_share_bound total (b_pools b) PO) as [SS0 SS1]. fold total in SS1.
  assert (SS : sum_share total (b_pools b) <= PREC).
  { pose proof (sum_ptvl_nn (b_pools b) PO) as T0. fold total in T0. pose proof PREC_pos.
    destruct (Z.eq_dec total 0) as [Z0|NZ]; [rewrite sum_share_zero by lia; lia|nia]. }
  set (SCv := sum_credit fx P total ((Lg + Lq) * PREC) (b_pools b)) in *.
  assert (SCb : SCv <= Lg + Lq + sum_keep P (b_pools b) USDC) by (pose proof PREC_pos; nia).
  nia.
Qed.

(* ------------------------------------------------------------------ all histories *)

Definition fixed_sites (fx : fixes) : Prop := fx_perp fx = true /\ fx_dex fx = true /\ fx_round fx = true.
Definition INV (s : state) : Prop := WF s /\ SOLV s.

Lemma step_wf fx P s o s' : wf_params P -> WF s -> step fx P s o = Ok s' -> WF s' /\ nu s' = nu s /\ np s' = np s.
Proof.
  intros WP W H. destruct o as [u p a|u p a|u ps|u|d p f t a fd|b]; cbn [step] in H.
  - destruct (deposit_spec s u p a s' W H) as (W' & M & _). split; [exact W'|]. split; apply M.
  - destruct (withdraw_spec fx s u p a s' W H) as (W' & M & _). split; [exact W'|]. split; apply M.
  - destruct (claim_spec s u ps s' W H) as (W' & M). split; [exact W'|]. split; apply M.
  - destruct (touch_spec s u s' W H) as (W' & M & _). split; [exact W'|]. split; apply M.
  - unfold add_inc in H.
    destruct (f <? height s); [discriminate|]. destruct (t <=? f) eqn:B; [discriminate|]. apply Z.leb_gt in B.
    destruct (a <=? 0) eqn:C; [discriminate|]. apply Z.leb_gt in C. destruct (negb fd); [discriminate|].
    inversion H; subst s'; clear H. split; [|split; reflexivity].
    set (s' := mkS _ _ _ _ _ _ _ _ _ _ _ _).
    assert (A2 : forall p0 d0, is_rden s' p0 d0 = false -> acc s' p0 d0 = 0) by (intros p0 d0 R; apply (w_rden s W p0 d0 R)).
    destruct W as [A1 A3 A4 A5 A6 A7 A8]. constructor; auto.
    intros i Hi. cbn [s' incs] in Hi. apply in_app_or in Hi. destruct Hi as [Hi|[<-|[]]]; [apply A8; exact Hi|cbn; lia].
  - destruct (block_spec fx P s b s' WP W H) as (W' & BF & _). split; [exact W'|]. split; apply BF.
Qed.

Lemma step_inv fx P s o s' : fixed_sites fx -> wf_params P -> INV s -> step fx P s o = Ok s' -> INV s'.
Proof.
  intros (Fp & Fd & Fr) WP [W S] H. destruct o as [u p a|u p a|u ps|u|d p f t a fd|b]; cbn [step] in H.
  - destruct (deposit_spec s u p a s' W H) as (W' & M & _). split; [exact W'|eapply mono_solv; eauto].
  - destruct (withdraw_spec fx s u p a s' W H) as (W' & M & _). split; [exact W'|eapply mono_solv; eauto].
  - destruct (claim_spec s u ps s' W H) as (W' & M). split; [exact W'|eapply mono_solv; eauto].
  - destruct (touch_spec s u s' W H) as (W' & M & _). split; [exact W'|eapply mono_solv; eauto].
  - destruct (add_inc_spec s d p f t a fd s' W S H) as (W' & S' & _). split; assumption.
  - destruct (block_spec fx P s b s' WP W H) as (W' & BF & N). split; [exact W'|].
    intros d. specialize (N Fp Fd Fr d). unfold net in N. specialize (S d). lia.
Qed.

Lemma exec_wf fx P s o : wf_params P -> WF s -> WF (exec fx P s o) /\ nu (exec fx P s o) = nu s /\ np (exec fx P s o) = np s.
Proof.
  intros WP W. unfold exec, run_tx. destruct (step fx P s o) as [s'| |] eqn:E; auto. eapply step_wf; eauto.
Qed.

Lemma exec_inv fx P s o : fixed_sites fx -> wf_params P -> INV s -> INV (exec fx P s o).
Proof.
  intros F WP I. unfold exec, run_tx. destruct (step fx P s o) as [s'| |] eqn:E; auto. eapply step_inv; eauto.
Qed.

Lemma run_wf fx P ops : forall s, wf_params P -> WF s -> WF (run fx P s ops) /\ nu (run fx P s ops) = nu s /\ np (run fx P s ops) = np s.
Proof.
  induction ops as [|o r IH]; intros s WP W; [cbn; auto|].
  change (run fx P s (o :: r)) with (run fx P (exec fx P s o) r).
  destruct (exec_wf fx P s o WP W) as (W1 & E1 & E2). destruct (IH _ WP W1) as (W2 & E3 & E4).
  split; [exact W2|]. split; congruence.
Qed.

Lemma run_inv fx P ops : forall s, fixed_sites fx -> wf_params P -> INV s -> INV (run fx P s ops).
Proof.
  induction ops as [|o r IH]; intros s F WP I; [exact I|].
  change (run fx P s (o :: r)) with (run fx P (exec fx P s o) r). apply IH; auto. apply exec_inv; auto.
Qed.

Lemma inv_init n m h : INV (init_state n m h).
Proof.
  split; [apply wf_init|]. intros d. unfold surplus, owed, reserved. cbn.
  rewrite sumn_zero; [lia|]. intros p _. apply sumn_zero. intros u _. unfold term. cbn. lia.
Qed.

Lemma repaired_fixed fu : fixed_sites (repaired fu).
Proof. repeat split. Qed.

(* the property's own form: truncated claimable amounts *)
Lemma claimable_le_term s d p u : WF s -> 0 <= claimable s u p d /\ claimable s u p d * (ONE * ONE) <= term s d p u.
Proof.
  intros W. unfold claimable, pending_total, term, dquo_int, dmul_int.
  pose proof (w_debt s W u p d). pose proof (w_pend s W u p d).
  destruct (quot_ONE_bounds (acc s p d * bal s u p - debt s u p d) ltac:(lia)) as (Q0 & Q1 & _).
  destruct (trunc_int_bounds (pend s u p d + Z.quot (acc s p d * bal s u p - debt s u p d) ONE) ltac:(lia)) as [T0 T1].
  rewrite <- ONE_eq in T1. pose proof ONE_pos. split; [exact T0|nia].
Qed.

Lemma sum_claimable_le_owed s d : WF s -> 0 <= sum_claimable s d /\ sum_claimable s d * (ONE * ONE) <= owed s d.
Proof.
  intros W. unfold sum_claimable, owed. split.
  - apply sumn_nonneg. intros p _. apply sumn_nonneg. intros u _. apply claimable_le_term. exact W.
  - rewrite Z.mul_comm, <- sumn_scale. apply sumn_le. intros p _. rewrite <- sumn_scale. apply sumn_le. intros u _.
    rewrite Z.mul_comm. apply claimable_le_term. exact W.
Qed.

Theorem solvent_all_histories : forall fu P n m h ops d, wf_params P ->
  let s := run (repaired fu) P (init_state n m h) ops in
  owed s d + reserved s d * (ONE * ONE) <= chef s d * (ONE * ONE) /\
  sum_claimable s d + reserved s d <= chef s d /\ 0 <= sum_claimable s d /\ 0 <= reserved s d.
Proof.
  intros fu P n m h ops d WP s.
  destruct (run_inv (repaired fu) P ops (init_state n m h) (repaired_fixed fu) WP (inv_init n m h)) as [W S]. fold s in W, S.
  specialize (S d). unfold surplus in S. destruct (sum_claimable_le_owed s d W) as [C0 C1].
  pose proof (reserved_nonneg s d W). pose proof ONE_pos.
  split; [lia|]. split; [nia|]. split; assumption.
Qed.

Fixpoint claims (s : state) (cl : list (nat * list nat)) : res state :=
  match cl with [] => Ok s | (u, ps) :: r => do s1 <- claim s u ps; claims s1 r end.

Lemma claims_succeed cl : forall s, INV s -> (forall u ps, In (u, ps) cl -> (u < nu s)%nat) ->
  exists s', claims s cl = Ok s' /\ INV s'.
Proof.
  induction cl as [|[u ps] r IH]; intros s [W S] Hu; cbn [claims]; [exists s; split; [reflexivity|split; assumption]|].
  destruct (claim_progress s u ps W S (Hu u ps (or_introl eq_refl))) as [s1 E]. rewrite E. cbn [bind].
  destruct (claim_spec s u ps s1 W E) as [W1 M1].
  apply IH; [split; [exact W1|eapply mono_solv; eauto]|].
  intros u' ps' Hin. rewrite (m_nu _ _ M1). apply (Hu u' ps'). right. exact Hin.
Qed.

Theorem claims_any_order : forall fu P n m h ops cl, wf_params P ->
  let s := run (repaired fu) P (init_state n m h) ops in
  (forall u ps, In (u, ps) cl -> (u < n)%nat) -> exists s', claims s cl = Ok s'.
Proof.
  intros fu P n m h ops cl WP s Hu.
  pose proof (run_inv (repaired fu) P ops (init_state n m h) (repaired_fixed fu) WP (inv_init n m h)) as I. fold s in I.
  destruct (run_wf (repaired fu) P ops (init_state n m h) WP (wf_init n m h)) as (_ & En & _). fold s in En. cbn in En.
  destruct (claims_succeed cl s I) as (s' & E & _); [|exists s'; exact E].
  intros u ps Hin. rewrite En. apply (Hu u ps Hin).
Qed.

(* a change of committed shares (join/bond, exit/unbond) changes nobody's claimable reward: nothing is
   earned from distributions that happened before the shares were committed; holds for the code as it is *)
Theorem no_retroactive_accrual : forall fx P n m h ops o s', wf_params P ->
  let s := run fx P (init_state n m h) ops in
  (exists u p a, o = ODeposit u p a \/ o = OWithdraw u p a \/ o = OTouch u) ->
  step fx P s o = Ok s' ->
  forall u' p' d, pending_total s' u' p' d = pending_total s u' p' d.
Proof.
  intros fx P n m h ops o s' WP s (u & p & a & [->|[->| ->]]) H;
  destruct (run_wf fx P ops (init_state n m h) WP (wf_init n m h)) as (W & _); fold s in W; cbn [step] in H.
  - apply (deposit_spec s u p a s' W H).
  - apply (withdraw_spec fx s u p a s' W H).
  - apply (touch_spec s u s' W H).
Qed.

(* a block credits nothing to an account that has no committed shares in the pool; code as it is *)
Theorem accrual_needs_shares : forall fx P n m h ops b s' u p d, wf_params P ->
  let s := run fx P (init_state n m h) ops in
  block fx P s b = Ok s' -> bal s u p = 0 ->
  pending_total s' u p d = pending_total s u p d /\ bal s' u p = 0.
Proof.
  intros fx P n m h ops b s' u p d WP s H B.
  destruct (run_wf fx P ops (init_state n m h) WP (wf_init n m h)) as (W & _); fold s in W.
  destruct (block_spec fx P s b s' WP W H) as (W' & BF & _). destruct BF as [E1 E2 E3 E4 E5 E6 E7].
  assert (B' : bal s' u p = 0) by (rewrite E4; exact B). split; [|exact B'].
  unfold pending_total. pose proof (w_debt s W u p d) as D1. pose proof (w_debt s' W' u p d) as D2.
  rewrite B' in *. rewrite B in *. rewrite E5. unfold dquo_int, dmul_int.
  assert (debt s u p d = 0) by lia. assert (debt s' u p d = 0) by lia. rewrite H0, H1, !Z.mul_0_r. reflexivity.
Qed.

(* per block: what the block adds to the exact liabilities is covered by what it adds to the module
   balance plus the incentive funding it releases *)
Theorem block_credit_le_collected : forall fu P n m h ops b s' d, wf_params P ->
  let s := run (repaired fu) P (init_state n m h) ops in
  block (repaired fu) P s b = Ok s' ->
  owed s' d - owed s d <= (chef s' d - chef s d) * (ONE * ONE) + (reserved s d - reserved s' d) * (ONE * ONE).
Proof.
  intros fu P n m h ops b s' d WP s H.
  destruct (run_wf (repaired fu) P ops (init_state n m h) WP (wf_init n m h)) as (W & _); fold s in W.
  destruct (block_spec (repaired fu) P s b s' WP W H) as (_ & _ & N).
  specialize (N eq_refl eq_refl eq_refl d). unfold net, surplus in N. lia.
Qed.

(* the repaired model differs from the code only inside the end blocker (and at the C12 site) *)
Theorem same_off_sites : forall fx fx' P s o, fx_unc fx = fx_unc fx' ->
  (forall b, o <> OBlock b) -> step fx P s o = step fx' P s o.
Proof.
  intros fx fx' P s o E H. destruct o as [u p a|u p a|u ps|u|d p f t a fd|b]; cbn [step]; try reflexivity.
  - unfold withdraw. rewrite E. reflexivity.
  - exfalso. apply (H b). reflexivity.
Qed.

(* and inside the end blocker the two agree on everything but money and credit: balances, pendings, debts *)
Theorem block_same_frame : forall fx fx' P s b s1 s2, wf_params P -> WF s ->
  block fx P s b = Ok s1 -> block fx' P s b = Ok s2 ->
  bal s1 = bal s2 /\ pend s1 = pend s2 /\ debt s1 = debt s2 /\ tot s1 = tot s2 /\ height s1 = height s2.
Proof.
  intros fx fx' P s b s1 s2 WP W H1 H2.
  destruct (block_spec fx P s b s1 WP W H1) as (_ & [A1 A2 A3 A4 A5 A6 A7] & _).
  destruct (block_spec fx' P s b s2 WP W H2) as (_ & [B1 B2 B3 B4 B5 B6 B7] & _).
  repeat split; congruence.
Qed.

(* ------------------------------------------------------------------ refutations for the code as it is *)

Definition P0 : params := mkP 600000000000000000 250000000000000000 250000000000000000.
Lemma wf_P0 : wf_params P0. Proof. unfold wf_params, P0, PREC; cbn; lia. Qed.

Definition SH : Z := 1000000000000000000.   (* shares of the single liquidity provider *)

(* (c) one pool, one provider, 30 000 000 uusdc of swap fees on the revenue address *)
Definition dex_ops : list op := [ODeposit 0 0 SH; OBlock (mkB 0 0 [mkPI 0 PREC [(USDC, 30000000)]])].
(* (b) 1 000 000 uusdc of perpetual revenue *)
Definition perp_ops : list op := [ODeposit 0 0 SH; OBlock (mkB 0 1000000 [mkPI 0 PREC []])].
(* dust: 1 uusdc of gas fees and 1 uusdc of perpetual revenue in the same block *)
Definition dust_ops : list op := [ODeposit 0 0 SH; OBlock (mkB 1 1 [mkPI 0 PREC []])].

Lemma dex_refuted :
  let s := run as_coded P0 (init_state 1 1 10) dex_ops in
  chef s USDC = 15000000 /\ claimable s 0 0 USDC = 18000000 /\ step as_coded P0 s (OClaim 0 [0%nat]) = Err E_funds /\
  let s1 := run (mkFx false true false true) P0 (init_state 1 1 10) dex_ops in
  chef s1 USDC = 15000000 /\ claimable s1 0 0 USDC = 18000000.
Proof. vm_compute. repeat split. Qed.

Lemma perp_refuted :
  let s := run as_coded P0 (init_state 1 1 10) perp_ops in
  chef s USDC = 312500 /\ claimable s 0 0 USDC = 600000 /\ step as_coded P0 s (OClaim 0 [0%nat]) = Err E_funds /\
  let s1 := run (mkFx false false true true) P0 (init_state 1 1 10) perp_ops in
  chef s1 USDC = 312500 /\ claimable s1 0 0 USDC = 600000.
Proof. vm_compute. repeat split. Qed.

Lemma dust_refuted :
  let s := run as_coded P0 (init_state 1 1 10) dust_ops in
  chef s USDC = 0 /\ claimable s 0 0 USDC = 1 /\ step as_coded P0 s (OClaim 0 [0%nat]) = Err E_funds /\
  let s1 := run (mkFx false true true false) P0 (init_state 1 1 10) dust_ops in
  chef s1 USDC = 0 /\ claimable s1 0 0 USDC = 1.
Proof. vm_compute. repeat split. Qed.

Lemma repaired_witnesses_pay :
  (let s := run (repaired false) P0 (init_state 1 1 10) dex_ops in chef s USDC = 18000000 /\ claimable s 0 0 USDC = 18000000) /\
  (let s := run (repaired false) P0 (init_state 1 1 10) perp_ops in chef s USDC = 600000 /\ claimable s 0 0 USDC = 600000) /\
  (let s := run (repaired false) P0 (init_state 1 1 10) dust_ops in chef s USDC = 0 /\ claimable s 0 0 USDC = 0).
Proof. vm_compute. repeat split. Qed.
