(* C17 - proofs. Two kinds of statement:
   (1) decidable obligations on the REGENERATED table Generated.Handlers.handlers, by vm_compute:
       they stop checking when a handler loses / inverts / postpones its authority check;
   (2) semantic lemmas over ALL messages, authorities, states, owner functions and choice lists. *)
From Coq Require Import String List Bool.
From Elys Require Import Base.Res Models.Authority Generated.Handlers.
Import ListNotations.
Open Scope string_scope.

(* ---------------------------------------------------------------- semantics *)

Section Sem.
  Variable state : Type.
  Variable owner : state -> option string.

  Lemma strict_prefix_guard_authority_rejects : forall signer sk (msg : message) auth (s : state) chs,
    strict_prefix_guard_authority signer sk = true ->
    msg signer <> auth ->
    run_skel owner sk msg auth s chs = (Err Unauthorized, s).
  Proof.
    intros signer sk msg auth s chs.
    induction sk as [|st r IH]; intros Hg Hne; [discriminate|].
    destruct st; cbn in Hg; try discriminate; cbn.
    - apply IH; assumption.
    - apply IH; assumption.
    - apply String.eqb_eq in Hg. subst field.
      destruct (String.eqb (msg signer) auth) eqn:E; [|reflexivity].
      apply String.eqb_eq in E. contradiction.
  Qed.

  Lemma prefix_guard_authority_rejects : forall signer sk (msg : message) auth (s : state) chs,
    prefix_guard_authority signer sk = true ->
    msg signer <> auth ->
    exists c, run_skel owner sk msg auth s chs = (Err c, s).
  Proof.
    intros signer sk msg auth s.
    induction sk as [|st r IH]; intros chs Hg Hne; [discriminate|].
    destruct st; cbn in Hg; try discriminate; cbn.
    - apply IH; assumption.
    - apply IH; assumption.
    - destruct chs as [|[ | c | | s' | s' c] chs']; try (apply IH; assumption).
      exists c. reflexivity.
    - apply String.eqb_eq in Hg. subst field.
      destruct (String.eqb (msg signer) auth) eqn:E; [|exists Unauthorized; reflexivity].
      apply String.eqb_eq in E. contradiction.
  Qed.

  Lemma owner_is_false : forall (s : state) a, owner s <> Some a -> owner_is state owner s a = false.
  Proof.
    intros s a Hne. unfold owner_is. destruct (owner s) as [o|] eqn:E; [|reflexivity].
    destruct (String.eqb o a) eqn:E2; [|reflexivity].
    apply String.eqb_eq in E2. subst o. contradiction.
  Qed.

  Lemma prefix_guard_owner_rejects : forall signer sk (msg : message) auth (s : state) chs,
    prefix_guard_owner signer sk = true ->
    owner s <> Some (msg signer) ->
    exists c, run_skel owner sk msg auth s chs = (Err c, s).
  Proof.
    intros signer sk msg auth s.
    induction sk as [|st r IH]; intros chs Hg Hne; [discriminate|].
    destruct st; cbn in Hg; try discriminate; cbn.
    - apply IH; assumption.
    - apply IH; assumption.
    - destruct chs as [|[ | c | | s' | s' c] chs']; try (apply IH; assumption).
      exists c. reflexivity.
    - destruct (String.eqb (msg field) auth); [apply IH; assumption|].
      exists Unauthorized. reflexivity.
    - apply String.eqb_eq in Hg. subst field.
      rewrite (owner_is_false s (msg signer) Hne). exists Unauthorized. reflexivity.
    - apply String.eqb_eq in Hg. subst field.
      rewrite (owner_is_false s (msg signer) Hne). exists NotFound. reflexivity.
  Qed.

  (* the guard has teeth: with the guard passed (or absent) a Write really can change the state *)
  Lemma authority_passes : forall signer sk (msg : message) auth (s : state) chs,
    strict_prefix_guard_authority signer sk = true ->
    msg signer = auth ->
    exists r, run_skel owner sk msg auth s chs = run_skel owner r msg auth s chs /\
              exists pre, sk = (pre ++ SGuardAuthority signer :: r)%list.
  Proof.
    intros signer sk msg auth s chs.
    induction sk as [|st r IH]; intros Hg He; [discriminate|].
    destruct st; cbn in Hg; try discriminate; cbn.
    - destruct (IH Hg He) as [r' [H1 [pre H2]]]. exists r'. split; [exact H1|].
      exists (SPure :: pre). cbn. now rewrite H2.
    - destruct (IH Hg He) as [r' [H1 [pre H2]]]. exists r'. split; [exact H1|].
      exists (SRead what :: pre). cbn. now rewrite H2.
    - apply String.eqb_eq in Hg. subst field. exists r. split.
      + rewrite He. now rewrite String.eqb_refl.
      + exists []. reflexivity.
  Qed.
End Sem.

(* ---------------------------------------------------------------- table obligations *)

Definition names (l : list handler) : list string := map h_name l.

(* stated as "the list of offenders is empty" so that a failure prints the offenders *)
Lemma unguarded_none :
  names (filter (fun h => negb (guarded h)) (filter gov_only handlers)) = [].
Proof. vm_compute. reflexivity. Qed.

Lemma authority_not_signer_none :
  names (filter (fun h => negb (authority_is_signer h)) (filter h_has_authority handlers)) = [].
Proof. vm_compute. reflexivity. Qed.

Lemma owner_unguarded_none :
  names (filter (fun h => negb (owner_guarded h)) (filter owner_scoped handlers)) = [].
Proof. vm_compute. reflexivity. Qed.

Lemma owner_spec_missing_none :
  filter (fun n => negb (existsb (fun h => String.eqb (h_name h) n) handlers)) owner_spec = [].
Proof. vm_compute. reflexivity. Qed.

Lemma table_nonempty : negb (Nat.leb (length (filter gov_only handlers)) 20) = true.
Proof. vm_compute. reflexivity. Qed.

Lemma names_filter_nil : forall (p : handler -> bool) l,
  names (filter (fun h => negb (p h)) l) = [] -> forallb p l = true.
Proof.
  intros p l. induction l as [|h r IH]; cbn; intros H; [reflexivity|].
  destruct (p h); cbn in *; [apply IH; exact H|discriminate].
Qed.

Lemma guard_dominates : forallb guarded (filter gov_only handlers) = true.
Proof. apply names_filter_nil. exact unguarded_none. Qed.

Lemma authority_is_signer_all : forallb authority_is_signer (filter h_has_authority handlers) = true.
Proof. apply names_filter_nil. exact authority_not_signer_none. Qed.

Lemma owner_guard_dominates : forallb owner_guarded (filter owner_scoped handlers) = true.
Proof. apply names_filter_nil. exact owner_unguarded_none. Qed.

Lemma filter_negb_nil : forall (A : Type) (p : A -> bool) (l : list A),
  filter (fun x => negb (p x)) l = [] -> forallb p l = true.
Proof.
  intros A p l. induction l as [|x r IH]; cbn; intros H; [reflexivity|].
  destruct (p x); cbn in *; [apply IH; exact H|discriminate].
Qed.

Lemma owner_spec_present :
  forallb (fun n => existsb (fun h => String.eqb (h_name h) n) handlers) owner_spec = true.
Proof.
  apply (filter_negb_nil string (fun n => existsb (fun h => String.eqb (h_name h) n) handlers)).
  exact owner_spec_missing_none.
Qed.

Lemma in_filtered : forall (p q : handler -> bool) l h,
  forallb q (filter p l) = true -> In h l -> p h = true -> q h = true.
Proof.
  intros p q l h Hall Hin Hp.
  rewrite forallb_forall in Hall. apply Hall. apply filter_In. split; assumption.
Qed.

(* ---------------------------------------------------------------- the property *)

Lemma rejects : forall h, In h handlers -> gov_only h = true ->
  forall (state : Type) (owner : state -> option string) (msg : message) (auth : string) (s : state)
         (chs : list (choice state)),
    msg (h_signer h) <> auth ->
    exists c, run_handler owner h msg auth s chs = (Err c, s).
Proof.
  intros h Hin Hgov state owner msg auth s chs Hne.
  pose proof (in_filtered gov_only guarded handlers h guard_dominates Hin Hgov) as Hg.
  unfold guarded in Hg. apply andb_true_iff in Hg. destruct Hg as [_ Hg].
  unfold run_handler. apply prefix_guard_authority_rejects with (signer := h_signer h); assumption.
Qed.

Lemma rejects_authority_field : forall h, In h handlers -> h_has_authority h = true ->
  forall (state : Type) (owner : state -> option string) (msg : message) (auth : string) (s : state)
         (chs : list (choice state)),
    msg "Authority" <> auth ->
    exists c, run_handler owner h msg auth s chs = (Err c, s).
Proof.
  intros h Hin Hha state owner msg auth s chs Hne.
  pose proof (in_filtered h_has_authority authority_is_signer handlers h authority_is_signer_all Hin Hha) as Hs.
  unfold authority_is_signer in Hs. apply String.eqb_eq in Hs.
  apply rejects; try assumption.
  - unfold gov_only. rewrite Hha. reflexivity.
  - rewrite Hs. exact Hne.
Qed.

(* where nothing that can return precedes the guard the error is exactly Unauthorized *)
Lemma rejects_unauthorized : forall h, strictly_guarded h = true ->
  forall (state : Type) (owner : state -> option string) (msg : message) (auth : string) (s : state)
         (chs : list (choice state)),
    msg (h_signer h) <> auth ->
    run_handler owner h msg auth s chs = (Err Unauthorized, s).
Proof.
  intros h Hg state owner msg auth s chs Hne.
  unfold strictly_guarded in Hg. apply andb_true_iff in Hg. destruct Hg as [_ Hg].
  unfold run_handler. apply strict_prefix_guard_authority_rejects with (signer := h_signer h); assumption.
Qed.

Lemma owner_rejects : forall h, In h handlers -> owner_scoped h = true ->
  forall (state : Type) (owner : state -> option string) (msg : message) (auth : string) (s : state)
         (chs : list (choice state)),
    owner s <> Some (msg (h_signer h)) ->
    exists c, run_handler owner h msg auth s chs = (Err c, s).
Proof.
  intros h Hin Hos state owner msg auth s chs Hne.
  pose proof (in_filtered owner_scoped owner_guarded handlers h owner_guard_dominates Hin Hos) as Hg.
  unfold owner_guarded in Hg. apply andb_true_iff in Hg. destruct Hg as [_ Hg].
  unfold run_handler. apply prefix_guard_owner_rejects with (signer := h_signer h); assumption.
Qed.

(* the authority itself is not locked out by the guard: execution continues with the statements
   after the guard (non-vacuity of the semantics; what follows may of course still fail) *)
Lemma authority_continues : forall h, strictly_guarded h = true ->
  forall (state : Type) (owner : state -> option string) (msg : message) (auth : string) (s : state)
         (chs : list (choice state)),
    msg (h_signer h) = auth ->
    exists pre r, h_skel h = (pre ++ SGuardAuthority (h_signer h) :: r)%list /\
                  run_handler owner h msg auth s chs = run_skel owner r msg auth s chs.
Proof.
  intros h Hg state owner msg auth s chs He.
  unfold strictly_guarded in Hg. apply andb_true_iff in Hg. destruct Hg as [_ Hg].
  destruct (authority_passes state owner (h_signer h) (h_skel h) msg auth s chs Hg He) as [r [H1 [pre H2]]].
  exists pre, r. split; [exact H2|exact H1].
Qed.
