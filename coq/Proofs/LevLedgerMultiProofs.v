From Coq Require Import ZArith List Bool Arith Lia.
From Elys Require Import Base.Res Base.Fn Models.SumLedger Proofs.SumLedgerProofs Models.LevLedger Proofs.LevLedgerProofs Models.LevLedgerMulti.
Import ListNotations.
Open Scope Z_scope.

(* every pool's machine satisfies the one-pool invariant, and the module counter is the sum of the pools' counts *)
Definition MLInv (pools : list nat) (s : mlev) : Prop :=
  (forall p, LInv (ml_pool s p)) /\
  ml_count s = sumf (fun p => count (l_sl (ml_pool s p))) pools.

Lemma ml_upd_same f p s : ml_upd f p s p = s.
Proof. unfold ml_upd. rewrite Nat.eqb_refl. reflexivity. Qed.
Lemma ml_upd_other f p s x : x <> p -> ml_upd f p s x = f x.
Proof. intros H. unfold ml_upd. destruct (Nat.eqb_spec x p); [contradiction|reflexivity]. Qed.

Lemma lexec_inv s o : LInv s -> 0 < pos_amt o -> LInv (lexec s o).
Proof.
  intros HI Hp. unfold lexec, run_tx. destruct (lstep s o) as [s'| |] eqn:E; auto.
  eapply lstep_inv; eauto.
Qed.

Lemma mlexec_inv pools s po : NoDup pools -> In (fst po) pools -> 0 < pos_amt (snd po) -> MLInv pools s -> MLInv pools (mlexec s po).
Proof.
  intros ND Hin Hp (HL & HC). destruct po as [p o]. cbn [fst snd] in *. unfold mlexec. split; cbn [ml_pool ml_count].
  - intros x. destruct (Nat.eq_dec x p) as [->|Ne].
    + rewrite ml_upd_same. apply lexec_inv; auto.
    + rewrite ml_upd_other by exact Ne. apply HL.
  - rewrite (sumf_ext _ (upd (fun q => count (l_sl (ml_pool s q))) p (count (l_sl (lexec (ml_pool s p) o))))).
    + rewrite sumf_upd_in by assumption. rewrite HC. lia.
    + intros k _. unfold upd, ml_upd. destruct (Nat.eqb k p); reflexivity.
Qed.

Theorem mlrun_inv pools h : NoDup pools -> forall s, MLInv pools s ->
  Forall (fun po => In (fst po) pools /\ 0 < pos_amt (snd po)) h -> MLInv pools (mlrun s h).
Proof.
  intros ND. induction h as [|po r IH]; intros s HI Hf; cbn; [exact HI|]. inversion Hf as [|? ? [H1 H2] Hr]; subst.
  apply IH; [|exact Hr]. apply mlexec_inv; assumption.
Qed.

Lemma mlev_empty_inv pools : MLInv pools mlev_empty.
Proof.
  split; cbn.
  - intros _. apply lev_empty_inv.
  - induction pools as [|x r IH]; cbn; [reflexivity|]. cbn in IH. rewrite <- IH. reflexivity.
Qed.

(* the property-level reading: per pool total = sum of ITS positions, every stored position's amount = the shares committed at
   its address and nothing is left at the address of a position no longer stored; the module's single counter = the number
   of stored positions of all pools together *)
Theorem mlev_totals pools h : NoDup pools ->
  Forall (fun po => In (fst po) pools /\ 0 < pos_amt (snd po)) h ->
  let s := mlrun mlev_empty h in
  (forall p, let t := ml_pool s p in
     total (l_sl t) = sumf (parts (l_sl t)) (keys (l_sl t)) /\
     (forall k, In k (keys (l_sl t)) -> l_comm t k = parts (l_sl t) k) /\
     (forall k, ~ In k (keys (l_sl t)) -> l_comm t k = 0)) /\
  ml_count s = sumf (fun p => Z.of_nat (length (keys (l_sl (ml_pool s p))))) pools.
Proof.
  intros ND Hf s. destruct (mlrun_inv pools h ND mlev_empty (mlev_empty_inv pools) Hf) as (HL & HC). fold s in HL, HC. split.
  - intros p t. destruct (HL p) as ((_ & HT & _ & _) & HK & HN). fold t in HT, HK, HN. repeat split; auto.
    + intros k Hk. apply (HK k Hk).
    + intros k Hk. apply (HN k Hk).
  - rewrite HC. apply sumf_ext. intros p _. destruct (HL p) as ((_ & _ & HCnt & _) & _). exact HCnt.
Qed.

(* a pool that no operation of the history names keeps its state: another pool's opens and closes cannot move its total *)
Lemma mlrun_untouched h : forall s p, Forall (fun po => fst po <> p) h -> ml_pool (mlrun s h) p = ml_pool s p.
Proof.
  unfold mlrun. induction h as [|po r IH]; intros s p Hf; cbn [fold_left]; [reflexivity|]. inversion Hf; subst.
  rewrite IH by assumption. destruct po as [q o]. cbn [fst] in *. unfold mlexec. cbn [ml_pool].
  apply ml_upd_other. congruence.
Qed.
