(* C11: the hook discipline is not only sufficient but (up to changes that cancel inside liabilities - custody) NECESSARY:
   from a consistent accounted pool a code path keeps the accounted pool consistent IF AND ONLY IF it satisfies
   [needed]; every one-sided update (a record moved without the matching hook, a hook fed a stale reserve after the
   reserve moved) breaks it. Model: Models/AccPool.v. *)
From Coq Require Import ZArith List Bool Lia.
From Elys Require Import Base.Res Models.AccPool Proofs.AccPoolProofs.
Import ListNotations.
Open Scope Z_scope.

Definition needed (s : acc) (o : accop) : Prop :=
  match o with
  | AChange R' L' C' HAmmFresh => L' - C' = a_L s - a_C s
  | AChange _ _ _ HPerpFresh => True
  | AChange R' L' C' HPerpStaleAmm => R' = a_R s
  | AChange R' L' C' HNone => R' = a_R s /\ L' - C' = a_L s - a_C s
  end.

Lemma disciplined_needed s o : disciplined s o -> needed s o.
Proof.
  destruct o as [R' L' C' h]. destruct h; cbn; intros D.
  - destruct D as [-> ->]. reflexivity.
  - exact I.
  - exact D.
  - destruct D as (-> & -> & ->). split; reflexivity.
Qed.

Theorem accstep_inv_iff s o : AInv s -> (AInv (accstep s o) <-> needed s o).
Proof.
  intros [HT HN]. destruct o as [R' L' C' h]. destruct h; cbn; unfold AInv; cbn; intuition lia.
Qed.

(* a fresh accounted pool (created with the amm pool: reserve R, no perpetual totals) is consistent *)
Lemma fresh_pool_inv R : AInv (mkAcc R 0 0 R 0).
Proof. unfold AInv; cbn. lia. Qed.

(* what the two hooks compute, exactly, whatever they are fed and whatever was stored before *)
Lemma perp_hook_exact s Ra La Ca :
  a_T (perp_hook s Ra La Ca) = Ra + La - Ca /\ a_N (perp_hook s Ra La Ca) = La - Ca /\
  a_R (perp_hook s Ra La Ca) = a_R s /\ a_L (perp_hook s Ra La Ca) = a_L s /\ a_C (perp_hook s Ra La Ca) = a_C s.
Proof. cbn. repeat split; lia. Qed.

Lemma amm_hook_exact s Ra :
  a_T (amm_hook s Ra) = Ra + a_N s /\ a_N (amm_hook s Ra) = a_N s /\
  a_R (amm_hook s Ra) = a_R s /\ a_L (amm_hook s Ra) = a_L s /\ a_C (amm_hook s Ra) = a_C s.
Proof. cbn. repeat split. Qed.

(* from a fresh pool, every history in which each step satisfies [needed] keeps the accounted pool consistent, and a
   history that is consistent after every step satisfied [needed] at every step *)
Fixpoint needed_run (s : acc) (h : list accop) : Prop :=
  match h with [] => True | o :: r => needed s o /\ needed_run (accstep s o) r end.
Fixpoint inv_along (s : acc) (h : list accop) : Prop :=
  match h with [] => True | o :: r => AInv (accstep s o) /\ inv_along (accstep s o) r end.

Theorem inv_along_iff h : forall s, AInv s -> (inv_along s h <-> needed_run s h).
Proof.
  induction h as [|o r IH]; intros s HI; cbn; [tauto|].
  pose proof (accstep_inv_iff s o HI) as E. split.
  - intros [H1 H2]. split; [apply E; exact H1|]. apply (IH _ H1). exact H2.
  - intros [H1 H2]. assert (H1' : AInv (accstep s o)) by (apply E; exact H1). split; [exact H1'|]. apply (IH _ H1'). exact H2.
Qed.
