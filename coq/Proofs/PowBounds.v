(* Bounds on the fixed-point power function Pow of x/amm/types (model: Models/AmmSwap.v [pow]) - part 1:
   the INTEGER-exponent path (LegacyDec.Power = square-and-multiply with a rounding Mul at each step) and the
   full C03 statement for weighted pools whose weight ratio w_in/w_out is an integer n >= 1.

   Error analysis of [power y n] (n >= 1, y >= 0), with M any number >= max(y, 10^18):
       2*10^18*y^n <= 2*pw*10^(18n) + (n-1)*M^n
   i.e. pw >= y^n/10^(18(n-1)) - (n-1)/2 ulp for y <= 1 and pw >= y^n*(1 - (n-1)/(2*10^18)) for y >= 1
   (each of the n-1 roundings of Dec.Mul loses at most half a unit of 10^-18, amplified by at most max(1,y)^n).
   All exponent arithmetic is over Z (Z.pow). *)
From Coq Require Import ZArith List Bool Lia.
From Elys Require Import Base.Res Base.Zdec Models.AmmSwap Proofs.AmmSwapProofs Proofs.AmmSwapProofs2.
Import ListNotations.
Open Scope Z_scope.

(* ---------- generic loop invariant for iter_fuel ---------- *)
Lemma iter_fuel_inv {S R : Type} (I : S -> Prop) (Post : R -> Prop) (f : S -> lp S R) :
  (forall s, I s -> match f s with Cont s' => I s' | Done r => Post r end) ->
  forall p s, I s -> match iter_fuel p f s with Cont s' => I s' | Done r => Post r end.
Proof.
  intros Hf. induction p as [p IH|p IH|]; intros s Hs; simpl.
  - pose proof (Hf s Hs) as H1. destruct (f s) as [s1|r]; [|exact H1].
    pose proof (IH s1 H1) as H2. destruct (iter_fuel p f s1) as [s2|r]; [|exact H2].
    exact (IH s2 H2).
  - pose proof (IH s Hs) as H1. destruct (iter_fuel p f s) as [s1|r]; [|exact H1].
    exact (IH s1 H1).
  - exact (Hf s Hs).
Qed.

Lemma run_loop_inv {S A : Type} (I : S -> Prop) (Post : res A -> Prop) (f : S -> lp S (res A)) p s v :
  (forall s, I s -> match f s with Cont s' => I s' | Done r => Post r end) ->
  I s -> run_loop p f s = Ok v -> Post (Ok v).
Proof.
  intros Hf Hs H. unfold run_loop in H.
  pose proof (iter_fuel_inv I Post f Hf p s Hs) as K.
  destruct (iter_fuel p f s) as [s'|r]; [discriminate|]. subst r. exact K.
Qed.

(* ---------- rounding of Dec.Mul on non-negative arguments ---------- *)
Lemma dmul_nn_bounds a b : 0 <= a -> 0 <= b ->
  0 <= dmul a b /\ 2 * (a * b) - PREC <= 2 * (dmul a b * PREC) <= 2 * (a * b) + PREC.
Proof.
  intros Ha Hb. unfold dmul. assert (H : 0 <= a * b) by nia.
  destruct (chop_round_bounds _ H) as [[B1 B2] B3]. pose proof HALF_PREC. lia.
Qed.

Lemma dmul_comm a b : dmul a b = dmul b a.
Proof. unfold dmul. now rewrite Z.mul_comm. Qed.

Lemma dmul_one_l x : dmul PREC x = x.
Proof. rewrite dmul_comm. apply dmul_one_r. Qed.

Lemma dmul_mono a b c d : 0 <= a <= c -> 0 <= b <= d -> dmul a b <= dmul c d.
Proof. intros H1 H2. unfold dmul. apply chop_round_mono. nia. Qed.

Lemma dmul_ge_one a b : PREC <= a -> PREC <= b -> PREC <= dmul a b.
Proof.
  intros Ha Hb. pose proof PREC_pos as HP.
  apply Z.le_trans with (dmul PREC PREC); [rewrite dmul_one_r; lia|]. apply dmul_mono; lia.
Qed.

Lemma dquo_le_one a b : 0 <= a <= b -> 0 < b -> 0 <= dquo a b <= PREC.
Proof.
  intros Ha Hb. pose proof PREC_pos as HP. split; [apply dquo_nonneg; lia|].
  unfold dquo. apply Z.le_trans with (chop_round (PREC * PREC)); [|rewrite chop_round_mult; lia].
  apply chop_round_mono.
  assert (0 <= a * PREC * PREC) by nia.
  split; [apply Z.quot_pos; lia|].
  apply Z.quot_le_upper_bound; [lia|]. nia.
Qed.

Lemma dquo_ge_one a b : 0 < b <= a -> PREC <= dquo a b.
Proof.
  intros Hb. pose proof PREC_pos as HP.
  unfold dquo. apply Z.le_trans with (chop_round (PREC * PREC)); [rewrite chop_round_mult; lia|].
  apply chop_round_mono.
  split; [nia|]. apply Z.quot_le_lower_bound; [lia|]. nia.
Qed.

(* ---------- the arithmetic core of one rounded multiplication ---------- *)
Lemma mul_core P pj mj aj t j pk mk ak d k t' :
  0 < P -> 0 < pj <= mj -> 0 <= aj <= mj -> 0 < pk <= mk -> 0 <= ak <= mk ->
  1 <= j -> 1 <= k -> 0 <= t -> 0 <= d -> 0 <= t' ->
  2 * P * aj <= 2 * t * pj + (j - 1) * mj ->
  2 * P * ak <= 2 * d * pk + (k - 1) * mk ->
  2 * (t * d) - P <= 2 * (t' * P) ->
  2 * P * (aj * ak) <= 2 * t' * (pj * pk) + (j + k - 1) * (mj * mk).
Proof.
  intros HP Hpj Haj Hpk Hak Hj Hk Ht Hd Ht' Qj Qk Hr.
  assert (Hmm : 0 <= mj * mk) by nia.
  assert (Hpp : 0 < pj * pk) by nia.
  assert (Hppmm : pj * pk <= mj * mk) by nia.
  assert (Haa : 0 <= aj * ak <= mj * mk) by nia.
  destruct (Z_lt_le_dec (2 * P * aj) ((j - 1) * mj)) as [Nj|Pj].
  { (* the bound on t says nothing: the claim follows from a_j <= (j-1) m_j / 2P *)
    assert (E1 : 2 * P * aj * ak <= (j - 1) * mj * ak) by (apply Z.mul_le_mono_nonneg_r; lia).
    assert (E2 : (j - 1) * mj * ak <= (j - 1) * mj * mk) by (apply Z.mul_le_mono_nonneg_l; nia).
    assert (E3 : (j - 1) * (mj * mk) <= (j + k - 1) * (mj * mk)) by (apply Z.mul_le_mono_nonneg_r; lia).
    assert (E4 : 0 <= 2 * t' * (pj * pk)) by nia.
    lia. }
  destruct (Z_lt_le_dec (2 * P * ak) ((k - 1) * mk)) as [Nk|Pk].
  { assert (E1 : aj * (2 * P * ak) <= aj * ((k - 1) * mk)) by (apply Z.mul_le_mono_nonneg_l; lia).
    assert (E2 : aj * ((k - 1) * mk) <= mj * ((k - 1) * mk)) by (apply Z.mul_le_mono_nonneg_r; nia).
    assert (E3 : (k - 1) * (mj * mk) <= (j + k - 1) * (mj * mk)) by (apply Z.mul_le_mono_nonneg_r; lia).
    assert (E4 : 0 <= 2 * t' * (pj * pk)) by nia.
    lia. }
  set (Rj := 2 * P * aj - (j - 1) * mj) in *.
  set (Rk := 2 * P * ak - (k - 1) * mk) in *.
  assert (HRj : 0 <= Rj <= 2 * t * pj) by (unfold Rj; lia).
  assert (HRk : 0 <= Rk <= 2 * d * pk) by (unfold Rk; lia).
  assert (M1 : Rj * Rk <= (2 * t * pj) * (2 * d * pk)) by (apply Z.mul_le_mono_nonneg; lia).
  (* Rj*Rk >= 4P^2 aj ak - 2P (j+k-2) mj mk *)
  assert (X1 : aj * ((k - 1) * mk) <= mj * ((k - 1) * mk)) by (apply Z.mul_le_mono_nonneg_r; nia).
  assert (X2 : ak * ((j - 1) * mj) <= mk * ((j - 1) * mj)) by (apply Z.mul_le_mono_nonneg_r; nia).
  assert (X3 : 0 <= (j - 1) * mj * ((k - 1) * mk)) by (apply Z.mul_nonneg_nonneg; apply Z.mul_nonneg_nonneg; lia).
  assert (M2 : 4 * P * P * (aj * ak) - 2 * P * ((j + k - 2) * (mj * mk)) <= Rj * Rk).
  { unfold Rj, Rk.
    replace ((2 * P * aj - (j - 1) * mj) * (2 * P * ak - (k - 1) * mk))
      with (4 * P * P * (aj * ak) - 2 * P * (aj * ((k - 1) * mk)) - 2 * P * (ak * ((j - 1) * mj))
            + (j - 1) * mj * ((k - 1) * mk)) by ring.
    replace (2 * P * ((j + k - 2) * (mj * mk)))
      with (2 * P * (mj * ((k - 1) * mk)) + 2 * P * (mk * ((j - 1) * mj))) by ring.
    assert (2 * P * (aj * ((k - 1) * mk)) <= 2 * P * (mj * ((k - 1) * mk))) by (apply Z.mul_le_mono_nonneg_l; lia).
    assert (2 * P * (ak * ((j - 1) * mj)) <= 2 * P * (mk * ((j - 1) * mj))) by (apply Z.mul_le_mono_nonneg_l; lia).
    lia. }
  (* rounding: (2td - P) * 2 pj pk <= 2 t' P * 2 pj pk *)
  assert (M3 : (2 * (t * d) - P) * (2 * (pj * pk)) <= 2 * (t' * P) * (2 * (pj * pk)))
    by (apply Z.mul_le_mono_nonneg_r; lia).
  assert (M4 : P * (2 * (pj * pk)) <= P * (2 * (mj * mk))) by (apply Z.mul_le_mono_nonneg_l; lia).
  assert (F : (2 * P) * (2 * P * (aj * ak)) <= (2 * P) * (2 * t' * (pj * pk) + (j + k - 1) * (mj * mk))).
  { replace (2 * t * pj * (2 * d * pk)) with (2 * (t * d) * (2 * (pj * pk))) in M1 by ring.
    replace ((2 * (t * d) - P) * (2 * (pj * pk))) with (2 * (t * d) * (2 * (pj * pk)) - P * (2 * (pj * pk))) in M3 by ring.
    replace (2 * P * (2 * P * (aj * ak))) with (4 * P * P * (aj * ak)) by ring.
    replace (2 * P * (2 * t' * (pj * pk) + (j + k - 1) * (mj * mk)))
      with (2 * (t' * P) * (2 * (pj * pk)) + 2 * P * ((j + k - 2) * (mj * mk)) + P * (2 * (mj * mk))) by ring.
    lia. }
  apply Z.mul_le_mono_pos_l in F; [exact F|lia].
Qed.

(* ---------- LegacyDec.Power ---------- *)
Section PowerLoop.
  Variables y M : Z.
  Hypothesis Hy : 0 <= y <= M.
  Hypothesis HM : PREC <= M.

  (* v approximates y^k (at scale 10^18) from below *)
  Definition Qlb (k v : Z) : Prop := 2 * PREC * y ^ k <= 2 * v * PREC ^ k + (k - 1) * M ^ k.

  Lemma pows k : 0 <= k -> 0 < PREC ^ k <= M ^ k /\ 0 <= y ^ k <= M ^ k.
  Proof.
    intros Hk. pose proof PREC_pos as HP. split; split.
    - apply Z.pow_pos_nonneg; lia.
    - apply Z.pow_le_mono_l; lia.
    - apply Z.pow_nonneg; lia.
    - apply Z.pow_le_mono_l; lia.
  Qed.

  Lemma Qlb_mul j k t d : 1 <= j -> 1 <= k -> 0 <= t -> 0 <= d ->
    Qlb j t -> Qlb k d -> Qlb (j + k) (dmul t d) /\ 0 <= dmul t d.
  Proof.
    intros Hj Hk Ht Hd Qj Qk. pose proof PREC_pos as HP.
    destruct (dmul_nn_bounds t d Ht Hd) as [N0 [N1 _]].
    split; [|exact N0]. unfold Qlb in *.
    destruct (pows j ltac:(lia)) as [A1 A2]. destruct (pows k ltac:(lia)) as [B1 B2].
    rewrite !Z.pow_add_r by lia.
    apply (mul_core PREC (PREC ^ j) (M ^ j) (y ^ j) t j (PREC ^ k) (M ^ k) (y ^ k) d k (dmul t d)); auto.
  Qed.

  (* the accumulator [tmp] of PowerMut: exactly 1 before the first odd digit, afterwards an approximation *)
  Definition Tinv (j tmp : Z) : Prop := (tmp = ONE /\ j = 0) \/ (1 <= j /\ Qlb j tmp /\ 0 <= tmp).

  Lemma Tinv_mul j k tmp d : Tinv j tmp -> 1 <= k -> 0 <= d -> Qlb k d ->
    Qlb (j + k) (dmul tmp d) /\ 0 <= dmul tmp d.
  Proof.
    intros [[-> ->]|(Hj & Qj & Ht)] Hk Hd Qk.
    - unfold ONE. rewrite dmul_one_l. simpl. split; assumption.
    - apply Qlb_mul; assumption.
  Qed.

  Lemma power_loop_lb p : forall d tmp k j v, 1 <= k -> 0 <= j -> 0 <= d -> Qlb k d -> Tinv j tmp ->
    power_loop p d tmp = Ok v -> Qlb (j + k * Zpos p) v /\ 0 <= v.
  Proof.
    induction p as [p IH|p IH|]; intros d tmp k j v Hk Hj Hd Qd Ti H; simpl in H.
    - apply bind_ok in H. destruct H as [t [H1 H]]. apply cmul_ok in H1.
      apply bind_ok in H. destruct H as [d2 [H2 H]]. apply cmul_ok in H2.
      destruct (Tinv_mul j k tmp d Ti Hk Hd Qd) as [Qt Ht]. rewrite <- H1 in Qt, Ht.
      destruct (Qlb_mul k k d d Hk Hk Hd Hd Qd Qd) as [Q2 H2']. rewrite <- H2 in Q2, H2'.
      assert (Ti' : Tinv (j + k) t) by (right; repeat split; [lia|exact Qt|exact Ht]).
      destruct (IH d2 t (k + k) (j + k) v ltac:(lia) ltac:(lia) H2' Q2 Ti' H) as [R1 R2].
      split; [|exact R2].
      replace (j + k * Z.pos p~1) with (j + k + (k + k) * Z.pos p) by (rewrite Pos2Z.inj_xI; ring). exact R1.
    - apply bind_ok in H. destruct H as [d2 [H2 H]]. apply cmul_ok in H2.
      destruct (Qlb_mul k k d d Hk Hk Hd Hd Qd Qd) as [Q2 H2']. rewrite <- H2 in Q2, H2'.
      destruct (IH d2 tmp (k + k) j v ltac:(lia) Hj H2' Q2 Ti H) as [R1 R2].
      split; [|exact R2].
      replace (j + k * Z.pos p~0) with (j + (k + k) * Z.pos p) by (rewrite Pos2Z.inj_xO; ring). exact R1.
    - apply cmul_ok in H. rewrite dmul_comm in H.
      destruct (Tinv_mul j k tmp d Ti Hk Hd Qd) as [Qt Ht]. rewrite <- H in Qt, Ht.
      replace (j + k * 1) with (j + k) by ring. split; assumption.
  Qed.

  Lemma power_lb n pw : 1 <= n -> power y n = Ok pw ->
    2 * PREC * y ^ n <= 2 * pw * PREC ^ n + (n - 1) * M ^ n /\ 0 <= pw.
  Proof.
    intros Hn H. unfold power in H. destruct n as [|p|p]; try lia.
    assert (Q1 : Qlb 1 y) by (unfold Qlb; rewrite !Z.pow_1_r; lia).
    assert (T0 : Tinv 0 ONE) by (left; split; reflexivity).
    destruct (power_loop_lb p y ONE 1 0 pw ltac:(lia) ltac:(lia) ltac:(lia) Q1 T0 H) as [R1 R2].
    replace (0 + 1 * Z.pos p) with (Z.pos p) in R1 by ring. split; assumption.
  Qed.
End PowerLoop.

(* range of LegacyDec.Power: stays within [0,1] for a base in [0,1], at least 1 for a base >= 1 *)
Lemma power_loop_le_one p : forall d tmp v, 0 <= d <= PREC -> 0 <= tmp <= PREC ->
  power_loop p d tmp = Ok v -> 0 <= v <= PREC.
Proof.
  induction p as [p IH|p IH|]; intros d tmp v Hd Ht H; simpl in H.
  - apply bind_ok in H. destruct H as [t [H1 H]]. apply cmul_ok in H1.
    apply bind_ok in H. destruct H as [d2 [H2 H]]. apply cmul_ok in H2.
    assert (0 <= t <= tmp) by (subst t; apply dmul_le_l; lia).
    assert (0 <= d2 <= d) by (subst d2; apply dmul_le_l; lia).
    apply (IH d2 t v); lia || assumption.
  - apply bind_ok in H. destruct H as [d2 [H2 H]]. apply cmul_ok in H2.
    assert (0 <= d2 <= d) by (subst d2; apply dmul_le_l; lia).
    apply (IH d2 tmp v); lia || assumption.
  - apply cmul_ok in H. assert (0 <= v <= d) by (subst v; apply dmul_le_l; lia). lia.
Qed.

Lemma power_loop_ge_one p : forall d tmp v, PREC <= d -> PREC <= tmp ->
  power_loop p d tmp = Ok v -> PREC <= v.
Proof.
  induction p as [p IH|p IH|]; intros d tmp v Hd Ht H; simpl in H.
  - apply bind_ok in H. destruct H as [t [H1 H]]. apply cmul_ok in H1.
    apply bind_ok in H. destruct H as [d2 [H2 H]]. apply cmul_ok in H2.
    apply (IH d2 t v); [subst d2|subst t|exact H]; apply dmul_ge_one; assumption.
  - apply bind_ok in H. destruct H as [d2 [H2 H]]. apply cmul_ok in H2.
    apply (IH d2 tmp v); [subst d2; apply dmul_ge_one; assumption|assumption|exact H].
  - apply cmul_ok in H. subst v. apply dmul_ge_one; assumption.
Qed.

Lemma power_le_one y n pw : 0 <= y <= PREC -> power y n = Ok pw -> 0 <= pw <= PREC.
Proof.
  intros Hy H. unfold power in H. pose proof PREC_pos as HP. destruct n as [|p|p]; try discriminate.
  - inversion H. unfold ONE. lia.
  - apply (power_loop_le_one p y ONE pw); [exact Hy|unfold ONE; lia|exact H].
Qed.

Lemma power_ge_one y n pw : PREC <= y -> power y n = Ok pw -> PREC <= pw.
Proof.
  intros Hy H. unfold power in H. destruct n as [|p|p]; try discriminate.
  - inversion H. unfold ONE. lia.
  - apply (power_loop_ge_one p y ONE pw); [exact Hy|unfold ONE; lia|exact H].
Qed.

(* ---------- Pow with an integer exponent n*10^18 is LegacyDec.Power ---------- *)
Lemma trunc_int_mult n : trunc_int (n * PREC) = n.
Proof. unfold trunc_int, chop_trunc. apply Z.quot_mul. pose proof PREC_pos; lia. Qed.

Lemma pow_integer y n pw : 0 <= n -> pow y (n * PREC) = Ok pw -> 0 < y /\ power y n = Ok pw.
Proof.
  intros Hn H. unfold pow in H. pose proof PREC_pos as HP.
  destruct (y <=? 0) eqn:E; [discriminate|]. apply Z.leb_gt in E.
  destruct (n * PREC <? 0) eqn:E2; [apply Z.ltb_lt in E2; nia|].
  unfold trunc_dec in H. fold (trunc_int (n * PREC)) in H. rewrite !trunc_int_mult in H.
  replace (n * PREC - n * PREC) with 0 in H by ring. change (0 =? 0) with true in H.
  apply bind_ok in H. destruct H as [ip [H1 H]]. inversion H; subst. split; assumption.
Qed.

Lemma dquo_int_ratio n w : 0 < w -> dquo (n * w * PREC) (w * PREC) = n * PREC.
Proof.
  intros Hw. pose proof PREC_pos as HP. unfold dquo.
  replace (n * w * PREC * PREC * PREC) with (n * PREC * PREC * (w * PREC)) by ring.
  rewrite Z.quot_mul by nia. apply chop_round_mult.
Qed.

(* y <= 1: pw >= y^n / 10^(18(n-1)) - (n-1)/2 *)
Lemma power_lb_le_one y n pw : 0 <= y <= PREC -> 1 <= n -> power y n = Ok pw ->
  2 * y ^ n <= (2 * pw + (n - 1)) * PREC ^ (n - 1) /\ 0 <= pw <= PREC.
Proof.
  intros Hy Hn H. pose proof PREC_pos as HP.
  split; [|eapply power_le_one; eauto].
  destruct (power_lb y PREC Hy ltac:(lia) n pw Hn H) as [L _].
  assert (E : PREC ^ n = PREC * PREC ^ (n - 1)).
  { replace n with (1 + (n - 1)) at 1 by ring. rewrite Z.pow_add_r by lia. now rewrite Z.pow_1_r. }
  rewrite E in L.
  assert (F : PREC * (2 * y ^ n) <= PREC * ((2 * pw + (n - 1)) * PREC ^ (n - 1))).
  { replace (PREC * (2 * y ^ n)) with (2 * PREC * y ^ n) by ring.
    replace (PREC * ((2 * pw + (n - 1)) * PREC ^ (n - 1)))
      with (2 * pw * (PREC * PREC ^ (n - 1)) + (n - 1) * (PREC * PREC ^ (n - 1))) by ring. exact L. }
  apply Z.mul_le_mono_pos_l in F; [exact F|exact HP].
Qed.

(* y >= 1: pw >= y^n * (1 - (n-1)/(2*10^18)) / 10^(18(n-1)) *)
Lemma power_lb_ge_one y n pw : PREC <= y -> 1 <= n -> power y n = Ok pw ->
  (2 * PREC - (n - 1)) * y ^ n <= 2 * pw * PREC ^ n /\ PREC <= pw.
Proof.
  intros Hy Hn H. pose proof PREC_pos as HP.
  split; [|eapply power_ge_one; eauto].
  destruct (power_lb y y ltac:(lia) Hy n pw Hn H) as [L _]. lia.
Qed.

(* ---------- a^n - b^n <= n * e * M^(n-1) for 0 <= a <= b + e, a, b <= M ---------- *)
Lemma pow_diff a b e M n : 0 <= a <= M -> 0 <= b <= M -> 0 <= e -> a <= b + e -> 0 <= n ->
  a ^ (n + 1) <= b ^ (n + 1) + (n + 1) * e * M ^ n.
Proof.
  intros Ha Hb He Hab Hn. revert n Hn. apply natlike_ind.
  - change (0 + 1) with 1. rewrite !Z.pow_1_r, Z.pow_0_r. lia.
  - intros n Hn IH.
    replace (Z.succ n + 1) with (Z.succ (n + 1)) by lia.
    rewrite !Z.pow_succ_r by lia.
    assert (B0 : 0 <= b ^ (n + 1)) by (apply Z.pow_nonneg; lia).
    assert (B1 : b ^ (n + 1) <= M ^ (n + 1)) by (apply Z.pow_le_mono_l; lia).
    assert (M0 : 0 <= M ^ n) by (apply Z.pow_nonneg; lia).
    assert (EM : M ^ (n + 1) = M * M ^ n) by (rewrite Z.pow_add_r by lia; rewrite Z.pow_1_r; ring).
    assert (S1 : a * a ^ (n + 1) <= a * (b ^ (n + 1) + (n + 1) * e * M ^ n)) by (apply Z.mul_le_mono_nonneg_l; lia).
    assert (S2 : a * b ^ (n + 1) <= (b + e) * b ^ (n + 1)) by (apply Z.mul_le_mono_nonneg_r; lia).
    assert (S3 : e * b ^ (n + 1) <= e * M ^ (n + 1)) by (apply Z.mul_le_mono_nonneg_l; lia).
    assert (S4 : a * ((n + 1) * e * M ^ n) <= M * ((n + 1) * e * M ^ n)) by (apply Z.mul_le_mono_nonneg_r; nia).
    rewrite EM in *.
    replace (b * b ^ (n + 1) + (Z.succ n + 1) * e * (M * M ^ n))
      with (b * b ^ (n + 1) + e * (M * M ^ n) + M * ((n + 1) * e * M ^ n)) by ring.
    replace (a * (b ^ (n + 1) + (n + 1) * e * M ^ n)) with (a * b ^ (n + 1) + a * ((n + 1) * e * M ^ n)) in S1 by ring.
    replace ((b + e) * b ^ (n + 1)) with (b * b ^ (n + 1) + e * b ^ (n + 1)) in S2 by ring.
    lia.
Qed.

(* ---------- CalcOutAmtGivenIn on any constant-product pool: shape incl. the sign of the new reserve ---------- *)
Lemma weighted_out_shape p a fee out slip :
  use_oracle p = false -> 0 <= rout p ->
  calc_out p a fee = Ok (out, slip) ->
  0 < rin p * PREC + a * (PREC - fee) /\ w_out p * PREC <> 0 /\
  exists pw,
    pow (dquo (rin p * PREC) (rin p * PREC + a * (PREC - fee))) (dquo (w_in p * PREC) (w_out p * PREC)) = Ok pw /\
    out = trunc_int (rout p * (PREC - pw)) /\ 0 < out /\
    forall lb, lb <= pw -> out * PREC <= rout p * (PREC - lb).
Proof.
  intros Hno HBo Hcalc. pose proof PREC_pos as HP. unfold rin, rout in *.
  unfold calc_out in Hcalc.
  apply bind_ok in Hcalc. destruct Hcalc as [omf [H1 H]]. apply csub_ok in H1.
  apply bind_ok in H. destruct H as [afee [H2 H]]. apply cmul_ok in H2. rewrite dmul_int_l in H2.
  apply bind_ok in H. destruct H as [post [H3 H]]. apply cadd_ok in H3.
  unfold weights in H. rewrite Hno in H. simpl in H.
  apply bind_ok in H. destruct H as [o [H4 H]].
  rewrite !eff_ebal in *.
  apply solve_shape in H4. destruct H4 as (Hwu & Hpost & pw & Hpw & Ho).
  destruct (o =? 0); [discriminate|].
  apply bind_ok in H. destruct H as [rate [_ H]].
  apply bind_ok in H. destruct H as [awo [_ H]].
  destruct (awo =? 0); [discriminate|].
  apply bind_ok in H. destruct H as [q [_ H]].
  apply bind_ok in H. destruct H as [sl [_ H]].
  destruct (trunc_int o <=? 0) eqn:Eoi; [discriminate|]. apply Z.leb_gt in Eoi.
  inversion H; subst out slip. clear H.
  unfold ONE in *. rewrite dmul_int_l in Ho.
  assert (EN : post = ebal (b_in p) (acc_in p) * PREC + a * (PREC - fee)) by (subst; ring).
  rewrite EN in *. split; [exact Hpost|]. split; [exact Hwu|].
  exists pw. split; [exact Hpw|]. rewrite Ho in *. split; [reflexivity|]. split; [exact Eoi|].
  intros lb Hlb.
  set (Bo := ebal (b_out p) (acc_out p)) in *.
  destruct (Z_le_gt_dec 0 (Bo * (PREC - pw))) as [Hd|Hd].
  - destruct (trunc_int_bounds _ Hd) as [_ [_ T]].
    assert (Bo * (PREC - pw) <= Bo * (PREC - lb)) by (apply Z.mul_le_mono_nonneg_l; lia). lia.
  - pose proof (trunc_int_nonpos (Bo * (PREC - pw)) ltac:(lia)). lia.
Qed.

(* ---------- C03 for weighted pools with an integer weight ratio w_in = n * w_out, exact-in ---------- *)
Section IntegerRatioOut.
  Variable p : pool.
  Variables a fee out slip n : Z.
  Hypothesis Hno : use_oracle p = false.
  Hypothesis Hwo : 0 < w_out p.
  Hypothesis Hwi : w_in p = n * w_out p.
  Hypothesis Hn : 1 <= n.
  Hypothesis HBi : 0 <= rin p.
  Hypothesis HBo : 0 <= rout p.
  Hypothesis Ha : 0 <= a.
  Hypothesis Hfee : 0 <= fee <= PREC.
  Hypothesis Hcalc : calc_out p a fee = Ok (out, slip).
  Let N := rin p * PREC + a * (PREC - fee).
  Let y := dquo (rin p * PREC) N.

  (* against the power of the ROUNDED base y that the code computes *)
  Lemma int_ratio_out_base :
    0 < N /\ 0 < y <= PREC /\ 0 < out <= rout p /\
    2 * out * PREC ^ n <= rout p * (2 * (PREC ^ n - y ^ n) + (n - 1) * PREC ^ (n - 1)).
  Proof.
    pose proof PREC_pos as HP.
    destruct (weighted_out_shape p a fee out slip Hno HBo Hcalc) as (HN & _ & pw & Hpw & Ho & Hopos & Hlb).
    fold N in HN, Hpw. fold y in Hpw.
    rewrite Hwi, dquo_int_ratio in Hpw by exact Hwo.
    apply pow_integer in Hpw; [|lia]. destruct Hpw as [Hypos Hpower].
    assert (Hyle : 0 <= y <= PREC) by (unfold y; apply dquo_le_one; [unfold N; nia|exact HN]).
    destruct (power_lb_le_one y n pw Hyle Hn Hpower) as [L [Hpw0 Hpw1]].
    pose proof (Hlb pw ltac:(lia)) as U.
    split; [exact HN|]. split; [lia|]. split; [split; [exact Hopos|nia]|].
    assert (E : PREC ^ n = PREC * PREC ^ (n - 1)).
    { replace n with (1 + (n - 1)) at 1 by ring. rewrite Z.pow_add_r by lia. now rewrite Z.pow_1_r. }
    assert (Hq : 0 < PREC ^ (n - 1)) by (apply Z.pow_pos_nonneg; lia).
    set (q := PREC ^ (n - 1)) in *. rewrite E.
    (* 2*out*P*q <= rout*(2P - 2pw)*q ; 2 y^n <= (2pw + n-1) q *)
    assert (U2 : out * PREC * (2 * q) <= rout p * (PREC - pw) * (2 * q)) by (apply Z.mul_le_mono_nonneg_r; lia).
    assert (L2 : rout p * (2 * y ^ n) <= rout p * ((2 * pw + (n - 1)) * q)) by (apply Z.mul_le_mono_nonneg_l; lia).
    replace (2 * out * (PREC * q)) with (out * PREC * (2 * q)) by ring.
    replace (rout p * (2 * (PREC * q - y ^ n) + (n - 1) * q))
      with (rout p * (PREC - pw) * (2 * q) + (rout p * ((2 * pw + (n - 1)) * q) - rout p * (2 * y ^ n))) by ring.
    lia.
  Qed.

  (* against the EXACT rational constant-weighted-product amount B_out*(1 - (B_in*10^18/N)^n):
       out <= exact + B_out*((2n-1)/2 + n*10^-18)*10^-18 *)
  Lemma int_ratio_out_exact :
    2 * out * (PREC * PREC) * N ^ n <=
      2 * rout p * (PREC * PREC) * (N ^ n - (rin p * PREC) ^ n) + rout p * N ^ n * ((2 * n - 1) * PREC + 2 * n).
  Proof.
    pose proof PREC_pos as HP.
    destruct (weighted_out_shape p a fee out slip Hno HBo Hcalc) as (HN & _ & pw & Hpw & Ho & Hopos & Hlb).
    fold N in HN, Hpw. fold y in Hpw.
    rewrite Hwi, dquo_int_ratio in Hpw by exact Hwo.
    apply pow_integer in Hpw; [|lia]. destruct Hpw as [Hypos Hpower].
    assert (HA : 0 <= rin p * PREC <= N) by (unfold N; nia).
    assert (Hyle : 0 <= y <= PREC) by (unfold y; apply dquo_le_one; [exact HA|exact HN]).
    destruct (power_lb_le_one y n pw Hyle Hn Hpower) as [L [Hpw0 Hpw1]].
    pose proof (Hlb pw ltac:(lia)) as U.
    destruct (dquo_bounds (rin p * PREC) N ltac:(lia) HN) as [_ [D1 _]]. fold y in D1.
    set (A := rin p * PREC) in *.
    set (m := n - 1). assert (Hm : 0 <= m) by (unfold m; lia).
    assert (En : n = m + 1) by (unfold m; ring).
    (* (A*P^2)^n <= (y*P*N)^n + n*(HALF+1)*N*(P^2*N)^(n-1) *)
    pose proof (pow_diff (A * PREC * PREC) (y * PREC * N) ((HALF + 1) * N) (PREC * PREC * N) m) as PD.
    assert (PP : 0 < PREC * PREC) by (apply Z.mul_pos_pos; lia).
    assert (C1 : 0 <= A * PREC * PREC <= PREC * PREC * N).
    { replace (A * PREC * PREC) with (A * (PREC * PREC)) by ring.
      replace (PREC * PREC * N) with (N * (PREC * PREC)) by ring.
      split; [apply Z.mul_nonneg_nonneg; lia|apply Z.mul_le_mono_nonneg_r; lia]. }
    assert (C2 : 0 <= y * PREC * N <= PREC * PREC * N).
    { replace (y * PREC * N) with (y * (PREC * N)) by ring.
      replace (PREC * PREC * N) with (PREC * (PREC * N)) by ring.
      assert (0 < PREC * N) by (apply Z.mul_pos_pos; lia).
      split; [apply Z.mul_nonneg_nonneg; lia|apply Z.mul_le_mono_nonneg_r; lia]. }
    assert (C3 : 0 <= (HALF + 1) * N) by (apply Z.mul_nonneg_nonneg; [rewrite HALF_eq|]; lia).
    assert (C4 : A * PREC * PREC <= y * PREC * N + (HALF + 1) * N) by lia.
    specialize (PD C1 C2 C3 C4 Hm). rewrite <- En in PD.
    (* abstract the powers *)
    assert (Hq : 0 < PREC ^ m) by (apply Z.pow_pos_nonneg; lia).
    assert (HNm : 0 < N ^ m) by (apply Z.pow_pos_nonneg; lia).
    assert (EP : PREC ^ n = PREC * PREC ^ m) by (rewrite En, Z.pow_add_r, Z.pow_1_r by lia; ring).
    assert (EN : N ^ n = N * N ^ m) by (rewrite En, Z.pow_add_r, Z.pow_1_r by lia; ring).
    rewrite !Z.pow_mul_l in PD. rewrite EP, EN in PD.
    fold m in L.
    set (q := PREC ^ m) in *. set (Nm := N ^ m) in *. set (An := A ^ n) in *. set (yn := y ^ n) in *.
    rewrite EN.
    (* PD : An*(P q)*(P q) <= yn*(P q)*(N Nm) + n*((H+1)*N)*(q*q*Nm) *)
    (* L  : 2*yn <= (2pw + m)*q ;  U : out*P <= rout*(P - pw) *)
    assert (Hqq : 0 < q * q) by (apply Z.mul_pos_pos; lia).
    assert (HNN : 0 < N * Nm) by (apply Z.mul_pos_pos; assumption).
    assert (HPq : 0 < PREC * q) by (apply Z.mul_pos_pos; assumption).
    assert (HPqN : 0 < PREC * q * (N * Nm)) by (apply Z.mul_pos_pos; assumption).
    assert (HPN0 : 0 < PREC * (N * Nm)) by (apply Z.mul_pos_pos; assumption).
    assert (HPN : 0 < 2 * PREC * (N * Nm)) by (replace (2 * PREC * (N * Nm)) with (2 * (PREC * (N * Nm))) by ring; lia).
    assert (G : (q * q) * (2 * An * (PREC * PREC)) <=
                (q * q) * (2 * pw * PREC * (N * Nm) + (N * Nm) * ((2 * n - 1) * PREC + 2 * n))).
    { assert (L3 : (2 * yn) * (PREC * q * (N * Nm)) <= ((2 * pw + m) * q) * (PREC * q * (N * Nm)))
        by (apply Z.mul_le_mono_nonneg_r; lia).
      replace (q * q * (2 * An * (PREC * PREC))) with (2 * (An * (PREC * q) * (PREC * q))) by ring.
      replace (q * q * (2 * pw * PREC * (N * Nm) + N * Nm * ((2 * n - 1) * PREC + 2 * n)))
        with ((2 * pw + m) * q * (PREC * q * (N * Nm)) + 2 * (n * ((HALF + 1) * N) * (q * q * Nm)))
        by (unfold m; rewrite <- HALF_PREC; ring).
      lia. }
    apply Z.mul_le_mono_pos_l in G; [|exact Hqq].
    (* combine with U *)
    assert (U2 : out * PREC * (2 * PREC * (N * Nm)) <= rout p * (PREC - pw) * (2 * PREC * (N * Nm)))
      by (apply Z.mul_le_mono_nonneg_r; lia).
    assert (G2 : rout p * (2 * An * (PREC * PREC)) <=
                 rout p * (2 * pw * PREC * (N * Nm) + N * Nm * ((2 * n - 1) * PREC + 2 * n)))
      by (apply Z.mul_le_mono_nonneg_l; lia).
    replace (2 * out * (PREC * PREC) * (N * Nm)) with (out * PREC * (2 * PREC * (N * Nm))) by ring.
    replace (2 * rout p * (PREC * PREC) * (N * Nm - An) + rout p * (N * Nm) * ((2 * n - 1) * PREC + 2 * n))
      with (rout p * (PREC - pw) * (2 * PREC * (N * Nm))
            + (rout p * (2 * pw * PREC * (N * Nm) + N * Nm * ((2 * n - 1) * PREC + 2 * n))
               - rout p * (2 * An * (PREC * PREC)))) by ring.
    clear - U2 G2. lia.
  Qed.

  (* the stated allowance of ONE base unit holds while B_out*((2n-1)*10^18 + 2n) <= 2*10^36
     (n = 3: B_out <= 4*10^17 - 1; n = 2: <= 6.6*10^17; n = 4: <= 2.8*10^17) *)
  Lemma int_ratio_out_one_unit :
    rout p * ((2 * n - 1) * PREC + 2 * n) <= 2 * (PREC * PREC) ->
    out <= (rout p * (N ^ n - (rin p * PREC) ^ n)) / N ^ n + 1.
  Proof.
    intros Hb. pose proof PREC_pos as HP.
    pose proof int_ratio_out_exact as X.
    destruct int_ratio_out_base as (HN & _).
    assert (HNn : 0 < N ^ n) by (apply Z.pow_pos_nonneg; lia).
    set (Nn := N ^ n) in *. set (D := Nn - (rin p * PREC) ^ n) in *.
    set (e := (rout p * D) / Nn).
    assert (E1 : rout p * D < (e + 1) * Nn).
    { unfold e. pose proof (Z.div_mod (rout p * D) Nn ltac:(lia)) as DM.
      pose proof (Z.mod_pos_bound (rout p * D) Nn HNn). nia. }
    assert (PP : 0 < PREC * PREC) by nia.
    assert (X1 : rout p * Nn * ((2 * n - 1) * PREC + 2 * n) <= 2 * (PREC * PREC) * Nn).
    { replace (rout p * Nn * ((2 * n - 1) * PREC + 2 * n)) with (rout p * ((2 * n - 1) * PREC + 2 * n) * Nn) by ring.
      apply Z.mul_le_mono_nonneg_r; lia. }
    assert (X2 : (rout p * D) * (2 * (PREC * PREC)) < ((e + 1) * Nn) * (2 * (PREC * PREC)))
      by (apply Z.mul_lt_mono_pos_r; lia).
    assert (F : out * (2 * (PREC * PREC) * Nn) < (e + 2) * (2 * (PREC * PREC) * Nn)).
    { replace (out * (2 * (PREC * PREC) * Nn)) with (2 * out * (PREC * PREC) * Nn) by ring.
      replace ((e + 2) * (2 * (PREC * PREC) * Nn)) with ((e + 1) * Nn * (2 * (PREC * PREC)) + 2 * (PREC * PREC) * Nn) by ring.
      replace (2 * rout p * (PREC * PREC) * D) with (rout p * D * (2 * (PREC * PREC))) in X by ring. lia. }
    assert (0 < 2 * (PREC * PREC) * Nn) by nia.
    apply Z.mul_lt_mono_pos_r in F; [lia|assumption].
  Qed.
End IntegerRatioOut.

(* ---------- exact-out (CalcInAmtGivenOut), integer ratio w_out = n * w_in ---------- *)
Lemma weighted_in_shape p o fee inn slip :
  use_oracle p = false -> 0 <= rin p -> 0 <= fee < PREC ->
  calc_in p o fee = Ok (inn, slip) ->
  0 < rout p * PREC - o * PREC /\
  exists pw,
    pow (dquo (rout p * PREC) (rout p * PREC - o * PREC)) (dquo (w_out p * PREC) (w_in p * PREC)) = Ok pw /\
    inn = trunc_int (dceil (dquo (rin p * (pw - PREC)) (PREC - fee))) /\ 0 < inn /\
    forall lb, PREC <= lb <= pw -> rin p * (lb - PREC) <= inn * PREC.
Proof.
  intros Hno HBi Hfee Hcalc.
  destruct (weighted_in_partial p o fee inn slip Hno HBi Hfee Hcalc) as (pw & Hpw & R).
  split; [|exists pw; split; assumption].
  unfold rin, rout in *. unfold calc_in in Hcalc.
  unfold weights in Hcalc. rewrite Hno in Hcalc. simpl in Hcalc.
  apply bind_ok in Hcalc. destruct Hcalc as [post [H1 H]]. apply csub_ok in H1.
  apply bind_ok in H. destruct H as [t0 [H2 H]].
  rewrite !eff_ebal in *.
  apply solve_shape in H2. destruct H2 as (_ & Hpost & _). subst post. exact Hpost.
Qed.

Section IntegerRatioIn.
  Variable p : pool.
  Variables o fee inn slip n : Z.
  Hypothesis Hno : use_oracle p = false.
  Hypothesis Hwi : 0 < w_in p.
  Hypothesis Hwo : w_out p = n * w_in p.
  Hypothesis Hn : 1 <= n.
  Hypothesis HBi : 0 <= rin p.
  Hypothesis Ho : 0 <= o.
  Hypothesis Hfee : 0 <= fee < PREC.
  Hypothesis Hcalc : calc_in p o fee = Ok (inn, slip).
  Let R := rout p - o.
  Let y := dquo (rout p * PREC) (R * PREC).

  (* the charge is at least B_in*(y^n*(1 - (n-1)/(2*10^18)) - 1) for the rounded base y >= 1 the code computes, and
     y is the nearest 10^-18 to B_out/(B_out - o) (last conjunct: y > exact - (1/2 + 10^-18)*10^-18) *)
  Lemma int_ratio_in_base :
    0 < R /\ PREC <= y /\ 0 < inn /\
    rin p * ((2 * PREC - (n - 1)) * y ^ n - 2 * PREC * PREC ^ n) <= 2 * inn * PREC * PREC ^ n /\
    rout p * (PREC * PREC) < y * PREC * R + (HALF + 1) * R.
  Proof.
    pose proof PREC_pos as HP.
    destruct (weighted_in_shape p o fee inn slip Hno HBi Hfee Hcalc) as (Hpost & pw & Hpw & _ & Hipos & Hlb).
    replace (rout p * PREC - o * PREC) with (R * PREC) in Hpost, Hpw by (unfold R; ring).
    fold y in Hpw. rewrite Hwo, dquo_int_ratio in Hpw by exact Hwi.
    apply pow_integer in Hpw; [|lia]. destruct Hpw as [Hypos Hpower].
    assert (HR : 0 < R) by nia.
    assert (Hyge : PREC <= y) by (unfold y; apply dquo_ge_one; unfold R in *; nia).
    destruct (power_lb_ge_one y n pw Hyge Hn Hpower) as [L Hpw1].
    pose proof (Hlb pw ltac:(lia)) as U.
    split; [exact HR|]. split; [exact Hyge|]. split; [exact Hipos|]. split.
    - assert (Hq : 0 < PREC ^ n) by (apply Z.pow_pos_nonneg; lia).
      set (q := PREC ^ n) in *. set (yn := y ^ n) in *.
      assert (U2 : rin p * (pw - PREC) * (2 * q) <= inn * PREC * (2 * q)) by (apply Z.mul_le_mono_nonneg_r; lia).
      assert (L2 : rin p * ((2 * PREC - (n - 1)) * yn) <= rin p * (2 * pw * q)) by (apply Z.mul_le_mono_nonneg_l; lia).
      replace (rin p * ((2 * PREC - (n - 1)) * yn - 2 * PREC * q))
        with (rin p * ((2 * PREC - (n - 1)) * yn) - rin p * (2 * PREC * q)) by ring.
      replace (2 * inn * PREC * q) with (inn * PREC * (2 * q)) by ring.
      replace (rin p * (pw - PREC) * (2 * q)) with (rin p * (2 * pw * q) - rin p * (2 * PREC * q)) in U2 by ring.
      lia.
    - assert (HBo : 0 <= rout p * PREC) by (unfold R in HR; nia).
      destruct (dquo_bounds (rout p * PREC) (R * PREC) HBo Hpost) as [_ [D1 _]]. fold y in D1.
      assert (F : (rout p * (PREC * PREC)) * PREC < (y * PREC * R + (HALF + 1) * R) * PREC).
      { replace (rout p * (PREC * PREC) * PREC) with (rout p * PREC * PREC * PREC) by ring.
        replace ((y * PREC * R + (HALF + 1) * R) * PREC) with (y * PREC * (R * PREC) + R * PREC + HALF * (R * PREC)) by ring.
        lia. }
      apply Z.mul_lt_mono_pos_r in F; [exact F|exact HP].
  Qed.
End IntegerRatioIn.

(* ---------- non-vacuity: the market fixture's 1:3 pool (uusdc 30e9 weight 1, uelys 10e9 weight 3) swapped in the
   direction with ratio 3 (uelys in, uusdc out), 1e6 in at 0.3%: out = floor(exact) ---------- *)
Definition cp13 (bi bo wi wo : Z) : pool := mkPool bi bo wi wo 0 0 false 0 0 0 0.

Lemma int_ratio_nonvacuous :
  let p := cp13 10000000000 30000000000 3 1 in
  let N := rin p * PREC + 1000000 * (PREC - 3000000000000000) in
  exists slip, calc_out p 1000000 3000000000000000 = Ok (8971211, slip) /\
  (rout p * (N ^ 3 - (rin p * PREC) ^ 3)) / N ^ 3 = 8971211 /\
  rout p * ((2 * 3 - 1) * PREC + 2 * 3) <= 2 * (PREC * PREC) /\
  exists slip2, calc_in (cp13 30000000000 10000000000 1 3) 1000000 3000000000000000 = Ok (9028887, slip2).
Proof.
  cbv zeta. eexists. split; [vm_compute; reflexivity|]. split; [vm_compute; reflexivity|].
  split; [vm_compute; discriminate|]. eexists. vm_compute. reflexivity.
Qed.

(* above the stated size the ONE-unit allowance is exceeded for integer-ratio pools as well (same cause as
   C03_one_unit_refuted: y is rounded to 10^-18 before it is raised to the power and multiplied by B_out):
   reserves 4*10^23 : 3*10^23, weights 3:1, fee 0, 10^18 in: the pool pays floor(exact) + 225176, within the proved
   slack B_out*(2n-1)/(2*10^18) = 750000. *)
Lemma int_ratio_one_unit_refuted :
  let p := cp13 400000000000000000000000 300000000000000000000000 3 1 in
  let N := rin p * PREC + 1000000000000000000 * PREC in
  exists out slip, calc_out p 1000000000000000000 0 = Ok (out, slip) /\ out = (rout p * (N ^ 3 - (rin p * PREC) ^ 3)) / N ^ 3 + 225176.
Proof. cbv zeta. eexists. eexists. split; vm_compute; reflexivity. Qed.

(* ---------- packaged statements for Props/C03.v ---------- *)
Lemma pow_integer_lb y M n pw :
  0 <= y <= M -> PREC <= M -> 1 <= n -> pow y (n * PREC) = Ok pw ->
  2 * PREC * y ^ n <= 2 * pw * PREC ^ n + (n - 1) * M ^ n /\ 0 <= pw.
Proof.
  intros Hy HM Hn H. apply pow_integer in H; [|lia]. destruct H as [_ H].
  exact (power_lb y M Hy HM n pw Hn H).
Qed.

Lemma int_ratio_out_full p a fee out slip n :
  use_oracle p = false -> 0 < w_out p -> w_in p = n * w_out p -> 1 <= n ->
  0 <= rin p -> 0 <= rout p -> 0 <= a -> 0 <= fee <= PREC ->
  calc_out p a fee = Ok (out, slip) ->
  let N := rin p * PREC + a * (PREC - fee) in
  let y := dquo (rin p * PREC) N in
  (0 < N /\ 0 < y <= PREC /\ 0 < out <= rout p /\
   2 * out * PREC ^ n <= rout p * (2 * (PREC ^ n - y ^ n) + (n - 1) * PREC ^ (n - 1))) /\
  2 * out * (PREC * PREC) * N ^ n <=
    2 * rout p * (PREC * PREC) * (N ^ n - (rin p * PREC) ^ n) + rout p * N ^ n * ((2 * n - 1) * PREC + 2 * n).
Proof.
  intros H1 H2 H3 H4 H5 H6 H7 H8 H9. cbv zeta. split.
  - exact (int_ratio_out_base p a fee out slip n H1 H2 H3 H4 H5 H6 H7 H8 H9).
  - exact (int_ratio_out_exact p a fee out slip n H1 H2 H3 H4 H5 H6 H7 H8 H9).
Qed.
