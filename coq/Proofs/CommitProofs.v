(* Proofs about Models/Commit.v (the commitment ledger).  Invariants by induction over fold_left
   histories; the property theorems of Props/C12.v are instances of the lemmas here. *)
From Coq Require Import ZArith List Bool Lia.
From Elys Require Import Base.Res Base.Zdec Models.Commit.
Import ListNotations.
Open Scope Z_scope.

(* ------------------------------------------------------------------ generic list facts *)

Lemma zsum_app l1 l2 : zsum (l1 ++ l2) = zsum l1 + zsum l2.
Proof. induction l1 as [|x l1 IH]; simpl; lia. Qed.

Lemma length_upd_nth {A} n (x : A) l : length (upd_nth n x l) = length l.
Proof. revert n; induction l as [|y l IH]; intros [|n]; simpl; auto. Qed.

Lemma nth_upd_nth_same {A} n (x d : A) l : (n < length l)%nat -> nth n (upd_nth n x l) d = x.
Proof. revert n; induction l as [|y l IH]; intros [|n] H; simpl in *; try lia; auto. apply IH; lia. Qed.

Lemma nth_upd_nth_other {A} n m (x d : A) l : n <> m -> nth m (upd_nth n x l) d = nth m l d.
Proof.
  revert n m; induction l as [|y l IH]; intros [|n] [|m] H; simpl; auto; try congruence.
Qed.

Lemma Forall_upd_nth {A} (P : A -> Prop) n x l : Forall P l -> P x -> Forall P (upd_nth n x l).
Proof.
  revert n; induction l as [|y l IH]; intros [|n] Hl Hx; simpl; auto; inversion Hl; subst; constructor; auto.
Qed.

Lemma Forall_nth_dflt {A} (P : A -> Prop) n l d : Forall P l -> P d -> P (nth n l d).
Proof.
  revert n; induction l as [|y l IH]; intros [|n] Hl Hd; simpl; auto; inversion Hl; subst; auto.
Qed.

Lemma zsum_map_upd_nth {A} (f : A -> Z) n x l d :
  (n < length l)%nat -> zsum (map f (upd_nth n x l)) = zsum (map f l) - f (nth n l d) + f x.
Proof.
  revert n; induction l as [|y l IH]; intros [|n] H; simpl in *; try lia.
  rewrite IH by lia. lia.
Qed.

Lemma zsum_map_nonneg {A} (f : A -> Z) l : Forall (fun x => 0 <= f x) l -> 0 <= zsum (map f l).
Proof. induction 1; simpl; lia. Qed.

Lemma zsum_map_ge_nth {A} (f : A -> Z) n l d :
  Forall (fun x => 0 <= f x) l -> (n < length l)%nat -> f (nth n l d) <= zsum (map f l).
Proof.
  revert n; induction l as [|y l IH]; intros [|n] Hl H; simpl in *; try lia; inversion Hl; subst.
  - pose proof (zsum_map_nonneg f l H3). lia.
  - specialize (IH n H3 ltac:(lia)). lia.
Qed.

(* ------------------------------------------------------------------ lock-up lists *)

Lemma locked_sum_filter_le p ls :
  Forall (fun k => 0 <= l_amt k) ls -> locked_sum (filter p ls) <= locked_sum ls.
Proof.
  unfold locked_sum. induction 1 as [|k ls Hk _ IH]; simpl; [lia|].
  destruct (p k); simpl; lia.
Qed.

Lemma locked_sum_app a b : locked_sum (a ++ b) = locked_sum a + locked_sum b.
Proof. unfold locked_sum. rewrite map_app, zsum_app. reflexivity. Qed.

Lemma filter_liq now ls : filter (keep_lock now true) ls = [].
Proof. induction ls as [|k ls IH]; simpl; auto. unfold keep_lock at 1. rewrite andb_false_r. exact IH. Qed.

(* ------------------------------------------------------------------ committed-token lists *)

Definition wf_tok (t : ctok) : Prop :=
  0 <= t_amt t /\ Forall (fun k => 0 <= l_amt k) (t_locks t) /\ locked_sum (t_locks t) <= t_amt t.

Definition wf_toks (l : list ctok) : Prop := Forall wf_tok l /\ NoDup (map t_denom l).

Lemma csum_cons d t r : csum d (t :: r) = (if t_denom t =? d then t_amt t else 0) + csum d r.
Proof. unfold csum. simpl. destruct (t_denom t =? d); simpl; lia. Qed.

Lemma csum_nil d : csum d [] = 0. Proof. reflexivity. Qed.

Lemma csum_add d' d x u l :
  csum d' (add_committed d x u l) = csum d' l + (if d' =? d then x else 0).
Proof.
  induction l as [|t r IH]; simpl.
  - rewrite csum_cons, csum_nil. simpl. rewrite Z.eqb_sym. destruct (d' =? d); lia.
  - destruct (t_denom t =? d) eqn:E.
    + rewrite !csum_cons. simpl. apply Z.eqb_eq in E. rewrite E. rewrite (Z.eqb_sym d' d).
      destruct (d =? d'); lia.
    + rewrite !csum_cons, IH. lia.
Qed.

Lemma csum_deduct d' d x now liq l l' :
  deduct_committed d x now liq l = Ok l' ->
  csum d' l' = csum d' l - (if d' =? d then x else 0).
Proof.
  revert l'; induction l as [|t r IH]; intros l' H; simpl in H; [discriminate|].
  destruct (t_denom t =? d) eqn:E.
  - apply Z.eqb_eq in E. subst d.
    destruct (t_amt t - x <? 0); [discriminate|].
    destruct (t_amt t - x <? locked_sum (filter (keep_lock now liq) (t_locks t))); [discriminate|].
    rewrite csum_cons, (Z.eqb_sym d' (t_denom t)).
    destruct (t_amt t - x =? 0) eqn:Z0; inversion H; subst l'.
    + apply Z.eqb_eq in Z0. destruct (t_denom t =? d'); lia.
    + rewrite csum_cons. simpl. destruct (t_denom t =? d'); lia.
  - destruct (deduct_committed d x now liq r) as [r'| |] eqn:R; simpl in H; inversion H; subst.
    rewrite !csum_cons, (IH r' eq_refl). lia.
Qed.

Lemma add_denoms_in d x u l y :
  In y (map t_denom (add_committed d x u l)) -> y = d \/ In y (map t_denom l).
Proof.
  induction l as [|t r IH]; simpl.
  - intros [H|[]]; auto.
  - destruct (t_denom t =? d) eqn:E; simpl; intros [H|H]; auto.
    destruct (IH H); auto.
Qed.

Lemma deduct_denoms_in d x now liq l l' y :
  deduct_committed d x now liq l = Ok l' -> In y (map t_denom l') -> In y (map t_denom l).
Proof.
  revert l'; induction l as [|t r IH]; intros l' H; simpl in H; [discriminate|].
  destruct (t_denom t =? d) eqn:E.
  - destruct (t_amt t - x <? 0); [discriminate|].
    destruct (t_amt t - x <? locked_sum (filter (keep_lock now liq) (t_locks t))); [discriminate|].
    destruct (t_amt t - x =? 0); inversion H; subst; simpl; tauto.
  - destruct (deduct_committed d x now liq r) as [r'| |] eqn:R; simpl in H; inversion H; subst.
    simpl. intros [Hy|Hy]; auto. right. exact (IH r' eq_refl Hy).
Qed.

Lemma wf_add d x u l : 0 <= x -> wf_toks l -> wf_toks (add_committed d x u l).
Proof.
  intros Hx [Hf Hn]. split.
  - clear Hn. induction Hf as [|t r Ht Hr IH]; simpl.
    + constructor; [|constructor]. unfold wf_tok; simpl.
      destruct (u =? 0); simpl; repeat split; auto; unfold locked_sum; simpl; try lia.
    + destruct (t_denom t =? d).
      * constructor; [|exact Hr]. destruct Ht as (A & B & C). unfold wf_tok; simpl.
        destruct (u =? 0); repeat split; auto; try lia.
        -- apply Forall_app; split; auto.
        -- rewrite locked_sum_app. unfold locked_sum at 2. simpl. lia.
      * constructor; auto.
  - clear Hf. induction l as [|t r IH]; simpl.
    + constructor; [intros []|constructor].
    + inversion Hn as [|? ? Hnin Hnr]; subst.
      destruct (t_denom t =? d) eqn:E; simpl.
      * constructor; auto.
      * constructor; auto. intros Hin. apply add_denoms_in in Hin. destruct Hin as [Hin|Hin]; auto.
        apply Z.eqb_neq in E. congruence.
Qed.

Lemma wf_deduct d x now liq l l' :
  deduct_committed d x now liq l = Ok l' -> wf_toks l -> wf_toks l'.
Proof.
  intros H [Hf Hn]. split.
  - clear Hn. revert l' H. induction Hf as [|t r Ht Hr IH]; intros l' H; simpl in H; [discriminate|].
    destruct (t_denom t =? d).
    + destruct (t_amt t - x <? 0) eqn:N; [discriminate|]. apply Z.ltb_ge in N.
      destruct (t_amt t - x <? locked_sum (filter (keep_lock now liq) (t_locks t))) eqn:L; [discriminate|].
      apply Z.ltb_ge in L.
      destruct (t_amt t - x =? 0); inversion H; subst; auto.
      constructor; auto. destruct Ht as (A & B & C). unfold wf_tok; simpl. repeat split; auto.
      apply Forall_forall. intros k Hk. apply filter_In in Hk. destruct Hk as [Hk _].
      rewrite Forall_forall in B. auto.
    + destruct (deduct_committed d x now liq r) as [r'| |] eqn:R; simpl in H; inversion H; subst.
      constructor; auto.
  - clear Hf. revert l' H. induction l as [|t r IH]; intros l' H; [discriminate|].
    inversion Hn as [|? ? Hnin Hnr]; subst. simpl in H.
    destruct (t_denom t =? d).
    + destruct (t_amt t - x <? 0); [discriminate|].
      destruct (t_amt t - x <? locked_sum (filter (keep_lock now liq) (t_locks t))); [discriminate|].
      destruct (t_amt t - x =? 0); inversion H; subst; auto; try (simpl; constructor; auto).
    + destruct (deduct_committed d x now liq r) as [r'| |] eqn:R; simpl in H; inversion H; subst.
      simpl. constructor; auto. intros Hin. apply Hnin. eapply deduct_denoms_in; eauto.
Qed.

Lemma csum_notin d l : ~ In d (map t_denom l) -> csum d l = 0.
Proof.
  induction l as [|t r IH]; intros H; [reflexivity|].
  rewrite csum_cons. simpl in H.
  destruct (t_denom t =? d) eqn:E; [apply Z.eqb_eq in E; tauto|]. rewrite IH; tauto.
Qed.

(* with distinct denoms the sum over all entries is the amount of the (first) entry *)
Lemma csum_camt d l : NoDup (map t_denom l) -> csum d l = camt d l.
Proof.
  induction l as [|t r IH]; intros H; [reflexivity|].
  inversion H as [|? ? Hnin Hnr]; subst. rewrite csum_cons. simpl.
  destruct (t_denom t =? d) eqn:E.
  - apply Z.eqb_eq in E. subst d. rewrite csum_notin; auto. lia.
  - rewrite IH; auto.
Qed.

Lemma csum_nonneg d l : Forall wf_tok l -> 0 <= csum d l.
Proof.
  induction 1 as [|t r Ht _ IH]; [rewrite csum_nil; lia|].
  rewrite csum_cons. destruct Ht as (A & _). destruct (t_denom t =? d); lia.
Qed.

(* the decision DeductFromCommitted takes, read off the first entry of the denom *)
Lemma deduct_ok_inv d x now liq l l' :
  deduct_committed d x now liq l = Ok l' ->
  In d (map t_denom l) /\ 0 <= camt d l - x /\
  locked_sum (filter (keep_lock now liq) (clocks d l)) <= camt d l - x.
Proof.
  revert l'; induction l as [|t r IH]; intros l' H; simpl in H; [discriminate|].
  simpl. destruct (t_denom t =? d) eqn:E.
  - apply Z.eqb_eq in E.
    destruct (t_amt t - x <? 0) eqn:N; [discriminate|]. apply Z.ltb_ge in N.
    destruct (t_amt t - x <? locked_sum (filter (keep_lock now liq) (t_locks t))) eqn:L; [discriminate|].
    apply Z.ltb_ge in L. auto.
  - destruct (deduct_committed d x now liq r) as [r'| |] eqn:R; simpl in H; inversion H; subst.
    destruct (IH r' eq_refl) as (A & B & C). auto.
Qed.

Lemma deduct_overdraw d x now liq l : camt d l < x -> deduct_committed d x now liq l = Err E_insufficient_committed.
Proof.
  induction l as [|t r IH]; intros H; simpl in *; [reflexivity|].
  destruct (t_denom t =? d).
  - destruct (t_amt t - x <? 0) eqn:N; [reflexivity|]. apply Z.ltb_ge in N. lia.
  - rewrite IH; auto.
Qed.

(* a liquidation is never stopped by a lock *)
Lemma deduct_liq_ok d x now l :
  In d (map t_denom l) -> x <= camt d l -> exists l', deduct_committed d x now true l = Ok l'.
Proof.
  induction l as [|t r IH]; intros Hin Hx; simpl in *; [tauto|].
  destruct (t_denom t =? d) eqn:E.
  - destruct (t_amt t - x <? 0) eqn:N; [apply Z.ltb_lt in N; lia|].
    rewrite filter_liq. unfold locked_sum at 1. simpl.
    destruct (t_amt t - x <? 0) eqn:N2; [discriminate|].
    destruct (t_amt t - x =? 0); eauto.
  - destruct Hin as [Hin|Hin]; [apply Z.eqb_neq in E; congruence|].
    destruct (IH Hin Hx) as (r' & Hr). rewrite Hr. simpl. eauto.
Qed.

(* ------------------------------------------------------------------ ledger invariant *)

Definition wf_acct (A : acct) : Prop :=
  wf_toks (a_com A) /\ (forall d, 0 <= a_claimed A d) /\ (forall d, 0 <= a_wallet A d).

(* every amount of the ledger is non-negative, lock-ups never exceed their entry, denoms of an
   account are distinct, and the module account covers committed + claimed of every bank-backed denom *)
Definition Inv (s : ledger) : Prop :=
  Forall wf_acct (s_accts s) /\
  forall d, is_virtual d = false -> sum_committed d s + sum_claimed d s <= s_mod s d.

Lemma wf_dflt : wf_acct dflt_acct.
Proof. repeat split; simpl; try constructor; unfold zero; intros; lia. Qed.

Lemma inv_get s a : Inv s -> wf_acct (get_acct s a).
Proof. intros [H _]. unfold get_acct. apply Forall_nth_dflt; auto. apply wf_dflt. Qed.

Lemma fadd_eq f d x d' : fadd f d x d' = f d' + (if d' =? d then x else 0).
Proof.
  unfold fadd, fupd. destruct (d' =? d) eqn:E; [apply Z.eqb_eq in E; subst; lia|lia].
Qed.

Lemma has_acct_lt s a : has_acct s a = true -> (a < length (s_accts s))%nat.
Proof. unfold has_acct. intros H. apply Nat.ltb_lt in H. exact H. Qed.

Lemma sums_upd s a A' m p d : has_acct s a = true ->
  sum_committed d (mkLed (upd_nth a A' (s_accts s)) m p)
    = sum_committed d s - csum d (a_com (get_acct s a)) + csum d (a_com A') /\
  sum_claimed d (mkLed (upd_nth a A' (s_accts s)) m p)
    = sum_claimed d s - a_claimed (get_acct s a) d + a_claimed A' d.
Proof.
  intros H. apply has_acct_lt in H. unfold sum_committed, sum_claimed, get_acct. simpl.
  split.
  - rewrite (zsum_map_upd_nth (fun A => csum d (a_com A)) a A' (s_accts s) dflt_acct H). reflexivity.
  - rewrite (zsum_map_upd_nth (fun A => a_claimed A d) a A' (s_accts s) dflt_acct H). reflexivity.
Qed.

Lemma inv_upd s a A' m p :
  Inv s -> has_acct s a = true -> wf_acct A' ->
  (forall d, is_virtual d = false ->
     (csum d (a_com A') + a_claimed A' d) - (csum d (a_com (get_acct s a)) + a_claimed (get_acct s a) d)
     <= m d - s_mod s d) ->
  Inv (mkLed (upd_nth a A' (s_accts s)) m p).
Proof.
  intros [Hf Hc] Ha Hw Hd. split.
  - simpl. apply Forall_upd_nth; auto.
  - intros d Hv. destruct (sums_upd s a A' m p d Ha) as [E1 E2]. rewrite E1, E2. simpl.
    specialize (Hc d Hv). specialize (Hd d Hv). lia.
Qed.

Lemma has_acct_upd s a b A' m p :
  has_acct (mkLed (upd_nth b A' (s_accts s)) m p) a = has_acct s a.
Proof. unfold has_acct. simpl. rewrite length_upd_nth. reflexivity. Qed.

Lemma get_acct_upd_same s a A' m p :
  has_acct s a = true -> get_acct (mkLed (upd_nth a A' (s_accts s)) m p) a = A'.
Proof. intros H. unfold get_acct. simpl. apply nth_upd_nth_same. apply has_acct_lt; auto. Qed.

Lemma get_acct_upd_other s a b A' m p :
  a <> b -> get_acct (mkLed (upd_nth a A' (s_accts s)) m p) b = get_acct s b.
Proof. intros H. unfold get_acct. simpl. apply nth_upd_nth_other; auto. Qed.

(* effect of the emitted updates on the sum of committed amounts *)
Definition dcom (d : Z) (u : tup) : Z :=
  match u with
  | TCommit d' x => if d =? d' then x else 0
  | TUncommit d' x => if d =? d' then - x else 0
  | TBurn d' x => if d =? d' then - x else 0
  end.
Definition up_ok (u : tup) : Prop :=
  match u with TCommit _ _ => True | TUncommit _ x => 0 <= x | TBurn _ x => 0 <= x end.

(* what one handler guarantees: invariant kept, only well-formed updates, and the per-denom sum of
   committed amounts moves exactly as the emitted updates say *)
Definition post (s s' : ledger) (ups : list tup) : Prop :=
  Inv s' /\ Forall up_ok ups /\ length (s_accts s') = length (s_accts s) /\
  forall d, sum_committed d s' = sum_committed d s + zsum (map (dcom d) ups).

Lemma post_refl s : Inv s -> post s s [].
Proof. intros H. repeat split; try apply H; auto. intros d. simpl. lia. Qed.

Lemma post_trans s1 s2 s3 u1 u2 : post s1 s2 u1 -> post s2 s3 u2 -> post s1 s3 (u1 ++ u2).
Proof.
  intros (I1 & F1 & L1 & E1) (I2 & F2 & L2 & E2). repeat split; try apply I2.
  - apply Forall_app; auto.
  - congruence.
  - intros d. rewrite E2, E1, map_app, zsum_app. lia.
Qed.

Ltac fadd_tac :=
  repeat rewrite fadd_eq;
  repeat match goal with |- context [?a =? ?b] => let E := fresh "E" in destruct (a =? b) eqn:E;
           [apply Z.eqb_eq in E; subst|apply Z.eqb_neq in E] end; try lia.

Lemma post_upd s a A' m p ups :
  Inv s -> has_acct s a = true -> wf_acct A' ->
  (forall d, is_virtual d = false ->
     (csum d (a_com A') + a_claimed A' d) - (csum d (a_com (get_acct s a)) + a_claimed (get_acct s a) d)
     <= m d - s_mod s d) ->
  Forall up_ok ups ->
  (forall d, csum d (a_com A') - csum d (a_com (get_acct s a)) = zsum (map (dcom d) ups)) ->
  post s (mkLed (upd_nth a A' (s_accts s)) m p) ups.
Proof.
  intros HI Ha Hw Hd Hu Hs. split; [|split; [|split]].
  - apply inv_upd; auto.
  - exact Hu.
  - simpl. apply length_upd_nth.
  - intros d. destruct (sums_upd s a A' m p d Ha) as [E1 _]. rewrite E1. specialize (Hs d). lia.
Qed.

Lemma commit_liquid_post s a d amt lock s' ups :
  Inv s -> commit_liquid s a d amt lock = Ok (s', ups) -> post s s' ups /\ ups = [TCommit d amt].
Proof.
  intros HI H. unfold commit_liquid, guard in H.
  destruct (has_acct s a) eqn:Ha; [|discriminate].
  destruct (s_ap s d) as [[ce we]|]; [|discriminate].
  destruct ce; [|discriminate].
  destruct (amt <? 0) eqn:N; [discriminate|]. apply Z.ltb_ge in N.
  destruct (amt <=? a_wallet (get_acct s a) d) eqn:W; [|discriminate]. apply Z.leb_le in W.
  inversion H; subst; clear H. split; [|reflexivity].
  destruct (inv_get s a HI) as (Wc & Wl & Ww).
  apply post_upd; [exact HI|exact Ha| | | |].
  - split; [|split]; simpl; auto.
    + apply wf_add; auto.
    + intros d0. rewrite fadd_eq. specialize (Ww d0). destruct (d0 =? d) eqn:E; [apply Z.eqb_eq in E; subst|]; lia.
  - intros d0 _. simpl. rewrite csum_add, fadd_eq. destruct (d0 =? d); lia.
  - constructor; simpl; auto.
  - intros d0. simpl. rewrite csum_add. destruct (d0 =? d); lia.
Qed.

Lemma commit_claimed_post s a d amt now s' ups :
  Inv s -> commit_claimed s a d amt now = Ok (s', ups) -> post s s' ups /\ ups = [TCommit d amt].
Proof.
  intros HI H. unfold commit_claimed, guard in H.
  destruct (has_acct s a) eqn:Ha; [|discriminate].
  destruct (s_ap s d) as [[ce we]|]; [|discriminate].
  destruct ce; [|discriminate].
  destruct (amt <? 0) eqn:N; [discriminate|]. apply Z.ltb_ge in N.
  destruct (amt <=? a_claimed (get_acct s a) d) eqn:W; [|discriminate]. apply Z.leb_le in W.
  inversion H; subst; clear H. split; [|reflexivity].
  destruct (inv_get s a HI) as (Wc & Wl & Ww).
  apply post_upd; [exact HI|exact Ha| | | |].
  - split; [|split]; simpl; auto.
    + apply wf_add; auto.
    + intros d0. rewrite fadd_eq. specialize (Wl d0). destruct (d0 =? d) eqn:E; [apply Z.eqb_eq in E; subst|]; lia.
  - intros d0 _. simpl. rewrite csum_add, fadd_eq. destruct (d0 =? d); lia.
  - constructor; simpl; auto.
  - intros d0. simpl. rewrite csum_add. destruct (d0 =? d); lia.
Qed.

Lemma camt_nonneg d l : wf_toks l -> 0 <= camt d l.
Proof. intros [Hf Hn]. rewrite <- csum_camt by auto. apply csum_nonneg; auto. Qed.

Lemma burn_post s a d amt now s' ups :
  Inv s -> burn_eden_boost s a d amt now = Ok (s', ups) -> post s s' ups.
Proof.
  intros HI H. unfold burn_eden_boost, guard in H.
  destruct (has_acct s a) eqn:Ha; [|discriminate].
  destruct (amt =? 0); [inversion H; subst; apply post_refl; auto|].
  destruct (inv_get s a HI) as (Wc & Wl & Ww).
  set (A := get_acct s a) in *.
  set (rem := if a_claimed A d <? amt then a_claimed A d else amt) in *.
  destruct (rem <? 0) eqn:N; [discriminate|]. apply Z.ltb_ge in N.
  destruct (amt - rem =? 0); [inversion H; subst; apply post_refl; auto|].
  set (amt2 := if camt d (a_com A) <? amt - rem then camt d (a_com A) else amt - rem) in *.
  destruct (amt2 =? 0); [inversion H; subst; apply post_refl; auto|].
  destruct (deduct_committed d amt2 now false (a_com A)) as [com'| |] eqn:D; simpl in H; try discriminate.
  inversion H; subst; clear H.
  assert (Hrem : rem <= a_claimed A d /\ rem <= amt).
  { unfold rem. destruct (a_claimed A d <? amt) eqn:C; [apply Z.ltb_lt in C|apply Z.ltb_ge in C]; lia. }
  assert (H2 : 0 <= amt2).
  { unfold amt2. pose proof (camt_nonneg d (a_com A) Wc).
    destruct (camt d (a_com A) <? amt - rem); lia. }
  apply post_upd; [exact HI|exact Ha| | | |].
  - split; [|split]; simpl; auto.
    + eapply wf_deduct; eauto.
    + intros d0. rewrite fadd_eq. specialize (Wl d0). destruct (d0 =? d) eqn:E; [apply Z.eqb_eq in E; subst|]; lia.
  - intros d0 _. simpl. rewrite (csum_deduct d0 _ _ _ _ _ _ D), fadd_eq. fold A. destruct (d0 =? d); lia.
  - constructor; simpl; auto.
  - intros d0. simpl. rewrite (csum_deduct d0 _ _ _ _ _ _ D). fold A. destruct (d0 =? d); lia.
Qed.

Lemma virt_eden : is_virtual EDEN = true. Proof. reflexivity. Qed.
Lemma virt_edenb : is_virtual EDENB = true. Proof. reflexivity. Qed.

Lemma hook_post s a u now st re rb s' ups :
  Inv s -> has_acct s a = true -> eden_uncommitted_hook s a u now st re rb = Ok (s', ups) -> post s s' ups.
Proof.
  intros HI Ha H. unfold eden_uncommitted_hook, guard in H.
  destruct ((0 <=? re) && (0 <=? rb)) eqn:R; [|discriminate].
  apply andb_true_iff in R. destruct R as [R1 R2]. apply Z.leb_le in R1. apply Z.leb_le in R2.
  destruct (inv_get s a HI) as (Wc & Wl & Ww).
  match type of H with burn_eden_boost ?s1 _ _ _ _ = _ => assert (P1 : post s s1 []) end.
  { unfold set_acct. apply post_upd; [exact HI|exact Ha| | |constructor|].
    - split; [|split]; simpl; auto.
      intros d0. rewrite !fadd_eq. specialize (Wl d0). destruct (d0 =? EDENB); destruct (d0 =? EDEN); lia.
    - intros d0 Hv. simpl. rewrite !fadd_eq.
      destruct (d0 =? EDENB) eqn:E1; [apply Z.eqb_eq in E1; subst; discriminate|].
      destruct (d0 =? EDEN) eqn:E2; [apply Z.eqb_eq in E2; subst; discriminate|]. lia.
    - intros d0. simpl. lia. }
  pose proof (burn_post _ _ _ _ _ _ _ (proj1 P1) H) as P2.
  exact (post_trans _ _ _ _ _ P1 P2).
Qed.

Lemma uncommit_post s a d amt now liq st re rb s' ups :
  Inv s -> uncommit s a d amt now liq st re rb = Ok (s', ups) ->
  post s s' ups /\ exists ups', ups = TUncommit d amt :: ups' /\ Forall (fun u => exists d' x, u = TBurn d' x) ups'.
Proof.
  intros HI H. unfold uncommit, guard in H.
  destruct (has_acct s a) eqn:Ha; [|discriminate].
  destruct (s_ap s d) as [[ce we]|]; [|discriminate].
  destruct we; [|discriminate].
  destruct (inv_get s a HI) as (Wc & Wl & Ww).
  set (A := get_acct s a) in *.
  destruct (deduct_committed d amt now liq (a_com A)) as [com'| |] eqn:D; simpl in H; try discriminate.
  destruct (amt <? 0) eqn:N; [discriminate|]. apply Z.ltb_ge in N.
  destruct (is_virtual d || (amt =? 0) || (amt <=? s_mod s d)) eqn:G; [|discriminate].
  match type of H with (if _ then (bind (eden_uncommitted_hook ?s1 _ _ _ _ _ _) _) else _) = _ =>
    assert (P1 : post s s1 [TUncommit d amt]) end.
  { apply post_upd; [exact HI|exact Ha| | | |].
    - split; [|split]; simpl; auto.
      + eapply wf_deduct; eauto.
      + intros d0. destruct (is_virtual d); auto. rewrite fadd_eq. specialize (Wl d0). destruct (d0 =? d); lia.
      + intros d0. destruct (is_virtual d); auto. rewrite fadd_eq. specialize (Ww d0). destruct (d0 =? d); lia.
    - intros d0 Hv. simpl. rewrite (csum_deduct d0 _ _ _ _ _ _ D). fold A.
      destruct (is_virtual d) eqn:V.
      + rewrite fadd_eq. destruct (d0 =? d) eqn:E; [apply Z.eqb_eq in E; subst; congruence|]. lia.
      + rewrite fadd_eq. destruct (d0 =? d); lia.
    - constructor; simpl; auto.
    - intros d0. simpl. rewrite (csum_deduct d0 _ _ _ _ _ _ D). fold A. destruct (d0 =? d); lia. }
  destruct (d =? EDEN).
  - match type of H with bind ?r _ = _ => destruct r as [[s2 ups2]| |] eqn:HK; simpl in H; try discriminate end.
    inversion H; subst; clear H.
    assert (Ha1 : has_acct (mkLed (upd_nth a (mkA com' (if is_virtual d then fadd (a_claimed A) d amt else a_claimed A)
                      (if is_virtual d then a_wallet A else fadd (a_wallet A) d amt)) (s_accts s))
                      (if is_virtual d then s_mod s else fadd (s_mod s) d (- amt)) (s_ap s)) a = true).
    { rewrite has_acct_upd. exact Ha. }
    pose proof (hook_post _ _ _ _ _ _ _ _ _ (proj1 P1) Ha1 HK) as P2.
    split.
    + exact (post_trans _ _ _ _ _ P1 P2).
    + exists ups2. split; auto.
      (* the hook emits nothing but burns *)
      clear - HK. unfold eden_uncommitted_hook, guard in HK.
      destruct ((0 <=? re) && (0 <=? rb)); [|discriminate].
      unfold burn_eden_boost, guard in HK.
      repeat match type of HK with
             | (if ?c then _ else _) = _ => destruct c; try discriminate
             | Ok _ = Ok _ => inversion HK; subst; clear HK
             end; auto.
      match type of HK with bind ?r _ = _ => destruct r; simpl in HK; try discriminate end.
      inversion HK; subst. constructor; eauto.
  - inversion H; subst; clear H. split; auto. exists []. split; auto.
Qed.

Lemma wallet_only_post s a w :
  Inv s -> has_acct s a = true -> (forall d, 0 <= w d) ->
  post s (set_acct s a (mkA (a_com (get_acct s a)) (a_claimed (get_acct s a)) w)) [].
Proof.
  intros HI Ha Hw. destruct (inv_get s a HI) as (Wc & Wl & Ww).
  unfold set_acct. apply post_upd; [exact HI|exact Ha| | |constructor|].
  - split; [|split]; simpl; auto.
  - intros d0 _. simpl. lia.
  - intros d0. simpl. lia.
Qed.

Lemma mint_wallet_post s a d amt s' : Inv s -> mint_wallet s a d amt = Ok s' -> post s s' [].
Proof.
  intros HI H. unfold mint_wallet, guard in H.
  destruct (has_acct s a) eqn:Ha; [|discriminate].
  destruct (0 <=? amt) eqn:N; [|discriminate]. apply Z.leb_le in N.
  inversion H; subst; clear H. apply wallet_only_post; auto.
  destruct (inv_get s a HI) as (Wc & Wl & Ww).
  intros d0. rewrite fadd_eq. specialize (Ww d0). destruct (d0 =? d); lia.
Qed.

Lemma burn_wallet_post s a d amt s' : Inv s -> burn_wallet s a d amt = Ok s' -> post s s' [].
Proof.
  intros HI H. unfold burn_wallet, guard in H.
  destruct (has_acct s a) eqn:Ha; [|discriminate].
  destruct (0 <=? amt) eqn:N; [|discriminate]. apply Z.leb_le in N.
  destruct (amt <=? a_wallet (get_acct s a) d) eqn:W; [|discriminate]. apply Z.leb_le in W.
  inversion H; subst; clear H. apply wallet_only_post; auto.
  destruct (inv_get s a HI) as (Wc & Wl & Ww).
  intros d0. rewrite fadd_eq. specialize (Ww d0). destruct (d0 =? d) eqn:E; [apply Z.eqb_eq in E; subst|]; lia.
Qed.

Lemma deposit_claimed_post s a d amt s' : Inv s -> deposit_claimed s a d amt = Ok s' -> post s s' [].
Proof.
  intros HI H. unfold deposit_claimed, guard in H.
  destruct (has_acct s a) eqn:Ha; [|discriminate].
  destruct (s_ap s d) as [[ce we]|]; [|discriminate].
  destruct ce; [|discriminate].
  destruct (amt <? 0) eqn:N; [discriminate|]. apply Z.ltb_ge in N.
  destruct (amt <=? a_wallet (get_acct s a) d) eqn:W; [|discriminate]. apply Z.leb_le in W.
  inversion H; subst; clear H.
  destruct (inv_get s a HI) as (Wc & Wl & Ww).
  apply post_upd; [exact HI|exact Ha| | |constructor|].
  - split; [|split]; simpl; auto.
    + intros d0. rewrite fadd_eq. specialize (Wl d0). destruct (d0 =? d); lia.
    + intros d0. rewrite fadd_eq. specialize (Ww d0). destruct (d0 =? d) eqn:E; [apply Z.eqb_eq in E; subst|]; lia.
  - intros d0 _. simpl. rewrite !fadd_eq. destruct (d0 =? d); lia.
  - intros d0. simpl. lia.
Qed.

Lemma add_claimed_post s a d amt s' : Inv s -> add_claimed s a d amt = Ok s' -> post s s' [].
Proof.
  intros HI H. unfold add_claimed, guard in H.
  destruct (has_acct s a) eqn:Ha; [|discriminate].
  destruct (is_virtual d) eqn:V; [|discriminate].
  destruct (0 <=? amt) eqn:N; [|discriminate]. apply Z.leb_le in N.
  inversion H; subst; clear H.
  destruct (inv_get s a HI) as (Wc & Wl & Ww).
  unfold set_acct. apply post_upd; [exact HI|exact Ha| | |constructor|].
  - split; [|split]; simpl; auto.
    intros d0. rewrite fadd_eq. specialize (Wl d0). destruct (d0 =? d); lia.
  - intros d0 Hv. simpl. rewrite fadd_eq.
    destruct (d0 =? d) eqn:E; [apply Z.eqb_eq in E; subst; congruence|]. lia.
  - intros d0. simpl. lia.
Qed.

Lemma sub_claimed_post s a d amt s' : Inv s -> sub_claimed s a d amt = Ok s' -> post s s' [].
Proof.
  intros HI H. unfold sub_claimed, guard in H.
  destruct (has_acct s a) eqn:Ha; [|discriminate].
  destruct (amt <? 0) eqn:N; [discriminate|]. apply Z.ltb_ge in N.
  destruct (amt <=? a_claimed (get_acct s a) d) eqn:W; [|discriminate]. apply Z.leb_le in W.
  inversion H; subst; clear H.
  destruct (inv_get s a HI) as (Wc & Wl & Ww).
  unfold set_acct. apply post_upd; [exact HI|exact Ha| | |constructor|].
  - split; [|split]; simpl; auto.
    intros d0. rewrite fadd_eq. specialize (Wl d0). destruct (d0 =? d) eqn:E; [apply Z.eqb_eq in E; subst|]; lia.
  - intros d0 _. simpl. rewrite fadd_eq. destruct (d0 =? d); lia.
  - intros d0. simpl. lia.
Qed.

Lemma nolog_post s r s' ups :
  (forall s1, r = Ok s1 -> post s s1 []) -> nolog r = Ok (s', ups) -> post s s' ups.
Proof.
  intros Hp H. unfold nolog in H. destruct r as [s1| |]; simpl in H; try discriminate.
  inversion H; subst. apply Hp. reflexivity.
Qed.

(* every handler keeps the ledger invariant and moves the per-denom committed sums exactly as the
   updates it emits for Params.TotalCommitted say *)
Lemma core_post s o s' ups : Inv s -> core s o = Ok (s', ups) -> post s s' ups.
Proof.
  intros HI H. destruct o; simpl in H.
  - eapply commit_liquid_post; eauto.
  - destruct (mint_wallet s a d amt) as [s1| |] eqn:M; simpl in H; try discriminate.
    pose proof (mint_wallet_post _ _ _ _ _ HI M) as P1.
    pose proof (proj1 (commit_liquid_post _ _ _ _ _ _ _ (proj1 P1) H)) as P2.
    exact (post_trans _ _ _ _ _ P1 P2).
  - eapply uncommit_post; eauto.
  - unfold guard in H. destruct (is_virtual d); [|discriminate]. eapply uncommit_post; eauto.
  - destruct (uncommit s a d amt now liq 0 0 0) as [[s1 ups1]| |] eqn:U; simpl in H; try discriminate.
    destruct (burn_wallet s1 a d amt) as [s2| |] eqn:B; simpl in H; try discriminate.
    inversion H; subst; clear H.
    pose proof (proj1 (uncommit_post _ _ _ _ _ _ _ _ _ _ _ HI U)) as P1.
    pose proof (burn_wallet_post _ _ _ _ _ (proj1 P1) B) as P2.
    rewrite <- (app_nil_r ups). exact (post_trans _ _ _ _ _ P1 P2).
  - eapply commit_claimed_post; eauto.
  - eapply burn_post; eauto.
  - eapply nolog_post; [|exact H]. intros s1 E. eapply deposit_claimed_post; eauto.
  - eapply nolog_post; [|exact H]. intros s1 E. eapply add_claimed_post; eauto.
  - eapply nolog_post; [|exact H]. intros s1 E. eapply sub_claimed_post; eauto.
  - eapply nolog_post; [|exact H]. intros s1 E. eapply mint_wallet_post; eauto.
  - unfold guard in H. destruct (0 <=? amt) eqn:N; [|discriminate]. apply Z.leb_le in N.
    inversion H; subst; clear H. destruct HI as [Hf Hc].
    split; [|split; [|split]]; simpl; auto.
    + split; simpl; auto. intros d0 Hv. unfold sum_committed, sum_claimed in *. simpl.
      rewrite fadd_eq. specialize (Hc d0 Hv). destruct (d0 =? d); lia.
    + intros d0. unfold sum_committed. simpl. lia.
  - inversion H; subst; clear H. destruct HI as [Hf Hc].
    split; [|split; [|split]]; simpl; auto.
    + split; simpl; auto.
    + intros d0. unfold sum_committed. simpl. lia.
Qed.

(* ------------------------------------------------------------------ the chain-wide total *)

Definition dtot (fu fb : bool) (d : Z) (u : tup) : Z :=
  match u with
  | TCommit d' x => if d =? d' then x else 0
  | TUncommit d' x => if d =? d' then (if fu then - x else x) else 0
  | TBurn d' x => if fb then (if d =? d' then - x else 0) else 0
  end.

Lemma apply_tup_eq fu fb t u d : apply_tup fu fb t u d = t d + dtot fu fb d u.
Proof.
  destruct u; simpl; try rewrite fadd_eq; auto.
  destruct fb; [rewrite fadd_eq|]; lia.
Qed.

Lemma fold_apply fu fb ups t d :
  fold_left (apply_tup fu fb) ups t d = t d + zsum (map (dtot fu fb d) ups).
Proof.
  revert t; induction ups as [|u r IH]; intros t; simpl; [lia|].
  rewrite IH, apply_tup_eq. lia.
Qed.

Lemma dtot_ge fu fb d u : up_ok u -> dcom d u <= dtot fu fb d u.
Proof. destruct u; simpl; intros H; destruct (d =? d0); destruct fu; destruct fb; lia. Qed.

Lemma dtot_fixed d u : dtot true true d u = dcom d u.
Proof. destruct u; reflexivity. Qed.

Lemma zsum_dtot_ge fu fb d ups :
  Forall up_ok ups -> zsum (map (dcom d) ups) <= zsum (map (dtot fu fb d) ups).
Proof. induction 1 as [|u r Hu _ IH]; simpl; [lia|]. pose proof (dtot_ge fu fb d u Hu). lia. Qed.

Lemma zsum_dtot_fixed d ups : zsum (map (dtot true true d) ups) = zsum (map (dcom d) ups).
Proof. induction ups as [|u r IH]; simpl; [lia|]. rewrite dtot_fixed. lia. Qed.

Definition SInv (s : state) : Prop := Inv (s_led s).
Definition TotGe (s : state) : Prop := forall d, sum_committed d (s_led s) <= s_total s d.
Definition TotEq (s : state) : Prop := forall d, s_total s d = sum_committed d (s_led s).

Lemma step_inv fu fb s o s' :
  SInv s -> step_gen fu fb s o = Ok s' ->
  SInv s' /\ (TotGe s -> TotGe s') /\ (fu = true -> fb = true -> TotEq s -> TotEq s').
Proof.
  intros HI H. unfold step_gen in H.
  destruct (core (s_led s) o) as [[l ups]| |] eqn:C; simpl in H; try discriminate.
  inversion H; subst; clear H.
  destruct (core_post _ _ _ _ HI C) as (I' & Fu & _ & Es).
  split; [exact I'|]. split.
  - intros G d. simpl. rewrite fold_apply, Es. specialize (G d).
    pose proof (zsum_dtot_ge fu fb d ups Fu). lia.
  - intros -> -> G d. simpl. rewrite fold_apply, Es, zsum_dtot_fixed. specialize (G d). lia.
Qed.

Lemma exec_inv fu fb s o :
  SInv s -> SInv (exec_gen fu fb s o) /\ (TotGe s -> TotGe (exec_gen fu fb s o)) /\
  (fu = true -> fb = true -> TotEq s -> TotEq (exec_gen fu fb s o)).
Proof.
  intros HI. unfold exec_gen, run_tx.
  destruct (step_gen fu fb s o) as [s'| |] eqn:E; auto.
  exact (step_inv fu fb s o s' HI E).
Qed.

Lemma run_inv fu fb ops : forall s,
  SInv s -> SInv (run_gen fu fb s ops) /\ (TotGe s -> TotGe (run_gen fu fb s ops)) /\
  (fu = true -> fb = true -> TotEq s -> TotEq (run_gen fu fb s ops)).
Proof.
  induction ops as [|o r IH]; intros s HI; simpl; auto.
  destruct (exec_inv fu fb s o HI) as (I1 & G1 & E1).
  destruct (IH _ I1) as (I2 & G2 & E2). auto.
Qed.

Lemma zsum_map_repeat {A} (f : A -> Z) x n : f x = 0 -> zsum (map f (repeat x n)) = 0.
Proof. intros H. induction n; simpl; lia. Qed.

Lemma init_inv n : SInv (init_state n) /\ TotGe (init_state n) /\ TotEq (init_state n).
Proof.
  unfold SInv, TotGe, TotEq, init_state, Inv, sum_committed, sum_claimed. simpl.
  split; [split|split].
  - apply Forall_forall. intros A HA. apply repeat_spec in HA. subst. apply wf_dflt.
  - intros d _. rewrite !zsum_map_repeat by reflexivity. unfold zero. lia.
  - intros d. rewrite zsum_map_repeat by reflexivity. unfold zero. lia.
  - intros d. rewrite zsum_map_repeat by reflexivity. reflexivity.
Qed.

(* ------------------------------------------------------------------ theorems over all histories *)

(* the code as it is: the total never falls below the sum (and, C12_total_refuted, can exceed it) *)
Theorem total_ge_sum n ops d :
  let s := run (init_state n) ops in sum_committed d (s_led s) <= s_total s d.
Proof.
  destruct (init_inv n) as (I & G & _).
  destruct (run_inv false false ops _ I) as (_ & G' & _). exact (G' G d).
Qed.

(* with both sites repaired the total is exact after every history *)
Theorem total_eq_sum_fixed n ops d :
  let s := run_fixed (init_state n) ops in s_total s d = sum_committed d (s_led s).
Proof.
  destruct (init_inv n) as (I & _ & E).
  destruct (run_inv true true ops _ I) as (_ & _ & E'). exact (E' eq_refl eq_refl E d).
Qed.

Theorem custody_covers fu fb n ops d :
  is_virtual d = false ->
  let s := s_led (run_gen fu fb (init_state n) ops) in
  sum_committed d s + sum_claimed d s <= s_mod s d.
Proof.
  intros Hv. destruct (init_inv n) as (I & _ & _).
  destruct (run_inv fu fb ops _ I) as ([_ C] & _ & _). exact (C d Hv).
Qed.

Theorem reachable_wf fu fb n ops a :
  wf_acct (get_acct (s_led (run_gen fu fb (init_state n) ops)) a).
Proof.
  destruct (init_inv n) as (I & _ & _).
  destruct (run_inv fu fb ops _ I) as (I' & _ & _). apply inv_get. exact I'.
Qed.

Definition refute_ops : list op :=
  [OSetProfile EDEN (Some (true, true)); OAddClaimed 0 EDEN 100; OCommitClaimed 0 EDEN 100 1000;
   OUncommitMsg 0 EDEN 100 1000 0 0 0].

Theorem total_refuted :
  let s := run (init_state 1) refute_ops in
  s_total s EDEN = 200 /\ sum_committed EDEN (s_led s) = 0 /\ a_claimed (get_acct (s_led s) 0) EDEN = 100.
Proof. vm_compute. repeat split. Qed.

Definition refute_burn_ops : list op :=
  [OSetProfile EDEN (Some (true, true)); OSetProfile EDENB (Some (true, true));
   OAddClaimed 0 EDEN 100; OAddClaimed 0 EDENB 100;
   OCommitClaimed 0 EDENB 100 1000; OCommitClaimed 0 EDEN 100 1000;
   OUncommitMsg 0 EDEN 100 1005 0 0 0].

(* even with the uncommit site repaired (fu = true) the EdenB burn alone leaves the total too high *)
Theorem burn_total_refuted :
  let s := run_gen true false (init_state 1) refute_burn_ops in
  s_total s EDENB = 100 /\ sum_committed EDENB (s_led s) = 0 /\ s_total s EDEN = 0.
Proof. vm_compute. repeat split. Qed.

(* ------------------------------------------------------------------ the two models differ in the total only *)

Lemma led_indep fu fb fu' fb' ops : forall s1 s2,
  s_led s1 = s_led s2 -> s_led (run_gen fu fb s1 ops) = s_led (run_gen fu' fb' s2 ops).
Proof.
  induction ops as [|o r IH]; intros s1 s2 E; simpl; auto.
  apply IH. unfold exec_gen, run_tx, step_gen. rewrite E.
  destruct (core (s_led s2) o) as [[l ups]| |]; simpl; auto.
Qed.

Definition only_commits (ups : list tup) : Prop := Forall (fun u => exists d x, u = TCommit d x) ups.

Lemma fold_only_commits fu fb fu' fb' ups : only_commits ups -> forall t,
  fold_left (apply_tup fu fb) ups t = fold_left (apply_tup fu' fb') ups t.
Proof.
  induction 1 as [|u r (d & x & ->) _ IH]; intros t; simpl; auto.
Qed.

Lemma commit_liquid_ups s a d amt lock s' ups :
  commit_liquid s a d amt lock = Ok (s', ups) -> ups = [TCommit d amt].
Proof.
  unfold commit_liquid, guard. intros H.
  repeat match type of H with
         | (if ?c then _ else _) = _ => destruct c; try discriminate
         | match ?c with _ => _ end = _ => destruct c; try discriminate
         end.
  inversion H; auto.
Qed.

Lemma commit_claimed_ups s a d amt now s' ups :
  commit_claimed s a d amt now = Ok (s', ups) -> ups = [TCommit d amt].
Proof.
  unfold commit_claimed, guard. intros H.
  repeat match type of H with
         | (if ?c then _ else _) = _ => destruct c; try discriminate
         | match ?c with _ => _ end = _ => destruct c; try discriminate
         end.
  inversion H; auto.
Qed.

Lemma nolog_ups r s' ups : nolog r = Ok (s', ups) -> ups = [].
Proof. unfold nolog. destruct r; simpl; intros H; inversion H; auto. Qed.

Lemma core_off_site s o s' ups : total_site o = false -> core s o = Ok (s', ups) -> only_commits ups.
Proof.
  intros Hs H. destruct o; simpl in Hs; try discriminate; simpl in H.
  - apply commit_liquid_ups in H. subst. constructor; eauto; constructor.
  - destruct (mint_wallet s a d amt); simpl in H; try discriminate.
    apply commit_liquid_ups in H. subst. constructor; eauto; constructor.
  - apply commit_claimed_ups in H. subst. constructor; eauto; constructor.
  - apply nolog_ups in H. subst. constructor.
  - apply nolog_ups in H. subst. constructor.
  - apply nolog_ups in H. subst. constructor.
  - apply nolog_ups in H. subst. constructor.
  - unfold guard in H. destruct (0 <=? amt); inversion H. constructor.
  - inversion H. constructor.
Qed.

Theorem step_same_off_sites fu fb fu' fb' s o :
  total_site o = false -> step_gen fu fb s o = step_gen fu' fb' s o.
Proof.
  intros Hs. unfold step_gen. destruct (core (s_led s) o) as [[l ups]| |] eqn:C; simpl; auto.
  rewrite (fold_only_commits fu fb fu' fb' ups (core_off_site _ _ _ _ Hs C)). reflexivity.
Qed.

(* result kind and ledger of a step never depend on the switches (nor on the total) *)
Theorem step_same_ledger fu fb fu' fb' s o :
  match step_gen fu fb s o, step_gen fu' fb' s o with
  | Ok a, Ok b => s_led a = s_led b
  | Err x, Err y => x = y
  | Panic x, Panic y => x = y
  | _, _ => False
  end.
Proof. unfold step_gen. destruct (core (s_led s) o) as [[l ups]| |]; simpl; auto. Qed.

(* ------------------------------------------------------------------ lock-ups, overdraw, liquidation *)

Definition uncommit_of (o : op) : option (nat * Z * Z * Z * bool) :=
  match o with
  | OUncommit a d amt now liq _ _ _ => Some (a, d, amt, now, liq)
  | OUncommitMsg a d amt now _ _ _ => Some (a, d, amt, now, false)
  | OUncommitBurn a d amt now liq => Some (a, d, amt, now, liq)
  | _ => None
  end.

Lemma uncommit_ok_deduct s a d amt now liq st re rb r :
  uncommit s a d amt now liq st re rb = Ok r ->
  exists com', deduct_committed d amt now liq (a_com (get_acct s a)) = Ok com'.
Proof.
  unfold uncommit, guard. intros H.
  destruct (has_acct s a); [|discriminate].
  destruct (s_ap s d) as [[ce we]|]; [|discriminate].
  destruct we; [|discriminate].
  destruct (deduct_committed d amt now liq (a_com (get_acct s a))) as [com'| |]; simpl in H; try discriminate.
  eauto.
Qed.

Lemma core_uncommit_deduct s o a d amt now liq r :
  uncommit_of o = Some (a, d, amt, now, liq) -> core s o = Ok r ->
  exists com', deduct_committed d amt now liq (a_com (get_acct s a)) = Ok com'.
Proof.
  intros U H. destruct o; simpl in U; inversion U; subst; clear U; simpl in H.
  - eapply uncommit_ok_deduct; eauto.
  - unfold guard in H. destruct (is_virtual d); [|discriminate]. eapply uncommit_ok_deduct; eauto.
  - destruct (uncommit s a d amt now liq 0 0 0) as [r1| |] eqn:E; simpl in H; try discriminate.
    eapply uncommit_ok_deduct; eauto.
Qed.

(* list level, post-state form: what DeductFromCommitted leaves committed covers everything that was
   still locked at that time *)
Theorem deduct_keeps_locked d amt now l l' :
  wf_toks l -> deduct_committed d amt now false l = Ok l' ->
  camt d l' = camt d l - amt /\ 0 <= camt d l' /\ clocked now d l <= camt d l'.
Proof.
  intros W H. pose proof (wf_deduct _ _ _ _ _ _ H W) as W'.
  destruct (deduct_ok_inv _ _ _ _ _ _ H) as (_ & A & B).
  assert (E : camt d l' = camt d l - amt).
  { rewrite <- !csum_camt by (apply W || apply W'). rewrite (csum_deduct d _ _ _ _ _ _ H), Z.eqb_refl. lia. }
  unfold clocked. rewrite E. auto.
Qed.

(* state level: a successful non-liquidation uncommit (message, keeper call, exit / unbond) at time
   [now] leaves at least the still-locked amount committed *)
Theorem locked_not_withdrawable fu fb s o a d amt now s' :
  uncommit_of o = Some (a, d, amt, now, false) -> step_gen fu fb s o = Ok s' ->
  let com := a_com (get_acct (s_led s) a) in
  clocked now d com <= camt d com - amt /\ 0 <= camt d com - amt.
Proof.
  intros U H. unfold step_gen in H.
  destruct (core (s_led s) o) as [r| |] eqn:C; simpl in H; try discriminate.
  destruct (core_uncommit_deduct _ _ _ _ _ _ _ _ U C) as (com' & D).
  destruct (deduct_ok_inv _ _ _ _ _ _ D) as (_ & A & B). unfold clocked. auto.
Qed.

Lemma uncommit_overdraw s a d amt now liq st re rb :
  camt d (a_com (get_acct s a)) < amt -> exists e, uncommit s a d amt now liq st re rb = Err e.
Proof.
  intros H. unfold uncommit, guard.
  destruct (has_acct s a); [|eauto].
  destruct (s_ap s d) as [[ce we]|]; [|eauto].
  destruct we; [|eauto].
  rewrite (deduct_overdraw _ _ _ _ _ H). simpl. eauto.
Qed.

(* uncommitting more than the account has committed is an error (of any of the three entry points,
   liquidation included) and changes nothing *)
Theorem no_overdraw fu fb s o a d amt now liq :
  uncommit_of o = Some (a, d, amt, now, liq) ->
  camt d (a_com (get_acct (s_led s) a)) < amt ->
  (exists e, step_gen fu fb s o = Err e) /\ exec_gen fu fb s o = s.
Proof.
  intros U H.
  assert (E : exists e, step_gen fu fb s o = Err e).
  { unfold step_gen. destruct o; simpl in U; inversion U; subst; clear U; simpl.
    - destruct (uncommit_overdraw (s_led s) a d amt now liq staked rew_e rew_b H) as (e & ->). simpl. eauto.
    - unfold guard. destruct (is_virtual d); simpl; eauto.
      destruct (uncommit_overdraw (s_led s) a d amt now false staked rew_e rew_b H) as (e & ->). simpl. eauto.
    - destruct (uncommit_overdraw (s_led s) a d amt now liq 0 0 0 H) as (e & ->). simpl. eauto. }
  split; auto. destruct E as (e & E). unfold exec_gen, run_tx. rewrite E. reflexivity.
Qed.

(* liquidation override: in every state satisfying the ledger invariant (so in every reachable one), a
   liquidation uncommit within the committed amount succeeds whatever the lock-ups are *)
Theorem liquidation_override s a d amt now st re rb ce :
  Inv s -> has_acct s a = true -> s_ap s d = Some (ce, true) -> d <> EDEN ->
  In d (map t_denom (a_com (get_acct s a))) -> 0 <= amt <= camt d (a_com (get_acct s a)) ->
  exists r, uncommit s a d amt now true st re rb = Ok r.
Proof.
  intros HI Ha Hp Hd Hin Hamt. unfold uncommit, guard. rewrite Ha, Hp.
  destruct (deduct_liq_ok d amt now _ Hin (proj2 Hamt)) as (com' & ->). simpl.
  destruct (amt <? 0) eqn:N; [apply Z.ltb_lt in N; lia|].
  assert (G : is_virtual d || (amt =? 0) || (amt <=? s_mod s d) = true).
  { destruct (is_virtual d) eqn:V; auto. simpl.
    apply orb_true_iff. right. apply Z.leb_le.
    destruct HI as [Hf Hc]. specialize (Hc d V).
    assert (W : wf_acct (get_acct s a)) by (unfold get_acct; apply Forall_nth_dflt; auto; apply wf_dflt).
    destruct W as ([Wf Wn] & _).
    assert (C1 : csum d (a_com (get_acct s a)) <= sum_committed d s).
    { unfold sum_committed, get_acct.
      apply (zsum_map_ge_nth (fun A => csum d (a_com A)) a (s_accts s) dflt_acct).
      - eapply Forall_impl; [|exact Hf]. intros A ([WA _] & _). apply csum_nonneg; auto.
      - apply has_acct_lt; auto. }
    assert (C2 : 0 <= sum_claimed d s).
    { unfold sum_claimed. apply zsum_map_nonneg. eapply Forall_impl; [|exact Hf]. intros A (_ & WA & _). apply WA. }
    rewrite csum_camt in C1 by auto. lia. }
  rewrite G. destruct (d =? EDEN) eqn:E; [apply Z.eqb_eq in E; congruence|]. eauto.
Qed.
