(* Proofs about Models/CloseGuard.v (C10). *)
From Coq Require Import ZArith List Bool Lia.
From Elys Require Import Base.Res Models.CloseGuard.
Import ListNotations.
Open Scope Z_scope.

(* ---------------------------------------------------------------- maps *)

Lemma pset_same m o i v : pset m o i v o i = v.
Proof. unfold pset. rewrite !Z.eqb_refl. reflexivity. Qed.

Lemma pset_other m o i v o' i' : (o' <> o \/ i' <> i) -> pset m o i v o' i' = m o' i'.
Proof.
  intros H. unfold pset. destruct (Z.eqb_spec o' o); destruct (Z.eqb_spec i' i); cbn; try reflexivity.
  destruct H; contradiction.
Qed.

Lemma key_dec (o i o' i' : Z) : (o' = o /\ i' = i) \/ (o' <> o \/ i' <> i).
Proof. destruct (Z.eq_dec o' o); destruct (Z.eq_dec i' i); auto. Qed.

Lemma fadd_other_owner f o d a o' d' : o' <> o -> fadd f o d a o' d' = f o' d'.
Proof. intros H. unfold fadd. destruct (Z.eqb_spec o' o); [contradiction|reflexivity]. Qed.

Lemma pay_all_other_owner l : forall f o o' d', o' <> o -> pay_all f o l o' d' = f o' d'.
Proof.
  induction l as [|[d a] r IH]; intros f o o' d' H; cbn; [reflexivity|].
  rewrite IH by exact H. apply fadd_other_owner. exact H.
Qed.

Lemma module_dec (a b : module) : a = b \/ a <> b.
Proof. destruct a, b; auto; right; discriminate. Qed.

Lemma pm_with_pm_same m s x : pm m (with_pm m s x) = x.
Proof. destruct m; reflexivity. Qed.
Lemma pm_with_pm_other m m' s x : m' <> m -> pm m' (with_pm m s x) = pm m' s.
Proof. destruct m, m'; intros H; try reflexivity; contradiction H; reflexivity. Qed.
Lemma pm_with_funds m s f : pm m (with_funds s f) = pm m s.
Proof. destruct m; reflexivity. Qed.
Lemma funds_with_pm m s x : st_funds (with_pm m s x) = st_funds s.
Proof. destruct m; reflexivity. Qed.
Lemma funds_with_funds s f : st_funds (with_funds s f) = f.
Proof. reflexivity. Qed.
Lemma sf_with_pm m m' s x : sf m' (with_pm m s x) = sf m' s.
Proof. destruct m, m'; reflexivity. Qed.
Lemma sf_with_funds m s f : sf m (with_funds s f) = sf m s.
Proof. destruct m; reflexivity. Qed.

(* ---------------------------------------------------------------- "left as it was" *)

Definition pequiv (a b : option pos) : Prop :=
  match a, b with
  | None, None => True
  | Some p, Some q => core p = core q /\ trig p = trig q
  | _, _ => False
  end.

Lemma pequiv_refl a : pequiv a a.
Proof. destruct a; cbn; auto. Qed.

Lemma pequiv_core a b : pequiv a b -> option_map core a = option_map core b.
Proof. destruct a, b; cbn; intros H; try contradiction; [destruct H as [H _]; rewrite H|]; reflexivity. Qed.

Lemma pequiv_trig a b : pequiv a b -> option_map trig a = option_map trig b.
Proof. destruct a, b; cbn; intros H; try contradiction; [destruct H as [_ H]; rewrite H|]; reflexivity. Qed.

Definition core_at (m : pmap) (o i : Z) : option (Z * Z * Z) := option_map core (m o i).
Definition trig_at (m : pmap) (o i : Z) : option (option Z * option Z * bool) := option_map trig (m o i).

(* ---------------------------------------------------------------- one forced item *)

Lemma do_close_pos m s o i c m' o' i' :
  pm m' (do_close m s o i c) o' i' = pm m' s o' i' \/
  (m' = m /\ o' = o /\ i' = i /\ pm m' (do_close m s o i c) o' i' = None).
Proof.
  destruct c as [pay|pay]; unfold do_close.
  - rewrite pm_with_funds. destruct (module_dec m' m) as [->|Hm].
    + rewrite pm_with_pm_same. destruct (key_dec o i o' i') as [[-> ->]|Hk].
      * right. rewrite pset_same. auto.
      * left. apply pset_other. exact Hk.
    + left. rewrite pm_with_pm_other by exact Hm. reflexivity.
  - left. destruct m; reflexivity.
Qed.

Lemma do_close_sf m s o i c m' : sf m' (do_close m s o i c) = sf m' s.
Proof.
  destruct c; unfold do_close.
  - rewrite sf_with_funds, sf_with_pm. reflexivity.
  - destruct m; reflexivity.
Qed.

Lemma do_close_funds m s o i c o' d' : o' <> o -> st_funds (do_close m s o i c) o' d' = st_funds s o' d'.
Proof.
  intros H. destruct c; unfold do_close.
  - rewrite funds_with_funds. rewrite pay_all_other_owner by exact H. reflexivity.
  - destruct m; reflexivity.
Qed.

Lemma forced_step_sf s x m : sf m (forced_step s x) = sf m s.
Proof.
  destruct x as [k it]. unfold forced_step.
  destruct (pm (kmod k) s (i_owner it) (i_id it)) as [p|]; [|reflexivity].
  destruct k;
    repeat match goal with
    | |- context [match i_settle it with _ => _ end] => destruct (i_settle it)
    | |- context [if ?b then _ else _] => destruct b
    end; rewrite ?do_close_sf, ?sf_with_pm; reflexivity.
Qed.

(* the settled record of a perpetual liquidation check is "as it was" *)
Lemma settled_equiv p d :
  pequiv (Some p) (Some (mkPos (p_size p + d) (p_accr p + d) (p_coll p) (p_princ p) (p_sl p) (p_tp p) (p_long p))).
Proof. cbn. split; [unfold core; cbn; f_equal; f_equal; lia|reflexivity]. Qed.

(* A: a forced item either leaves a position as it was, or it is exactly the named position, the
   position existed, the item's guard held for the values resolved at that moment, and it is gone *)
Lemma forced_step_pos s k it m o i :
  pequiv (pm m s o i) (pm m (forced_step s (k, it)) o i) \/
  (kmod k = m /\ i_owner it = o /\ i_id it = i /\
   exists p, pm m s o i = Some p /\ guard_of k (sf m s) (trig p) it = true /\
             pm m (forced_step s (k, it)) o i = None).
Proof.
  unfold forced_step.
  destruct (pm (kmod k) s (i_owner it) (i_id it)) as [p|] eqn:E; [|left; apply pequiv_refl].
  (* generic argument for the kinds that do not touch the record before the guard *)
  assert (G : forall s0, (forall m' o' i', pm m' s0 o' i' = pm m' s o' i') -> sf (kmod k) s0 = sf (kmod k) s ->
              pequiv (pm m s o i)
                (pm m (if guard_of k (sf (kmod k) s) (trig p) it then do_close (kmod k) s0 (i_owner it) (i_id it) (i_close it) else s0) o i) \/
              (kmod k = m /\ i_owner it = o /\ i_id it = i /\
               exists p0, pm m s o i = Some p0 /\ guard_of k (sf m s) (trig p0) it = true /\
                 pm m (if guard_of k (sf (kmod k) s) (trig p) it then do_close (kmod k) s0 (i_owner it) (i_id it) (i_close it) else s0) o i = None)).
  { intros s0 Hs0 _.
    destruct (guard_of k (sf (kmod k) s) (trig p) it) eqn:Hg.
    - destruct (do_close_pos (kmod k) s0 (i_owner it) (i_id it) (i_close it) m o i) as [H|[Hm [Ho [Hi H]]]].
      + left. rewrite H, Hs0. apply pequiv_refl.
      + right. subst m o i. repeat split. exists p. rewrite Hg. auto.
    - left. rewrite Hs0. apply pequiv_refl. }
  destruct k; try (apply (G s); [reflexivity|reflexivity]).
  (* KPerpLiq *)
  cbn [kmod] in *.
  destruct (i_settle it) as [d|]; [|left; apply pequiv_refl].
  set (p1 := mkPos (p_size p + d) (p_accr p + d) (p_coll p) (p_princ p) (p_sl p) (p_tp p) (p_long p)).
  set (s1 := with_pm MPerp s (pset (pm MPerp s) (i_owner it) (i_id it) (Some p1))).
  assert (Hs1 : forall m' o' i', pequiv (pm m' s o' i') (pm m' s1 o' i')).
  { intros m' o' i'. unfold s1. destruct (module_dec m' MPerp) as [->|Hm].
    - rewrite pm_with_pm_same. destruct (key_dec (i_owner it) (i_id it) o' i') as [[-> ->]|Hk].
      + rewrite pset_same. cbn [pm] in E. cbn [pm]. rewrite E. apply settled_equiv.
      + rewrite pset_other by exact Hk. apply pequiv_refl.
    - rewrite pm_with_pm_other by exact Hm. apply pequiv_refl. }
  match goal with |- context [if ?g then _ else _] => destruct g eqn:Hg end.
  - destruct (do_close_pos MPerp s1 (i_owner it) (i_id it) (i_close it) m o i) as [H|[Hm [Ho [Hi H]]]].
    + left. rewrite H. apply Hs1.
    + right. subst m o i. repeat split. exists p. cbn [pm] in *. rewrite E. auto.
  - left. apply Hs1.
Qed.

(* B: a forced item either leaves every balance of an owner as it was, or the item names a position of
   that owner that existed and whose guard held *)
Lemma forced_step_funds s k it o d :
  st_funds (forced_step s (k, it)) o d = st_funds s o d \/
  (i_owner it = o /\ exists p, pm (kmod k) s o (i_id it) = Some p /\ guard_of k (sf (kmod k) s) (trig p) it = true).
Proof.
  unfold forced_step.
  destruct (pm (kmod k) s (i_owner it) (i_id it)) as [p|] eqn:E; [|left; reflexivity].
  destruct (Z.eq_dec o (i_owner it)) as [->|Ho].
  - (* the owner named by the item: either nothing moved, or the guard held *)
    destruct (guard_of k (sf (kmod k) s) (trig p) it) eqn:Hg.
    + right. split; [reflexivity|]. exists p. auto.
    + left. destruct k; cbn [kmod] in *; rewrite ?Hg; try reflexivity.
      destruct (i_settle it); [|reflexivity]. apply (f_equal (fun f => f (i_owner it) d)). apply funds_with_pm.
  - left. destruct k; cbn [kmod] in *;
      repeat match goal with
      | |- context [match i_settle it with _ => _ end] => destruct (i_settle it)
      | |- context [if ?b then _ else _] => destruct b
      end; rewrite ?do_close_funds by exact Ho; rewrite ?funds_with_pm; reflexivity.
Qed.

(* ---------------------------------------------------------------- lists of forced items *)

Lemma forced_run_cons s x l : forced_run s (x :: l) = forced_run (forced_step s x) l.
Proof. reflexivity. Qed.

Lemma forced_run_sf l : forall s m, sf m (forced_run s l) = sf m s.
Proof.
  induction l as [|x r IH]; intros s m; [reflexivity|].
  rewrite forced_run_cons, IH. apply forced_step_sf.
Qed.

(* pulling a witness found after the first item back to the state before it *)
Lemma pull_back s x m o i p1 :
  pm m (forced_step s x) o i = Some p1 ->
  exists p, pm m s o i = Some p /\ trig p = trig p1 /\ core p = core p1.
Proof.
  destruct x as [k it]. intros H.
  destruct (forced_step_pos s k it m o i) as [Heq|[_ [_ [_ [p [_ [_ Hn]]]]]]].
  - rewrite H in Heq. destruct (pm m s o i) as [p|]; cbn in Heq; [|contradiction].
    exists p. destruct Heq as [Hc Ht]. auto.
  - rewrite H in Hn. discriminate.
Qed.

Theorem forced_change_implies_guard : forall l s m o i,
  core_at (pm m (forced_run s l)) o i <> core_at (pm m s) o i \/
  trig_at (pm m (forced_run s l)) o i <> trig_at (pm m s) o i ->
  exists k it p, In (k, it) l /\ kmod k = m /\ i_owner it = o /\ i_id it = i /\
                 pm m s o i = Some p /\ guard_of k (sf m s) (trig p) it = true.
Proof.
  induction l as [|[k it] r IH]; intros s m o i H.
  - cbn in H. destruct H as [H|H]; contradiction H; reflexivity.
  - rewrite forced_run_cons in H.
    set (s1 := forced_step s (k, it)) in *.
    destruct (forced_step_pos s k it m o i) as [Heq|[Hm [Ho [Hi [p [Hp [Hg _]]]]]]].
    + (* first item left the position as it was: the change happens later *)
      assert (H1 : core_at (pm m (forced_run s1 r)) o i <> core_at (pm m s1) o i \/
                   trig_at (pm m (forced_run s1 r)) o i <> trig_at (pm m s1) o i).
      { unfold core_at, trig_at in *. fold s1 in Heq.
        rewrite <- (pequiv_core _ _ Heq), <- (pequiv_trig _ _ Heq). exact H. }
      destruct (IH s1 m o i H1) as [k' [it' [p1 [Hin [Hm [Ho [Hi [Hp1 Hg]]]]]]]].
      destruct (pull_back s (k, it) m o i p1 Hp1) as [p [Hp [Ht _]]].
      exists k', it', p. repeat split; auto; [right; exact Hin|].
      unfold s1 in Hg. rewrite forced_step_sf in Hg. rewrite Ht. exact Hg.
    + exists k, it, p. repeat split; auto. left. reflexivity.
Qed.

Theorem forced_funds_implies_guard : forall l s o d,
  st_funds (forced_run s l) o d <> st_funds s o d ->
  exists k it p, In (k, it) l /\ i_owner it = o /\
                 pm (kmod k) s o (i_id it) = Some p /\ guard_of k (sf (kmod k) s) (trig p) it = true.
Proof.
  induction l as [|[k it] r IH]; intros s o d H.
  - cbn in H. contradiction H; reflexivity.
  - rewrite forced_run_cons in H.
    set (s1 := forced_step s (k, it)) in *.
    destruct (forced_step_funds s k it o d) as [Heq|[Ho [p [Hp Hg]]]].
    + fold s1 in Heq. rewrite <- Heq in H.
      destruct (IH s1 o d H) as [k' [it' [p1 [Hin [Ho [Hp1 Hg]]]]]].
      destruct (pull_back s (k, it) (kmod k') o (i_id it') p1 Hp1) as [p [Hp [Ht _]]].
      exists k', it', p. repeat split; auto; [right; exact Hin|].
      unfold s1 in Hg. rewrite forced_step_sf in Hg. rewrite Ht. exact Hg.
    + exists k, it, p. repeat split; auto. left. reflexivity.
Qed.

(* positions that no item names, and owners that no item names, are untouched *)
Corollary forced_unnamed_untouched : forall (l : list (kind * item)) s m o i,
  (forall k it, In (k, it) l -> ~ (kmod k = m /\ i_owner it = o /\ i_id it = i)) ->
  core_at (pm m (forced_run s l)) o i = core_at (pm m s) o i /\
  trig_at (pm m (forced_run s l)) o i = trig_at (pm m s) o i.
Proof.
  intros l s m o i Hn.
  assert (D : forall (A : Type) (x y : option A), (forall a b : A, {a = b} + {a <> b}) -> x = y \/ x <> y).
  { intros A x y dec. destruct x as [a|], y as [b|]; try (right; discriminate); [|left; reflexivity].
    destruct (dec a b) as [->|Ne]; [left; reflexivity|right; intros E; inversion E; contradiction]. }
  assert (dc : forall a b : Z * Z * Z, {a = b} + {a <> b}) by (repeat decide equality).
  assert (dt : forall a b : option Z * option Z * bool, {a = b} + {a <> b}) by (repeat decide equality).
  destruct (D _ (core_at (pm m (forced_run s l)) o i) (core_at (pm m s) o i) dc) as [Ec|Nc];
  destruct (D _ (trig_at (pm m (forced_run s l)) o i) (trig_at (pm m s) o i) dt) as [Et|Nt]; auto;
  exfalso;
  [destruct (forced_change_implies_guard l s m o i (or_intror Nt)) as [k [it [p [Hin [A [B [C _]]]]]]]
  |destruct (forced_change_implies_guard l s m o i (or_introl Nc)) as [k [it [p [Hin [A [B [C _]]]]]]]
  |destruct (forced_change_implies_guard l s m o i (or_introl Nc)) as [k [it [p [Hin [A [B [C _]]]]]]]];
  apply (Hn k it Hin); auto.
Qed.

(* the message wrappers *)
Lemma in_msg_lists_lev (it : item) k (liq stop : list item) :
  In (k, it) (map (fun it : item => (KLevLiq, it)) liq ++ map (fun it : item => (KLevStop, it)) stop) ->
  (k = KLevLiq /\ In it liq) \/ (k = KLevStop /\ In it stop).
Proof.
  intros H. apply in_app_or in H. destruct H as [H|H]; apply in_map_iff in H; destruct H as [x [E Hx]];
    inversion E; subst; auto.
Qed.

Theorem lev_msg_change_implies_guard : forall s tx_ok liq stop o i,
  core_at (st_lev (lev_close_positions s tx_ok liq stop)) o i <> core_at (st_lev s) o i ->
  exists it p, i_owner it = o /\ i_id it = i /\ st_lev s o i = Some p /\
    ((In it liq /\ lev_liq_guard (st_sfl s) it = true) \/ (In it stop /\ lev_stop_guard (trig p) it = true)).
Proof.
  intros s tx_ok liq stop o i H. unfold lev_close_positions in H.
  destruct tx_ok; [|contradiction H; reflexivity].
  destruct (forced_change_implies_guard _ s MLev o i (or_introl H)) as [k [it [p [Hin [_ [Ho [Hi [Hp Hg]]]]]]]].
  exists it, p. repeat split; auto.
  destruct (in_msg_lists_lev _ _ _ _ Hin) as [[-> Hl]|[-> Hl]]; [left|right]; auto.
Qed.

Lemma in_msg_lists_perp (it : item) k (liq stop take : list item) :
  In (k, it) (map (fun it : item => (KPerpLiq, it)) liq ++ map (fun it : item => (KPerpStop, it)) stop ++ map (fun it : item => (KPerpTake, it)) take) ->
  (k = KPerpLiq /\ In it liq) \/ (k = KPerpStop /\ In it stop) \/ (k = KPerpTake /\ In it take).
Proof.
  intros H. apply in_app_or in H. destruct H as [H|H]; [|apply in_app_or in H; destruct H as [H|H]];
    apply in_map_iff in H; destruct H as [x [E Hx]]; inversion E; subst; auto.
Qed.

Theorem perp_msg_change_implies_guard : forall s tx_ok liq stop take o i,
  core_at (st_perp (perp_close_positions s tx_ok liq stop take)) o i <> core_at (st_perp s) o i ->
  exists it p, i_owner it = o /\ i_id it = i /\ st_perp s o i = Some p /\
    ((In it liq /\ guard_of KPerpLiq (st_sfp s) (trig p) it = true) \/
     (In it stop /\ guard_of KPerpStop (st_sfp s) (trig p) it = true) \/
     (In it take /\ guard_of KPerpTake (st_sfp s) (trig p) it = true)).
Proof.
  intros s tx_ok liq stop take o i H. unfold perp_close_positions in H.
  destruct tx_ok; [|contradiction H; reflexivity].
  destruct (forced_change_implies_guard _ s MPerp o i (or_introl H)) as [k [it [p [Hin [_ [Ho [Hi [Hp Hg]]]]]]]].
  exists it, p. repeat split; auto.
  destruct (in_msg_lists_perp _ _ _ _ _ Hin) as [[-> Hl]|[[-> Hl]|[-> Hl]]]; auto.
Qed.

(* what the guards mean numerically *)
Lemma lev_liq_guard_spec sfv it :
  lev_liq_guard sfv it = true -> exists h, i_health it = Some h /\ h <= sfv /\ i_liab it <> 0.
Proof.
  unfold lev_liq_guard, lev_may_liquidate, lev_is_healthy. destruct (i_health it) as [h|]; [|discriminate].
  intros H. apply negb_true_iff, orb_false_iff in H. destruct H as [A B].
  apply Z.ltb_ge in A. apply Z.eqb_neq in B. eauto.
Qed.

Lemma lev_stop_guard_spec t it :
  lev_stop_guard t it = true -> exists pr slp, i_price it = Some pr /\ fst (fst t) = Some slp /\ pr <= slp.
Proof.
  unfold lev_stop_guard, lev_stop_hit. destruct (i_health2 it); [|discriminate].
  destruct (i_price it) as [pr|]; [|discriminate]. destruct (fst (fst t)) as [slp|]; [|discriminate].
  intros H. apply Z.leb_le in H. eauto.
Qed.

Lemma perp_liq_guard_spec sfv t it :
  guard_of KPerpLiq sfv t it = true -> exists h, i_health it = Some h /\ h <= sfv.
Proof.
  cbn. destruct (i_settle it); [|discriminate]. destruct (i_health it) as [h|]; [|discriminate].
  intros H. apply andb_true_iff in H. destruct H as [_ H]. apply Z.leb_le in H. eauto.
Qed.

Lemma perp_stop_guard_spec sfv t it :
  guard_of KPerpStop sfv t it = true ->
  exists pr slp, i_price it = Some pr /\ fst (fst t) = Some slp /\ (if snd t then pr <= slp else slp <= pr).
Proof.
  cbn. destruct (i_price it) as [pr|]; [|discriminate]. unfold perp_stop_hit.
  destruct (fst (fst t)) as [slp|]; [|discriminate]. destruct (snd t); intros H; apply Z.leb_le in H; eauto.
Qed.

Lemma perp_take_guard_spec sfv t it :
  guard_of KPerpTake sfv t it = true ->
  exists pr tpp, i_price it = Some pr /\ snd (fst t) = Some tpp /\ (if snd t then tpp <= pr else pr <= tpp).
Proof.
  cbn. destruct (i_price it) as [pr|]; [|discriminate]. unfold perp_take_hit.
  destruct (snd (fst t)) as [tpp|]; [|discriminate]. destruct (snd t); intros H; apply Z.leb_le in H; eauto.
Qed.

(* a healthy position without a reached trigger survives ANY list of third-party requests *)
Theorem healthy_untouched : forall (l : list (kind * item)) s m o i p,
  pm m s o i = Some p ->
  (forall k it, In (k, it) l -> kmod k = m -> i_owner it = o -> i_id it = i ->
                guard_of k (sf m s) (trig p) it = false) ->
  exists q, pm m (forced_run s l) o i = Some q /\ core q = core p /\ trig q = trig p.
Proof.
  intros l s m o i p Hp Hn.
  assert (Hc : core_at (pm m (forced_run s l)) o i = core_at (pm m s) o i /\
               trig_at (pm m (forced_run s l)) o i = trig_at (pm m s) o i).
  { assert (D : forall (A : Type) (x y : option A), (forall a b : A, {a = b} + {a <> b}) -> x = y \/ x <> y).
    { intros A x y dec. destruct x as [a|], y as [b|]; try (right; discriminate); [|left; reflexivity].
      destruct (dec a b) as [->|Ne]; [left; reflexivity|right; intros E; inversion E; contradiction]. }
    assert (dc : forall a b : Z * Z * Z, {a = b} + {a <> b}) by (repeat decide equality).
    assert (dt : forall a b : option Z * option Z * bool, {a = b} + {a <> b}) by (repeat decide equality).
    assert (K : forall H0 : Prop, (exists k it p0, In (k, it) l /\ kmod k = m /\ i_owner it = o /\ i_id it = i /\
                 pm m s o i = Some p0 /\ guard_of k (sf m s) (trig p0) it = true) -> H0).
    { intros H0 [k [it [p0 [Hin [A [B [C [E G]]]]]]]]. rewrite Hp in E. inversion E; subst p0.
      rewrite (Hn k it Hin A B C) in G. discriminate. }
    destruct (D _ (core_at (pm m (forced_run s l)) o i) (core_at (pm m s) o i) dc) as [Ec|Nc];
    destruct (D _ (trig_at (pm m (forced_run s l)) o i) (trig_at (pm m s) o i) dt) as [Et|Nt]; auto;
    apply K; apply forced_change_implies_guard; auto. }
  destruct Hc as [Hc Ht]. unfold core_at, trig_at in *. rewrite Hp in Hc, Ht. cbn in Hc, Ht.
  destruct (pm m (forced_run s l) o i) as [q|]; cbn in Hc, Ht; [|discriminate].
  exists q. split; [reflexivity|]. split; [congruence|congruence].
Qed.

(* ---------------------------------------------------------------- opens *)

(* the code as it is: an accepted open passed its check on the value the handler computed *)
Theorem open_check_healthy_prefix : forall s o s',
  open_step_prefix s o = Ok s' ->
  sf (op_mod o) s < op_hcheck o /\
  (forall h, op_hnew o = Some h -> sf (op_mod o) s < h) /\
  pm (op_mod o) s' (op_owner o) (op_id o) = Some (op_pos o).
Proof.
  intros s o s' H. unfold open_step_prefix in H.
  destruct (op_pre o); cbn in H; [|discriminate].
  destruct (open_checks_on (op_hcheck o) (sf (op_mod o) s) o) eqn:Hc; cbn in H; [|discriminate].
  inversion H; subst s'. clear H.
  unfold open_checks_on, open_ok in Hc. apply andb_true_iff in Hc. destruct Hc as [A B].
  apply Z.ltb_lt in B. split; [exact B|]. split.
  - intros h Hh. rewrite Hh in A. apply Z.ltb_lt in A. exact A.
  - unfold open_store. rewrite pm_with_funds, pm_with_pm_same. apply pset_same.
Qed.

(* whenever the checked value is the health of the position as stored, the property holds as stated *)
Theorem open_healthy_when_check_is_final_prefix : forall s o s',
  op_hcheck o = op_health o -> open_step_prefix s o = Ok s' -> sf (op_mod o) s < op_health o.
Proof. intros s o s' E H. destruct (open_check_healthy_prefix s o s' H) as [A _]. rewrite <- E. exact A. Qed.

Theorem open_boundary_rejected_prefix : forall s o, op_hcheck o <= sf (op_mod o) s -> is_ok (open_step_prefix s o) = false.
Proof.
  intros s o H. unfold open_step_prefix. destruct (op_pre o); cbn; [|reflexivity].
  unfold open_checks_on, open_ok. assert (E : (sf (op_mod o) s <? op_hcheck o) = false) by (apply Z.ltb_ge; lia).
  rewrite E, andb_false_r. reflexivity.
Qed.

(* repaired model: full statement *)
Theorem open_fixed_healthy : forall s o s',
  open_step_fixed s o = Ok s' ->
  sf (op_mod o) s < op_health o /\
  pm (op_mod o) s' (op_owner o) (op_id o) = Some (op_pos o).
Proof.
  intros s o s' H. unfold open_step_fixed in H.
  destruct (op_pre o); cbn in H; [|discriminate].
  destruct (open_checks_on (op_hcheck o) (sf (op_mod o) s) o && open_ok (op_health o) (sf (op_mod o) s)) eqn:Hc; cbn in H; [|discriminate].
  inversion H; subst s'. clear H.
  apply andb_true_iff in Hc. destruct Hc as [_ B]. unfold open_ok in B. apply Z.ltb_lt in B.
  split; [exact B|]. unfold open_store. rewrite pm_with_funds, pm_with_pm_same. apply pset_same.
Qed.

(* the two agree except when the checked value passes and the final health does not *)
Lemma open_eq_fixed_off_site : forall s o,
  (open_ok (op_hcheck o) (sf (op_mod o) s) = true -> open_ok (op_health o) (sf (op_mod o) s) = true) ->
  open_step_fixed s o = open_step_prefix s o.
Proof.
  intros s o H. unfold open_step_fixed, open_step_prefix. destruct (op_pre o); cbn; [|reflexivity].
  unfold open_checks_on in *. destruct (match op_hnew o with Some h' => open_ok h' (sf (op_mod o) s) | None => true end); cbn; [|reflexivity].
  destruct (open_ok (op_hcheck o) (sf (op_mod o) s)) eqn:A; cbn; [|reflexivity].
  rewrite (H eq_refl). reflexivity.
Qed.

(* the code as it is violates "every successful open leaves health > safety factor": values observed on
   the real application (harness/c10_test.go c10Corpus()[2], step 1): perpetual safety factor
   1.249997633333333332, user 2 opens a long with 30 uusdc x 5 on the 100000 uusdc / 20000 uatom oracle pool at
   ATOM = 5: the handler computes and compares 1.249997633333333333 (accepted); the health of the stored
   position in the state the transaction leaves behind is 1.249624758333333333: any third party can have it
   liquidated in the same block. Every safety factor in [1.249624758333333333, 1.249997633333333333) does it. *)
Definition refuted_open : openop :=
  mkOpen MPerp 2 1 true None 1249997633333333333 1249624758333333333
         (mkPos 29917583 0 30000000 120000000 (Some 5013764514332591635) (Some 15000000000000000000) true) [(0, -30000000)].
Definition refuted_state : state := mkSt (fun _ _ => None) (fun _ _ => None) (fun _ _ => 0) 1100000000000000000 1249997633333333332.

Theorem open_healthy_refuted :
  exists s o s', open_step_prefix s o = Ok s' /\ op_health o <= sf (op_mod o) s /\
                 pm (op_mod o) s' (op_owner o) (op_id o) = Some (op_pos o) /\
                 perp_may_liquidate (op_health o) (sf (op_mod o) s') = true.
Proof.
  exists refuted_state, refuted_open, (open_store refuted_state refuted_open).
  split; [vm_compute; reflexivity|]. split; [vm_compute; discriminate|]. split; vm_compute; reflexivity.
Qed.

(* ---- the code as it is (since fix: ba85cca) ---- *)
Lemma open_step_ok_prefix : forall s o s', open_step s o = Ok s' -> open_step_prefix s o = Ok s'.
Proof.
  intros s o s' H. unfold open_step in H. unfold open_step_prefix.
  destruct (op_pre o); cbn in *; [|discriminate].
  destruct (open_checks_on (op_hcheck o) (sf (op_mod o) s) o); cbn in *; [|discriminate].
  destruct (negb (rechecks (op_mod o)) || open_ok (op_health o) (sf (op_mod o) s)); cbn in *; [exact H|discriminate].
Qed.

Theorem open_check_healthy : forall s o s',
  open_step s o = Ok s' ->
  sf (op_mod o) s < op_hcheck o /\
  (forall h, op_hnew o = Some h -> sf (op_mod o) s < h) /\
  pm (op_mod o) s' (op_owner o) (op_id o) = Some (op_pos o).
Proof. intros s o s' H. apply open_check_healthy_prefix. apply open_step_ok_prefix. exact H. Qed.

Theorem open_healthy_when_check_is_final : forall s o s',
  op_hcheck o = op_health o -> open_step s o = Ok s' -> sf (op_mod o) s < op_health o.
Proof. intros s o s' E H. destruct (open_check_healthy s o s' H) as [A _]. rewrite <- E. exact A. Qed.

Theorem open_healthy_perpetual : forall s o s',
  op_mod o = MPerp -> open_step s o = Ok s' -> sf MPerp s < op_health o.
Proof.
  intros s o s' Em H. unfold open_step in H. rewrite Em in *.
  destruct (op_pre o); cbn [negb] in H; [|discriminate].
  destruct (open_checks_on (op_hcheck o) (sf MPerp s) o); cbn [negb andb orb rechecks] in H; [|discriminate].
  destruct (open_ok (op_health o) (sf MPerp s)) eqn:B; cbn [negb andb orb] in H; [|discriminate].
  unfold open_ok in B. apply Z.ltb_lt in B. exact B.
Qed.

Theorem open_boundary_rejected : forall s o, op_hcheck o <= sf (op_mod o) s -> is_ok (open_step s o) = false.
Proof.
  intros s o H. pose proof (open_boundary_rejected_prefix s o H) as P.
  destruct (open_step s o) as [s'|c|c] eqn:E; try reflexivity.
  apply open_step_ok_prefix in E. rewrite E in P. exact P.
Qed.

Theorem open_perp_final_boundary_rejected : forall s o,
  op_mod o = MPerp -> op_health o <= sf MPerp s -> is_ok (open_step s o) = false.
Proof.
  intros s o Em H. destruct (open_step s o) as [s'|c|c] eqn:E; try reflexivity.
  pose proof (open_healthy_perpetual s o s' Em E). lia.
Qed.


(* ---------------------------------------------------------------- owner close *)

Theorem owner_keyed : forall s c s',
  owner_close s c = Ok s' ->
  (exists p, pm (oc_mod c) s (oc_sender c) (oc_id c) = Some p) /\
  (forall m o i, (m <> oc_mod c \/ o <> oc_sender c \/ i <> oc_id c) -> pm m s' o i = pm m s o i) /\
  (forall o d, o <> oc_sender c -> st_funds s' o d = st_funds s o d).
Proof.
  intros s c s' H. unfold owner_close in H.
  destruct (pm (oc_mod c) s (oc_sender c) (oc_id c)) as [p|] eqn:E; [|discriminate].
  destruct (oc_ok c); [|discriminate]. inversion H; subst s'. clear H.
  split; [eauto|]. split.
  - intros m o i Hk. rewrite pm_with_funds. destruct (module_dec m (oc_mod c)) as [->|Hm].
    + rewrite pm_with_pm_same. apply pset_other. destruct Hk as [Hk|[Hk|Hk]]; [contradiction Hk; reflexivity|left; exact Hk|right; exact Hk].
    + rewrite pm_with_pm_other by exact Hm. reflexivity.
  - intros o d Ho. rewrite funds_with_funds. apply pay_all_other_owner. exact Ho.
Qed.

Theorem owner_close_foreign_rejected : forall s c,
  pm (oc_mod c) s (oc_sender c) (oc_id c) = None -> run_tx (fun s => owner_close s c) s = s.
Proof. intros s c H. unfold run_tx, owner_close. rewrite H. reflexivity. Qed.

(* ---------------------------------------------------------------- histories *)

(* at every point of every history, whatever happened before (opens, closes, governance changes of the
   safety factor, arbitrary other activity), a forced step changes a position only under its guard *)
Theorem history_forced_guard : forall s0 h l m o i,
  let s := run s0 h in
  core_at (pm m (run s0 (h ++ [OForced l]))) o i <> core_at (pm m s) o i ->
  exists k it p, In (k, it) l /\ kmod k = m /\ i_owner it = o /\ i_id it = i /\
                 pm m s o i = Some p /\ guard_of k (sf m s) (trig p) it = true.
Proof.
  intros s0 h l m o i s H. unfold run in H. rewrite fold_left_app in H. cbn in H.
  apply (forced_change_implies_guard l s m o i). left. exact H.
Qed.

Theorem history_open_check_healthy : forall s0 h o,
  let s := run s0 h in
  is_ok (open_step s o) = true ->
  sf (op_mod o) s < op_hcheck o /\
  pm (op_mod o) (run s0 (h ++ [OOpen o])) (op_owner o) (op_id o) = Some (op_pos o).
Proof.
  intros s0 h o s H. unfold run. rewrite fold_left_app. cbn. fold (run s0 h). fold s.
  destruct (open_step s o) as [s'|c|c] eqn:E; cbn in H; try discriminate.
  destruct (open_check_healthy s o s' E) as [A [_ B]]. unfold run_tx. rewrite E. auto.
Qed.

Theorem history_open_healthy_perpetual : forall s0 h o,
  let s := run s0 h in
  op_mod o = MPerp -> is_ok (open_step s o) = true -> sf MPerp s < op_health o.
Proof.
  intros s0 h o s Em H. destruct (open_step s o) as [s'|c|c] eqn:E; cbn in H; try discriminate.
  exact (open_healthy_perpetual s o s' Em E).
Qed.
