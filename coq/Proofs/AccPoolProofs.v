From Coq Require Import ZArith List Bool Lia.
From Elys Require Import Base.Res Models.AccPool.
Import ListNotations.
Open Scope Z_scope.

Definition AInv (s : acc) : Prop := a_T s = a_R s + a_L s - a_C s /\ a_N s = a_L s - a_C s.

Lemma accstep_inv s o : AInv s -> disciplined s o -> AInv (accstep s o).
Proof.
  intros [HT HN] D. destruct o as [R' L' C' h]. destruct h; cbn in *; unfold AInv; cbn.
  - destruct D as [-> ->]. lia.
  - lia.
  - subst R'. lia.
  - destruct D as (-> & -> & ->). lia.
Qed.

Theorem accrun_inv h : forall s, AInv s -> disciplined_run s h -> AInv (accrun s h).
Proof.
  induction h as [|o r IH]; intros s HI D; cbn in *; [exact HI|]. destruct D as [D1 D2].
  apply IH; [apply accstep_inv; assumption|exact D2].
Qed.

Lemma fixed_step_inv s R' L' C' : AInv s -> AInv (fixed_step s R' L' C').
Proof.
  intros HI. unfold fixed_step. destruct ((L' =? a_L s) && (C' =? a_C s)) eqn:E.
  - apply andb_prop in E. destruct E as [E1 E2]. apply Z.eqb_eq in E1, E2.
    apply accstep_inv; [exact HI|]. cbn. split; assumption.
  - apply accstep_inv; [exact HI|exact I].
Qed.

Theorem fixed_run_inv l : forall s, AInv s ->
  AInv (fold_left (fun s '(R', L', C') => fixed_step s R' L' C') l s).
Proof.
  induction l as [|[[R' L'] C'] r IH]; intros s HI; cbn; [exact HI|]. apply IH. apply fixed_step_inv. exact HI.
Qed.

(* the pinned commit, site 1: perpetual Open passes the amm pool read before the collateral transfer *)
Lemma prefix_stale_open_refuted :
  let s := mkAcc 5000000 0 0 5000000 0 in
  AInv s /\ ~ AInv (accstep s (AChange 5001000 2000 0 HPerpStaleAmm)) /\
  a_N (accstep s (AChange 5001000 2000 0 HPerpStaleAmm)) = 2000.
Proof. cbn. unfold AInv; cbn. split; [lia|]. split; [|reflexivity]. intros [H _]. lia. Qed.

(* the pinned commit, site 2: a liquidation check that settles interest / funding (custody and the amm
   balance change) and leaves the position open fires no hook *)
Lemma prefix_settle_without_hook_refuted :
  let s := mkAcc 5001000 2000 900 5002100 1100 in
  AInv s /\ ~ AInv (accstep s (AChange 5000990 2000 890 HNone)).
Proof. cbn. unfold AInv; cbn. split; [lia|]. intros [_ H]. lia. Qed.
