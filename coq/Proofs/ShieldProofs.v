(* Proofs about Models/Shield.v (x/tradeshield order escrow). *)
From Coq Require Import ZArith List Bool Lia.
From Elys Require Import Base.Res Base.Zdec Models.Shield.
Import ListNotations.
Open Scope Z_scope.

(* ------------------------------------------------------------------ basics *)
Lemma addr_eqb_eq a b : addr_eqb a b = true <-> a = b.
Proof.
  destruct a, b; simpl; split; intro H; try discriminate; try (apply Z.eqb_eq in H; subst; reflexivity);
    try (inversion H; subst; apply Z.eqb_refl).
Qed.

Lemma addr_eqb_refl a : addr_eqb a a = true.
Proof. apply addr_eqb_eq; reflexivity. Qed.

Lemma addr_eqb_neq a b : a <> b -> addr_eqb a b = false.
Proof. intro H; destruct (addr_eqb a b) eqn:E; auto. apply addr_eqb_eq in E; contradiction. Qed.

Lemma bset_same b a d v : bset b a d v a d = v.
Proof. unfold bset. rewrite addr_eqb_refl, Z.eqb_refl. reflexivity. Qed.

Lemma bset_other b a d v a' d' : (a' <> a \/ d' <> d) -> bset b a d v a' d' = b a' d'.
Proof.
  intros [H | H]; unfold bset.
  - rewrite (addr_eqb_neq _ _ H). reflexivity.
  - destruct (addr_eqb a' a); simpl; auto. destruct (Z.eqb_spec d' d); auto; contradiction.
Qed.

Lemma key_eqb_true p id o : key_eqb p id o = true <-> (o_perp o = p /\ o_id o = id).
Proof.
  unfold key_eqb. rewrite andb_true_iff, Z.eqb_eq. split; intros [A B]; split; auto.
  - apply eqb_prop in A; auto.
  - subst; apply eqb_reflx.
Qed.

Lemma find_ord_some p id l o : find_ord p id l = Some o -> In o l /\ o_perp o = p /\ o_id o = id.
Proof.
  unfold find_ord; intro H. apply find_some in H. destruct H as [A B]. apply key_eqb_true in B. tauto.
Qed.

(* ------------------------------------------------------------------ owner only *)
Lemma cancel_one_foreign sender p id s o :
  find_ord p id (ords s) = Some o -> o_owner o <> sender ->
  cancel_one sender p id s = Err E_unauth \/ cancel_one sender p id s = Err E_invalid.
Proof.
  intros F N. unfold cancel_one. destruct (id =? 0); auto. rewrite F.
  destruct (Z.eqb_spec (o_owner o) sender); [contradiction|]. simpl. auto.
Qed.

Lemma cancel_one_not_panic sender p id s c : cancel_one sender p id s <> Panic c.
Proof.
  unfold cancel_one. destruct (id =? 0); [discriminate|].
  destruct (find_ord p id (ords s)); [|discriminate].
  destruct (negb (o_owner o =? sender)); [discriminate|].
  destruct p; [destruct (send _ _ _ _ _)|]; discriminate.
Qed.

Lemma find_remove_other p id p' id' l :
  (p <> p' \/ id <> id') -> find_ord p id (remove_ord p' id' l) = find_ord p id l.
Proof.
  intro N. unfold find_ord, remove_ord. induction l as [|x l IH]; simpl; auto.
  destruct (key_eqb p' id' x) eqn:K'; simpl.
  - destruct (key_eqb p id x) eqn:K; auto.
    apply key_eqb_true in K; apply key_eqb_true in K'. destruct K, K'. exfalso. destruct N; congruence.
  - destruct (key_eqb p id x); auto.
Qed.

Lemma cancel_one_ok_ords sender p id s s' :
  cancel_one sender p id s = Ok s' ->
  ords s' = remove_ord p id (ords s) /\ nsid s' = nsid s /\ npid s' = npid s /\
  exists o, find_ord p id (ords s) = Some o /\ o_owner o = sender.
Proof.
  unfold cancel_one. destruct (id =? 0); [discriminate|].
  destruct (find_ord p id (ords s)) as [o|] eqn:F; [|discriminate].
  destruct (Z.eqb_spec (o_owner o) sender) as [E|E]; simpl; [|discriminate].
  destruct p.
  - destruct (send _ _ _ _ _); [|discriminate]. intro H; inversion H; subst; simpl. repeat split; eauto.
  - intro H; inversion H; subst; simpl. repeat split; eauto.
Qed.

Lemma cancel_list_foreign sender p ids : forall s id o,
  In id ids -> find_ord p id (ords s) = Some o -> o_owner o <> sender ->
  exists e, cancel_list sender p ids s = Err e.
Proof.
  induction ids as [|i t IH]; intros s id o I F N; [destruct I|].
  simpl. destruct (cancel_one sender p i s) as [s1|e|c] eqn:C; simpl.
  - destruct (cancel_one_ok_ords _ _ _ _ _ C) as (Ho & _ & _ & o1 & F1 & O1).
    assert (id <> i) as Ni. { intro; subst. rewrite F in F1; inversion F1; subst; contradiction. }
    destruct I as [I | I]; [congruence|].
    apply (IH s1 id o I); auto. rewrite Ho. rewrite find_remove_other; auto.
  - eauto.
  - exfalso. eapply cancel_one_not_panic; eauto.
Qed.

(* C20_owner_only: a sender that is not the owner of a targeted pending order is refused (the handler
   returns an error, so the transaction changes nothing), for both versions of the model. *)
Definition refused (fixed : bool) (s : state) (o : op) : Prop :=
  (exists e, step_gen fixed s o = Err e) /\ exec_gen fixed s o = s.

Lemma refused_of_err fixed s o e : step_gen fixed s o = Err e -> refused fixed s o.
Proof. intro H. split; eauto. unfold exec_gen, run_tx. rewrite H. reflexivity. Qed.

Theorem owner_only : forall fixed s sender p id x,
  find_ord p id (ords s) = Some x -> o_owner x <> sender ->
  (* single cancel *)
  refused fixed s (if p then OCancelPerp sender id else OCancelSpot sender id) /\
  (* batch cancel naming the order anywhere in the list *)
  (forall ids, In id ids -> refused fixed s (if p then OCancelPerps sender ids else OCancelSpots sender ids)) /\
  (* update *)
  (forall base quote rate, p = false -> refused fixed s (OUpdateSpot sender id base quote rate)) /\
  (forall trig a b c, p = true -> refused fixed s (OUpdatePerp sender id trig a b c)).
Proof.
  intros fixed s sender p id x F N. repeat split.
  - destruct (cancel_one_foreign sender p id s x F N) as [H|H]; destruct p; simpl; rewrite H; eauto.
  - destruct (cancel_one_foreign sender p id s x F N) as [H|H]; destruct p; unfold exec_gen, run_tx; simpl; rewrite H; reflexivity.
  - destruct (cancel_list_foreign sender p ids s id x H F N) as [e E].
    destruct p; simpl; (destruct ids; [destruct H|]); destruct (existsb _ _); eauto.
  - destruct (cancel_list_foreign sender p ids s id x H F N) as [e E].
    destruct p; unfold exec_gen, run_tx; simpl; (destruct ids; [destruct H|]); destruct (existsb _ _); auto; rewrite E; auto.
  - subst p. simpl. destruct ((rate <? 0) || (id =? 0)); eauto. rewrite F.
    destruct (Z.eqb_spec (o_owner x) sender); [contradiction|]. simpl. eauto.
  - subst p. unfold exec_gen, run_tx. simpl. destruct ((rate <? 0) || (id =? 0)); auto. rewrite F.
    destruct (Z.eqb_spec (o_owner x) sender); [contradiction|]. simpl. auto.
  - subst p. simpl. destruct ((trig <? 0) || (id =? 0)); eauto. rewrite F.
    destruct (Z.eqb_spec (o_owner x) sender); [contradiction|]. simpl. eauto.
  - subst p. unfold exec_gen, run_tx. simpl. destruct ((trig <? 0) || (id =? 0)); auto. rewrite F.
    destruct (Z.eqb_spec (o_owner x) sender); [contradiction|]. simpl. auto.
Qed.

(* ------------------------------------------------------------------ execute requests that must not act *)
(* the attempt on order [o] cannot act: no price, zero spot price, trigger not met - or (repaired
   model only) the inner call does not succeed *)
Definition untrig (o : order) (r : reso) : Prop :=
  match r_price r with
  | None => True
  | Some mp => (o_perp o = false /\ mp = 0) \/ triggered o mp = false
  end.

Definition inner_fails (r : reso) : Prop := match r_inner r with IOk _ => False | _ => True end.

Lemma exec_one_untrig fixed o r s s' : untrig o r -> exec_one fixed o r s = Ok s' -> s' = s.
Proof.
  unfold untrig, exec_one. destruct (r_price r) as [mp|]; [|intros _ H; inversion H; auto].
  intros [[P Z0] | T].
  - subst mp. rewrite P. simpl. intro H; inversion H; auto.
  - destruct (negb (o_perp o) && (mp =? 0)); [intro H; inversion H; auto|].
    rewrite T. simpl. destruct (o_perp o); intro H; inversion H; auto.
Qed.

Lemma exec_one_fixed_fails o r s s' : inner_fails r -> exec_one true o r s = Ok s' -> s' = s.
Proof.
  unfold inner_fails, exec_one. intros IF.
  destruct (r_price r) as [mp|]; [|intro H; inversion H; auto].
  destruct (negb (o_perp o) && (mp =? 0)); [intro H; inversion H; auto|].
  destruct (negb (triggered o mp)); [destruct (o_perp o); intro H; inversion H; auto|].
  destruct (send _ _ _ _ _); [|intro H; inversion H; auto].
  destruct (r_inner r); [contradiction| |]; intro H; inversion H; auto.
Qed.

Lemma exec_list_noop fixed p (Q : order -> reso -> Prop) :
  (forall o r s s', Q o r -> exec_one fixed o r s = Ok s' -> s' = s) ->
  forall l s s',
  (forall id r o, In (id, r) l -> find_ord p id (ords s) = Some o -> Q o r) ->
  exec_list fixed p l s = Ok s' -> s' = s.
Proof.
  intros HQ. induction l as [|[id r] t IH]; intros s s' H E; simpl in E.
  - inversion E; auto.
  - destruct (id =? 0); [discriminate|].
    destruct (find_ord p id (ords s)) as [o|] eqn:F; [|discriminate].
    destruct (exec_one fixed o r s) as [s1| |] eqn:E1; simpl in E; try discriminate.
    assert (s1 = s) by (eapply HQ; eauto; eapply H; eauto; left; reflexivity). subst s1.
    apply IH; auto. intros; eapply H; eauto. right; eauto.
Qed.

(* C20_untouched_unless_trigger: an execute request (any sender) none of whose listed orders has its
   trigger condition met at the market price leaves the whole state as it was, in both models. *)
Theorem untouched_unless_trigger : forall fixed s sender sids pids,
  (forall id r o, In (id, r) sids -> find_ord false id (ords s) = Some o -> untrig o r) ->
  (forall id r o, In (id, r) pids -> find_ord true id (ords s) = Some o -> untrig o r) ->
  exec_gen fixed s (OExecute sender sids pids) = s.
Proof.
  intros fixed s sender sids pids HS HP. unfold exec_gen, run_tx.
  destruct (step_gen fixed s (OExecute sender sids pids)) as [s'| |] eqn:E; auto.
  simpl in E.
  assert (exec_list fixed false sids s = Ok s -> exec_list fixed true pids s = Ok s' -> s' = s) as K.
  { intros _ E2. eapply (exec_list_noop fixed true untrig); eauto. intros; eapply exec_one_untrig; eauto. }
  destruct sids as [|a sids'], pids as [|b pids']; try discriminate;
    destruct (existsb _ _ || existsb _ _); try discriminate;
    destruct (exec_list fixed false _ s) as [s1| |] eqn:E1; simpl in E; try discriminate;
    (assert (s1 = s) by (eapply (exec_list_noop fixed false untrig); eauto; intros; eapply exec_one_untrig; eauto));
    subst s1; eapply (exec_list_noop fixed true untrig); eauto; intros; eapply exec_one_untrig; eauto.
Qed.

(* per order, inside a request that may execute OTHER orders: an order whose trigger is not met keeps
   its record and its escrow account *)

(* C20_failed_execute_unchanged (repaired model): an execute request in which no attempt succeeds
   (trigger not met, no price, or the inner swap / perpetual open fails) leaves the whole state as
   it was: order, escrow and owner funds as before. *)
Theorem failed_execute_unchanged_fixed : forall s sender sids pids,
  (forall id r o, In (id, r) sids -> find_ord false id (ords s) = Some o -> untrig o r \/ inner_fails r) ->
  (forall id r o, In (id, r) pids -> find_ord true id (ords s) = Some o -> untrig o r \/ inner_fails r) ->
  exec_gen true s (OExecute sender sids pids) = s.
Proof.
  intros s sender sids pids HS HP. unfold exec_gen, run_tx.
  destruct (step_gen true s (OExecute sender sids pids)) as [s'| |] eqn:E; auto.
  simpl in E.
  assert (forall o r s s', untrig o r \/ inner_fails r -> exec_one true o r s = Ok s' -> s' = s) as HQ.
  { intros o r s0 s0' [U|I] X; [eapply exec_one_untrig | eapply exec_one_fixed_fails]; eauto. }
  destruct sids as [|a sids'], pids as [|b pids']; try discriminate;
    destruct (existsb _ _ || existsb _ _); try discriminate;
    destruct (exec_list true false _ s) as [s1| |] eqn:E1; simpl in E; try discriminate;
    (assert (s1 = s) by (eapply (exec_list_noop true false (fun o r => untrig o r \/ inner_fails r)); eauto));
    subst s1; eapply (exec_list_noop true true (fun o r => untrig o r \/ inner_fails r)); eauto.
Qed.

(* ------------------------------------------------------------------ the code as it is: failed attempts *)
Definition w_user0 : bank := set_wallets (fun _ _ => 0) [(0, 0, 1000000000000); (0, 1, 1000000000000)].
Definition w_s1 : state :=
  run (init_state w_user0) [OCreatePerp 0 1 5000000000000000000 0 14000000000 20000000000000000000 1 1 0].
(* perpetual.Open moved the collateral into the pool and then returned an error (pool health) *)
Definition w_dirty : op :=
  OExecute 2 [] [(1, mkR (Some 5000000000000000000) (IErr [(AUser 0, AExt 0, 0, 14000000000)]))].
(* perpetual.Open returned an error before moving anything *)
Definition w_clean : op := OExecute 2 [] [(1, mkR (Some 5000000000000000000) (IErr []))].

Lemma failed_execute_refuted :
  let s' := exec_gen false w_s1 w_dirty in
  find_ord true 1 (ords w_s1) <> None /\ ords s' = ords w_s1 /\
  total w_s1 0 0 = 1000000000000 /\ total s' 0 0 = 1000000000000 - 14000000000 /\
  bk s' (APerp 1) 0 = 0 /\
  exec_gen true w_s1 w_dirty = w_s1.
Proof. vm_compute. repeat split; discriminate. Qed.

Lemma failed_execute_strands_order_refuted :
  let s' := exec_gen false w_s1 w_clean in
  ords s' = ords w_s1 /\ total s' 0 0 = total w_s1 0 0 /\
  bk w_s1 (APerp 1) 0 = 14000000000 /\ bk s' (APerp 1) 0 = 0 /\
  step s' (OCancelPerp 0 1) = Err E_funds /\
  (exists s2, step_fixed (exec_gen true w_s1 w_clean) (OCancelPerp 0 1) = Ok s2 /\ ords s2 = [] /\ bk s2 (AUser 0) 0 = 1000000000000).
Proof. vm_compute. repeat split. eexists; repeat split. Qed.

(* ------------------------------------------------------------------ send *)
Lemma send_some b from to d amt b' : send b from to d amt = Some b' ->
  0 <= amt /\
  (forall a d', (a <> from /\ a <> to) \/ d' <> d -> b' a d' = b a d') /\
  (from <> to -> b' from d = b from d - amt /\ b' to d = b to d + amt) /\
  (is_ext from = false -> amt <= b from d \/ amt = 0).
Proof.
  unfold send. destruct (Z.leb_spec amt 0) as [L|L].
  - destruct (Z.eqb_spec amt 0) as [E|E]; [|discriminate]. intro H; inversion H; subst.
    repeat split; auto; lia.
  - destruct (negb (is_ext from) && (b from d <? amt)) eqn:G; [discriminate|].
    intro H; inversion H; subst; clear H. repeat split.
    + lia.
    + intros a d' [[A1 A2] | D]; rewrite !bset_other; auto.
    + rewrite bset_other by auto. apply bset_same.
    + rewrite bset_same. rewrite bset_other by auto. reflexivity.
    + intro X. rewrite X in G. simpl in G. apply Z.ltb_ge in G. lia.
Qed.

Lemma send_exact b from to d amt : 0 <= amt -> (is_ext from = true \/ amt <= b from d) -> exists b', send b from to d amt = Some b'.
Proof.
  intros A S. unfold send. destruct (Z.leb_spec amt 0).
  - assert (amt = 0) by lia. subst. simpl. eauto.
  - destruct S as [S|S]; [rewrite S; simpl; eauto|].
    destruct (Z.ltb_spec (b from d) amt); [lia|]. rewrite andb_false_r. eauto.
Qed.

(* ------------------------------------------------------------------ cancel returns the whole escrow *)
Definition exact_escrow (b : bank) (o : order) : Prop :=
  0 <= o_amt o /\ known_denom (o_den o) = true /\
  forall d, b (esc o) d = if d =? o_den o then o_amt o else 0.

Lemma esc_not_user o u : esc o <> AUser u.
Proof. unfold esc; destruct (o_perp o); discriminate. Qed.

Lemma move_all_spec b from to d a d' : from <> to -> 0 <= b from d ->
  move_all b from to d a d' =
    if d' =? d then (if addr_eqb a from then 0 else if addr_eqb a to then b a d' + b from d else b a d') else b a d'.
Proof.
  intros NE NN. unfold move_all.
  destruct (Z.eqb_spec d' d) as [E|E].
  - subst d'. destruct (Z.leb_spec (b from d) 0) as [L|L].
    + assert (b from d = 0) as Z0 by lia.
      destruct (addr_eqb a from) eqn:E1; [apply addr_eqb_eq in E1; subst; auto|].
      destruct (addr_eqb a to) eqn:E2; lia.
    + destruct (addr_eqb a from) eqn:E1.
      * apply addr_eqb_eq in E1; subst a. rewrite bset_other by (left; auto). apply bset_same.
      * destruct (addr_eqb a to) eqn:E2.
        -- apply addr_eqb_eq in E2; subst a. rewrite bset_same. rewrite bset_other by (left; congruence). reflexivity.
        -- rewrite !bset_other; auto; left; intro; subst; rewrite addr_eqb_refl in *; discriminate.
  - destruct (Z.leb_spec (b from d) 0); auto. rewrite !bset_other; auto.
Qed.

Lemma sweep_spec b from to a d' : from <> to -> (forall d, 0 <= b from d) ->
  sweep b from to a d' =
    if known_denom d' then (if addr_eqb a from then 0 else if addr_eqb a to then b a d' + b from d' else b a d') else b a d'.
Proof.
  intros NE NN. unfold sweep, all_denoms. simpl.
  set (b1 := move_all b from to 0). set (b2 := move_all b1 from to 1).
  assert (forall a d', b1 a d' = if d' =? 0 then (if addr_eqb a from then 0 else if addr_eqb a to then b a d' + b from 0 else b a d') else b a d') as H1
    by (intros; apply move_all_spec; auto).
  assert (0 <= b1 from 1) as N1 by (rewrite H1; simpl; auto).
  assert (forall a d', b2 a d' = if d' =? 1 then (if addr_eqb a from then 0 else if addr_eqb a to then b1 a d' + b1 from 1 else b1 a d') else b1 a d') as H2
    by (intros; apply move_all_spec; auto).
  assert (0 <= b2 from 2) as N2 by (rewrite H2; simpl; rewrite H1; simpl; auto).
  set (b3 := move_all b2 from to 2).
  assert (forall a d', b3 a d' = if d' =? 2 then (if addr_eqb a from then 0 else if addr_eqb a to then b2 a d' + b2 from 2 else b2 a d') else b2 a d') as H3
    by (intros; apply move_all_spec; auto).
  assert (0 <= b3 from 3) as N3 by (rewrite H3; simpl; rewrite H2; simpl; rewrite H1; simpl; auto).
  rewrite move_all_spec by auto. rewrite !H3, !H2, !H1. unfold known_denom.
  destruct (Z.eqb_spec d' 0); [subst; simpl; reflexivity|].
  destruct (Z.eqb_spec d' 1); [subst; simpl; reflexivity|].
  destruct (Z.eqb_spec d' 2); [subst; simpl; reflexivity|].
  destruct (Z.eqb_spec d' 3); [subst; simpl; reflexivity|]. reflexivity.
Qed.

(* C20_cancel_full: the owner's cancel of a pending order whose escrow account holds the escrowed amount
   succeeds, removes the order, pays the owner exactly that amount, empties the escrow account and
   touches no other account. *)
Theorem cancel_full : forall fixed s p id o,
  find_ord p id (ords s) = Some o -> id <> 0 -> exact_escrow (bk s) o ->
  exists s', step_gen fixed s (if p then OCancelPerp (o_owner o) id else OCancelSpot (o_owner o) id) = Ok s' /\
    ords s' = remove_ord p id (ords s) /\
    (forall d, bk s' (esc o) d = 0) /\
    (forall d, bk s' (AUser (o_owner o)) d = bk s (AUser (o_owner o)) d + (if d =? o_den o then o_amt o else 0)) /\
    (forall a d, a <> esc o -> a <> AUser (o_owner o) -> bk s' a d = bk s a d).
Proof.
  intros fixed s p id o F N (A & K & X).
  destruct (find_ord_some _ _ _ _ F) as (I & P & ID).
  assert (esc o <> AUser (o_owner o)) as NE by apply esc_not_user.
  assert (step_gen fixed s (if p then OCancelPerp (o_owner o) id else OCancelSpot (o_owner o) id) = cancel_one (o_owner o) p id s) as ST
    by (destruct p; reflexivity).
  rewrite ST. unfold cancel_one. destruct (Z.eqb_spec id 0); [contradiction|]. rewrite F. rewrite Z.eqb_refl. simpl.
  destruct p.
  - destruct (send_exact (bk s) (esc o) (AUser (o_owner o)) (o_den o) (o_amt o) A) as [b' S].
    { right. rewrite X. rewrite Z.eqb_refl. lia. }
    rewrite S. eexists; split; [reflexivity|]. simpl.
    destruct (send_some _ _ _ _ _ _ S) as (_ & Fr & Mv & _). destruct (Mv NE) as [M1 M2].
    repeat split.
    + intro d. destruct (Z.eqb_spec d (o_den o)); [subst; rewrite M1, X, Z.eqb_refl; lia|].
      rewrite Fr by auto. rewrite X. destruct (Z.eqb_spec d (o_den o)); [contradiction|reflexivity].
    + intro d. destruct (Z.eqb_spec d (o_den o)); [subst; rewrite M2; reflexivity|]. rewrite Fr by auto. lia.
    + intros a d H1 H2. apply Fr. left; auto.
  - eexists; split; [reflexivity|]. simpl.
    assert (forall d, 0 <= bk s (esc o) d) as NN. { intro d. rewrite X. destruct (d =? o_den o); lia. }
    repeat split.
    + intro d. rewrite sweep_spec by auto. rewrite addr_eqb_refl. destruct (known_denom d) eqn:KD; auto.
      rewrite X. destruct (Z.eqb_spec d (o_den o)); auto. subst. congruence.
    + intro d. rewrite sweep_spec by auto. rewrite (addr_eqb_neq _ _ (not_eq_sym NE)), addr_eqb_refl.
      rewrite X. destruct (Z.eqb_spec d (o_den o)); [subst; rewrite K; reflexivity|]. destruct (known_denom d); lia.
    + intros a d H1 H2. rewrite sweep_spec by auto. rewrite (addr_eqb_neq _ _ H1), (addr_eqb_neq _ _ H2).
      destruct (known_denom d); reflexivity.
Qed.

(* ------------------------------------------------------------------ conservation of wallet + escrows, per step *)
Definition okey (o : order) : bool * Z := (o_perp o, o_id o).

Record WF (s : state) : Prop := mkWF {
  wf_nodup : NoDup (map okey (ords s));
  wf_ids : forall o, In o (ords s) -> o_id o < (if o_perp o then npid s else nsid s);
  wf_fresh : forall d id, (nsid s <= id -> bk s (ASpot id) d = 0) /\ (npid s <= id -> bk s (APerp id) d = 0)
}.

Lemma esc_inj o o' : esc o = esc o' -> okey o = okey o'.
Proof. unfold esc, okey. destruct (o_perp o), (o_perp o'); intro H; inversion H; auto. Qed.

Lemma esc_sum_ext b b' l u d :
  (forall o, In o l -> o_owner o = u -> b' (esc o) d = b (esc o) d) -> esc_sum b' l u d = esc_sum b l u d.
Proof.
  induction l as [|x l IH]; intro H; simpl; auto.
  rewrite IH by (intros; apply H; auto; right; auto).
  destruct (Z.eqb_spec (o_owner x) u); auto. rewrite H; auto. left; auto.
Qed.

Lemma esc_sum_app b l1 l2 u d : esc_sum b (l1 ++ l2) u d = esc_sum b l1 u d + esc_sum b l2 u d.
Proof. induction l1; simpl; auto. rewrite IHl1. lia. Qed.

Lemma esc_sum_replace b n l u d :
  (forall x, In x l -> okey x = okey n -> o_owner x = o_owner n) ->
  esc_sum b (replace_ord n l) u d = esc_sum b l u d.
Proof.
  induction l as [|x l IH]; intro H; simpl; auto.
  rewrite IH by (intros; apply H; auto; right; auto).
  destruct (key_eqb (o_perp n) (o_id n) x) eqn:K; auto.
  apply key_eqb_true in K. destruct K as [K1 K2].
  assert (o_owner x = o_owner n) as E by (apply H; [left; auto | unfold okey; congruence]).
  assert (esc x = esc n) as E2 by (unfold esc; rewrite K1, K2; reflexivity).
  rewrite E, E2. reflexivity.
Qed.

(* wallet + escrow accounts of the pending orders of EVERY user, through create / update / cancel *)
Theorem conserved_partial : forall fixed s o, WF s ->
  match o with
  | OCreateSpot _ typ _ _ _ _ _ _ => typ <> 3
  | OCreatePerp _ _ _ _ _ _ _ _ _ | OUpdateSpot _ _ _ _ _ | OUpdatePerp _ _ _ _ _ _ => True
  | _ => False
  end ->
  forall u d, total (exec_gen fixed s o) u d = total s u d.
Proof.
  intros fixed s o W H u d. unfold exec_gen, run_tx.
  destruct (step_gen fixed s o) as [s'| |] eqn:E; auto.
  destruct W as [ND IDS FR].
  assert (forall owner n b, (forall x, In x (ords s) -> okey x <> okey n) ->
            send (bk s) (AUser owner) (esc n) (o_den n) (o_amt n) = Some b -> o_owner n = owner ->
            (forall d, bk s (esc n) d = 0) ->
            b (AUser u) d + esc_sum b (ords s ++ [n]) u d = total s u d) as CREATE.
  { intros owner n b FRESH S OW Z0. unfold total.
    destruct (send_some _ _ _ _ _ _ S) as (_ & Fr & Mv & _).
    assert (AUser owner <> esc n) as NE by (intro X; symmetry in X; revert X; apply esc_not_user).
    destruct (Mv NE) as [M1 M2].
    rewrite esc_sum_app. simpl.
    rewrite (esc_sum_ext (bk s) b).
    2:{ intros x I _. apply Fr. left. split; [intro X; revert X; apply esc_not_user|].
        intro X. apply esc_inj in X. apply (FRESH x I X). }
    rewrite OW.
    destruct (Z.eqb_spec owner u) as [EU|EU].
    - subst u. destruct (Z.eqb_spec d (o_den n)) as [ED|ED].
      + subst d. rewrite M1, M2, Z0. lia.
      + rewrite !Fr by (right; auto). rewrite Z0. lia.
    - rewrite Fr by (left; split; [congruence | intro X; symmetry in X; revert X; apply esc_not_user]). lia. }
  destruct o; try contradiction; simpl in E.
  - (* create spot *)
    destruct (_ || _ || _ || _ || _); [discriminate|].
    destruct (Z.eqb_spec typ 3); [contradiction|].
    destruct (send _ _ _ _ _) as [b|] eqn:S; [|discriminate]. inversion E; subst s'; clear E. unfold total at 1; simpl.
    eapply (CREATE owner (mkO false (nsid s) owner typ base quote rate den amt 0 0 0)); eauto.
    + intros x I X. unfold okey in X; simpl in X. inversion X as [[P I2]]. specialize (IDS x I). rewrite P in IDS. lia.
    + intro d0. simpl. apply (FR d0 (nsid s)). lia.
  - (* update spot *)
    destruct (_ || _); [discriminate|]. destruct (find_ord false id (ords s)) as [x|] eqn:F; [|discriminate].
    destruct (negb _); [discriminate|]. inversion E; subst s'; clear E. unfold total; simpl.
    rewrite esc_sum_replace; auto. intros y I K. simpl.
    destruct (find_ord_some _ _ _ _ F) as (Ix & Px & IDx).
    assert (okey y = okey x) as KK by (rewrite K; unfold okey; simpl; congruence).
    clear - ND I Ix KK. f_equal.
    induction (ords s) as [|z l IH]; [destruct I|]. simpl in ND; inversion ND as [|? ? NI ND']; subst.
    destruct I as [I|I], Ix as [Ix|Ix]; subst; auto.
    + exfalso; apply NI. rewrite KK. apply in_map; auto.
    + exfalso; apply NI. rewrite <- KK. apply in_map; auto.
  - (* create perp *)
    destruct (_ || _ || _ || _ || _ || _); [discriminate|].
    destruct (env =? 1); [discriminate|]. destruct (existsb _ _); [discriminate|]. destruct (negb (env =? 0)); [discriminate|].
    destruct (send _ _ _ _ _) as [b|] eqn:S; [|discriminate]. inversion E; subst s'; clear E. unfold total at 1; simpl.
    eapply (CREATE owner (mkO true (npid s) owner pos 0 0 trig den amt tp pool asset)); eauto.
    + intros x I X. unfold okey in X; simpl in X. inversion X as [[P I2]]. specialize (IDS x I). rewrite P in IDS. lia.
    + intro d0. simpl. apply (FR d0 (npid s)). lia.
  - (* update perp *)
    destruct (_ || _); [discriminate|]. destruct (find_ord true id (ords s)) as [x|] eqn:F; [|discriminate].
    destruct (negb _); [discriminate|]. destruct (trig =? 0); [discriminate|].
    destruct (_ && _); [discriminate|]. destruct (_ && _); [discriminate|].
    inversion E; subst s'; clear E. unfold total; simpl.
    rewrite esc_sum_replace; auto. intros y I K. simpl.
    destruct (find_ord_some _ _ _ _ F) as (Ix & Px & IDx).
    assert (okey y = okey x) as KK by (rewrite K; unfold okey; simpl; congruence).
    clear - ND I Ix KK. f_equal.
    induction (ords s) as [|z l IH]; [destruct I|]. simpl in ND; inversion ND as [|? ? NI ND']; subst.
    destruct I as [I|I], Ix as [Ix|Ix]; subst; auto.
    + exfalso; apply NI. rewrite KK. apply in_map; auto.
    + exfalso; apply NI. rewrite <- KK. apply in_map; auto.
Qed.

(* ================================================================== the invariant of the repaired model *)
Definition esc_of (p : bool) (id : Z) : addr := if p then APerp id else ASpot id.
Definition is_esc (a : addr) : bool := match a with ASpot _ | APerp _ => true | _ => false end.

Lemma esc_esc_of o : esc o = esc_of (o_perp o) (o_id o).
Proof. reflexivity. Qed.

Lemma esc_of_inj p id p' id' : esc_of p id = esc_of p' id' -> p = p' /\ id = id'.
Proof. destruct p, p'; simpl; intro H; inversion H; auto. Qed.

Lemma is_esc_esc o : is_esc (esc o) = true.
Proof. unfold esc; destruct (o_perp o); reflexivity. Qed.

Lemma is_esc_cases a : is_esc a = true -> exists p id, a = esc_of p id.
Proof. destruct a; simpl; try discriminate; intros _; [exists false, id | exists true, id]; reflexivity. Qed.

(* every pending order's escrow account holds exactly the escrowed coin; escrow accounts that belong to no
   pending order (cancelled, executed, not yet issued) are empty; ids are unique and below the counters *)
Record Inv (s : state) : Prop := mkInv {
  inv_nodup : NoDup (map okey (ords s));
  inv_ids : forall o, In o (ords s) -> o_id o < (if o_perp o then npid s else nsid s);
  inv_exact : forall o, In o (ords s) -> exact_escrow (bk s) o;
  inv_free : forall p id d, find_ord p id (ords s) = None -> bk s (esc_of p id) d = 0
}.

Lemma find_none_iff p id l : find_ord p id l = None <-> ~ In (p, id) (map okey l).
Proof.
  unfold find_ord. induction l as [|x l IH]; simpl; [tauto|].
  destruct (key_eqb p id x) eqn:K.
  - apply key_eqb_true in K. destruct K as [K1 K2]. split; [discriminate|]. intro H. exfalso. apply H. left.
    unfold okey. congruence.
  - rewrite IH. split; intro H; [intros [E|E]; auto|tauto].
    unfold okey in E. inversion E. assert (key_eqb p id x = true) by (apply key_eqb_true; auto). congruence.
Qed.

Lemma find_in_nodup l o : NoDup (map okey l) -> In o l -> find_ord (o_perp o) (o_id o) l = Some o.
Proof.
  unfold find_ord. induction l as [|x l IH]; intros ND I; [destruct I|].
  simpl in ND. inversion ND as [|? ? NI ND']; subst. simpl.
  destruct (key_eqb (o_perp o) (o_id o) x) eqn:K.
  - apply key_eqb_true in K. destruct K as [K1 K2]. destruct I as [I|I]; [congruence|].
    exfalso. apply NI. replace (okey x) with (okey o) by (unfold okey; congruence). apply in_map; auto.
  - destruct I as [I|I]; [subst; assert (key_eqb (o_perp o) (o_id o) o = true) by (apply key_eqb_true; auto); congruence|].
    apply IH; auto.
Qed.

Lemma in_keys_remove k p id l :
  In k (map okey (remove_ord p id l)) <-> In k (map okey l) /\ k <> (p, id).
Proof.
  unfold remove_ord. induction l as [|x l IH]; simpl; [tauto|].
  destruct (key_eqb p id x) eqn:K; simpl.
  - apply key_eqb_true in K. destruct K as [K1 K2]. rewrite IH. unfold okey at 2. rewrite K1, K2.
    split; [intros [A B]; auto | intros [[A|A] B]; [congruence|auto]].
  - rewrite IH. split; [intros [A|[A B]]; [|auto] | intros [[A|A] B]; auto].
    split; auto. subst k. intro E. unfold okey in E. inversion E.
    assert (key_eqb p id x = true) by (apply key_eqb_true; auto). congruence.
Qed.

Lemma in_remove x p id l : In x (remove_ord p id l) <-> In x l /\ okey x <> (p, id).
Proof.
  unfold remove_ord. rewrite filter_In. split; intros [A B]; split; auto.
  - intro E. unfold okey in E. inversion E. assert (key_eqb p id x = true) by (apply key_eqb_true; auto).
    rewrite H in B; discriminate.
  - destruct (key_eqb p id x) eqn:K; auto. apply key_eqb_true in K. destruct K. exfalso. apply B. unfold okey; congruence.
Qed.

Lemma nodup_keys_remove p id l : NoDup (map okey l) -> NoDup (map okey (remove_ord p id l)).
Proof.
  unfold remove_ord. induction l as [|x l IH]; simpl; intro ND; [constructor|].
  inversion ND as [|? ? NI ND']; subst.
  destruct (negb (key_eqb p id x)); simpl; auto.
  constructor; auto. intro I. apply NI. fold (remove_ord p id l) in I. apply in_keys_remove in I. tauto.
Qed.

Lemma keys_replace n l : map okey (replace_ord n l) = map okey l.
Proof.
  unfold replace_ord. induction l as [|x l IH]; simpl; auto. rewrite IH. f_equal.
  destruct (key_eqb (o_perp n) (o_id n) x) eqn:K; auto. apply key_eqb_true in K. destruct K. unfold okey; congruence.
Qed.

Lemma in_replace y n l : In y (replace_ord n l) -> y = n \/ In y l.
Proof.
  unfold replace_ord. rewrite in_map_iff. intros (x & E & I).
  destruct (key_eqb (o_perp n) (o_id n) x); subst; auto.
Qed.

Lemma find_keys_eq p id l l' : map okey l = map okey l' -> (find_ord p id l = None <-> find_ord p id l' = None).
Proof. intro E. rewrite !find_none_iff, E. tauto. Qed.

Lemma find_remove_some p id p' id' l x : find_ord p id (remove_ord p' id' l) = Some x -> find_ord p id l = Some x.
Proof.
  unfold find_ord, remove_ord. induction l as [|y l IH]; simpl; [discriminate|].
  destruct (key_eqb p' id' y) eqn:K'; simpl.
  - intro H. specialize (IH H). destruct (key_eqb p id y) eqn:K; auto.
    exfalso. apply find_some in H. destruct H as [I Kx]. apply filter_In in I. destruct I as [I NK].
    apply key_eqb_true in K, K', Kx. destruct K, K', Kx.
    assert (key_eqb p' id' x = true) by (apply key_eqb_true; split; congruence). rewrite H5 in NK. discriminate.
  - destruct (key_eqb p id y); auto.
Qed.

(* ---- frames *)
Definition same_esc (b b' : bank) : Prop := forall a d, is_esc a = true -> b' a d = b a d.

Lemma inv_same_esc s b' : Inv s -> same_esc (bk s) b' -> Inv (mkS b' (ords s) (nsid s) (npid s)).
Proof.
  intros [ND IDS EX FRE] SE. constructor; simpl; auto.
  - intros o I. destruct (EX o I) as (A & K & X). repeat split; auto. intro d. rewrite SE by apply is_esc_esc. apply X.
  - intros p id d F. rewrite SE by (destruct p; reflexivity). apply FRE; auto.
Qed.

Lemma send_same_esc b from to d amt b' : send b from to d amt = Some b' -> is_esc from = false -> is_esc to = false -> same_esc b b'.
Proof.
  intros S F T a d' E. destruct (send_some _ _ _ _ _ _ S) as (_ & Fr & _). apply Fr. left.
  split; intro; subst; congruence.
Qed.

Lemma party_not_esc v a : party_ok v a = true -> is_esc a = false.
Proof. destruct a; simpl; auto; discriminate. Qed.

Lemma apply_xfers_frame v ops : forall b b', apply_xfers v b ops = Ok b' ->
  same_esc b b' /\ forall u d, u <> v -> b' (AUser u) d = b (AUser u) d.
Proof.
  induction ops as [|[[[from to] d0] amt] t IH]; intros b b' H; simpl in H.
  - inversion H; subst. split; [intros a d E|intros]; reflexivity.
  - destruct (party_ok v from && party_ok v to && (0 <? amt)) eqn:G; [|discriminate].
    apply andb_true_iff in G. destruct G as [G _]. apply andb_true_iff in G. destruct G as [G1 G2].
    destruct (send b from to d0 amt) as [b1|] eqn:S; [|discriminate].
    destruct (IH _ _ H) as [SE OU]. split.
    + intros a d E. rewrite SE by auto. eapply send_same_esc; eauto using party_not_esc.
    + intros u d N. rewrite OU by auto. destruct (send_some _ _ _ _ _ _ S) as (_ & Fr & _). apply Fr. left.
      split; intro X; subst; simpl in *; apply Z.eqb_eq in G1 || apply Z.eqb_eq in G2; congruence.
Qed.

Lemma set_wallets_frame l : forall b,
  same_esc b (set_wallets b l) /\
  forall u d, (forall x, In x l -> fst (fst x) <> u) -> set_wallets b l (AUser u) d = b (AUser u) d.
Proof.
  induction l as [|[[u0 d0] v] t IH]; intro b; simpl.
  - split; [intros a d E|intros]; reflexivity.
  - destruct (IH (bset b (AUser u0) d0 v)) as [SE OU]. split.
    + intros a d E. rewrite SE by auto. apply bset_other. left. intro; subst; discriminate.
    + intros u d N. rewrite OU by (intros; apply N; auto). apply bset_other. left.
      intro X. inversion X. apply (N (u0, d0, v)); auto.
Qed.

(* ---- the three ways the order list changes *)
Lemma send_close b o b1 : exact_escrow b o ->
  send b (esc o) (AUser (o_owner o)) (o_den o) (o_amt o) = Some b1 ->
  (forall d, b1 (esc o) d = 0) /\
  (forall d, b1 (AUser (o_owner o)) d = b (AUser (o_owner o)) d + (if d =? o_den o then o_amt o else 0)) /\
  (forall a d, a <> esc o -> a <> AUser (o_owner o) -> b1 a d = b a d).
Proof.
  intros (A & K & X) S.
  assert (esc o <> AUser (o_owner o)) as NE by apply esc_not_user.
  destruct (send_some _ _ _ _ _ _ S) as (_ & Fr & Mv & _). destruct (Mv NE) as [M1 M2].
  repeat split.
  - intro d. destruct (Z.eqb_spec d (o_den o)); [subst; rewrite M1, X, Z.eqb_refl; lia|].
    rewrite Fr by auto. rewrite X. destruct (Z.eqb_spec d (o_den o)); [contradiction|reflexivity].
  - intro d. destruct (Z.eqb_spec d (o_den o)); [subst; rewrite M2; reflexivity|]. rewrite Fr by auto. lia.
  - intros a d H1 H2. apply Fr. left; auto.
Qed.

Lemma sweep_close b o : exact_escrow b o ->
  let b1 := sweep b (esc o) (AUser (o_owner o)) in
  (forall d, b1 (esc o) d = 0) /\
  (forall d, b1 (AUser (o_owner o)) d = b (AUser (o_owner o)) d + (if d =? o_den o then o_amt o else 0)) /\
  (forall a d, a <> esc o -> a <> AUser (o_owner o) -> b1 a d = b a d).
Proof.
  intros (A & K & X) b1. subst b1.
  assert (esc o <> AUser (o_owner o)) as NE by apply esc_not_user.
  assert (forall d, 0 <= b (esc o) d) as NN. { intro d. rewrite X. destruct (d =? o_den o); lia. }
  repeat split.
  - intro d. rewrite sweep_spec by auto. rewrite addr_eqb_refl. destruct (known_denom d) eqn:KD; auto.
    rewrite X. destruct (Z.eqb_spec d (o_den o)); auto. subst. congruence.
  - intro d. rewrite sweep_spec by auto. rewrite (addr_eqb_neq _ _ (not_eq_sym NE)), addr_eqb_refl.
    rewrite X. destruct (Z.eqb_spec d (o_den o)); [subst; rewrite K; reflexivity|]. destruct (known_denom d); lia.
  - intros a d H1 H2. rewrite sweep_spec by auto. rewrite (addr_eqb_neq _ _ H1), (addr_eqb_neq _ _ H2).
    destruct (known_denom d); reflexivity.
Qed.

(* an order leaves the list and its escrow account is emptied; no other escrow account moves *)
Lemma inv_close s o b' : Inv s -> In o (ords s) ->
  (forall d, b' (esc o) d = 0) ->
  (forall a d, is_esc a = true -> a <> esc o -> b' a d = bk s a d) ->
  Inv (mkS b' (remove_ord (o_perp o) (o_id o) (ords s)) (nsid s) (npid s)).
Proof.
  intros [ND IDS EX FRE] I Z0 OT. constructor; simpl.
  - apply nodup_keys_remove; auto.
  - intros x Ix. apply in_remove in Ix. apply IDS; tauto.
  - intros x Ix. apply in_remove in Ix. destruct Ix as [Ix NK].
    destruct (EX x Ix) as (A & K & X). repeat split; auto. intro d. rewrite OT; auto using is_esc_esc.
    intro E. apply esc_inj in E. apply NK. rewrite E. reflexivity.
  - intros p id d F. rewrite find_none_iff in F. rewrite in_keys_remove in F.
    destruct (addr_eqb (esc_of p id) (esc o)) eqn:E.
    + apply addr_eqb_eq in E. rewrite E. apply Z0.
    + rewrite OT; [|destruct p; reflexivity|intro X; rewrite X, addr_eqb_refl in E; discriminate].
      apply FRE. apply find_none_iff. intro IK. apply F. split; auto.
      intro X. inversion X; subst. rewrite <- esc_esc_of, addr_eqb_refl in E. discriminate.
Qed.

(* a new order with the next id; its escrow account receives exactly the escrowed coin *)
Lemma inv_create s n b' : Inv s ->
  o_id n = (if o_perp n then npid s else nsid s) -> 0 <= o_amt n -> known_denom (o_den n) = true ->
  (forall d, b' (esc n) d = bk s (esc n) d + (if d =? o_den n then o_amt n else 0)) ->
  (forall a d, is_esc a = true -> a <> esc n -> b' a d = bk s a d) ->
  Inv (mkS b' (ords s ++ [n]) (if o_perp n then nsid s else nsid s + 1) (if o_perp n then npid s + 1 else npid s)).
Proof.
  intros [ND IDS EX FRE] ID A K NEW OT.
  assert (~ In (okey n) (map okey (ords s))) as FRESH.
  { intro I. apply in_map_iff in I. destruct I as (x & E & Ix). specialize (IDS x Ix).
    unfold okey in E. inversion E as [[E1 E2]]. rewrite E1, E2, ID in IDS. lia. }
  assert (forall d, bk s (esc n) d = 0) as Z0.
  { intro d. rewrite esc_esc_of. apply FRE. apply find_none_iff. exact FRESH. }
  constructor; simpl.
  - rewrite map_app. simpl.
    clear - ND FRESH. induction (map okey (ords s)) as [|k l IH]; simpl.
    + constructor; [intros []|constructor].
    + inversion ND; subst. constructor.
      * intro I. apply in_app_or in I. destruct I as [I|[I|[]]]; auto. apply FRESH. left; auto.
      * apply IH; auto. intro; apply FRESH; right; auto.
  - intros x Ix. apply in_app_or in Ix. destruct Ix as [Ix|[Ix|[]]].
    + specialize (IDS x Ix). destruct (o_perp x), (o_perp n); lia.
    + subst x. rewrite ID. destruct (o_perp n); lia.
  - intros x Ix. apply in_app_or in Ix. destruct Ix as [Ix|[Ix|[]]].
    + destruct (EX x Ix) as (A' & K' & X). repeat split; auto. intro d. rewrite OT; auto using is_esc_esc.
      intro E. apply esc_inj in E. apply FRESH. rewrite <- E. apply in_map; auto.
    + subst x. repeat split; auto. intro d. rewrite NEW, Z0. lia.
  - intros p id d F. rewrite find_none_iff in F. rewrite map_app in F. simpl in F.
    rewrite OT; [|destruct p; reflexivity|].
    + apply FRE. apply find_none_iff. intro I. apply F. apply in_or_app; auto.
    + intro X. rewrite esc_esc_of in X. apply esc_of_inj in X. destruct X; subst. apply F. apply in_or_app. right; left; reflexivity.
Qed.

(* an order is replaced by one with the same key and the same escrowed coin *)
Lemma inv_update s n x : Inv s -> find_ord (o_perp n) (o_id n) (ords s) = Some x ->
  o_den n = o_den x -> o_amt n = o_amt x ->
  Inv (mkS (bk s) (replace_ord n (ords s)) (nsid s) (npid s)).
Proof.
  intros [ND IDS EX FRE] F D A.
  destruct (find_ord_some _ _ _ _ F) as (Ix & Px & IDx).
  constructor; simpl.
  - rewrite keys_replace; auto.
  - intros y Iy. apply in_replace in Iy. destruct Iy as [E|Iy]; auto. subst y.
    specialize (IDS x Ix). rewrite Px, IDx in IDS. exact IDS.
  - intros y Iy. apply in_replace in Iy. destruct Iy as [E|Iy]; auto. subst y.
    destruct (EX x Ix) as (A' & K' & X). unfold exact_escrow. rewrite D, A. repeat split; auto.
    intro d. replace (esc n) with (esc x); auto. unfold esc. rewrite Px, IDx. reflexivity.
  - intros p id d Fn. apply FRE. eapply find_keys_eq; [|exact Fn]. symmetry. apply keys_replace.
Qed.

(* ---- the book value of the escrows *)
Fixpoint book (l : list order) (u d : Z) : Z :=
  match l with
  | [] => 0
  | o :: t => (if (o_owner o =? u) && (d =? o_den o) then o_amt o else 0) + book t u d
  end.

Lemma esc_sum_book b l u d : (forall o, In o l -> exact_escrow b o) -> esc_sum b l u d = book l u d.
Proof.
  induction l as [|x l IH]; intro H; simpl; auto.
  rewrite IH by (intros; apply H; right; auto).
  destruct (H x (or_introl eq_refl)) as (_ & _ & X). rewrite X.
  destruct (o_owner x =? u), (d =? o_den x); reflexivity.
Qed.

Lemma total_book s u d : Inv s -> total s u d = bk s (AUser u) d + book (ords s) u d.
Proof. intros [_ _ EX _]. unfold total. rewrite esc_sum_book; auto. Qed.

Lemma book_remove o l u d : NoDup (map okey l) -> In o l ->
  book (remove_ord (o_perp o) (o_id o) l) u d =
  book l u d - (if (o_owner o =? u) && (d =? o_den o) then o_amt o else 0).
Proof.
  unfold remove_ord. induction l as [|x l IH]; intros ND I; [destruct I|].
  simpl in ND. inversion ND as [|? ? NI ND']; subst. simpl.
  destruct (key_eqb (o_perp o) (o_id o) x) eqn:K; simpl.
  - apply key_eqb_true in K. destruct K as [K1 K2].
    assert (x = o) as EQ.
    { destruct I as [I|I]; auto. exfalso. apply NI. replace (okey x) with (okey o) by (unfold okey; congruence).
      apply in_map; auto. }
    subst x.
    assert (filter (fun o0 => negb (key_eqb (o_perp o) (o_id o) o0)) l = l) as R.
    { clear IH ND ND' I. induction l as [|y l IHl]; simpl; auto.
      destruct (key_eqb (o_perp o) (o_id o) y) eqn:Ky.
      - exfalso. apply key_eqb_true in Ky. destruct Ky. apply NI. left. unfold okey; congruence.
      - simpl. f_equal. apply IHl. intro; apply NI; right; auto. }
    rewrite R. lia.
  - destruct I as [I|I]; [subst x; exfalso; assert (key_eqb (o_perp o) (o_id o) o = true) by (apply key_eqb_true; auto); congruence|].
    rewrite (IH ND' I). lia.
Qed.

Lemma inv_wf s : Inv s -> WF s.
Proof.
  intros [ND IDS EX FRE]. constructor; auto.
  intros d id. split; intro H.
  - apply (FRE false id d). apply find_none_iff. intro I. apply in_map_iff in I. destruct I as (x & E & Ix).
    specialize (IDS x Ix). unfold okey in E. inversion E as [[E1 E2]]. rewrite E1, E2 in IDS. lia.
  - apply (FRE true id d). apply find_none_iff. intro I. apply in_map_iff in I. destruct I as (x & E & Ix).
    specialize (IDS x Ix). unfold okey in E. inversion E as [[E1 E2]]. rewrite E1, E2 in IDS. lia.
Qed.

(* closing an order (cancel, or successful execution followed by the inner call's transfers [b1 -> b2]) *)
Lemma close_gen s o b1 b2 : Inv s -> In o (ords s) ->
  (forall d, b1 (esc o) d = 0) ->
  (forall d, b1 (AUser (o_owner o)) d = bk s (AUser (o_owner o)) d + (if d =? o_den o then o_amt o else 0)) ->
  (forall a d, a <> esc o -> a <> AUser (o_owner o) -> b1 a d = bk s a d) ->
  same_esc b1 b2 ->
  let s' := mkS b2 (remove_ord (o_perp o) (o_id o) (ords s)) (nsid s) (npid s) in
  Inv s' /\ forall u d, b2 (AUser u) d = b1 (AUser u) d -> total s' u d = total s u d.
Proof.
  intros I In0 Z0 W R SE s'.
  assert (Inv s') as I'.
  { apply inv_close; auto.
    - intro d. rewrite SE by apply is_esc_esc. apply Z0.
    - intros a d E N. rewrite SE by auto. apply R; auto. intro X; subst; discriminate. }
  split; auto. intros u d U.
  rewrite (total_book s' u d I'), (total_book s u d I). simpl.
  assert (NoDup (map okey (ords s))) as ND by (destruct I; auto).
  rewrite book_remove by auto. rewrite U.
  destruct (Z.eqb_spec (o_owner o) u) as [E|E].
  - subst u. rewrite W. simpl. lia.
  - rewrite R; [simpl; lia | intro X; symmetry in X; revert X; apply esc_not_user | congruence].
Qed.

Lemma same_esc_refl b : same_esc b b.
Proof. intros a d _. reflexivity. Qed.

Lemma cancel_one_inv s sender p id s' : Inv s -> cancel_one sender p id s = Ok s' ->
  Inv s' /\ forall u d, total s' u d = total s u d.
Proof.
  intros I C. unfold cancel_one in C. destruct (id =? 0); [discriminate|].
  destruct (find_ord p id (ords s)) as [o|] eqn:F; [|discriminate].
  destruct (negb (o_owner o =? sender)); [discriminate|].
  destruct (find_ord_some _ _ _ _ F) as (Io & Po & IDo).
  assert (exact_escrow (bk s) o) as EX by (destruct I as [_ _ EX _]; auto).
  destruct p.
  - destruct (send _ _ _ _ _) as [b1|] eqn:S; [|discriminate]. inversion C; subst s'; clear C.
    destruct (send_close _ _ _ EX S) as (Z0 & W & R).
    destruct (close_gen s o b1 b1 I Io Z0 W R (same_esc_refl _)) as [I' T]. rewrite Po, IDo in *. split; auto.
  - inversion C; subst s'; clear C.
    destruct (sweep_close _ _ EX) as (Z0 & W & R).
    destruct (close_gen s o _ _ I Io Z0 W R (same_esc_refl _)) as [I' T]. rewrite Po, IDo in *. split; auto.
Qed.

Lemma cancel_list_inv sender p ids : forall s s', Inv s -> cancel_list sender p ids s = Ok s' ->
  Inv s' /\ forall u d, total s' u d = total s u d.
Proof.
  induction ids as [|i t IH]; intros s s' I C; simpl in C.
  - inversion C; subst; auto.
  - destruct (cancel_one sender p i s) as [s1| |] eqn:C1; simpl in C; try discriminate.
    destruct (cancel_one_inv _ _ _ _ _ I C1) as [I1 T1]. destruct (IH _ _ I1 C) as [I2 T2].
    split; auto. intros. rewrite T2, T1. reflexivity.
Qed.

(* one order attempt of the repaired ExecuteOrders *)
Definition sub_ords (s s' : state) : Prop :=
  forall p id x, find_ord p id (ords s') = Some x -> find_ord p id (ords s) = Some x.

Definition no_exec (u : Z) (p : bool) (l : list (Z * reso)) (s : state) : Prop :=
  forall id r o, In (id, r) l -> find_ord p id (ords s) = Some o -> o_owner o = u -> untrig o r \/ inner_fails r.

Lemma exec_one_inv s o r s' : Inv s -> In o (ords s) -> exec_one true o r s = Ok s' ->
  Inv s' /\ sub_ords s s' /\
  forall u, (o_owner o = u -> untrig o r \/ inner_fails r) -> forall d, total s' u d = total s u d.
Proof.
  intros I Io E. pose proof E as E0.
  assert (s' = s -> Inv s' /\ sub_ords s s' /\
          forall u, (o_owner o = u -> untrig o r \/ inner_fails r) -> forall d, total s' u d = total s u d) as SAME.
  { intro X; subst s'. split; [auto | split; [intros p id x H; exact H | reflexivity]]. }
  unfold exec_one in E.
  destruct (r_price r) as [mp|]; [|inversion E; subst; apply SAME; reflexivity].
  destruct (negb (o_perp o) && (mp =? 0)); [inversion E; subst; apply SAME; reflexivity|].
  destruct (negb (triggered o mp)); [destruct (o_perp o); inversion E; subst; apply SAME; reflexivity|].
  destruct (send _ _ _ _ _) as [b1|] eqn:S; [|inversion E; subst; apply SAME; reflexivity].
  destruct (r_inner r) as [ops|ops|]; [|inversion E; subst; apply SAME; reflexivity|discriminate].
  destruct (apply_xfers (o_owner o) b1 ops) as [b2| |] eqn:A; simpl in E; try discriminate.
  inversion E; subst s'; clear E.
  assert (exact_escrow (bk s) o) as EX by (destruct I as [_ _ EX _]; auto).
  destruct (send_close _ _ _ EX S) as (Z0 & W & R).
  destruct (apply_xfers_frame _ _ _ _ A) as [SE OU].
  destruct (close_gen s o b1 b2 I Io Z0 W R SE) as [I' T]. split; auto. split.
  - intros p id x H. simpl in H. eapply find_remove_some; eauto.
  - intros u Q d. destruct (Z.eq_dec (o_owner o) u) as [EU|NU].
    + assert (mkS b2 (remove_ord (o_perp o) (o_id o) (ords s)) (nsid s) (npid s) = s) as X
        by (destruct (Q EU); [eapply exec_one_untrig | eapply exec_one_fixed_fails]; eauto).
      rewrite X. reflexivity.
    + apply T. apply OU. congruence.
Qed.

Lemma exec_list_inv p l : forall s s', Inv s -> exec_list true p l s = Ok s' ->
  Inv s' /\ sub_ords s s' /\ forall u, no_exec u p l s -> forall d, total s' u d = total s u d.
Proof.
  induction l as [|[id r] t IH]; intros s s' I E; simpl in E.
  - inversion E; subst. split; [auto | split; [intros p' id x H; exact H | reflexivity]].
  - destruct (id =? 0); [discriminate|].
    destruct (find_ord p id (ords s)) as [o|] eqn:F; [|discriminate].
    destruct (exec_one true o r s) as [s1| |] eqn:E1; simpl in E; try discriminate.
    destruct (find_ord_some _ _ _ _ F) as (Io & _ & _).
    destruct (exec_one_inv s o r s1 I Io E1) as (I1 & S1 & T1).
    destruct (IH s1 s' I1 E) as (I2 & S2 & T2).
    split; [auto | split].
    + intros p' id' x H. apply S1. apply S2. exact H.
    + intros u Q d. rewrite T2, T1; auto.
      * intro OW. eapply Q; eauto. left; reflexivity.
      * intros id' r' o' In' F' OW. eapply Q; eauto. right; exact In'.
Qed.

(* ---- which steps may change the funds of user [u] *)
Definition op_ok (o : op) : bool := match o with OSend _ to _ _ => negb (is_esc to) | _ => true end.
Definition no_escrow_transfers (h : list op) : Prop := Forall (fun o => op_ok o = true) h.

Definition quiet (s : state) (o : op) (u : Z) : Prop :=
  match o with
  | OCreateSpot owner typ _ _ _ _ _ _ => typ = 3 -> owner <> u            (* a market buy of u is filled at once *)
  | OExecute _ sids pids => no_exec u false sids s /\ no_exec u true pids s (* no order of u is executed *)
  | OSend from to _ _ => from <> u /\ to <> AUser u                        (* plain transfers of / to u *)
  | OEnv l => forall x, In x l -> fst (fst x) <> u                         (* settlement of u's queued swaps *)
  | _ => True
  end.

Lemma step_inv s o s' : Inv s -> op_ok o = true -> step_gen true s o = Ok s' ->
  Inv s' /\ forall u, quiet s o u -> forall d, total s' u d = total s u d.
Proof.
  intros I OK E.
  assert (exec_gen true s o = s') as EG by (unfold exec_gen, run_tx; rewrite E; reflexivity).
  destruct o; simpl in E.
  - (* create spot *)
    destruct (_ || _ || _ || _ || _) eqn:G; [discriminate|].
    apply orb_false_iff in G. destruct G as [G G5]. apply orb_false_iff in G. destruct G as [G G4].
    apply orb_false_iff in G. destruct G as [G G3]. apply orb_false_iff in G. destruct G as [G1 G2].
    destruct (Z.eqb_spec typ 3) as [T3|T3].
    + destruct inn as [ops| |]; try discriminate.
      destruct (apply_xfers owner (bk s) ops) as [b| |] eqn:A; simpl in E; try discriminate.
      inversion E; subst s'; clear E. destruct (apply_xfers_frame _ _ _ _ A) as [SE OU]. split.
      * apply inv_same_esc; auto.
      * intros u Q d. unfold total, set_bk; simpl. rewrite OU by (intro X; apply (Q T3); auto).
        f_equal. apply esc_sum_ext. intros x _ _. apply SE. apply is_esc_esc.
    + destruct (send _ _ _ _ _) as [b|] eqn:S; [|discriminate]. split.
      * inversion E; subst s'; clear E.
        set (n := mkO false (nsid s) owner typ base quote rate den amt 0 0 0) in *.
        assert (AUser owner <> esc n) as NE by discriminate.
        destruct (send_some _ _ _ _ _ _ S) as (_ & Fr & Mv & _). destruct (Mv NE) as [M1 M2].
        apply (inv_create s n b I); simpl; auto; try lia.
        -- apply negb_false_iff; auto.
        -- intro d. destruct (Z.eqb_spec d den); [subst; rewrite M2; reflexivity|]. rewrite Fr by auto. lia.
        -- intros a d Ea Na. apply Fr. left. split; auto. intro; subst; discriminate.
      * intros u _ d. rewrite <- EG. apply conserved_partial; auto using inv_wf.
  - (* update spot *)
    destruct (_ || _); [discriminate|]. destruct (find_ord false id (ords s)) as [x|] eqn:F; [|discriminate].
    destruct (negb _); [discriminate|]. split.
    + inversion E; subst s'; clear E. eapply (inv_update s (mkO false id (o_owner x) (o_type x) base quote rate (o_den x) (o_amt x) 0 0 0) x); eauto.
    + intros u _ d. rewrite <- EG. apply conserved_partial; auto using inv_wf.
  - (* cancel spot *)
    destruct (cancel_one_inv _ _ _ _ _ I E) as [I' T]. split; auto.
  - (* cancel spots *)
    destruct ids; [discriminate|]. destruct (existsb _ _); [discriminate|].
    destruct (cancel_list_inv _ _ _ _ _ I E) as [I' T]. split; auto.
  - (* create perp *)
    destruct (_ || _ || _ || _ || _ || _) eqn:G; [discriminate|].
    apply orb_false_iff in G. destruct G as [G G6]. apply orb_false_iff in G. destruct G as [G G5].
    apply orb_false_iff in G. destruct G as [G G4]. apply orb_false_iff in G. destruct G as [G G3].
    apply orb_false_iff in G. destruct G as [G1 G2].
    destruct (env =? 1); [discriminate|]. destruct (existsb _ _); [discriminate|]. destruct (negb (env =? 0)); [discriminate|].
    destruct (send _ _ _ _ _) as [b|] eqn:S; [|discriminate]. split.
    + inversion E; subst s'; clear E.
      set (n := mkO true (npid s) owner pos 0 0 trig den amt tp pool asset) in *.
      assert (AUser owner <> esc n) as NE by discriminate.
      destruct (send_some _ _ _ _ _ _ S) as (_ & Fr & Mv & _). destruct (Mv NE) as [M1 M2].
      apply (inv_create s n b I); simpl; auto; try lia.
      * apply negb_false_iff; auto.
      * intro d. destruct (Z.eqb_spec d den); [subst; rewrite M2; reflexivity|]. rewrite Fr by auto. lia.
      * intros a d Ea Na. apply Fr. left. split; auto. intro; subst; discriminate.
    + intros u _ d. rewrite <- EG. apply conserved_partial; auto using inv_wf.
  - (* update perp *)
    destruct (_ || _); [discriminate|]. destruct (find_ord true id (ords s)) as [x|] eqn:F; [|discriminate].
    destruct (negb _); [discriminate|]. destruct (trig =? 0); [discriminate|].
    destruct (_ && _); [discriminate|]. destruct (_ && _); [discriminate|]. split.
    + inversion E; subst s'; clear E.
      eapply (inv_update s (mkO true id (o_owner x) (o_type x) 0 0 trig (o_den x) (o_amt x) (o_tp x) (o_pool x) (o_asset x)) x); eauto.
    + intros u _ d. rewrite <- EG. apply conserved_partial; auto using inv_wf.
  - (* cancel perp *)
    destruct (cancel_one_inv _ _ _ _ _ I E) as [I' T]. split; auto.
  - (* cancel perps *)
    destruct ids; [discriminate|]. destruct (existsb _ _); [discriminate|].
    destruct (cancel_list_inv _ _ _ _ _ I E) as [I' T]. split; auto.
  - (* execute *)
    assert (forall s1, exec_list true false sids s = Ok s1 -> exec_list true true pids s1 = Ok s' ->
              Inv s' /\ forall u, quiet s (OExecute sender sids pids) u -> forall d, total s' u d = total s u d) as K.
    { intros s1 E1 E2.
      destruct (exec_list_inv false sids s s1 I E1) as (I1 & S1 & T1).
      destruct (exec_list_inv true pids s1 s' I1 E2) as (I2 & S2 & T2).
      split; auto. intros u [Q1 Q2] d. rewrite T2, T1; auto.
      intros id r o In' F' OW. eapply Q2; eauto. }
    destruct sids as [|a sids'], pids as [|b pids']; try discriminate;
      destruct (existsb _ _ || existsb _ _); try discriminate;
      destruct (exec_list true false _ s) as [s1| |] eqn:E1; simpl in E; try discriminate;
      eapply K; eauto.
  - (* bank send to a user or an outside account *)
    destruct ((amt <=? 0) || future_esc s to); [discriminate|].
    destruct (send _ _ _ _ _) as [b|] eqn:S; [|discriminate]. inversion E; subst s'; clear E.
    simpl in OK. apply negb_true_iff in OK.
    assert (same_esc (bk s) b) as SE by (eapply send_same_esc; eauto).
    split; [apply inv_same_esc; auto|].
    intros u [Q1 Q2] d'. unfold total, set_bk; simpl.
    destruct (send_some _ _ _ _ _ _ S) as (_ & Fr & _).
    rewrite Fr by (left; split; congruence). f_equal.
    apply esc_sum_ext. intros x _ _. apply SE. apply is_esc_esc.
  - (* end of block: wallets as settled by other modules *)
    inversion E; subst s'; clear E. destruct (set_wallets_frame l (bk s)) as [SE OU].
    split; [apply inv_same_esc; auto|].
    intros u Q d. unfold total, set_bk; simpl. rewrite OU by auto. f_equal.
    apply esc_sum_ext. intros x _ _. apply SE. apply is_esc_esc.
Qed.

(* ---- over histories *)
Theorem inv_exec s o : Inv s -> op_ok o = true -> Inv (exec_gen true s o).
Proof.
  intros I OK. unfold exec_gen, run_tx. destruct (step_gen true s o) as [s'| |] eqn:E; auto.
  eapply step_inv; eauto.
Qed.

Theorem inv_run : forall h s, Inv s -> no_escrow_transfers h -> Inv (run_gen true s h).
Proof.
  induction h as [|o t IH]; intros s I NE; simpl; auto.
  inversion NE; subst. apply IH; auto. apply inv_exec; auto.
Qed.

Lemma inv_init b : (forall a d, is_esc a = true -> b a d = 0) -> Inv (init_state b).
Proof.
  intro Z0. constructor; simpl.
  - constructor.
  - intros o [].
  - intros o [].
  - intros p id d _. apply Z0. destruct p; reflexivity.
Qed.

Lemma inv_init_wallets l : Inv (init_state (set_wallets (fun _ _ => 0) l)).
Proof. apply inv_init. intros a d E. destruct (set_wallets_frame l (fun _ _ => 0)) as [SE _]. rewrite SE; auto. Qed.

(* every pending order's escrow account holds exactly its escrowed coin, after every history *)
Theorem escrow_exact_history : forall h s, Inv s -> no_escrow_transfers h ->
  forall o, In o (ords (run_gen true s h)) -> exact_escrow (bk (run_gen true s h)) o.
Proof. intros h s I NE. destruct (inv_run h s I NE) as [_ _ EX _]. exact EX. Qed.

Theorem conserved : forall s o u, Inv s -> op_ok o = true -> quiet s o u ->
  forall d, total (exec_gen true s o) u d = total s u d.
Proof.
  intros s o u I OK Q d. unfold exec_gen, run_tx. destruct (step_gen true s o) as [s'| |] eqn:E; auto.
  destruct (step_inv _ _ _ I OK E) as [_ T]. apply T; auto.
Qed.

Fixpoint quiet_run (s : state) (h : list op) (u : Z) : Prop :=
  match h with
  | [] => True
  | o :: t => quiet s o u /\ quiet_run (exec_gen true s o) t u
  end.

Theorem conserved_history : forall h s u, Inv s -> no_escrow_transfers h -> quiet_run s h u ->
  forall d, total (run_gen true s h) u d = total s u d.
Proof.
  induction h as [|o t IH]; intros s u I NE Q d; simpl; auto.
  inversion NE; subst. destruct Q as [Q1 Q2].
  rewrite IH; auto using inv_exec. apply conserved; auto.
Qed.

(* ---- a concrete history: create, create for another owner, update, create, a third party executes the
   OTHER owner's order, batch cancel *)
Definition ex_s0 : state :=
  init_state (set_wallets (fun _ _ => 0) [(0, 0, 1000000000000); (0, 1, 1000000000000); (1, 0, 1000000000000)]).
Definition ex_h : list op :=
  [ OCreateSpot 0 1 1 0 6000000000000000000 1 1000000 (IErr []);
    OCreatePerp 1 1 5000000000000000000 0 10000000 20000000000000000000 1 1 0;
    OUpdateSpot 0 1 1 0 7000000000000000000;
    OCreateSpot 0 0 1 0 4000000000000000000 1 2000000 (IErr []);
    OExecute 2 [] [(1, mkR (Some 4500000000000000000) (IOk [(AUser 1, AExt 0, 0, 10000000)]))];
    OCancelSpots 0 [2; 1] ].

Lemma conserved_nonvacuous :
  Inv ex_s0 /\ no_escrow_transfers ex_h /\ quiet_run ex_s0 ex_h 0 /\
  length (ords (run_gen true ex_s0 (firstn 4 ex_h))) = 3%nat /\
  length (ords (run_gen true ex_s0 (firstn 5 ex_h))) = 2%nat /\
  bk (run_gen true ex_s0 (firstn 5 ex_h)) (AUser 0) 1 = 1000000000000 - 3000000 /\
  total (run_gen true ex_s0 (firstn 5 ex_h)) 0 1 = 1000000000000 /\
  ords (run_gen true ex_s0 ex_h) = [] /\
  total (run_gen true ex_s0 ex_h) 0 1 = total ex_s0 0 1 /\
  total (run_gen true ex_s0 ex_h) 1 0 = total ex_s0 1 0 - 10000000.
Proof.
  split; [apply inv_init_wallets|].
  split; [repeat constructor|].
  split.
  - simpl. repeat split; try (intro H; discriminate).
    + intros id r o [].
    + intros id r o [H|[]] F OW. inversion H; subst. vm_compute in F. inversion F; subst. vm_compute in OW. discriminate.
  - vm_compute. repeat split.
Qed.

Corollary inv_run_from_wallets : forall l h, no_escrow_transfers h ->
  Inv (run_gen true (init_state (set_wallets (fun _ _ => 0) l)) h).
Proof. intros. apply inv_run; auto. apply inv_init_wallets. Qed.

(* in every reachable state the owner's cancel succeeds and returns the escrow in full *)
Corollary cancel_full_history : forall h s, Inv s -> no_escrow_transfers h ->
  let t := run_gen true s h in
  forall p id o, find_ord p id (ords t) = Some o -> id <> 0 ->
  exists t', step_gen true t (if p then OCancelPerp (o_owner o) id else OCancelSpot (o_owner o) id) = Ok t' /\
    ords t' = remove_ord p id (ords t) /\
    (forall d, bk t' (esc o) d = 0) /\
    (forall d, bk t' (AUser (o_owner o)) d = bk t (AUser (o_owner o)) d + (if d =? o_den o then o_amt o else 0)) /\
    (forall a d, a <> esc o -> a <> AUser (o_owner o) -> bk t' a d = bk t a d).
Proof.
  intros h s I NE t p id o F N. apply cancel_full; auto.
  destruct (find_ord_some _ _ _ _ F) as (Io & _ & _).
  destruct (inv_run h s I NE) as [_ _ EX _]. apply EX; auto.
Qed.
