(* Proofs about Models/Shield.v (x/tradeshield order escrow). *)
From Coq Require Import ZArith List Bool Lia.
From Elys Require Import Base.Res Base.Zdec Models.Shield.
Import ListNotations.
Open Scope Z_scope.

(* ------------------------------------------------------------------ basics *)
Lemma addr_eqb_eq a b : addr_eqb a b = true <-> a = b.
Proof.
  destruct a, b; simpl; split; intro H; try discriminate; try (apply Z.eqb_eq in H; subst; reflexivity);
    try (inversion H; subst; apply Z.eqb_refl).
Qed.

Lemma addr_eqb_refl a : addr_eqb a a = true.
Proof. apply addr_eqb_eq; reflexivity. Qed.

Lemma addr_eqb_neq a b : a <> b -> addr_eqb a b = false.
Proof. intro H; destruct (addr_eqb a b) eqn:E; auto. apply addr_eqb_eq in E; contradiction. Qed.

Lemma bset_same b a d v : bset b a d v a d = v.
Proof. unfold bset. rewrite addr_eqb_refl, Z.eqb_refl. reflexivity. Qed.

Lemma bset_other b a d v a' d' : (a' <> a \/ d' <> d) -> bset b a d v a' d' = b a' d'.
Proof.
  intros [H | H]; unfold bset.
  - rewrite (addr_eqb_neq _ _ H). reflexivity.
  - destruct (addr_eqb a' a); simpl; auto. destruct (Z.eqb_spec d' d); auto; contradiction.
Qed.

Lemma key_eqb_true p id o : key_eqb p id o = true <-> (o_perp o = p /\ o_id o = id).
Proof.
  unfold key_eqb. rewrite andb_true_iff, Z.eqb_eq. split; intros [A B]; split; auto.
  - apply eqb_prop in A; auto.
  - subst; apply eqb_reflx.
Qed.

Lemma find_ord_some p id l o : find_ord p id l = Some o -> In o l /\ o_perp o = p /\ o_id o = id.
Proof.
  unfold find_ord; intro H. apply find_some in H. destruct H as [A B]. apply key_eqb_true in B. tauto.
Qed.

(* ------------------------------------------------------------------ owner only *)
Lemma cancel_one_foreign sender p id s o :
  find_ord p id (ords s) = Some o -> o_owner o <> sender ->
  cancel_one sender p id s = Err E_unauth \/ cancel_one sender p id s = Err E_invalid.
Proof.
  intros F N. unfold cancel_one. destruct (id =? 0); auto. rewrite F.
  destruct (Z.eqb_spec (o_owner o) sender); [contradiction|]. simpl. auto.
Qed.

Lemma cancel_one_not_panic sender p id s c : cancel_one sender p id s <> Panic c.
Proof.
  unfold cancel_one. destruct (id =? 0); [discriminate|].
  destruct (find_ord p id (ords s)); [|discriminate].
  destruct (negb (o_owner o =? sender)); [discriminate|].
  destruct p; [destruct (send _ _ _ _ _)|]; discriminate.
Qed.

Lemma find_remove_other p id p' id' l :
  (p <> p' \/ id <> id') -> find_ord p id (remove_ord p' id' l) = find_ord p id l.
Proof.
  intro N. unfold find_ord, remove_ord. induction l as [|x l IH]; simpl; auto.
  destruct (key_eqb p' id' x) eqn:K'; simpl.
  - destruct (key_eqb p id x) eqn:K; auto.
    apply key_eqb_true in K; apply key_eqb_true in K'. destruct K, K'. exfalso. destruct N; congruence.
  - destruct (key_eqb p id x); auto.
Qed.

Lemma cancel_one_ok_ords sender p id s s' :
  cancel_one sender p id s = Ok s' ->
  ords s' = remove_ord p id (ords s) /\ nsid s' = nsid s /\ npid s' = npid s /\
  exists o, find_ord p id (ords s) = Some o /\ o_owner o = sender.
Proof.
  unfold cancel_one. destruct (id =? 0); [discriminate|].
  destruct (find_ord p id (ords s)) as [o|] eqn:F; [|discriminate].
  destruct (Z.eqb_spec (o_owner o) sender) as [E|E]; simpl; [|discriminate].
  destruct p.
  - destruct (send _ _ _ _ _); [|discriminate]. intro H; inversion H; subst; simpl. repeat split; eauto.
  - intro H; inversion H; subst; simpl. repeat split; eauto.
Qed.

Lemma cancel_list_foreign sender p ids : forall s id o,
  In id ids -> find_ord p id (ords s) = Some o -> o_owner o <> sender ->
  exists e, cancel_list sender p ids s = Err e.
Proof.
  induction ids as [|i t IH]; intros s id o I F N; [destruct I|].
  simpl. destruct (cancel_one sender p i s) as [s1|e|c] eqn:C; simpl.
  - destruct (cancel_one_ok_ords _ _ _ _ _ C) as (Ho & _ & _ & o1 & F1 & O1).
    assert (id <> i) as Ni. { intro; subst. rewrite F in F1; inversion F1; subst; contradiction. }
    destruct I as [I | I]; [congruence|].
    apply (IH s1 id o I); auto. rewrite Ho. rewrite find_remove_other; auto.
  - eauto.
  - exfalso. eapply cancel_one_not_panic; eauto.
Qed.

(* C20_owner_only: a sender that is not the owner of a targeted pending order is refused (the handler
   returns an error, so the transaction changes nothing), for both versions of the model. *)
Definition refused (fixed : bool) (s : state) (o : op) : Prop :=
  (exists e, step_gen fixed s o = Err e) /\ exec_gen fixed s o = s.

Lemma refused_of_err fixed s o e : step_gen fixed s o = Err e -> refused fixed s o.
Proof. intro H. split; eauto. unfold exec_gen, run_tx. rewrite H. reflexivity. Qed.

Theorem owner_only : forall fixed s sender p id x,
  find_ord p id (ords s) = Some x -> o_owner x <> sender ->
  (* single cancel *)
  refused fixed s (if p then OCancelPerp sender id else OCancelSpot sender id) /\
  (* batch cancel naming the order anywhere in the list *)
  (forall ids, In id ids -> refused fixed s (if p then OCancelPerps sender ids else OCancelSpots sender ids)) /\
  (* update *)
  (forall base quote rate, p = false -> refused fixed s (OUpdateSpot sender id base quote rate)) /\
  (forall trig a b c, p = true -> refused fixed s (OUpdatePerp sender id trig a b c)).
Proof.
  intros fixed s sender p id x F N. repeat split.
  - destruct (cancel_one_foreign sender p id s x F N) as [H|H]; destruct p; simpl; rewrite H; eauto.
  - destruct (cancel_one_foreign sender p id s x F N) as [H|H]; destruct p; unfold exec_gen, run_tx; simpl; rewrite H; reflexivity.
  - destruct (cancel_list_foreign sender p ids s id x H F N) as [e E].
    destruct p; simpl; (destruct ids; [destruct H|]); destruct (existsb _ _); eauto.
  - destruct (cancel_list_foreign sender p ids s id x H F N) as [e E].
    destruct p; unfold exec_gen, run_tx; simpl; (destruct ids; [destruct H|]); destruct (existsb _ _); auto; rewrite E; auto.
  - subst p. simpl. destruct ((rate <? 0) || (id =? 0)); eauto. rewrite F.
    destruct (Z.eqb_spec (o_owner x) sender); [contradiction|]. simpl. eauto.
  - subst p. unfold exec_gen, run_tx. simpl. destruct ((rate <? 0) || (id =? 0)); auto. rewrite F.
    destruct (Z.eqb_spec (o_owner x) sender); [contradiction|]. simpl. auto.
  - subst p. simpl. destruct ((trig <? 0) || (id =? 0)); eauto. rewrite F.
    destruct (Z.eqb_spec (o_owner x) sender); [contradiction|]. simpl. eauto.
  - subst p. unfold exec_gen, run_tx. simpl. destruct ((trig <? 0) || (id =? 0)); auto. rewrite F.
    destruct (Z.eqb_spec (o_owner x) sender); [contradiction|]. simpl. auto.
Qed.

(* ------------------------------------------------------------------ execute requests that must not act *)
(* the attempt on order [o] cannot act: no price, zero spot price, trigger not met - or (repaired
   model only) the inner call does not succeed *)
Definition untrig (o : order) (r : reso) : Prop :=
  match r_price r with
  | None => True
  | Some mp => (o_perp o = false /\ mp = 0) \/ triggered o mp = false
  end.

Definition inner_fails (r : reso) : Prop := match r_inner r with IOk _ => False | _ => True end.

Lemma exec_one_untrig fixed o r s s' : untrig o r -> exec_one fixed o r s = Ok s' -> s' = s.
Proof.
  unfold untrig, exec_one. destruct (r_price r) as [mp|]; [|intros _ H; inversion H; auto].
  intros [[P Z0] | T].
  - subst mp. rewrite P. simpl. intro H; inversion H; auto.
  - destruct (negb (o_perp o) && (mp =? 0)); [intro H; inversion H; auto|].
    rewrite T. simpl. destruct (o_perp o); intro H; inversion H; auto.
Qed.

Lemma exec_one_fixed_fails o r s s' : inner_fails r -> exec_one true o r s = Ok s' -> s' = s.
Proof.
  unfold inner_fails, exec_one. intros IF.
  destruct (r_price r) as [mp|]; [|intro H; inversion H; auto].
  destruct (negb (o_perp o) && (mp =? 0)); [intro H; inversion H; auto|].
  destruct (negb (triggered o mp)); [destruct (o_perp o); intro H; inversion H; auto|].
  destruct (send _ _ _ _ _); [|intro H; inversion H; auto].
  destruct (r_inner r); [contradiction| |]; intro H; inversion H; auto.
Qed.

Lemma exec_list_noop fixed p (Q : order -> reso -> Prop) :
  (forall o r s s', Q o r -> exec_one fixed o r s = Ok s' -> s' = s) ->
  forall l s s',
  (forall id r o, In (id, r) l -> find_ord p id (ords s) = Some o -> Q o r) ->
  exec_list fixed p l s = Ok s' -> s' = s.
Proof.
  intros HQ. induction l as [|[id r] t IH]; intros s s' H E; simpl in E.
  - inversion E; auto.
  - destruct (id =? 0); [discriminate|].
    destruct (find_ord p id (ords s)) as [o|] eqn:F; [|discriminate].
    destruct (exec_one fixed o r s) as [s1| |] eqn:E1; simpl in E; try discriminate.
    assert (s1 = s) by (eapply HQ; eauto; eapply H; eauto; left; reflexivity). subst s1.
    apply IH; auto. intros; eapply H; eauto. right; eauto.
Qed.

(* C20_untouched_unless_trigger: an execute request (any sender) none of whose listed orders has its
   trigger condition met at the market price leaves the whole state as it was, in both models. *)
Theorem untouched_unless_trigger : forall fixed s sender sids pids,
  (forall id r o, In (id, r) sids -> find_ord false id (ords s) = Some o -> untrig o r) ->
  (forall id r o, In (id, r) pids -> find_ord true id (ords s) = Some o -> untrig o r) ->
  exec_gen fixed s (OExecute sender sids pids) = s.
Proof.
  intros fixed s sender sids pids HS HP. unfold exec_gen, run_tx.
  destruct (step_gen fixed s (OExecute sender sids pids)) as [s'| |] eqn:E; auto.
  simpl in E.
  assert (exec_list fixed false sids s = Ok s -> exec_list fixed true pids s = Ok s' -> s' = s) as K.
  { intros _ E2. eapply (exec_list_noop fixed true untrig); eauto. intros; eapply exec_one_untrig; eauto. }
  destruct sids as [|a sids'], pids as [|b pids']; try discriminate;
    destruct (existsb _ _ || existsb _ _); try discriminate;
    destruct (exec_list fixed false _ s) as [s1| |] eqn:E1; simpl in E; try discriminate;
    (assert (s1 = s) by (eapply (exec_list_noop fixed false untrig); eauto; intros; eapply exec_one_untrig; eauto));
    subst s1; eapply (exec_list_noop fixed true untrig); eauto; intros; eapply exec_one_untrig; eauto.
Qed.

(* per order, inside a request that may execute OTHER orders: an order whose trigger is not met keeps
   its record and its escrow account *)

(* C20_failed_execute_unchanged (repaired model): an execute request in which no attempt succeeds
   (trigger not met, no price, or the inner swap / perpetual open fails) leaves the whole state as
   it was: order, escrow and owner funds as before. *)
Theorem failed_execute_unchanged_fixed : forall s sender sids pids,
  (forall id r o, In (id, r) sids -> find_ord false id (ords s) = Some o -> untrig o r \/ inner_fails r) ->
  (forall id r o, In (id, r) pids -> find_ord true id (ords s) = Some o -> untrig o r \/ inner_fails r) ->
  exec_gen true s (OExecute sender sids pids) = s.
Proof.
  intros s sender sids pids HS HP. unfold exec_gen, run_tx.
  destruct (step_gen true s (OExecute sender sids pids)) as [s'| |] eqn:E; auto.
  simpl in E.
  assert (forall o r s s', untrig o r \/ inner_fails r -> exec_one true o r s = Ok s' -> s' = s) as HQ.
  { intros o r s0 s0' [U|I] X; [eapply exec_one_untrig | eapply exec_one_fixed_fails]; eauto. }
  destruct sids as [|a sids'], pids as [|b pids']; try discriminate;
    destruct (existsb _ _ || existsb _ _); try discriminate;
    destruct (exec_list true false _ s) as [s1| |] eqn:E1; simpl in E; try discriminate;
    (assert (s1 = s) by (eapply (exec_list_noop true false (fun o r => untrig o r \/ inner_fails r)); eauto));
    subst s1; eapply (exec_list_noop true true (fun o r => untrig o r \/ inner_fails r)); eauto.
Qed.

(* ------------------------------------------------------------------ the code as it is: failed attempts *)
Definition w_user0 : bank := set_wallets (fun _ _ => 0) [(0, 0, 1000000000000); (0, 1, 1000000000000)].
Definition w_s1 : state :=
  run (init_state w_user0) [OCreatePerp 0 1 5000000000000000000 0 14000000000 20000000000000000000 1 1 0].
(* perpetual.Open moved the collateral into the pool and then returned an error (pool health) *)
Definition w_dirty : op :=
  OExecute 2 [] [(1, mkR (Some 5000000000000000000) (IErr [(AUser 0, AExt 0, 0, 14000000000)]))].
(* perpetual.Open returned an error before moving anything *)
Definition w_clean : op := OExecute 2 [] [(1, mkR (Some 5000000000000000000) (IErr []))].

Lemma failed_execute_refuted :
  let s' := exec_gen false w_s1 w_dirty in
  find_ord true 1 (ords w_s1) <> None /\ ords s' = ords w_s1 /\
  total w_s1 0 0 = 1000000000000 /\ total s' 0 0 = 1000000000000 - 14000000000 /\
  bk s' (APerp 1) 0 = 0 /\
  exec_gen true w_s1 w_dirty = w_s1.
Proof. vm_compute. repeat split; discriminate. Qed.

Lemma failed_execute_strands_order_refuted :
  let s' := exec_gen false w_s1 w_clean in
  ords s' = ords w_s1 /\ total s' 0 0 = total w_s1 0 0 /\
  bk w_s1 (APerp 1) 0 = 14000000000 /\ bk s' (APerp 1) 0 = 0 /\
  step s' (OCancelPerp 0 1) = Err E_funds /\
  (exists s2, step_fixed (exec_gen true w_s1 w_clean) (OCancelPerp 0 1) = Ok s2 /\ ords s2 = [] /\ bk s2 (AUser 0) 0 = 1000000000000).
Proof. vm_compute. repeat split. eexists; repeat split. Qed.

(* ------------------------------------------------------------------ send *)
Lemma send_some b from to d amt b' : send b from to d amt = Some b' ->
  0 <= amt /\
  (forall a d', (a <> from /\ a <> to) \/ d' <> d -> b' a d' = b a d') /\
  (from <> to -> b' from d = b from d - amt /\ b' to d = b to d + amt) /\
  (is_ext from = false -> amt <= b from d \/ amt = 0).
Proof.
  unfold send. destruct (Z.leb_spec amt 0) as [L|L].
  - destruct (Z.eqb_spec amt 0) as [E|E]; [|discriminate]. intro H; inversion H; subst.
    repeat split; auto; lia.
  - destruct (negb (is_ext from) && (b from d <? amt)) eqn:G; [discriminate|].
    intro H; inversion H; subst; clear H. repeat split.
    + lia.
    + intros a d' [[A1 A2] | D]; rewrite !bset_other; auto.
    + rewrite bset_other by auto. apply bset_same.
    + rewrite bset_same. rewrite bset_other by auto. reflexivity.
    + intro X. rewrite X in G. simpl in G. apply Z.ltb_ge in G. lia.
Qed.

Lemma send_exact b from to d amt : 0 <= amt -> (is_ext from = true \/ amt <= b from d) -> exists b', send b from to d amt = Some b'.
Proof.
  intros A S. unfold send. destruct (Z.leb_spec amt 0).
  - assert (amt = 0) by lia. subst. simpl. eauto.
  - destruct S as [S|S]; [rewrite S; simpl; eauto|].
    destruct (Z.ltb_spec (b from d) amt); [lia|]. rewrite andb_false_r. eauto.
Qed.

(* ------------------------------------------------------------------ cancel returns the whole escrow *)
Definition exact_escrow (b : bank) (o : order) : Prop :=
  0 <= o_amt o /\ known_denom (o_den o) = true /\
  forall d, b (esc o) d = if d =? o_den o then o_amt o else 0.

Lemma esc_not_user o u : esc o <> AUser u.
Proof. unfold esc; destruct (o_perp o); discriminate. Qed.

Lemma move_all_spec b from to d a d' : from <> to -> 0 <= b from d ->
  move_all b from to d a d' =
    if d' =? d then (if addr_eqb a from then 0 else if addr_eqb a to then b a d' + b from d else b a d') else b a d'.
Proof.
  intros NE NN. unfold move_all.
  destruct (Z.eqb_spec d' d) as [E|E].
  - subst d'. destruct (Z.leb_spec (b from d) 0) as [L|L].
    + assert (b from d = 0) as Z0 by lia.
      destruct (addr_eqb a from) eqn:E1; [apply addr_eqb_eq in E1; subst; auto|].
      destruct (addr_eqb a to) eqn:E2; lia.
    + destruct (addr_eqb a from) eqn:E1.
      * apply addr_eqb_eq in E1; subst a. rewrite bset_other by (left; auto). apply bset_same.
      * destruct (addr_eqb a to) eqn:E2.
        -- apply addr_eqb_eq in E2; subst a. rewrite bset_same. rewrite bset_other by (left; congruence). reflexivity.
        -- rewrite !bset_other; auto; left; intro; subst; rewrite addr_eqb_refl in *; discriminate.
  - destruct (Z.leb_spec (b from d) 0); auto. rewrite !bset_other; auto.
Qed.

Lemma sweep_spec b from to a d' : from <> to -> (forall d, 0 <= b from d) ->
  sweep b from to a d' =
    if known_denom d' then (if addr_eqb a from then 0 else if addr_eqb a to then b a d' + b from d' else b a d') else b a d'.
Proof.
  intros NE NN. unfold sweep, all_denoms. simpl.
  set (b1 := move_all b from to 0). set (b2 := move_all b1 from to 1).
  assert (forall a d', b1 a d' = if d' =? 0 then (if addr_eqb a from then 0 else if addr_eqb a to then b a d' + b from 0 else b a d') else b a d') as H1
    by (intros; apply move_all_spec; auto).
  assert (0 <= b1 from 1) as N1 by (rewrite H1; simpl; auto).
  assert (forall a d', b2 a d' = if d' =? 1 then (if addr_eqb a from then 0 else if addr_eqb a to then b1 a d' + b1 from 1 else b1 a d') else b1 a d') as H2
    by (intros; apply move_all_spec; auto).
  assert (0 <= b2 from 2) as N2 by (rewrite H2; simpl; rewrite H1; simpl; auto).
  rewrite move_all_spec by auto. rewrite !H2, !H1. unfold known_denom.
  destruct (Z.eqb_spec d' 0); [subst; simpl; reflexivity|].
  destruct (Z.eqb_spec d' 1); [subst; simpl; reflexivity|].
  destruct (Z.eqb_spec d' 2); [subst; simpl; reflexivity|]. reflexivity.
Qed.

(* C20_cancel_full: the owner's cancel of a pending order whose escrow account holds the escrowed amount
   succeeds, removes the order, pays the owner exactly that amount, empties the escrow account and
   touches no other account. *)
Theorem cancel_full : forall fixed s p id o,
  find_ord p id (ords s) = Some o -> id <> 0 -> exact_escrow (bk s) o ->
  exists s', step_gen fixed s (if p then OCancelPerp (o_owner o) id else OCancelSpot (o_owner o) id) = Ok s' /\
    ords s' = remove_ord p id (ords s) /\
    (forall d, bk s' (esc o) d = 0) /\
    (forall d, bk s' (AUser (o_owner o)) d = bk s (AUser (o_owner o)) d + (if d =? o_den o then o_amt o else 0)) /\
    (forall a d, a <> esc o -> a <> AUser (o_owner o) -> bk s' a d = bk s a d).
Proof.
  intros fixed s p id o F N (A & K & X).
  destruct (find_ord_some _ _ _ _ F) as (I & P & ID).
  assert (esc o <> AUser (o_owner o)) as NE by apply esc_not_user.
  assert (step_gen fixed s (if p then OCancelPerp (o_owner o) id else OCancelSpot (o_owner o) id) = cancel_one (o_owner o) p id s) as ST
    by (destruct p; reflexivity).
  rewrite ST. unfold cancel_one. destruct (Z.eqb_spec id 0); [contradiction|]. rewrite F. rewrite Z.eqb_refl. simpl.
  destruct p.
  - destruct (send_exact (bk s) (esc o) (AUser (o_owner o)) (o_den o) (o_amt o) A) as [b' S].
    { right. rewrite X. rewrite Z.eqb_refl. lia. }
    rewrite S. eexists; split; [reflexivity|]. simpl.
    destruct (send_some _ _ _ _ _ _ S) as (_ & Fr & Mv & _). destruct (Mv NE) as [M1 M2].
    repeat split.
    + intro d. destruct (Z.eqb_spec d (o_den o)); [subst; rewrite M1, X, Z.eqb_refl; lia|].
      rewrite Fr by auto. rewrite X. destruct (Z.eqb_spec d (o_den o)); [contradiction|reflexivity].
    + intro d. destruct (Z.eqb_spec d (o_den o)); [subst; rewrite M2; reflexivity|]. rewrite Fr by auto. lia.
    + intros a d H1 H2. apply Fr. left; auto.
  - eexists; split; [reflexivity|]. simpl.
    assert (forall d, 0 <= bk s (esc o) d) as NN. { intro d. rewrite X. destruct (d =? o_den o); lia. }
    repeat split.
    + intro d. rewrite sweep_spec by auto. rewrite addr_eqb_refl. destruct (known_denom d) eqn:KD; auto.
      rewrite X. destruct (Z.eqb_spec d (o_den o)); auto. subst. congruence.
    + intro d. rewrite sweep_spec by auto. rewrite (addr_eqb_neq _ _ (not_eq_sym NE)), addr_eqb_refl.
      rewrite X. destruct (Z.eqb_spec d (o_den o)); [subst; rewrite K; reflexivity|]. destruct (known_denom d); lia.
    + intros a d H1 H2. rewrite sweep_spec by auto. rewrite (addr_eqb_neq _ _ H1), (addr_eqb_neq _ _ H2).
      destruct (known_denom d); reflexivity.
Qed.

(* ------------------------------------------------------------------ conservation of wallet + escrows, per step *)
Definition okey (o : order) : bool * Z := (o_perp o, o_id o).

Record WF (s : state) : Prop := mkWF {
  wf_nodup : NoDup (map okey (ords s));
  wf_ids : forall o, In o (ords s) -> o_id o < (if o_perp o then npid s else nsid s);
  wf_fresh : forall d id, (nsid s <= id -> bk s (ASpot id) d = 0) /\ (npid s <= id -> bk s (APerp id) d = 0)
}.

Lemma esc_inj o o' : esc o = esc o' -> okey o = okey o'.
Proof. unfold esc, okey. destruct (o_perp o), (o_perp o'); intro H; inversion H; auto. Qed.

Lemma esc_sum_ext b b' l u d :
  (forall o, In o l -> o_owner o = u -> b' (esc o) d = b (esc o) d) -> esc_sum b' l u d = esc_sum b l u d.
Proof.
  induction l as [|x l IH]; intro H; simpl; auto.
  rewrite IH by (intros; apply H; auto; right; auto).
  destruct (Z.eqb_spec (o_owner x) u); auto. rewrite H; auto. left; auto.
Qed.

Lemma esc_sum_app b l1 l2 u d : esc_sum b (l1 ++ l2) u d = esc_sum b l1 u d + esc_sum b l2 u d.
Proof. induction l1; simpl; auto. rewrite IHl1. lia. Qed.

Lemma esc_sum_replace b n l u d :
  (forall x, In x l -> okey x = okey n -> o_owner x = o_owner n) ->
  esc_sum b (replace_ord n l) u d = esc_sum b l u d.
Proof.
  induction l as [|x l IH]; intro H; simpl; auto.
  rewrite IH by (intros; apply H; auto; right; auto).
  destruct (key_eqb (o_perp n) (o_id n) x) eqn:K; auto.
  apply key_eqb_true in K. destruct K as [K1 K2].
  assert (o_owner x = o_owner n) as E by (apply H; [left; auto | unfold okey; congruence]).
  assert (esc x = esc n) as E2 by (unfold esc; rewrite K1, K2; reflexivity).
  rewrite E, E2. reflexivity.
Qed.

(* wallet + escrow accounts of the pending orders of EVERY user, through create / update / cancel *)
Theorem conserved_partial : forall fixed s o, WF s ->
  match o with
  | OCreateSpot _ typ _ _ _ _ _ _ => typ <> 3
  | OCreatePerp _ _ _ _ _ _ _ _ _ | OUpdateSpot _ _ _ _ _ | OUpdatePerp _ _ _ _ _ _ => True
  | _ => False
  end ->
  forall u d, total (exec_gen fixed s o) u d = total s u d.
Proof.
  intros fixed s o W H u d. unfold exec_gen, run_tx.
  destruct (step_gen fixed s o) as [s'| |] eqn:E; auto.
  destruct W as [ND IDS FR].
  assert (forall owner n b, (forall x, In x (ords s) -> okey x <> okey n) ->
            send (bk s) (AUser owner) (esc n) (o_den n) (o_amt n) = Some b -> o_owner n = owner ->
            (forall d, bk s (esc n) d = 0) ->
            b (AUser u) d + esc_sum b (ords s ++ [n]) u d = total s u d) as CREATE.
  { intros owner n b FRESH S OW Z0. unfold total.
    destruct (send_some _ _ _ _ _ _ S) as (_ & Fr & Mv & _).
    assert (AUser owner <> esc n) as NE by (intro X; symmetry in X; revert X; apply esc_not_user).
    destruct (Mv NE) as [M1 M2].
    rewrite esc_sum_app. simpl.
    rewrite (esc_sum_ext (bk s) b).
    2:{ intros x I _. apply Fr. left. split; [intro X; revert X; apply esc_not_user|].
        intro X. apply esc_inj in X. apply (FRESH x I X). }
    rewrite OW.
    destruct (Z.eqb_spec owner u) as [EU|EU].
    - subst u. destruct (Z.eqb_spec d (o_den n)) as [ED|ED].
      + subst d. rewrite M1, M2, Z0. lia.
      + rewrite !Fr by (right; auto). rewrite Z0. lia.
    - rewrite Fr by (left; split; [congruence | intro X; symmetry in X; revert X; apply esc_not_user]). lia. }
  destruct o; try contradiction; simpl in E.
  - (* create spot *)
    destruct (_ || _ || _ || _ || _); [discriminate|].
    destruct (Z.eqb_spec typ 3); [contradiction|].
    destruct (send _ _ _ _ _) as [b|] eqn:S; [|discriminate]. inversion E; subst s'; clear E. unfold total at 1; simpl.
    eapply (CREATE owner (mkO false (nsid s) owner typ base quote rate den amt 0 0 0)); eauto.
    + intros x I X. unfold okey in X; simpl in X. inversion X as [[P I2]]. specialize (IDS x I). rewrite P in IDS. lia.
    + intro d0. simpl. apply (FR d0 (nsid s)). lia.
  - (* update spot *)
    destruct (_ || _); [discriminate|]. destruct (find_ord false id (ords s)) as [x|] eqn:F; [|discriminate].
    destruct (negb _); [discriminate|]. inversion E; subst s'; clear E. unfold total; simpl.
    rewrite esc_sum_replace; auto. intros y I K. simpl.
    destruct (find_ord_some _ _ _ _ F) as (Ix & Px & IDx).
    assert (okey y = okey x) as KK by (rewrite K; unfold okey; simpl; congruence).
    clear - ND I Ix KK. f_equal.
    induction (ords s) as [|z l IH]; [destruct I|]. simpl in ND; inversion ND as [|? ? NI ND']; subst.
    destruct I as [I|I], Ix as [Ix|Ix]; subst; auto.
    + exfalso; apply NI. rewrite KK. apply in_map; auto.
    + exfalso; apply NI. rewrite <- KK. apply in_map; auto.
  - (* create perp *)
    destruct (_ || _ || _ || _ || _ || _); [discriminate|].
    destruct (env =? 1); [discriminate|]. destruct (existsb _ _); [discriminate|]. destruct (negb (env =? 0)); [discriminate|].
    destruct (send _ _ _ _ _) as [b|] eqn:S; [|discriminate]. inversion E; subst s'; clear E. unfold total at 1; simpl.
    eapply (CREATE owner (mkO true (npid s) owner pos 0 0 trig den amt tp pool asset)); eauto.
    + intros x I X. unfold okey in X; simpl in X. inversion X as [[P I2]]. specialize (IDS x I). rewrite P in IDS. lia.
    + intro d0. simpl. apply (FR d0 (npid s)). lia.
  - (* update perp *)
    destruct (_ || _); [discriminate|]. destruct (find_ord true id (ords s)) as [x|] eqn:F; [|discriminate].
    destruct (negb _); [discriminate|]. destruct (trig =? 0); [discriminate|].
    destruct (_ && _); [discriminate|]. destruct (_ && _); [discriminate|].
    inversion E; subst s'; clear E. unfold total; simpl.
    rewrite esc_sum_replace; auto. intros y I K. simpl.
    destruct (find_ord_some _ _ _ _ F) as (Ix & Px & IDx).
    assert (okey y = okey x) as KK by (rewrite K; unfold okey; simpl; congruence).
    clear - ND I Ix KK. f_equal.
    induction (ords s) as [|z l IH]; [destruct I|]. simpl in ND; inversion ND as [|? ? NI ND']; subst.
    destruct I as [I|I], Ix as [Ix|Ix]; subst; auto.
    + exfalso; apply NI. rewrite KK. apply in_map; auto.
    + exfalso; apply NI. rewrite <- KK. apply in_map; auto.
Qed.
