(* C05, single-asset join of a weighted pool, WITHOUT the hypothesis on Pow: calcPoolSharesOutGivenSingleAssetIn calls
   Pow(y, wn) with y = (B + a_after_fee)/B >= 1 and wn = w/total_weight in [0,1]. With the exact model of Pow
   (Models/AmmSwap.v [pow], validated against the Go code by the C03 harness) and the range facts of
   Proofs/PowSeries.v, 1 <= Pow(y, wn) <= y is PROVED when
     - wn = 1 (single-asset pool), wn = 1/2 (two equal weights: ApproxSqrt), wn = 0, or
     - y < 2 (the deposit after fee is smaller than the reserve; any weights: Maclaurin series).
   Not covered: y >= 2 with wn other than 0, 1/2, 1 (the ln/exp method). *)
From Coq Require Import ZArith List Bool Lia.
From Elys Require Import Base.Res Base.Zdec Models.AmmSwap Models.AmmJoinExit.
From Elys Require Proofs.AmmJoinExitProofs.
From Elys Require Import Proofs.AmmSwapProofs Proofs.AmmSwapProofs2 Proofs.PowBounds Proofs.PowSeries.
Import ListNotations.
Open Scope Z_scope.

Lemma single_join_wn_range w tw : 0 <= w <= tw -> 0 < tw -> 0 <= single_join_wn w tw <= PREC.
Proof.
  intros Hw Htw. pose proof PREC_pos. unfold single_join_wn, dec_of_int. apply dquo_le_one; nia.
Qed.

Lemma single_join_wn_one w : 0 < w -> single_join_wn w w = PREC.
Proof. intros Hw. pose proof PREC_pos. unfold single_join_wn, dec_of_int. apply dquo_self. nia. Qed.

Lemma single_join_wn_half w : 0 < w -> single_join_wn w (2 * w) = HALF.
Proof.
  intros Hw. pose proof PREC_pos as HP. unfold single_join_wn, dec_of_int, dquo.
  replace (w * PREC * PREC * PREC) with (HALF * PREC * (2 * w * PREC)) by (rewrite <- HALF_PREC; ring).
  rewrite Z.quot_mul by nia. apply chop_round_mult.
Qed.

Lemma single_join_y_ge_one B w tw a fee :
  0 < B -> 0 <= a -> 0 <= fee <= PREC -> 0 <= w <= tw -> 0 < tw -> PREC <= single_join_y B w tw a fee.
Proof.
  intros HB Ha Hfee Hw Htw. pose proof PREC_pos as HP.
  destruct (single_join_wn_range w tw Hw Htw) as [W0 W1].
  unfold single_join_y. cbv zeta. set (wn := single_join_wn w tw) in *. unfold dec_of_int.
  destruct (dmul_le_l (PREC - wn) fee ltac:(lia) Hfee) as [F0 F1].
  assert (A0 : 0 <= dmul (a * PREC) (PREC - dmul (PREC - wn) fee)) by (apply dmul_nonneg; nia).
  apply dquo_ge_one. nia.
Qed.

Lemma single_join_pow_range B w tw a fee pw :
  0 < B -> 0 <= a -> 0 <= fee <= PREC -> 0 <= w <= tw -> 0 < tw ->
  pow (single_join_y B w tw a fee) (single_join_wn w tw) = Ok pw ->
  (w = tw \/ tw = 2 * w \/ w = 0 \/ single_join_y B w tw a fee < TWO) ->
  PREC <= pw <= single_join_y B w tw a fee.
Proof.
  intros HB Ha Hfee Hw Htw Hpow Hc.
  pose proof (single_join_y_ge_one B w tw a fee HB Ha Hfee Hw Htw) as Hy.
  pose proof (single_join_wn_range w tw Hw Htw) as Hwn.
  apply (pow_le_base _ (single_join_wn w tw) pw Hy Hwn); [|exact Hpow].
  destruct Hc as [->|[->|[->|Hlt]]].
  - right. right. right. apply single_join_wn_one. lia.
  - right. right. left. apply single_join_wn_half. lia.
  - right. left. unfold single_join_wn, dec_of_int, dquo. simpl. reflexivity.
  - left. exact Hlt.
Qed.

Lemma single_join_le_deposit_pow B w tw a fee S pw :
  0 < B -> 0 <= a -> 0 <= S -> 0 <= fee <= PREC -> 0 <= w <= tw -> 0 < tw ->
  pow (single_join_y B w tw a fee) (single_join_wn w tw) = Ok pw ->
  (w = tw \/ tw = 2 * w \/ w = 0 \/ single_join_y B w tw a fee < TWO) ->
  PREC <= pw <= single_join_y B w tw a fee /\
  0 <= single_join_shares S pw /\
  single_join_shares S pw * B * PREC <= S * (a * PREC + B).
Proof.
  intros HB Ha HS Hfee Hw Htw Hpow Hc.
  pose proof (single_join_pow_range B w tw a fee pw HB Ha Hfee Hw Htw Hpow Hc) as R.
  split; [exact R|].
  exact (AmmJoinExitProofs.single_join_le_deposit B w tw a fee S pw HB Ha HS Hfee Hw Htw R).
Qed.

(* non-vacuity: a 1:1 pool (wn = 1/2, square root), a 1:3 pool joined with the weight-1 asset (wn = 1/4, series)
   and a single-asset "pool" (wn = 1); reserve 30e9, 1e9 in at 0.3% *)
Lemma single_join_nonvacuous :
  exists pw1 pw2 pw3,
    pow (single_join_y 30000000000 1 2 1000000000 3000000000000000) (single_join_wn 1 2) = Ok pw1 /\
    pow (single_join_y 30000000000 1 4 1000000000 3000000000000000) (single_join_wn 1 4) = Ok pw2 /\
    pow (single_join_y 30000000000 1 1 1000000000 3000000000000000) (single_join_wn 1 1) = Ok pw3 /\
    0 < single_join_shares 60000000000000000000000 pw1 /\
    0 < single_join_shares 60000000000000000000000 pw2 /\
    single_join_y 30000000000 1 4 1000000000 3000000000000000 < TWO.
Proof.
  eexists. eexists. eexists.
  split; [vm_compute; reflexivity|]. split; [vm_compute; reflexivity|]. split; [vm_compute; reflexivity|].
  split; [vm_compute; reflexivity|]. split; vm_compute; reflexivity.
Qed.
