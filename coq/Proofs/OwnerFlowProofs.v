(* C17, owner-scoped part - proofs over Models/OwnerFlow.v and the REGENERATED table Generated/OwnerFlow.v.
   (1) decidable obligations on the table by vm_compute (they stop checking when a handler loses its owner
       comparison, feeds an inner handler's signer field from anything but the outer signer, turns a
       signer-keyed lookup into an id lookup, or when a new handler cannot be classified);
   (2) semantic theorems over ALL messages, stores and choice lists, by mutual induction on the skeleton. *)
From Coq Require Import String List Bool Arith Lia.
From Elys Require Import Models.OwnerFlow Generated.OwnerFlow.
Import ListNotations.
Open Scope string_scope.

Definition res_env (x : result) : benv := match x with (_, r, _, _) => r end.
Definition res_chs (x : result) : list ch := match x with (_, _, _, c) => c end.

(* ---------------------------------------------------------------- small facts *)

Lemma In_sremove : forall x n u, In x (sremove n u) <-> In x u /\ x <> n.
Proof.
  intros x n u. unfold sremove. rewrite filter_In. split; intros [H1 H2]; split; try assumption.
  - intros E. subst x. rewrite String.eqb_refl in H2. discriminate.
  - destruct (String.eqb x n) eqn:E; [apply String.eqb_eq in E; contradiction|reflexivity].
Qed.

Lemma is_nil_true : forall A (l : list A), is_nil l = true -> l = [].
Proof. intros A [|x l]; cbn; intros H; [reflexivity|discriminate]. Qed.

Lemma upd_other : forall A (f : nat -> A) i v j, j <> i -> upd f i v j = f j.
Proof. intros A f i v j H. unfold upd. destruct (Nat.eqb j i) eqn:E; [apply Nat.eqb_eq in E; contradiction|reflexivity]. Qed.

(* ---------------------------------------------------------------- objects of other owners are never changed *)

Section Unchanged.
  Variable st0 : ostore.      (* the store the handler started with *)
  Variable a : string.        (* the signer *)

  Definition protected (i : nat) : Prop := exists o, st0 i = Some o /\ o_owner o <> a.

  Definition keeps (st : ostore) : Prop := forall i, protected i -> st i = st0 i.
  Definition checked (r : benv) (u : list string) : Prop :=
    forall n i, r n = Some i -> ~ In n u -> ~ protected i.

  Definition good (u' : list string) (x : result) : Prop :=
    keeps (res_store x) /\ (res_outcome x = Go -> checked (res_env x) u').

  Lemma owned_not_protected : forall st i o, keeps st -> st i = Some o -> owner_eqb o a = true -> ~ protected i.
  Proof.
    intros st i o Hk Hs He [o0 [H0 Hne]]. rewrite (Hk i) in Hs by (exists o0; split; assumption).
    rewrite H0 in Hs. inversion Hs; subst o0. unfold owner_eqb in He. apply String.eqb_eq in He. contradiction.
  Qed.

  Lemma absent_not_protected : forall st i, keeps st -> st i = None -> ~ protected i.
  Proof.
    intros st i Hk Hs [o0 [H0 Hne]]. rewrite (Hk i) in Hs by (exists o0; split; assumption). congruence.
  Qed.

  Lemma checked_bind_checked : forall r u n i, checked r u -> ~ protected i -> checked (bind r n (Some i)) (sremove n u).
  Proof.
    intros r u n i Hc Hp m j Hb Hnin. unfold bind in Hb. destruct (String.eqb m n) eqn:E.
    - inversion Hb; subst j. exact Hp.
    - apply (Hc m j Hb). intros Hin. apply Hnin. apply In_sremove. split; [exact Hin|].
      intros Eq. subst m. rewrite String.eqb_refl in E. discriminate.
  Qed.

  Lemma checked_bind_none : forall r u n v, checked r u -> checked (bind r n None) (match v with true => n :: sremove n u | false => sremove n u end).
  Proof.
    intros r u n v Hc m j Hb Hnin. unfold bind in Hb. destruct (String.eqb m n) eqn:E; [discriminate|].
    apply (Hc m j Hb). intros Hin. apply Hnin.
    assert (In m (sremove n u)) as Hs.
    { apply In_sremove. split; [exact Hin|]. intros Eq. subst m. rewrite String.eqb_refl in E. discriminate. }
    destruct v; [right; exact Hs|exact Hs].
  Qed.

  Lemma checked_bind_unchecked : forall r u n i, checked r u -> checked (bind r n (Some i)) (n :: sremove n u).
  Proof.
    intros r u n i Hc m j Hb Hnin. unfold bind in Hb. destruct (String.eqb m n) eqn:E.
    - apply String.eqb_eq in E. subst m. exfalso. apply Hnin. left. reflexivity.
    - apply (Hc m j Hb). intros Hin. apply Hnin. right. apply In_sremove. split; [exact Hin|].
      intros Eq. subst m. rewrite String.eqb_refl in E. discriminate.
  Qed.

  Lemma checked_remove : forall r u n, checked r u -> (forall i, r n = Some i -> ~ protected i) -> checked r (sremove n u).
  Proof.
    intros r u n Hc Hn m j Hb Hnin. destruct (String.eqb m n) eqn:E.
    - apply String.eqb_eq in E. subst m. apply Hn. exact Hb.
    - apply (Hc m j Hb). intros Hin. apply Hnin. apply In_sremove. split; [exact Hin|].
      intros Eq. subst m. rewrite String.eqb_refl in E. discriminate.
  Qed.

  Definition Pstep (s : ostep) : Prop :=
    forall signer (msg : message) r st chs u u', msg signer = a ->
      scan_step signer s u = Some u' -> keeps st -> checked r u ->
      good u' (run_step s signer msg r st chs).
  Definition Pbody (b : obody) : Prop :=
    forall signer (msg : message) r st chs u u', msg signer = a ->
      scan_body signer b u = Some u' -> keeps st -> checked r u ->
      good u' (run_body b signer msg r st chs).

  Lemma unchanged_mut : (forall s, Pstep s) /\ (forall b, Pbody b).
  Proof.
    assert (Hm : forall s, Pstep s).
    2: { split; [exact Hm|]. intros b. revert b.
         apply (obody_mut Pstep Pbody); try (intros; apply Hm); unfold Pbody.
         - intros signer msg r st chs u u' Ha Hs Hk Hc. cbn in Hs. inversion Hs; subst u'. cbn. split; [exact Hk|intros _; exact Hc].
         - intros s Hs0 rest IH signer msg r st chs u u' Ha Hs Hk Hc. cbn in Hs.
           destruct (scan_step signer s u) as [u1|] eqn:E1; [|discriminate].
           pose proof (Hs0 signer msg r st chs u u1 Ha E1 Hk Hc) as [G1 G2].
           cbn. destruct (run_step s signer msg r st chs) as [[[o r'] st'] chs'] eqn:E2. cbn in G1, G2.
           destruct o as [|c].
           + apply (IH signer msg r' st' chs' u1 u' Ha Hs G1 (G2 eq_refl)).
           + split; [exact G1|cbn; discriminate]. }
    apply (ostep_mut Pstep Pbody); unfold Pstep, Pbody.
    - (* ORead *) intros w signer msg r st chs u u' Ha Hs Hk Hc. cbn in Hs. inversion Hs; subst u'. cbn. split; [exact Hk|intros _; exact Hc].
    - (* OCheck *) intros signer msg r st chs u u' Ha Hs Hk Hc. cbn in Hs. inversion Hs; subst u'.
      cbn. destruct chs as [|[ | c | i | | n o | i o | n] chs']; cbn; split; try exact Hk; try (intros _; exact Hc); discriminate.
    - (* OSelect *) intros k n w signer msg r st chs u u' Ha Hs Hk Hc.
      assert (Hfail : forall c chs', good u' (Fail c, r, st, chs')) by (intros; split; [exact Hk|cbn; discriminate]).
      cbn. destruct chs as [|[ | c | i | | n0 o | i o | n0] chs']; try apply Hfail.
      + (* CPick *) destruct (st i) as [o|] eqn:Ei; [|apply Hfail].
        destruct k; cbn in Hs; inversion Hs; subst u'.
        * destruct (owner_eqb o (msg signer)) eqn:Eo; [|apply Hfail].
          split; [exact Hk|]. intros _. cbn. apply checked_bind_checked; [exact Hc|].
          rewrite Ha in Eo. apply (owned_not_protected st i o Hk Ei Eo).
        * split; [exact Hk|]. intros _. cbn. apply checked_bind_unchecked. exact Hc.
      + (* CSkip *) split; [exact Hk|]. intros _. cbn.
        destruct k; cbn in Hs; inversion Hs; subst u'.
        * apply (checked_bind_none r u n false Hc).
        * apply (checked_bind_none r u n true Hc).
    - (* OCompare *) intros n f signer msg r st chs u u' Ha Hs Hk Hc. cbn in Hs. cbn.
      destruct (String.eqb f signer) eqn:Ef; inversion Hs; subst u'.
      + apply String.eqb_eq in Ef. subst f.
        destruct (r n) as [i|] eqn:Er.
        * destruct (st i) as [o|] eqn:Ei.
          -- destruct (owner_eqb o (msg signer)) eqn:Eo.
             ++ split; [exact Hk|]. intros _. cbn. apply checked_remove; [exact Hc|].
                intros j Hj. rewrite Er in Hj. inversion Hj; subst j. rewrite Ha in Eo. apply (owned_not_protected st i o Hk Ei Eo).
             ++ split; [exact Hk|cbn; discriminate].
          -- split; [exact Hk|]. intros _. cbn. apply checked_remove; [exact Hc|].
             intros j Hj. rewrite Er in Hj. inversion Hj; subst j. apply (absent_not_protected st i Hk Ei).
        * split; [exact Hk|]. intros _. cbn. apply checked_remove; [exact Hc|]. intros j Hj. rewrite Er in Hj. discriminate.
      + destruct (r n) as [i|]; [destruct (st i) as [o|]; [destruct (owner_eqb o (msg f))|]|];
          (split; [exact Hk|]); cbn; try discriminate; intros _; exact Hc.
    - (* OWrite *) intros w what signer msg r st chs u u' Ha Hs Hk Hc.
      assert (Hu : u = [] /\ u' = []).
      { cbn in Hs. destruct w; try discriminate; destruct (is_nil u) eqn:En; try discriminate;
          apply is_nil_true in En; subst u; inversion Hs; split; reflexivity. }
      destruct Hu as [Hu Hu']. subst u u'.
      assert (Hsame : forall o chs', good [] (o, r, st, chs')).
      { intros o chs'. split; [exact Hk|intros _; exact Hc]. }
      cbn. destruct chs as [|[ | c | i | | n o | i o | n] chs']; try apply Hsame.
      + (* CPut *) destruct (r n) as [i|] eqn:Er; [|apply Hsame].
        split; [|intros _; exact Hc]. cbn. intros j Hj.
        assert (j <> i) as Hne. { intros E. subst j. apply (Hc n i Er); [intros []|exact Hj]. }
        rewrite upd_other by exact Hne. apply Hk. exact Hj.
      + (* CNew *) destruct (st i) as [o0|] eqn:Ei; [apply Hsame|].
        split; [|intros _; exact Hc]. cbn. intros j Hj.
        assert (j <> i) as Hne. { intros E. subst j. apply (absent_not_protected st i Hk Ei). exact Hj. }
        rewrite upd_other by exact Hne. apply Hk. exact Hj.
    - (* OLoop *) intros cached b IH signer msg r st chs u u' Ha Hs Hk Hc.
      cbn in Hs. destruct (is_nil u) eqn:En; [|discriminate]. apply is_nil_true in En. subst u.
      destruct (scan_body signer b []) as [[|x l]|] eqn:Eb; try discriminate. inversion Hs; subst u'.
      assert (Hsame : forall chs', good [] (Go, r, st, chs')).
      { intros chs'. split; [exact Hk|intros _; exact Hc]. }
      cbn. destruct chs as [|[ | c | i | | n o | i o | n] chs']; try apply Hsame.
      clear Hsame. revert r st chs' Hk Hc. induction n as [|n IHn]; intros r st chs' Hk Hc.
      + split; [exact Hk|intros _; exact Hc].
      + pose proof (IH signer msg r st chs' [] [] Ha Eb Hk Hc) as [G1 G2].
        destruct (run_body b signer msg r st chs') as [[[o r'] st'] chs''] eqn:E2. cbn in G1, G2.
        destruct o as [|c].
        * apply IHn; [exact G1|exact (G2 eq_refl)].
        * destruct cached.
          -- apply IHn; [exact Hk|exact Hc].
          -- split; [exact G1|cbn; discriminate].
    - (* OInner *) intros hn isg from b IH signer msg r st chs u u' Ha Hs Hk Hc.
      cbn in Hs. destruct from; try discriminate. cbn. apply (IH signer msg r st chs u u' Ha Hs Hk Hc).
    - (* ONil *) intros signer msg r st chs u u' Ha Hs Hk Hc. cbn in Hs. inversion Hs; subst u'. cbn. split; [exact Hk|intros _; exact Hc].
    - (* OCons *) intros s Hs0 rest IH signer msg r st chs u u' Ha Hs Hk Hc. cbn in Hs.
      destruct (scan_step signer s u) as [u1|] eqn:E1; [|discriminate].
      pose proof (Hs0 signer msg r st chs u u1 Ha E1 Hk Hc) as [G1 G2].
      cbn. destruct (run_step s signer msg r st chs) as [[[o r'] st'] chs'] eqn:E2. cbn in G1, G2.
      destruct o as [|c].
      + apply (IH signer msg r' st' chs' u1 u' Ha Hs G1 (G2 eq_refl)).
      + split; [exact G1|cbn; discriminate].
  Qed.
End Unchanged.

Lemma safe_unchanged : forall h, flow_safe h = true ->
  forall (msg : message) (st : ostore) (chs : list ch) (i : nat) (o : obj),
    st i = Some o -> o_owner o <> msg (of_signer h) ->
    res_store (run_flow h msg st chs) i = Some o.
Proof.
  intros h Hs msg st chs i o Hi Hne. unfold flow_safe in Hs. apply andb_true_iff in Hs. destruct Hs as [_ Hs].
  destruct (scan_body (of_signer h) (of_body h) []) as [u'|] eqn:E; [|discriminate].
  destruct (unchanged_mut st (msg (of_signer h))) as [_ Hb].
  assert (keeps st (msg (of_signer h)) st) as Hk by (intros j _; reflexivity).
  assert (checked st (msg (of_signer h)) (fun _ => None) []) as Hc by (intros n j Hn; discriminate).
  destruct (Hb (of_body h) (of_signer h) msg (fun _ => None) st chs [] u' eq_refl E Hk Hc) as [G _].
  unfold run_flow. rewrite (G i); [exact Hi|]. exists o. split; assumption.
Qed.

(* ---------------------------------------------------------------- "compared before anything else": nothing at all is written *)

Lemma pf_tail : forall a st c chs, picks_foreign a st (c :: chs) = true -> picks_foreign a st chs = true.
Proof.
  intros a st c chs H. destruct c; cbn in H; try exact H; try discriminate.
  apply andb_true_iff in H. destruct H as [_ H]. exact H.
Qed.

Definition quiet (a : string) (st : ostore) (x : result) : Prop :=
  res_store x = st /\ picks_foreign a st (res_chs x) = true.

Lemma await_fails : forall signer (msg : message) n b, await_compare signer n b = true ->
  forall r st chs i o, r n = Some i -> st i = Some o -> owner_eqb o (msg signer) = false ->
    picks_foreign (msg signer) st chs = true ->
    quiet (msg signer) st (run_body b signer msg r st chs) /\ res_outcome (run_body b signer msg r st chs) <> Go.
Proof.
  intros signer msg n b. induction b as [|s rest IH]; intros Ha r st chs i o Hr Hs Ho Hp; [discriminate|].
  destruct s; cbn in Ha; try discriminate.
  - (* ORead *) cbn. apply (IH Ha r st chs i o Hr Hs Ho Hp).
  - (* OCheck *) cbn. destruct chs as [|c chs'].
    + cbn. apply (IH Ha r st [] i o Hr Hs Ho Hp).
    + pose proof (pf_tail _ _ _ _ Hp) as Hp'.
      destruct c; cbn; try apply (IH Ha r st chs' i o Hr Hs Ho Hp').
      split; [split; [reflexivity|exact Hp']|discriminate].
  - (* OCompare *) apply andb_true_iff in Ha. destruct Ha as [E1 E2].
    apply String.eqb_eq in E1. apply String.eqb_eq in E2. subst name field.
    cbn. rewrite Hr, Hs, Ho. cbn. split; [split; [reflexivity|exact Hp]|discriminate].
Qed.

Section Strict.
  Variable signer : string.
  Variable msg : message.

  Definition Sstep (s : ostep) : Prop :=
    strict_step signer s = true -> forall r st chs, picks_foreign (msg signer) st chs = true ->
      quiet (msg signer) st (run_step s signer msg r st chs) /\
      (res_outcome (run_step s signer msg r st chs) = Go -> res_env (run_step s signer msg r st chs) = r).
  Definition Sbody (b : obody) : Prop :=
    strict_body signer b = true -> forall r st chs, picks_foreign (msg signer) st chs = true ->
      quiet (msg signer) st (run_body b signer msg r st chs) /\
      (res_outcome (run_body b signer msg r st chs) = Go -> res_env (run_body b signer msg r st chs) = r).

  Lemma strict_cons : forall s rest, (strict_step signer s = true -> Sstep s) -> Sbody rest -> Sbody (OCons s rest).
  Proof.
    intros s rest Hs IH Hstr r st chs Hp.
    assert (Hgen : strict_step signer s = true -> strict_body signer rest = true ->
                   quiet (msg signer) st (run_body (OCons s rest) signer msg r st chs) /\
                   (res_outcome (run_body (OCons s rest) signer msg r st chs) = Go -> res_env (run_body (OCons s rest) signer msg r st chs) = r)).
    { intros H1 H2. destruct (Hs H1 H1 r st chs Hp) as [[Q1 Q2] Q3].
      cbn. destruct (run_step s signer msg r st chs) as [[[o r'] st'] chs'] eqn:E. cbn in Q1, Q2, Q3.
      subst st'. destruct o as [|c].
      - rewrite (Q3 eq_refl). apply (IH H2 r st chs' Q2).
      - cbn. split; [split; [reflexivity|exact Q2]|discriminate]. }
    destruct s as [w| |k name what|n f|w what|cached b|hn isg from b].
    1, 2: (apply Hgen; [reflexivity|exact Hstr]).
    2, 3: (cbn in Hstr; discriminate).
    2, 3: (change (strict_step signer (OLoop cached b) && strict_body signer rest = true) in Hstr ||
           change (strict_step signer (OInner hn isg from b) && strict_body signer rest = true) in Hstr;
           apply andb_true_iff in Hstr; destruct Hstr as [H1 H2]; apply Hgen; assumption).
    (* OSelect *)
    destruct k; [cbn in Hstr; discriminate|]. cbn in Hstr.
    cbn. destruct chs as [|c chs'].
    - cbn. split; [split; [reflexivity|reflexivity]|discriminate].
    - pose proof (pf_tail _ _ _ _ Hp) as Hp'.
      destruct c; cbn; try (split; [split; [reflexivity|exact Hp']|discriminate]).
      + (* CPick *) cbn in Hp. apply andb_true_iff in Hp. destruct Hp as [Hf _].
        destruct (st i) as [o|] eqn:Ei; [|discriminate].
        apply negb_true_iff in Hf.
        destruct (await_fails signer msg name rest Hstr (bind r name (Some i)) st chs' i o) as [[Q1 Q2] Q3]; try assumption.
        { unfold bind. rewrite String.eqb_refl. reflexivity. }
        split; [split; assumption|intros Hgo; contradiction].
      + (* CSkip *) cbn in Hp. discriminate.
  Qed.

  Lemma strict_mut : (forall s, Sstep s) /\ (forall b, Sbody b).
  Proof.
    assert (Hm : forall s, Sstep s).
    2: { split; [exact Hm|]. intros b. induction b as [|s rest IH].
         - intros _ r st chs Hp. cbn. split; [split; [reflexivity|exact Hp]|reflexivity].
         - apply strict_cons; [intros _; apply Hm|exact IH]. }
    apply (ostep_mut Sstep Sbody); unfold Sstep.
    - (* ORead *) intros w _ r st chs Hp. cbn. split; [split; [reflexivity|exact Hp]|reflexivity].
    - (* OCheck *) intros _ r st chs Hp. cbn. destruct chs as [|c chs'].
      + cbn. split; [split; reflexivity|reflexivity].
      + pose proof (pf_tail _ _ _ _ Hp) as Hp'. destruct c; cbn; (split; [split; [reflexivity|exact Hp']|]); try reflexivity; discriminate.
    - intros k n w H. cbn in H. discriminate.
    - intros n f H. cbn in H. discriminate.
    - intros w what H. cbn in H. discriminate.
    - (* OLoop *) intros cached b IH Hstr r st chs Hp. cbn in Hstr. cbn.
      destruct chs as [|c chs'].
      + cbn. split; [split; reflexivity|reflexivity].
      + pose proof (pf_tail _ _ _ _ Hp) as Hp'.
        destruct c; cbn; try (split; [split; [reflexivity|exact Hp']|reflexivity]).
        clear Hp. revert r chs' Hp'. induction n as [|n IHn]; intros r chs' Hp'.
        * cbn. split; [split; [reflexivity|exact Hp']|reflexivity].
        * destruct (IH Hstr r st chs' Hp') as [[Q1 Q2] Q3].
          destruct (run_body b signer msg r st chs') as [[[o r'] st'] chs''] eqn:E. cbn in Q1, Q2, Q3. subst st'.
          destruct o as [|c].
          -- rewrite (Q3 eq_refl). apply IHn. exact Q2.
          -- destruct cached.
             ++ apply IHn. exact Q2.
             ++ cbn. split; [split; [reflexivity|exact Q2]|discriminate].
    - (* OInner *) intros hn isg from b IH Hstr r st chs Hp. cbn in Hstr. destruct from; try discriminate. cbn. apply (IH Hstr r st chs Hp).
    - (* ONil *) intros _ r st chs Hp. cbn. split; [split; [reflexivity|exact Hp]|reflexivity].
    - (* OCons *) intros s Hs rest IH. apply strict_cons; [intros _; exact Hs|exact IH].
  Qed.
End Strict.

Lemma strict_nothing_written : forall h, strictly_compared h = true ->
  forall (msg : message) (st : ostore) (chs : list ch),
    picks_foreign (msg (of_signer h)) st chs = true ->
    res_store (run_flow h msg st chs) = st.
Proof.
  intros h Hs msg st chs Hp. unfold strictly_compared in Hs.
  apply andb_true_iff in Hs. destruct Hs as [Hs _]. apply andb_true_iff in Hs. destruct Hs as [_ Hs].
  destruct (strict_mut (of_signer h) msg) as [_ Hb].
  destruct (Hb (of_body h) Hs (fun _ => None) st chs Hp) as [[Q _] _]. exact Q.
Qed.

(* ---------------------------------------------------------------- table obligations (re-decided on every run) *)

Definition onames (l : list oflow) : list string := map of_name l.

(* stated as "the list of offenders is empty" so that a failure prints the offenders *)
Lemma misclassified_none : map (fun h => (of_name h, of_reasons h)) (filter (fun h => negb (class_ok h)) oflows) = [].
Proof. vm_compute. reflexivity. Qed.

Lemma inner_missing_none :
  filter (fun n => negb (existsb (fun h => String.eqb (of_name h) n && flow_safe h &&
                                           match of_class h with CA | CB | CC | CD => true | _ => false end) oflows))
         (flat_map (fun h => match of_class h with CE | CU => [] | _ => inner_names (of_body h) end) oflows) = [].
Proof. vm_compute. reflexivity. Qed.

Lemma id_selected_not_strict_none :
  onames (filter (fun h => owner_scoped_class h && has_step is_select_id (of_body h) && negb (strictly_compared h)) oflows) = [].
Proof. vm_compute. reflexivity. Qed.

Lemma reviewed_missing_none :
  filter (fun p => negb (existsb (fun h => String.eqb (of_name h) (fst p)) oflows)) reviewed = [].
Proof. vm_compute. reflexivity. Qed.

Lemma oflows_populated :
  negb (Nat.leb (length (filter owner_scoped_class oflows)) 20) && negb (Nat.leb 6 (length reviewed)) = true.
Proof. vm_compute. reflexivity. Qed.

Lemma filter_map_nil : forall (A B : Type) (f : A -> B) (p : A -> bool) (l : list A),
  map f (filter (fun x => negb (p x)) l) = [] -> forallb p l = true.
Proof.
  intros A B f p l. induction l as [|x r IH]; cbn; intros H; [reflexivity|].
  destruct (p x); cbn in *; [apply IH; exact H|discriminate].
Qed.

Lemma all_classified : forallb class_ok oflows = true.
Proof. apply (filter_map_nil _ _ (fun h => (of_name h, of_reasons h))). exact misclassified_none. Qed.

Lemma class_ok_safe : forall h, class_ok h = true -> is_reviewed h = false ->
  match of_class h with CE => true | _ => flow_safe h end = true.
Proof.
  intros h Hc Hr. unfold class_ok in Hc. destruct (of_class h).
  - apply andb_true_iff in Hc. destruct Hc as [Hc _]. apply andb_true_iff in Hc. destruct Hc as [Hc _]. exact Hc.
  - apply andb_true_iff in Hc. destruct Hc as [Hc _]. exact Hc.
  - apply andb_true_iff in Hc. destruct Hc as [Hc _]. exact Hc.
  - apply andb_true_iff in Hc. destruct Hc as [Hc _]. apply andb_true_iff in Hc. destruct Hc as [Hc _]. exact Hc.
  - reflexivity.
  - rewrite Hr in Hc. discriminate.
Qed.

(* the property, for every handler of the regenerated table that is not governance-only (those are
   covered by Authority.v) and not in the reviewed list *)
Lemma owner_batch_rejects : forall h, In h oflows -> of_class h <> CE -> is_reviewed h = false ->
  forall (msg : message) (st : ostore) (chs : list ch) (i : nat) (o : obj),
    st i = Some o -> o_owner o <> msg (of_signer h) ->
    res_store (run_flow h msg st chs) i = Some o.
Proof.
  intros h Hin Hne Hr. pose proof all_classified as Hall. rewrite forallb_forall in Hall.
  pose proof (class_ok_safe h (Hall h Hin) Hr) as Hs.
  apply safe_unchanged. destruct (of_class h); try exact Hs. contradiction.
Qed.

Lemma owner_compared_rejects : forall h, In h oflows -> owner_scoped_class h = true ->
  has_step is_select_id (of_body h) = true ->
  forall (msg : message) (st : ostore) (chs : list ch),
    picks_foreign (msg (of_signer h)) st chs = true ->
    res_store (run_flow h msg st chs) = st.
Proof.
  intros h Hin Hc Hid. apply strict_nothing_written.
  pose proof id_selected_not_strict_none as Hn.
  destruct (strictly_compared h) eqn:E; [reflexivity|].
  assert (In h (filter (fun h => owner_scoped_class h && has_step is_select_id (of_body h) && negb (strictly_compared h)) oflows)) as Hf.
  { apply filter_In. split; [exact Hin|]. rewrite Hc, Hid, E. reflexivity. }
  unfold onames in Hn. destruct (filter _ oflows); [destruct Hf|discriminate].
Qed.
