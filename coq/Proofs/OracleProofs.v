(* Proofs about Models/Oracle.v (C16). *)
From Coq Require Import ZArith NArith List Bool Lia.
From Elys Require Import Base.Res Base.Zdec Models.Oracle.
Import ListNotations.
Open Scope N_scope.

Ltac lt_of C :=
  match type of C with
  | (?a ?= ?b) = Lt => assert (a < b) by exact C
  | (?a ?= ?b) = Gt => assert (b < a) by (apply N.compare_gt_iff; exact C)
  end.

(* ================= byte strings ================= *)

Lemma bcmp_refl a : bcmp a a = Eq.
Proof. induction a as [|x r IH]; cbn; [reflexivity|]. rewrite N.compare_refl. exact IH. Qed.

Lemma bcmp_eq a : forall b, bcmp a b = Eq -> a = b.
Proof.
  induction a as [|x r IH]; intros [|y t] H; cbn in H; try discriminate; [reflexivity|].
  destruct (N.compare x y) eqn:C; try discriminate.
  apply N.compare_eq in C. subst. f_equal. apply IH, H.
Qed.

Lemma bcmp_antisym a : forall b, bcmp b a = CompOpp (bcmp a b).
Proof.
  induction a as [|x r IH]; intros [|y t]; cbn; try reflexivity.
  rewrite (N.compare_antisym x y). destruct (N.compare x y); cbn; auto.
Qed.

Lemma bcmp_lt_trans a : forall b c, bcmp a b = Lt -> bcmp b c = Lt -> bcmp a c = Lt.
Proof.
  induction a as [|x r IH]; intros [|y t] [|z u] H1 H2; cbn in *; try discriminate; try reflexivity.
  destruct (N.compare x y) eqn:C1; try discriminate.
  - apply N.compare_eq in C1; subst y.
    destruct (N.compare x z) eqn:C2; try discriminate; [eapply IH; eauto | reflexivity].
  - destruct (N.compare y z) eqn:C2; try discriminate.
    + apply N.compare_eq in C2; subst z. rewrite C1. reflexivity.
    + lt_of C1. lt_of C2. assert (L : x < z) by lia.
      apply N.compare_lt_iff in L. rewrite L. reflexivity.
Qed.

Lemma beqb_true a b : beqb a b = true <-> a = b.
Proof.
  unfold beqb. split.
  - destruct (bcmp a b) eqn:C; try discriminate. intros _. apply bcmp_eq, C.
  - intros ->. rewrite bcmp_refl. reflexivity.
Qed.

Lemma beqb_false a b : beqb a b = false <-> a <> b.
Proof.
  split.
  - intros H E. apply beqb_true in E. congruence.
  - intros H. destruct (beqb a b) eqn:E; [apply beqb_true in E; contradiction|reflexivity].
Qed.

Lemma beqb_refl a : beqb a a = true.
Proof. apply beqb_true. reflexivity. Qed.

Lemma bcmp_app_head x : forall y z, bcmp (x ++ y) (x ++ z) = bcmp y z.
Proof. induction x as [|c r IH]; intros; cbn; [reflexivity|]. rewrite N.compare_refl. apply IH. Qed.

Lemma is_prefix_app_head x : forall p k, is_prefix (x ++ p) (x ++ k) = is_prefix p k.
Proof. induction x as [|c r IH]; intros; cbn; [reflexivity|]. rewrite N.eqb_refl. apply IH. Qed.

Lemma is_prefix_spec p : forall k, is_prefix p k = true <-> exists r, k = p ++ r.
Proof.
  induction p as [|x r IH]; intros k; cbn.
  - split; [intros _; exists k; reflexivity | reflexivity].
  - destruct k as [|y t].
    + split; [discriminate | intros [u H]; discriminate].
    + rewrite andb_true_iff, N.eqb_eq, IH. split.
      * intros [-> [u ->]]. exists u. reflexivity.
      * intros [u H]. injection H as -> ->. split; [reflexivity | exists u; reflexivity].
Qed.

Lemma is_prefix_self_app p r : is_prefix p (p ++ r) = true.
Proof. apply is_prefix_spec. exists r. reflexivity. Qed.

Lemma app_inv_tail_len {A} (l1 : list A) : forall l1' l2 l2',
  l1 ++ l2 = l1' ++ l2' -> length l2 = length l2' -> l1 = l1' /\ l2 = l2'.
Proof.
  induction l1 as [|x r IH]; intros [|y t] l2 l2' H L; cbn in *.
  - auto.
  - subst l2. cbn in L. rewrite app_length in L. lia.
  - subst l2'. cbn in L. rewrite app_length in L. lia.
  - injection H as -> H. destruct (IH _ _ _ H L) as [-> ->]. auto.
Qed.

(* ================= big-endian timestamps ================= *)

Lemma be_length n : forall x, length (be n x) = n.
Proof. induction n as [|m IH]; intros x; cbn [be length]; [reflexivity|]. rewrite IH. reflexivity. Qed.

Lemma be_cmp n : forall x y, x < 256 ^ N.of_nat n -> y < 256 ^ N.of_nat n ->
  bcmp (be n x) (be n y) = (x ?= y).
Proof.
  induction n as [|m IH]; intros x y Hx Hy.
  - cbn in *. assert (x = 0) by lia. assert (y = 0) by lia. subst. reflexivity.
  - cbn [be bcmp].
    set (Bm := 256 ^ N.of_nat m) in *.
    assert (HB : 0 < Bm) by (apply N.neq_0_lt_0, N.pow_nonzero; lia).
    pose proof (N.div_mod x Bm ltac:(lia)) as Ex. pose proof (N.div_mod y Bm ltac:(lia)) as Ey.
    pose proof (N.mod_lt x Bm ltac:(lia)) as Mx. pose proof (N.mod_lt y Bm ltac:(lia)) as My.
    remember (x / Bm) as qx. remember (y / Bm) as qy. remember (x mod Bm) as rx. remember (y mod Bm) as ry.
    clear Heqqx Heqqy Heqrx Heqry Hx Hy.
    destruct (N.compare qx qy) eqn:C.
    + apply N.compare_eq in C. rewrite (IH _ _ Mx My).
      destruct (N.compare_spec rx ry) as [E|E|E]; symmetry.
      * apply N.compare_eq_iff. lia.
      * apply N.compare_lt_iff. lia.
      * apply N.compare_gt_iff. lia.
    + lt_of C. symmetry. apply N.compare_lt_iff.
      assert (Bm * (qx + 1) <= Bm * qy) by (apply N.mul_le_mono_l; lia). lia.
    + lt_of C. symmetry. apply N.compare_gt_iff.
      assert (Bm * (qy + 1) <= Bm * qx) by (apply N.mul_le_mono_l; lia). lia.
Qed.

Lemma u64_lt x : u64 x < U64.
Proof. unfold u64. apply N.mod_lt. discriminate. Qed.

Lemma u64_id x : x < U64 -> u64 x = x.
Proof. intros H. unfold u64. apply N.mod_small, H. Qed.

Lemma be8_length x : length (be8 x) = 8%nat.
Proof. apply be_length. Qed.

Lemma be8_cmp x y : x < U64 -> y < U64 -> bcmp (be8 x) (be8 y) = (x ?= y).
Proof.
  intros Hx Hy. unfold be8. rewrite !u64_id by assumption.
  apply be_cmp; assumption.
Qed.

(* ================= keys ================= *)

Lemma price_key_of_cmp a s x y : x < U64 -> y < U64 ->
  bcmp (price_key_of a s x) (price_key_of a s y) = (x ?= y).
Proof.
  intros Hx Hy. unfold price_key_of. rewrite !bcmp_app_head. apply be8_cmp; assumption.
Qed.

Lemma price_key_of_prefix_as a s ts : is_prefix (key_prefix_asset_source a s) (price_key_of a s ts) = true.
Proof. unfold price_key_of. apply is_prefix_self_app. Qed.

Lemma price_key_of_prefix_a a s ts : is_prefix (key_prefix_asset a) (price_key_of a s ts) = true.
Proof.
  unfold price_key_of, key_prefix_asset_source. rewrite <- !app_assoc. apply is_prefix_self_app.
Qed.

(* equal keys: equal concatenation and equal timestamp *)
Lemma price_key_of_inj a s x a' s' y : x < U64 -> y < U64 ->
  price_key_of a s x = price_key_of a' s' y -> a ++ s = a' ++ s' /\ x = y.
Proof.
  intros Hx Hy H. unfold price_key_of, key_prefix_asset_source, key_prefix_asset in H.
  rewrite <- !app_assoc in H. apply app_inv_head in H.
  rewrite !app_assoc in H.
  apply app_inv_tail_len in H; [|apply be8_length || (rewrite !be8_length; reflexivity)].
  destruct H as [H1 H2].
  apply app_inv_tail_len in H1; [|reflexivity]. destruct H1 as [H1 _].
  split; [exact H1|].
  pose proof (be8_cmp x y Hx Hy) as C. rewrite H2, bcmp_refl in C. symmetry in C.
  apply N.compare_eq in C. exact C.
Qed.

(* ================= the sorted store ================= *)

Definition keys_gt (k : bytes) (s : store) : Prop := forall kv, In kv s -> bcmp k (fst kv) = Lt.

Fixpoint sorted (s : store) : Prop :=
  match s with
  | [] => True
  | kv :: r => keys_gt (fst kv) r /\ sorted r
  end.

Lemma keys_gt_trans k k' s : bcmp k k' = Lt -> keys_gt k' s -> keys_gt k s.
Proof. intros H G kv I. eapply bcmp_lt_trans; [exact H | apply G, I]. Qed.

Lemma keys_gt_notin k s v : keys_gt k s -> ~ In (k, v) s.
Proof. intros G I. specialize (G _ I). cbn in G. rewrite bcmp_refl in G. discriminate. Qed.

Lemma sset_in k v : forall s, sorted s -> forall k' v',
  In (k', v') (sset k v s) <-> (k' = k /\ v' = v) \/ (In (k', v') s /\ k' <> k).
Proof.
  induction s as [|[k0 v0] r IH]; intros S k' v'; cbn [sset].
  - cbn. split; [intros [E|[]]; injection E as <- <-; auto | intros [[-> ->]|[[] _]]; auto].
  - destruct S as [G S]. cbn [fst] in G.
    destruct (bcmp k k0) eqn:C.
    + apply bcmp_eq in C. subst k0. cbn [In]. split.
      * intros [E|I]; [injection E as <- <-; auto|]. right. split; [auto|].
        intros ->. eapply keys_gt_notin; eauto.
      * intros [[-> ->]|[[E|I] N]]; auto. injection E as -> ->. contradiction.
    + cbn [In]. split.
      * intros [E|[E|I]]; [injection E as <- <-; auto | |].
        -- injection E as <- <-. right. split; [auto|]. intros ->. rewrite bcmp_refl in C. discriminate.
        -- right. split; [auto|]. intros ->.
           assert (X : keys_gt k r) by (eapply keys_gt_trans; eauto).
           eapply keys_gt_notin; eauto.
      * intros [[-> ->]|[I N]]; auto.
    + cbn [In]. rewrite (IH S). split.
      * intros [E|[[-> ->]|[I N]]]; auto.
        injection E as <- <-. right. split; [auto|]. intros ->. rewrite bcmp_refl in C. discriminate.
      * intros [[-> ->]|[[E|I] N]]; auto.
Qed.

Lemma sset_keys_gt k0 k v s : keys_gt k0 s -> bcmp k0 k = Lt -> sorted s -> keys_gt k0 (sset k v s).
Proof.
  intros G C S [k' v'] I. apply (sset_in k v s S) in I. destruct I as [[-> ->]|[I _]]; [exact C | apply G, I].
Qed.

Lemma sset_sorted k v : forall s, sorted s -> sorted (sset k v s).
Proof.
  induction s as [|[k0 v0] r IH]; intros S; cbn [sset].
  - cbn. split; [intros ? []|exact I].
  - destruct S as [G S]. cbn [fst] in G. destruct (bcmp k k0) eqn:C.
    + apply bcmp_eq in C. subst. cbn. auto.
    + cbn [sorted fst]. split; [|cbn; auto].
      intros kv [<-|I]; [exact C|]. eapply bcmp_lt_trans; [exact C | apply G, I].
    + cbn [sorted fst]. split; [|apply IH, S].
      apply sset_keys_gt; auto. rewrite bcmp_antisym, C. reflexivity.
Qed.

Lemma sdel_in k : forall s, sorted s -> forall k' v',
  In (k', v') (sdel k s) <-> In (k', v') s /\ k' <> k.
Proof.
  induction s as [|[k0 v0] r IH]; intros S k' v'; cbn [sdel].
  - cbn. tauto.
  - destruct S as [G S]. cbn [fst] in G. destruct (bcmp k k0) eqn:C.
    + apply bcmp_eq in C. subst k0. cbn [In]. split.
      * intros I. split; [auto|]. intros ->. eapply keys_gt_notin; eauto.
      * intros [[E|I] N]; auto. injection E as -> ->. contradiction.
    + split.
      * intros I. split; [exact I|]. intros ->. destruct I as [E|I].
        -- injection E as <- <-. rewrite bcmp_refl in C. discriminate.
        -- assert (X : keys_gt k r) by (eapply keys_gt_trans; eauto). eapply keys_gt_notin; eauto.
      * tauto.
    + cbn [In]. rewrite (IH S). split.
      * intros [E|[I N]]; auto. injection E as <- <-. split; [auto|]. intros ->. rewrite bcmp_refl in C. discriminate.
      * intros [[E|I] N]; auto.
Qed.

Lemma sdel_sorted k : forall s, sorted s -> sorted (sdel k s).
Proof.
  induction s as [|[k0 v0] r IH]; intros S; cbn [sdel]; [exact I|].
  destruct S as [G S]. cbn [fst] in G. destruct (bcmp k k0) eqn:C; [exact S | cbn; auto |].
  cbn [sorted fst]. split; [|apply IH, S].
  intros [k' v'] I. apply (sdel_in k r S) in I. apply G, I.
Qed.

Lemma sorted_unique_key : forall s, sorted s -> forall k v v', In (k, v) s -> In (k, v') s -> v = v'.
Proof.
  induction s as [|[k0 v0] r IH]; intros S k v v' I1 I2; [destruct I1|].
  destruct S as [G S]. cbn [fst] in G.
  destruct I1 as [E1|I1], I2 as [E2|I2].
  - congruence.
  - injection E1 as <- <-. exfalso. eapply keys_gt_notin; eauto.
  - injection E2 as <- <-. exfalso. eapply keys_gt_notin; eauto.
  - eapply IH; eauto.
Qed.

Lemma sorted_filter f : forall s, sorted s -> sorted (filter f s).
Proof.
  induction s as [|kv r IH]; intros S; cbn; [exact I|]. destruct S as [G S].
  destruct (f kv); [|apply IH, S]. cbn. split; [|apply IH, S].
  intros x Hx. apply filter_In in Hx. apply G, Hx.
Qed.

(* ================= reverse iteration ================= *)

Lemma find_app {A} (f : A -> bool) l1 l2 :
  find f (l1 ++ l2) = match find f l1 with Some x => Some x | None => find f l2 end.
Proof. induction l1 as [|x r IH]; cbn; [reflexivity|]. destruct (f x); auto. Qed.

(* the first hit of a reverse scan of a sorted list is the hit with the greatest key *)
Lemma find_rev_some f : forall l x, sorted l -> find f (rev l) = Some x ->
  In x l /\ f x = true /\ forall y, In y l -> f y = true -> y = x \/ bcmp (fst y) (fst x) = Lt.
Proof.
  induction l as [|a r IH]; intros x S H; cbn in H; [discriminate|].
  destruct S as [G S]. rewrite find_app in H.
  destruct (find f (rev r)) eqn:F.
  - injection H as ->. destruct (IH _ S eq_refl) as (I1 & I2 & I3).
    split; [right; exact I1|]. split; [exact I2|].
    intros y [<-|Iy] Fy; [right; apply G, I1 | apply I3; assumption].
  - cbn in H. destruct (f a) eqn:Fa; [|discriminate]. injection H as <-.
    split; [left; reflexivity|]. split; [exact Fa|].
    intros y [<-|Iy] Fy; [left; reflexivity|].
    exfalso. assert (N : forall z, In z (rev r) -> f z = false) by (apply find_none; exact F).
    rewrite (N y) in Fy; [discriminate | apply in_rev in Iy; exact Iy].
Qed.

Lemma find_rev_none {A} (f : A -> bool) l : find f (rev l) = None -> forall y, In y l -> f y = false.
Proof. intros H y I. eapply find_none; [exact H | apply in_rev in I; exact I]. Qed.

Lemma hd_error_find_all {A} (f : A -> bool) l : (forall x, In x l -> f x = true) -> hd_error l = find f l.
Proof. destruct l as [|x r]; cbn; [reflexivity|]. intros H. rewrite (H x (or_introl eq_refl)). reflexivity. Qed.

Lemma first_entry_unfixed want it :
  (forall kv, In kv it -> want (snd kv) = true) -> first_entry false want it = first_entry true want it.
Proof. intros H. unfold first_entry. f_equal. apply hd_error_find_all. exact H. Qed.

Lemma first_entry_in fixed want it v : first_entry fixed want it = Some v -> exists k, In (k, v) it.
Proof.
  unfold first_entry. destruct fixed.
  - destruct (find _ it) as [[k w]|] eqn:F; [|discriminate]. cbn. intros E. injection E as ->.
    apply find_some in F. exists k. apply F.
  - destruct it as [|[k w] r]; [discriminate|]. cbn. intros E. injection E as ->. exists k. left. reflexivity.
Qed.

Lemma rev_prefix_iter_in p s kv : In kv (rev_prefix_iter p s) <-> In kv s /\ is_prefix p (fst kv) = true.
Proof. unfold rev_prefix_iter. rewrite <- in_rev, filter_In. reflexivity. Qed.

(* the repaired scan: the matching entry with the greatest key *)
Lemma scan_some p want s v : sorted s ->
  first_entry true want (rev_prefix_iter p s) = Some v ->
  exists k, In (k, v) s /\ is_prefix p k = true /\ want v = true /\
    forall k' v', In (k', v') s -> is_prefix p k' = true -> want v' = true ->
      (k', v') = (k, v) \/ bcmp k' k = Lt.
Proof.
  intros S H. unfold first_entry, rev_prefix_iter in H.
  destruct (find _ _) as [[k w]|] eqn:F; [|discriminate]. cbn in H. injection H as ->.
  apply find_rev_some in F; [|apply sorted_filter, S].
  destruct F as (I1 & I2 & I3). apply filter_In in I1. cbn in I1, I2. destruct I1 as [I1 P].
  exists k. repeat split; auto.
  intros k' v' I' P' W'. apply (I3 (k', v')); [apply filter_In; auto | exact W'].
Qed.

Lemma scan_none p want s : first_entry true want (rev_prefix_iter p s) = None ->
  forall k v, In (k, v) s -> is_prefix p k = true -> want v = false.
Proof.
  intros H k v I P. unfold first_entry, rev_prefix_iter in H.
  destruct (find _ _) eqn:F; [discriminate|].
  apply (find_rev_none _ _ F (k, v)). apply filter_In. auto.
Qed.

(* ================= well-formed price store ================= *)

Definition wf_store (s : store) : Prop :=
  sorted s /\ forall k v, In (k, v) s -> k = price_key v /\ p_ts v < U64.

Lemma in_values s v : In v (values s) <-> exists k, In (k, v) s.
Proof.
  unfold values. rewrite in_map_iff. split.
  - intros [[k w] [E I]]. cbn in E. subst. eauto.
  - intros [k I]. exists (k, v). auto.
Qed.

Lemma wf_in_values s v : wf_store s -> In v (values s) -> In (price_key v, v) s /\ p_ts v < U64.
Proof.
  intros [S W] I. apply in_values in I. destruct I as [k I]. destruct (W _ _ I) as [-> T]. auto.
Qed.

Lemma wf_empty : wf_store [].
Proof. split; [exact I | intros ? ? []]. Qed.

Lemma set_price_wf v s : wf_store s -> p_ts v < U64 -> wf_store (set_price v s).
Proof.
  intros [S W] T. unfold set_price. split; [apply sset_sorted, S|].
  intros k w I. apply (sset_in _ _ _ S) in I. destruct I as [[-> ->]|[I _]]; auto.
Qed.

Lemma set_price_values v s : wf_store s -> forall w,
  In w (values (set_price v s)) <-> w = v \/ (In w (values s) /\ price_key w <> price_key v).
Proof.
  intros [S W] w. unfold set_price. rewrite in_values. split.
  - intros [k I]. apply (sset_in _ _ _ S) in I. destruct I as [[-> ->]|[I N]]; [auto|].
    right. destruct (W _ _ I) as [-> _]. split; [apply in_values; eauto | exact N].
  - intros [->|[I N]].
    + exists (price_key v). apply (sset_in _ _ _ S). auto.
    + apply in_values in I. destruct I as [k I]. destruct (W _ _ I) as [-> _].
      exists (price_key w). apply (sset_in _ _ _ S). auto.
Qed.

Lemma sdel_wf k s : wf_store s -> wf_store (sdel k s).
Proof.
  intros [S W]. split; [apply sdel_sorted, S|].
  intros k' w I. apply (sdel_in _ _ S) in I. apply W, I.
Qed.

(* ---- the end-blocker is exactly "keep the live prices" ---- *)

Definition dead (p : params) (h t : N) (v : price) : bool := expired_time p t v || expired_height p h v.

Lemma live_dead p h t v : live p h t v = negb (dead p h t v).
Proof. unfold live, dead. rewrite negb_orb. reflexivity. Qed.

Lemma end_block_fold p h t : forall (l : store) (acc : store), wf_store acc ->
  let acc' := fold_left (fun acc kv =>
               let v := snd kv in
               let acc := if expired_time p t v then sdel (price_key v) acc else acc in
               if expired_height p h v then sdel (price_key v) acc else acc) l acc in
  wf_store acc' /\
  forall k w, In (k, w) acc' <->
    In (k, w) acc /\ ~ exists kv, In kv l /\ dead p h t (snd kv) = true /\ price_key (snd kv) = k.
Proof.
  induction l as [|kv r IH]; intros acc WF; cbn [fold_left].
  - split; [exact WF|]. intros k w. split; [intros I; split; [exact I | intros (x & [] & _)] | tauto].
  - set (v := snd kv).
    set (acc1 := if expired_time p t v then sdel (price_key v) acc else acc).
    set (acc2 := if expired_height p h v then sdel (price_key v) acc1 else acc1).
    assert (WF1 : wf_store acc1) by (unfold acc1; destruct (expired_time p t v); [apply sdel_wf|]; exact WF).
    assert (WF2 : wf_store acc2) by (unfold acc2; destruct (expired_height p h v); [apply sdel_wf|]; exact WF1).
    assert (E2 : forall k w, In (k, w) acc2 <-> In (k, w) acc /\ ~ (dead p h t v = true /\ price_key v = k)).
    { intros k w. unfold acc2, acc1, dead.
      destruct (expired_time p t v), (expired_height p h v); cbn [orb];
        repeat rewrite (sdel_in _ _ (proj1 WF)) || rewrite (sdel_in _ _ (proj1 (sdel_wf _ _ WF)));
        split; intros H; try tauto; intuition congruence. }
    destruct (IH acc2 WF2) as [WF' E']. split; [exact WF'|].
    intros k w. rewrite E', E2. split.
    + intros [[I N1] N2]. split; [exact I|]. intros (x & [<-|Ix] & D & K).
      * apply N1. auto.
      * apply N2. exists x. auto.
    + intros [I N]. split; [split; [exact I|]|].
      * intros [D K]. apply N. exists kv. split; [left; reflexivity|]. auto.
      * intros (x & Ix & D & K). apply N. exists x. split; [right; exact Ix|]. auto.
Qed.

Lemma end_block_wf p h t s : wf_store s -> wf_store (end_block_prices p h t s).
Proof. intros WF. apply (end_block_fold p h t s s WF). Qed.

Lemma end_block_in p h t s : wf_store s -> forall k v,
  In (k, v) (end_block_prices p h t s) <-> In (k, v) s /\ live p h t v = true.
Proof.
  intros WF k v. destruct (end_block_fold p h t s s WF) as [_ E]. unfold end_block_prices. rewrite E.
  rewrite live_dead, negb_true_iff. split.
  - intros [I N]. split; [exact I|]. destruct (dead p h t v) eqn:D; [|reflexivity].
    exfalso. apply N. exists (k, v). cbn [snd]. split; [exact I|]. split; [exact D|].
    destruct WF as [_ W]. symmetry. apply (W _ _ I).
  - intros [I D]. split; [exact I|]. intros ([k0 v0] & I0 & D0 & K0). cbn [snd] in D0, K0.
    destruct WF as [S W]. destruct (W _ _ I0) as [E0 _]. rewrite K0 in E0. subst k0.
    rewrite (sorted_unique_key _ S _ _ _ I0 I) in D0. congruence.
Qed.

Lemma end_block_values p h t s : wf_store s -> forall v,
  In v (values (end_block_prices p h t s)) <-> In v (values s) /\ live p h t v = true.
Proof.
  intros WF v. rewrite !in_values. split.
  - intros [k I]. apply (end_block_in _ _ _ _ WF) in I. destruct I; eauto.
  - intros [[k I] L]. exists k. apply (end_block_in _ _ _ _ WF). auto.
Qed.

(* ================= lookups ================= *)

(* any lookup returns a stored value (both variants) *)
Lemma latest_as_in fixed s a q v : latest_asset_source fixed s a q = Some v -> In v (values s).
Proof.
  intros H. apply first_entry_in in H. destruct H as [k I]. apply rev_prefix_iter_in in I.
  apply in_values. exists k. apply I.
Qed.

Lemma latest_any_in fixed s a v : latest_any_source fixed s a = Some v -> In v (values s).
Proof.
  intros H. apply first_entry_in in H. destruct H as [k I]. apply rev_prefix_iter_in in I.
  apply in_values. exists k. apply I.
Qed.

Lemma get_asset_price_in fixed s a v : get_asset_price fixed s a = Some v -> In v (values s).
Proof.
  unfold get_asset_price. intros H.
  destruct (latest_asset_source fixed s a ELYS) eqn:E1; [injection H as <-; eapply latest_as_in; eauto|].
  destruct (latest_asset_source fixed s a BAND) eqn:E2; [injection H as <-; eapply latest_as_in; eauto|].
  eapply latest_any_in; eauto.
Qed.

(* the repaired elys/band tier returns the newest stored price of exactly (asset, source) *)
Lemma fixed_as_some s a q v : wf_store s -> latest_asset_source true s a q = Some v ->
  is_newest (values s) a q v.
Proof.
  intros WF H. unfold latest_asset_source in H. apply scan_some in H; [|apply WF].
  destruct H as (k & I & P & W & M).
  apply andb_true_iff in W. destruct W as [Wa Ws]. apply beqb_true in Wa, Ws.
  split; [apply in_values; eauto|]. split; [exact Wa|]. split; [exact Ws|].
  intros w Iw Aw Sw. destruct (wf_in_values _ _ WF Iw) as [Ik Tw].
  destruct WF as [S Wf]. destruct (Wf _ _ I) as [Ek Tv].
  assert (Kw : price_key w = price_key_of a q (p_ts w)) by (unfold price_key; rewrite Aw, Sw; reflexivity).
  assert (Kv : price_key v = price_key_of a q (p_ts v)) by (unfold price_key; rewrite Wa, Ws; reflexivity).
  destruct (M _ _ Ik) as [E|L].
  - rewrite Kw. apply price_key_of_prefix_as.
  - rewrite Aw, Sw, !beqb_refl. reflexivity.
  - injection E as _ ->. lia.
  - rewrite Ek, Kw, Kv, price_key_of_cmp in L by assumption. lt_of L. lia.
Qed.

Lemma fixed_as_none s a q : wf_store s -> latest_asset_source true s a q = None -> ~ has (values s) a q.
Proof.
  intros WF H (w & Iw & Aw & Sw). destruct (wf_in_values _ _ WF Iw) as [Ik _].
  unfold latest_asset_source in H.
  pose proof (scan_none _ _ _ H _ _ Ik) as N.
  assert (P : is_prefix (key_prefix_asset_source a q) (price_key w) = true)
    by (unfold price_key; rewrite Aw, Sw; apply price_key_of_prefix_as).
  specialize (N P). cbn beta in N. rewrite Aw, Sw, !beqb_refl in N. discriminate.
Qed.

Lemma fixed_any_some s a v : wf_store s -> latest_any_source true s a = Some v ->
  is_newest (values s) a (p_source v) v.
Proof.
  intros WF H. unfold latest_any_source in H. apply scan_some in H; [|apply WF].
  destruct H as (k & I & P & W & M). apply beqb_true in W.
  split; [apply in_values; eauto|]. split; [exact W|]. split; [reflexivity|].
  intros w Iw Aw Sw. destruct (wf_in_values _ _ WF Iw) as [Ik Tw].
  destruct WF as [S Wf]. destruct (Wf _ _ I) as [Ek Tv].
  assert (Kw : price_key w = price_key_of a (p_source v) (p_ts w)) by (unfold price_key; rewrite Aw, Sw; reflexivity).
  assert (Kv : price_key v = price_key_of a (p_source v) (p_ts v)) by (unfold price_key; rewrite W; reflexivity).
  destruct (M _ _ Ik) as [E|L].
  - rewrite Kw. apply price_key_of_prefix_a.
  - rewrite Aw, beqb_refl. reflexivity.
  - injection E as _ ->. lia.
  - rewrite Ek, Kw, Kv, price_key_of_cmp in L by assumption. lt_of L. lia.
Qed.

Lemma fixed_any_none s a : wf_store s -> latest_any_source true s a = None ->
  forall w, In w (values s) -> p_asset w <> a.
Proof.
  intros WF H w Iw Aw. destruct (wf_in_values _ _ WF Iw) as [Ik _].
  unfold latest_any_source in H.
  pose proof (scan_none _ _ _ H _ _ Ik) as N.
  assert (P : is_prefix (key_prefix_asset a) (price_key w) = true)
    by (unfold price_key; rewrite Aw; apply price_key_of_prefix_a).
  specialize (N P). cbn beta in N. rewrite Aw, beqb_refl in N. discriminate.
Qed.

Lemma is_newest_has m a q v : is_newest m a q v -> has m a q.
Proof. intros (I & A & S & _). exists v. auto. Qed.

(* the repaired lookup meets the specification for ALL names *)
Lemma fixed_lookup_ok s a : wf_store s -> lookup_ok (values s) a (get_asset_price true s a).
Proof.
  intros WF. unfold lookup_ok, get_asset_price.
  destruct (latest_asset_source true s a ELYS) as [v1|] eqn:E1.
  - pose proof (fixed_as_some _ _ _ _ WF E1) as N1.
    split; [intros _; eauto|]. split; intros NH; exfalso; apply NH; eapply is_newest_has; eauto.
  - pose proof (fixed_as_none _ _ _ WF E1) as N1.
    split; [intros H; contradiction|].
    destruct (latest_asset_source true s a BAND) as [v2|] eqn:E2.
    + pose proof (fixed_as_some _ _ _ _ WF E2) as N2.
      split; [intros _ _; eauto|]. intros _ NH. exfalso. apply NH. eapply is_newest_has; eauto.
    + pose proof (fixed_as_none _ _ _ WF E2) as N2.
      split; [intros _ H; contradiction|]. intros _ _.
      destruct (latest_any_source true s a) as [v3|] eqn:E3.
      * apply fixed_any_some; assumption.
      * apply fixed_any_none; assumption.
Qed.

(* the code as written coincides with the repaired lookup when every key captured by a scan prefix of the
   asked asset belongs to the asked asset (and, in the elys/band tiers, to the asked source) *)
Definition store_sep (s : store) (a : bytes) : Prop :=
  forall k v q, In (k, v) s -> In q TIERS -> is_prefix (PFX ++ a ++ q) k = true ->
    p_asset v = a /\ (q = [] \/ p_source v = q).

Lemma unfixed_eq_fixed s a : store_sep s a -> get_asset_price false s a = get_asset_price true s a.
Proof.
  intros SP.
  assert (A : forall q, In q TIERS -> q <> [] -> latest_asset_source false s a q = latest_asset_source true s a q).
  { intros q Iq Nq. unfold latest_asset_source. apply first_entry_unfixed.
    intros [k v] I. apply rev_prefix_iter_in in I. destruct I as [I P]. cbn [fst snd] in P |- *.
    unfold key_prefix_asset_source, key_prefix_asset in P. rewrite <- app_assoc in P.
    destruct (SP _ _ _ I Iq P) as [-> [E | ->]]; [contradiction|]. rewrite !beqb_refl. reflexivity. }
  assert (Bq : latest_any_source false s a = latest_any_source true s a).
  { unfold latest_any_source. apply first_entry_unfixed.
    intros [k v] I. apply rev_prefix_iter_in in I. destruct I as [I P]. cbn [fst snd] in P |- *.
    unfold key_prefix_asset in P.
    destruct (SP k v [] I) as [-> _]; [cbn; auto | rewrite app_nil_r; exact P |]. apply beqb_refl. }
  unfold get_asset_price.
  rewrite (A ELYS), (A BAND), Bq; [reflexivity | cbn; auto | discriminate | cbn; auto | discriminate].
Qed.

Lemma unfixed_lookup_ok s a : wf_store s -> store_sep s a -> lookup_ok (values s) a (get_asset_price false s a).
Proof. intros WF SP. rewrite (unfixed_eq_fixed _ _ SP). apply fixed_lookup_ok, WF. Qed.

(* lookup_ok depends on the specification map only as a set *)
Lemma lookup_ok_ext m m' a r : (forall v, In v m <-> In v m') -> lookup_ok m a r -> lookup_ok m' a r.
Proof.
  intros E.
  assert (H1 : forall q, has m q ELYS <-> has m' q ELYS) by (intros; unfold has; setoid_rewrite E; reflexivity).
  assert (Hh : forall q s, has m q s <-> has m' q s) by (intros; unfold has; setoid_rewrite E; reflexivity).
  assert (Hn : forall q s v, is_newest m q s v <-> is_newest m' q s v) by (intros; unfold is_newest; setoid_rewrite E; reflexivity).
  unfold lookup_ok. intros (A & B & C). repeat split.
  - intros H. apply Hh in H. destruct (A H) as (v & -> & N). exists v. split; [reflexivity | apply Hn, N].
  - intros H1' H2. rewrite <- Hh in H1', H2. destruct (B H1' H2) as (v & -> & N). exists v. split; [reflexivity | apply Hn, N].
  - intros H1' H2. rewrite <- Hh in H1', H2. specialize (C H1' H2). destruct r as [v|].
    + apply Hn, C.
    + intros w Iw. apply C, E, Iw.
Qed.

(* ================= handlers: invariants ================= *)

Definition Inv (s : state) : Prop := wf_store (st_prices s).

Lemma mk_price_ts s sender f : p_ts (mk_price s sender f) < U64.
Proof. apply u64_lt. Qed.

Lemma fold_set_price_wf s sender : forall fs st, wf_store st ->
  wf_store (fold_left (fun st f => set_price (mk_price s sender f) st) fs st).
Proof.
  induction fs as [|f r IH]; intros st WF; cbn [fold_left]; [exact WF|].
  apply IH, set_price_wf; [exact WF | apply mk_price_ts].
Qed.

Ltac step_cases H :=
  unfold step, guard, bind, feeder_check in H;
  repeat match type of H with
         | context [if ?c then _ else _] => destruct c eqn:?
         | context [match fget ?a ?l with _ => _ end] => destruct (fget a l) as [[|]|] eqn:?
         | context [match iget ?a ?l with _ => _ end] => destruct (iget a l) eqn:?
         end; try discriminate; injection H as <-.

Lemma step_inv s o s' : Inv s -> step s o = Ok s' -> Inv s'.
Proof.
  unfold Inv. intros WF H. destruct o; step_cases H; cbn [st_prices with_prices with_feeders with_infos]; auto.
  - apply set_price_wf; [exact WF | apply mk_price_ts].
  - apply fold_set_price_wf, WF.
  - apply end_block_wf, WF.
Qed.

Lemma exec_cases s o : (exists s', step s o = Ok s' /\ exec s o = s') \/ ((forall s', step s o <> Ok s') /\ exec s o = s).
Proof.
  unfold exec, run_tx. destruct (step s o) eqn:E; [left; eauto | right | right]; split; auto; discriminate.
Qed.

Lemma exec_inv s o : Inv s -> Inv (exec s o).
Proof. intros I. destruct (exec_cases s o) as [(s' & E & ->)|[_ ->]]; [eapply step_inv; eauto | exact I]. Qed.

Lemma run_inv ops : forall s, Inv s -> Inv (run s ops).
Proof. induction ops as [|o r IH]; intros s I; cbn; [exact I|]. apply IH, exec_inv, I. Qed.

(* ================= only a registered and active feeder writes ================= *)

Definition op_feeds (o : op) (sender : N) (f : feed) : Prop :=
  match o with
  | OFeed sd f' => sd = sender /\ f' = f
  | OFeedMulti sd fs => sd = sender /\ In f fs
  | _ => False
  end.

Definition feed_sender (o : op) : option N :=
  match o with OFeed sd _ => Some sd | OFeedMulti sd _ => Some sd | _ => None end.

Definition is_end_block (o : op) : bool := match o with OEndBlock _ => true | _ => false end.

Lemma authorised_check s sender : authorised s sender = false -> exists c, feeder_check s sender = Err c.
Proof.
  unfold authorised, feeder_check. destruct (fget sender (st_feeders s)) as [[|]|]; try discriminate; eauto.
Qed.

Lemma unauthorised_feed_rejected s o sender :
  feed_sender o = Some sender -> authorised s sender = false ->
  (exists c, step s o = Err c) /\ exec s o = s.
Proof.
  intros F A. destruct (authorised_check _ _ A) as [c C].
  assert (X : exists c, step s o = Err c).
  { destruct o; try discriminate; injection F as ->; cbn [step]; unfold guard;
      match goal with |- context [if ?b then _ else _] => destruct b end; eauto; rewrite C; cbn; eauto. }
  split; [exact X|]. destruct X as [c' X]. unfold exec, run_tx. rewrite X. reflexivity.
Qed.

Lemma fold_set_price_values s sender : forall fs st v, wf_store st ->
  In v (values (fold_left (fun st f => set_price (mk_price s sender f) st) fs st)) ->
  In v (values st) \/ exists f, In f fs /\ v = mk_price s sender f.
Proof.
  induction fs as [|f r IH]; intros st v WF H; cbn [fold_left] in H; [auto|].
  apply IH in H; [|apply set_price_wf; [exact WF | apply mk_price_ts]].
  destruct H as [H|(g & Ig & ->)]; [|right; exists g; cbn; auto].
  apply (set_price_values _ _ WF) in H. destruct H as [->|[H _]]; [right; exists f; cbn; auto | auto].
Qed.

Lemma check_authorised s sender : feeder_check s sender = Ok tt -> authorised s sender = true.
Proof. unfold feeder_check, authorised. destruct (fget sender (st_feeders s)) as [[|]|]; try discriminate; auto. Qed.

(* every price in the store after a transaction was there before, or was written by that transaction, which
   then is a feed message of a sender that is registered and active at that moment *)
Lemma step_values s o s' v : Inv s -> step s o = Ok s' -> In v (values (st_prices s')) ->
  In v (values (st_prices s)) \/
  exists sender f, authorised s sender = true /\ op_feeds o sender f /\ v = mk_price s sender f.
Proof.
  unfold Inv. intros WF H I. destruct o.
  - cbn [step] in H. unfold guard in H. destruct (valid_feed f); [|discriminate].
    destruct (feeder_check s sender) as [[]| |] eqn:C; cbn [bind] in H; try discriminate. injection H as <-.
    cbn [st_prices with_prices] in I. apply (set_price_values _ _ WF) in I.
    destruct I as [->|[I _]]; [|auto]. right. exists sender, f. cbn. auto using check_authorised.
  - cbn [step] in H. unfold guard in H.
    destruct (negb match fs with [] => true | _ :: _ => false end && forallb valid_feed fs); [|discriminate].
    destruct (feeder_check s sender) as [[]| |] eqn:C; cbn [bind] in H; try discriminate. injection H as <-.
    cbn [st_prices with_prices] in I. apply fold_set_price_values in I; [|exact WF].
    destruct I as [I|(f & If & ->)]; [auto|]. right. exists sender, f. cbn. auto using check_authorised.
  - step_cases H; cbn [st_prices with_feeders] in I; auto.
  - step_cases H; cbn [st_prices with_feeders] in I; auto.
  - step_cases H; cbn [st_prices with_feeders] in I; auto.
  - step_cases H; cbn [st_prices with_feeders] in I; auto.
  - step_cases H; cbn [st_prices with_infos] in I; auto.
  - step_cases H; cbn [st_prices with_infos] in I; auto.
  - step_cases H; cbn [st_prices] in I; auto.
  - step_cases H; cbn [st_prices] in I. apply (end_block_values _ _ _ _ WF) in I. left. apply I.
Qed.

Lemma exec_values s o v : Inv s -> In v (values (st_prices (exec s o))) ->
  In v (values (st_prices s)) \/
  exists sender f, authorised s sender = true /\ op_feeds o sender f /\ v = mk_price s sender f.
Proof.
  intros WF I. destruct (exec_cases s o) as [(s' & E & X)|[_ X]]; rewrite X in I; [|auto].
  eapply step_values; eauto.
Qed.

(* messages other than feeds (and block ends) never touch the price store *)
Lemma exec_prices_other s o : feed_sender o = None -> is_end_block o = false ->
  st_prices (exec s o) = st_prices s.
Proof.
  intros F B. destruct (exec_cases s o) as [(s' & E & ->)|[_ ->]]; [|reflexivity].
  destruct o; try discriminate; step_cases E; reflexivity.
Qed.

Lemma prices_changed_only_by s o : st_prices (exec s o) <> st_prices s ->
  is_end_block o = true \/ exists sender, feed_sender o = Some sender /\ authorised s sender = true.
Proof.
  intros H. destruct (is_end_block o) eqn:B; [auto|]. right.
  destruct (feed_sender o) as [sender|] eqn:F.
  - exists sender. split; [reflexivity|]. destruct (authorised s sender) eqn:A; [reflexivity|].
    exfalso. apply H. destruct (unauthorised_feed_rejected _ _ _ F A) as [_ ->]. reflexivity.
  - exfalso. apply H. apply exec_prices_other; assumption.
Qed.

(* ================= expiry ================= *)

Lemma exec_end_block s dt :
  exec s (OEndBlock dt) = mkS (end_block_prices (st_params s) (st_h s) (st_t s) (st_prices s))
                              (st_feeders s) (st_infos s) (st_params s) (st_h s + 1) (st_t s + dt).
Proof. reflexivity. Qed.

Lemma expiry_step fixed s dt a v : Inv s -> lookup fixed (exec s (OEndBlock dt)) a = Some v ->
  In v (values (st_prices s)) /\ live (st_params s) (st_h s) (st_t s) v = true.
Proof.
  intros WF H. unfold lookup in H. apply get_asset_price_in in H. rewrite exec_end_block in H.
  cbn [st_prices] in H. apply (end_block_values _ _ _ _ WF) in H. exact H.
Qed.

(* ================= no asset info / no price ================= *)

Lemma no_info_zero fixed s d : iget d (st_infos s) = None -> price_from_denom fixed s d = 0%Z.
Proof. intros H. unfold price_from_denom. rewrite H. reflexivity. Qed.

Lemma no_price_zero fixed s d i : iget d (st_infos s) = Some i -> lookup fixed s (i_display i) = None ->
  price_from_denom fixed s d = 0%Z.
Proof. intros H L. unfold price_from_denom. rewrite H, L. reflexivity. Qed.

Lemma lookup_ok_none m a r : lookup_ok m a r -> (forall w, In w m -> p_asset w <> a) -> r = None.
Proof.
  intros (_ & _ & C) N.
  assert (NH : forall q, ~ has m a q) by (intros q (w & Iw & Aw & _); exact (N w Iw Aw)).
  specialize (C (NH ELYS) (NH BAND)). destruct r as [v|]; [|reflexivity].
  destruct C as (I & A & _). exfalso. exact (N v I A).
Qed.

(* ================= refinement of the specification map along histories ================= *)

Definition R (st : store) (m : list price) : Prop := forall v, In v (values st) <-> In v m.

Definition names_inv (names : list (bytes * bytes)) (st : store) : Prop :=
  forall v, In v (values st) -> In (p_asset v, p_source v) names.

Lemma app_assoc4 (a b c d : bytes) : ((a ++ b) ++ c) ++ d = a ++ (b ++ c ++ d).
Proof. rewrite <- !app_assoc. reflexivity. Qed.

Lemma key_inj names a s x a' s' y : sep names -> In (a, s) names -> In (a', s') names ->
  x < U64 -> y < U64 -> price_key_of a s x = price_key_of a' s' y -> a = a' /\ s = s' /\ x = y.
Proof.
  intros SP I I' Hx Hy K. destruct (price_key_of_inj _ _ _ _ _ _ Hx Hy K) as [C ->].
  assert (E : a' = a).
  { apply (SP a s I a' s' [] y I'); [cbn; auto|]. rewrite app_nil_r.
    rewrite app_assoc, <- C, <- app_assoc. apply is_prefix_self_app. }
  subst a'. apply app_inv_head in C. auto.
Qed.

Lemma same_slot_true v w : same_slot v w = true <->
  p_asset v = p_asset w /\ p_source v = p_source w /\ p_ts v = p_ts w.
Proof. unfold same_slot. rewrite !andb_true_iff, !beqb_true, N.eqb_eq. tauto. Qed.

Lemma same_slot_key v w : same_slot v w = true -> price_key w = price_key v.
Proof. intros H. apply same_slot_true in H. destruct H as (A & S & T). unfold price_key. rewrite A, S, T. reflexivity. Qed.

Lemma set_price_R names st m v : sep names -> wf_store st -> names_inv names st ->
  In (p_asset v, p_source v) names -> p_ts v < U64 -> R st m -> R (set_price v st) (spec_feed v m).
Proof.
  intros SP WF NI Iv Tv Rm w. unfold R in Rm. rewrite (set_price_values _ _ WF). unfold spec_feed. cbn [In].
  rewrite filter_In, negb_true_iff, <- (Rm w). split.
  - intros [->|[I N]]; [auto|]. right. split; [exact I|].
    destruct (same_slot v w) eqn:E; [|reflexivity]. exfalso. apply N, same_slot_key, E.
  - intros [->|[I N]]; [auto|]. right. split; [exact I|]. intros K.
    destruct (wf_in_values _ _ WF I) as [_ Tw].
    destruct (key_inj names _ _ _ _ _ _ SP (NI _ I) Iv Tw Tv K) as (A & S & T).
    assert (X : same_slot v w = true) by (apply same_slot_true; auto). congruence.
Qed.

Lemma set_price_names names st v : wf_store st -> names_inv names st ->
  In (p_asset v, p_source v) names -> names_inv names (set_price v st).
Proof.
  intros WF NI Iv w I. apply (set_price_values _ _ WF) in I. destruct I as [->|[I _]]; auto.
Qed.

Lemma fold_set_price_R names s sender : sep names -> forall fs st m,
  wf_store st -> names_inv names st -> Forall (feed_in names) fs -> R st m ->
  let st' := fold_left (fun st f => set_price (mk_price s sender f) st) fs st in
  R st' (fold_left (fun m f => spec_feed (mk_price s sender f) m) fs m) /\ names_inv names st'.
Proof.
  intros SP. induction fs as [|f r IH]; intros st m WF NI FI Rm; cbn [fold_left]; [auto|].
  inversion FI as [|? ? F1 F2]; subst.
  apply IH; auto.
  - apply set_price_wf; [exact WF | apply mk_price_ts].
  - apply set_price_names; auto.
  - eapply set_price_R; eauto. apply mk_price_ts.
Qed.

Lemma authorised_check_ok s sender : authorised s sender = true -> feeder_check s sender = Ok tt.
Proof. unfold feeder_check, authorised. destruct (fget sender (st_feeders s)) as [[|]|]; try discriminate; auto. Qed.

Lemma step_R names s o m : sep names -> Inv s -> names_inv names (st_prices s) -> op_in names o ->
  R (st_prices s) m ->
  R (st_prices (exec s o)) (spec_step s o m) /\ names_inv names (st_prices (exec s o)).
Proof.
  unfold Inv. intros SP WF NI OI Rm.
  destruct o;
    try (rewrite exec_prices_other by reflexivity; cbn [spec_step]; auto; fail).
  - (* feed *)
    cbn [spec_step]. destruct (valid_feed f) eqn:V; cbn [andb].
    + destruct (authorised s sender) eqn:A.
      * assert (E : exec s (OFeed sender f) = with_prices s (set_price (mk_price s sender f) (st_prices s))).
        { unfold exec, run_tx. cbn [step]. unfold guard. rewrite V, (authorised_check_ok _ _ A). reflexivity. }
        rewrite E. cbn [st_prices with_prices]. cbn [op_in] in OI. split.
        -- eapply set_price_R; eauto. apply mk_price_ts.
        -- apply set_price_names; auto.
      * destruct (unauthorised_feed_rejected s (OFeed sender f) sender eq_refl A) as [_ ->]. auto.
    + assert (E : exec s (OFeed sender f) = s) by (unfold exec, run_tx; cbn [step]; unfold guard; rewrite V; reflexivity).
      rewrite E. auto.
  - (* feed multiple *)
    cbn [spec_step].
    destruct (negb match fs with [] => true | _ :: _ => false end && forallb valid_feed fs) eqn:V; cbn [andb].
    + destruct (authorised s sender) eqn:A.
      * assert (E : exec s (OFeedMulti sender fs) =
                    with_prices s (fold_left (fun st f => set_price (mk_price s sender f) st) fs (st_prices s))).
        { unfold exec, run_tx. cbn [step]. unfold guard. rewrite V, (authorised_check_ok _ _ A). reflexivity. }
        rewrite E. cbn [st_prices with_prices]. cbn [op_in] in OI.
        apply fold_set_price_R; auto.
      * destruct (unauthorised_feed_rejected s (OFeedMulti sender fs) sender eq_refl A) as [_ ->]. auto.
    + assert (E : exec s (OFeedMulti sender fs) = s) by (unfold exec, run_tx; cbn [step]; unfold guard; rewrite V; reflexivity).
      rewrite E. auto.
  - (* end of block *)
    rewrite exec_end_block. cbn [st_prices spec_step]. split.
    + intros v. rewrite (end_block_values _ _ _ _ WF), filter_In, <- (Rm v). reflexivity.
    + intros v I. apply (end_block_values _ _ _ _ WF) in I. apply NI, I.
Qed.

Lemma spec_run_refines names : sep names -> forall ops s m,
  Inv s -> names_inv names (st_prices s) -> R (st_prices s) m -> Forall (op_in names) ops ->
  fst (spec_run s m ops) = run s ops /\
  Inv (run s ops) /\ names_inv names (st_prices (run s ops)) /\
  R (st_prices (run s ops)) (snd (spec_run s m ops)).
Proof.
  intros SP. induction ops as [|o r IH]; intros s m WF NI Rm FO; cbn [spec_run run fold_left fst snd]; [auto|].
  inversion FO as [|? ? O1 O2]; subst.
  destruct (step_R names s o m SP WF NI O1 Rm) as [R' N'].
  apply IH; auto. apply exec_inv, WF.
Qed.

(* the scan prefixes of an asked asset capture only its own keys when the names are separated *)
Lemma sep_store_sep names st a : wf_store st -> names_inv names st -> sep_for names a -> store_sep st a.
Proof.
  intros WF NI SF k v q I Iq P.
  assert (Iv : In v (values st)) by (apply in_values; eauto).
  destruct WF as [_ W]. destruct (W _ _ I) as [-> _].
  unfold price_key, price_key_of, key_prefix_asset_source, key_prefix_asset in P.
  rewrite app_assoc4, is_prefix_app_head in P.
  destruct (SF _ _ _ _ (NI _ Iv) Iq P) as [A B]. split; [exact A|]. destruct B as [B|B]; auto.
Qed.

Lemma lookup_refines names ops s m a :
  sep names -> Inv s -> names_inv names (st_prices s) -> R (st_prices s) m -> Forall (op_in names) ops ->
  sep_for names a ->
  lookup_ok (snd (spec_run s m ops)) a (lookup false (fst (spec_run s m ops)) a).
Proof.
  intros SP WF NI Rm FO SF.
  destruct (spec_run_refines names SP ops s m WF NI Rm FO) as (E & WF' & NI' & R').
  rewrite E. unfold lookup. eapply lookup_ok_ext; [exact R'|].
  apply unfixed_lookup_ok; [exact WF'|]. eapply sep_store_sep; eauto.
Qed.

(* ---- the decidable sufficient condition ---- *)

Lemma prefix_slash_free p : forall x y, slash_free p = true ->
  is_prefix p (x ++ SLASH :: y) = true -> is_prefix p x = true.
Proof.
  induction p as [|c r IH]; intros x y SFp P; [reflexivity|].
  cbn [slash_free forallb] in SFp. apply andb_true_iff in SFp. destruct SFp as [Nc SFr].
  destruct x as [|d t]; cbn [app is_prefix] in *.
  - apply andb_true_iff in P. destruct P as [P _]. rewrite P in Nc. discriminate.
  - apply andb_true_iff in P. destruct P as [P1 P2]. rewrite P1. cbn. eapply IH; eauto.
Qed.

Lemma sep_forb_sound names a : sep_forb names a = true -> sep_for names a.
Proof.
  unfold sep_forb. intros H a' s' q ts I Iq P.
  apply andb_true_iff in H. destruct H as [SFa H].
  rewrite forallb_forall in H. specialize (H _ I). cbn beta iota in H.
  rewrite forallb_forall in H. specialize (H _ Iq).
  assert (SFq : slash_free q = true) by (destruct Iq as [<-|[<-|[<-|[]]]]; reflexivity).
  assert (P' : is_prefix (a ++ q) (a' ++ s') = true).
  { rewrite app_assoc in P. eapply prefix_slash_free; [|exact P].
    unfold slash_free. rewrite forallb_app. fold (slash_free a) (slash_free q). rewrite SFa, SFq. reflexivity. }
  rewrite P' in H. cbn [negb orb] in H. apply andb_true_iff in H. destruct H as [H1 H2].
  apply beqb_true in H1. split; [exact H1|].
  apply orb_true_iff in H2. destruct H2 as [H2|H2].
  - left. destruct q; [reflexivity|discriminate].
  - right. apply beqb_true, H2.
Qed.

Lemma sepb_sound names : sepb names = true -> sep names.
Proof.
  unfold sepb. intros H a s I. rewrite forallb_forall in H. apply sep_forb_sound. apply (H (a, s) I).
Qed.

(* ================= the collision, on the model of the code as it is ================= *)

Definition ATM : bytes := [65; 84; 77].
Definition ATMe : bytes := [65; 84; 77; 101].
Definition ATMelys : bytes := [65; 84; 77; 101; 108; 121; 115].
Definition LYS : bytes := [108; 121; 115].

(* one registered, active feeder (account 0); block 2 at t = 1 700 000 000; default parameters *)
Definition w_init : state := mkS [] [(0, true)] [] (mkP 86400 1) 2 1700000000.
Definition w_ops : list op := [OFeed 0 (mkF ATMelys BAND 7000000000000000000%Z)].
(* (ATM, elys) and (ATMe, lys) concatenate to the same key *)
Definition w_ops2 : list op :=
  [OFeed 0 (mkF ATM ELYS 1000000000000000000%Z); OFeed 0 (mkF ATMe LYS 2000000000000000000%Z)].

Lemma prefix_collision_witness :
  let s := fst (spec_run w_init [] w_ops) in
  let m := snd (spec_run w_init [] w_ops) in
  (forall w, In w m -> p_asset w <> ATM) /\
  (exists v, lookup false s ATM = Some v /\ p_asset v = ATMelys /\ p_asset v <> ATM /\
             price_from_denom false (exec s (OCreateInfo [117; 97; 116; 111; 109] ATM 6)) [117; 97; 116; 111; 109]
             = 7000000000000%Z) /\
  lookup true s ATM = None.
Proof.
  vm_compute. split; [|split].
  - intros w [<-|[]]. discriminate.
  - eexists. split; [reflexivity|]. split; [reflexivity|]. split; [discriminate|reflexivity].
  - reflexivity.
Qed.

Lemma key_overwrite_witness :
  let s := fst (spec_run w_init [] w_ops2) in
  let m := snd (spec_run w_init [] w_ops2) in
  has m ATM ELYS /\
  (exists v, lookup false s ATM = Some v /\ p_asset v = ATMe) /\
  lookup true s ATM = None /\
  ~ lookup_ok m ATM (lookup true s ATM).
Proof.
  assert (H : has (snd (spec_run w_init [] w_ops2)) ATM ELYS).
  { vm_compute. eexists. split; [right; left; reflexivity|]. split; reflexivity. }
  split; [exact H|]. split; [|split].
  - vm_compute. eexists. split; reflexivity.
  - vm_compute. reflexivity.
  - intros (A & _). destruct (A H) as (v & E & _). vm_compute in E. discriminate.
Qed.

(* non-vacuity of the side condition: an alphabet of ordinary tickers and sources is separated *)
Definition clean_names : list (bytes * bytes) :=
  let assets := [[65;84;79;77]; [85;83;68;67]; [87;66;84;67]; [69;76;89;83]; [79;83;77;79]; [66;84;67]; [69;84;72]] in
  let sources := [ELYS; BAND; [98;105;110;97;110;99;101]; [99;101;120]] in
  flat_map (fun a => map (fun s => (a, s)) sources) assets.

Lemma clean_names_sep : sepb clean_names = true.
Proof. vm_compute. reflexivity. Qed.

(* ================= statements used by Props/C16.v ================= *)

Lemma inv_empty s : st_prices s = [] -> Inv s.
Proof. unfold Inv. intros ->. apply wf_empty. Qed.

Lemma lookup_refines_from_empty names ops a s0 :
  sep names -> Forall (op_in names) ops -> sep_for names a -> st_prices s0 = [] ->
  let s := fst (spec_run s0 [] ops) in
  let m := snd (spec_run s0 [] ops) in
  s = run s0 ops /\
  (forall v, In v (values (st_prices s)) <-> In v m) /\
  lookup_ok m a (lookup false s a) /\
  ((forall w, In w m -> p_asset w <> a) -> lookup false s a = None).
Proof.
  intros SP FO SF E0. cbv zeta.
  assert (WF : Inv s0) by (apply inv_empty, E0).
  assert (NI : names_inv names (st_prices s0)) by (rewrite E0; intros v []).
  assert (R0 : R (st_prices s0) []) by (rewrite E0; intros v; reflexivity).
  destruct (spec_run_refines names SP ops s0 [] WF NI R0 FO) as (E & WF' & NI' & R').
  pose proof (lookup_refines names ops s0 [] a SP WF NI R0 FO SF) as L.
  split; [exact E|]. split; [rewrite E; exact R'|]. split; [exact L|].
  intros N. eapply lookup_ok_none; eauto.
Qed.

Lemma fixed_lookup_all_names s0 ops a : st_prices s0 = [] ->
  let s := run s0 ops in
  lookup_ok (values (st_prices s)) a (lookup true s a) /\
  ((forall w, In w (values (st_prices s)) -> p_asset w <> a) -> lookup true s a = None).
Proof.
  intros E0. cbv zeta.
  assert (WF : Inv (run s0 ops)) by (apply run_inv, inv_empty, E0).
  assert (L : lookup_ok (values (st_prices (run s0 ops))) a (lookup true (run s0 ops) a))
    by (apply fixed_lookup_ok, WF).
  split; [exact L|]. intros N. eapply lookup_ok_none; eauto.
Qed.

Lemma expiry_from_empty fixed s0 ops dt a v : st_prices s0 = [] ->
  let s := run s0 ops in
  lookup fixed (exec s (OEndBlock dt)) a = Some v ->
  In v (values (st_prices s)) /\
  add64 (p_ts v) (expiry (st_params s)) <? u64 (st_t s) = false /\
  add64 (p_height v) (life (st_params s)) <? u64 (st_h s) = false.
Proof.
  intros E0. cbv zeta. intros H.
  apply expiry_step in H; [|apply run_inv, inv_empty, E0]. destruct H as [I L].
  split; [exact I|]. unfold live, expired_time, expired_height in L.
  apply andb_true_iff in L. destruct L as [L1 L2]. apply negb_true_iff in L1, L2. auto.
Qed.

Lemma feeder_writes s0 ops o : st_prices s0 = [] ->
  let s := run s0 ops in
  (* 1. a feed from anyone who is not registered and active is an error and changes nothing *)
  (forall sender, feed_sender o = Some sender -> authorised s sender = false ->
     (exists c, step s o = Err c) /\ exec s o = s) /\
  (* 2. the price store changes only in a block end or in a feed of a registered, active sender *)
  (st_prices (exec s o) <> st_prices s ->
     is_end_block o = true \/ exists sender, feed_sender o = Some sender /\ authorised s sender = true) /\
  (* 3. every stored price was stored before or is a price of this very message, stamped with the current
        block time and height, whose sender is registered and active *)
  (forall v, In v (values (st_prices (exec s o))) ->
     In v (values (st_prices s)) \/
     exists sender f, authorised s sender = true /\ op_feeds o sender f /\ v = mk_price s sender f) /\
  (* 4. a block end only removes *)
  (is_end_block o = true -> forall v, In v (values (st_prices (exec s o))) -> In v (values (st_prices s))).
Proof.
  intros E0. cbv zeta.
  assert (WF : Inv (run s0 ops)) by (apply run_inv, inv_empty, E0).
  split; [intros sender F A; apply (unauthorised_feed_rejected _ _ _ F A)|].
  split; [apply prices_changed_only_by|].
  split; [intros v I; apply exec_values; assumption|].
  intros B v I. destruct o; try discriminate. rewrite exec_end_block in I. cbn [st_prices] in I.
  apply (end_block_values _ _ _ _ WF) in I. apply I.
Qed.
