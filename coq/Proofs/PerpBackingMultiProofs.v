From Coq Require Import ZArith List Bool Arith Lia.
From Elys Require Import Base.Res Base.Fn Base.Zdec Models.PerpBacking Proofs.PerpBackingProofs Models.PerpBackingMulti.
Import ListNotations.
Open Scope Z_scope.

Definition MInv (assets : nat -> list nat) (f : mbst) : Prop := forall p, Inv (assets p) (f p).

Lemma mb_upd_same f p s : mb_upd f p s p = s.
Proof. unfold mb_upd. rewrite Nat.eqb_refl. reflexivity. Qed.
Lemma mb_upd_other f p s x : x <> p -> mb_upd f p s x = f x.
Proof. intros H. unfold mb_upd. destruct (Nat.eqb_spec x p); [contradiction|reflexivity]. Qed.

Lemma mb_upd_inv assets f p s : MInv assets f -> Inv (assets p) s -> MInv assets (mb_upd f p s).
Proof.
  intros HF HS x. destruct (Nat.eq_dec x p) as [->|Ne]; [rewrite mb_upd_same; exact HS|rewrite mb_upd_other by exact Ne; apply HF].
Qed.

Lemma mhrun_inv assets l : forall f f', MInv assets f -> mhrun assets f l = Ok f' -> MInv assets f'.
Proof.
  induction l as [|[p h] r IH]; intros f f' HI; cbn [mhrun].
  - intros H; inversion H; subst; exact HI.
  - destruct (hstep (assets p) (f p) h) as [s1| |] eqn:E; cbn [bind]; try discriminate.
    intros H. eapply IH; [|exact H]. apply mb_upd_inv; [exact HI|]. eapply hstep_inv; [apply HI|exact E].
Qed.

Lemma mustep_inv assets f u : MInv assets f -> MInv assets (mustep assets f u).
Proof.
  intros HI. destruct u as [l|l]; cbn [mustep].
  - unfold run_tx. destruct (mhrun assets f l) as [f1| |] eqn:E; auto. eapply mhrun_inv; eauto.
  - revert f HI. induction l as [|[p it] r IH]; intros f HI; cbn [fold_left]; [exact HI|].
    apply IH. unfold mitem. cbn [fst snd]. apply mb_upd_inv; [exact HI|]. apply item_atomic_inv. apply HI.
Qed.

(* every pool stays backed over every history of cross-pool transactions and mixed close-positions messages *)
Theorem mbrun_inv assets h : forall f, MInv assets f -> MInv assets (mbrun assets f h).
Proof.
  unfold mbrun. induction h as [|u r IH]; intros f HI; cbn [fold_left]; [exact HI|]. apply IH. apply mustep_inv. exact HI.
Qed.

Lemma mb_empty_inv assets : MInv assets mb_empty.
Proof. intros p. apply b_empty_inv. Qed.

(* ---- the family projects onto the one-pool machine: what the per-pool replay of the harness evaluates ---- *)

(* a transaction that is accepted as a whole is, seen from pool p, the accepted one-pool transaction of its hops on p *)
Lemma mhrun_proj assets p l : forall f f', mhrun assets f l = Ok f' -> hrun (assets p) (f p) (hops_of p l) = Ok (f' p).
Proof.
  induction l as [|[q h] r IH]; intros f f'; cbn [mhrun].
  - intros H; inversion H; subst; reflexivity.
  - destruct (hstep (assets q) (f q) h) as [s1| |] eqn:E; cbn [bind]; try discriminate.
    intros H. specialize (IH _ _ H). unfold hops_of in *. cbn [filter fst]. destruct (Nat.eqb_spec q p) as [->|Ne].
    + cbn [map snd hrun]. rewrite E. cbn [bind]. rewrite mb_upd_same in IH. exact IH.
    + rewrite mb_upd_other in IH by congruence. exact IH.
Qed.

(* a mixed close-positions message is, seen from pool p, the message of its items on p *)
Lemma mitems_proj assets p l : forall f,
  fold_left (mitem assets) l f p = fold_left (item_atomic (assets p)) (items_of p l) (f p).
Proof.
  induction l as [|[q it] r IH]; intros f; cbn [fold_left]; [reflexivity|].
  rewrite IH. unfold items_of, mitem. cbn [filter fst snd]. destruct (Nat.eqb_spec q p) as [->|Ne].
  - cbn [map snd fold_left]. rewrite mb_upd_same. reflexivity.
  - rewrite mb_upd_other by congruence. reflexivity.
Qed.

(* a rejected transaction leaves every pool as it was *)
Lemma mutx_rejected assets f l : is_ok (mhrun assets f l) = false -> mustep assets f (MUTx l) = f.
Proof. cbn [mustep]. unfold run_tx. destruct (mhrun assets f l); cbn; [discriminate|reflexivity|reflexivity]. Qed.
