(* C08, exactness and frame of one leveraged-LP step: the pool total moves by exactly the signed amount of the acting
   position, no other position's amount or committed shares move, a close above what is committed at the position's
   address is refused without effect, a full close removes the position and lowers the counter by one.
   Model: Models/LevLedger.v. Proofs only; statements restated in Props/C08.v. *)
From Coq Require Import ZArith List Bool Arith Lia.
From Elys Require Import Base.Res Base.Fn Models.SumLedger Proofs.SumLedgerProofs Models.LevLedger Proofs.LevLedgerProofs.
Import ListNotations.
Open Scope Z_scope.

Definition pos_key (o : lop) : nat := match o with LOpen k _ | LClose k _ => k end.
Definition pos_delta (o : lop) : Z := match o with LOpen _ a => a | LClose _ a => - a end.

Lemma lstep_exact s o s' : lstep s o = Ok s' ->
  total (l_sl s') = total (l_sl s) + pos_delta o /\
  l_comm s' (pos_key o) = l_comm s (pos_key o) + pos_delta o /\
  (forall k, k <> pos_key o -> parts (l_sl s') k = parts (l_sl s) k /\ l_comm s' k = l_comm s k).
Proof.
  destruct o as [k a|k a]; cbn [lstep pos_key pos_delta]; intros E.
  - match type of E with (do t <- ?X; _) = _ => destruct X as [t| |] eqn:E1 end; cbn [bind] in E; try discriminate.
    inversion E; subst; clear E. cbn [l_sl l_comm]. rewrite upd_same.
    destruct (mem_key k (keys (l_sl s))) eqn:M; cbn [sstep] in E1; rewrite M in E1; cbn [negb] in E1;
      (destruct (a <? 0); [discriminate|]); inversion E1; subst; clear E1; cbn [parts keys total];
      (split; [lia|]); (split; [lia|]); intros k' Hk; rewrite !upd_other by exact Hk; split; reflexivity.
  - destruct (l_comm s k <? a); [discriminate|].
    match type of E with (do t <- ?X; _) = _ => destruct X as [t| |] eqn:E1 end; cbn [bind] in E; try discriminate.
    match type of E with (do t' <- ?X; _) = _ => destruct X as [t'| |] eqn:E2 end; cbn [bind] in E; try discriminate.
    inversion E; subst; clear E. cbn [l_sl l_comm]. rewrite upd_same.
    cbn [sstep] in E1. destruct (negb (mem_key k (keys (l_sl s)))); [discriminate|].
    destruct ((a <? 0) || (parts (l_sl s) k <? a)); [discriminate|]. inversion E1; subst; clear E1.
    assert (T : total t' = total (l_sl s) - a /\ forall k', parts t' k' = upd (parts (l_sl s)) k (parts (l_sl s) k - a) k').
    { cbn [parts] in E2. destruct (upd (parts (l_sl s)) k (parts (l_sl s) k - a) k =? 0).
      - cbn [sstep keys parts] in E2.
        destruct (negb (mem_key k (keys (l_sl s)))); [discriminate|].
        destruct (negb (upd (parts (l_sl s)) k (parts (l_sl s) k - a) k =? 0)); [discriminate|].
        inversion E2; subst; clear E2. cbn. split; [reflexivity|]. intros; reflexivity.
      - inversion E2; subst; clear E2. cbn. split; [reflexivity|]. intros; reflexivity. }
    destruct T as (T1 & T2). split; [lia|]. split; [lia|].
    intros k' Hk. rewrite T2, !upd_other by exact Hk. split; reflexivity.
Qed.

(* a close above what is committed at the position's address is refused ... *)
Lemma lclose_beyond_committed_refused s k a : l_comm s k < a -> lstep s (LClose k a) = Err E_negative.
Proof. intros H. cbn [lstep]. assert (L : (l_comm s k <? a) = true) by (apply Z.ltb_lt; exact H). rewrite L. reflexivity. Qed.

(* ... and a refused item changes nothing (each item runs on a cache context written only on success) *)
Lemma lexec_failed_unchanged s o : (forall s', lstep s o <> Ok s') -> lexec s o = s.
Proof.
  intros H. unfold lexec, run_tx. destruct (lstep s o) as [s'| |] eqn:E; [exfalso; exact (H s' eq_refl)|reflexivity|reflexivity].
Qed.

Lemma lclose_beyond_committed_no_effect s k a : l_comm s k < a -> lexec s (LClose k a) = s.
Proof. intros H. apply lexec_failed_unchanged. intros s' E. rewrite (lclose_beyond_committed_refused s k a H) in E. discriminate. Qed.

(* over histories: a position no item names keeps its amount and its committed shares *)
Lemma lrun_other_positions h : forall s k, (forall o, In o h -> pos_key o <> k) ->
  parts (l_sl (lrun s h)) k = parts (l_sl s) k /\ l_comm (lrun s h) k = l_comm s k.
Proof.
  induction h as [|o r IH]; intros s k Hk; [split; reflexivity|].
  unfold lrun. cbn [fold_left]. fold (lrun (lexec s o) r).
  destruct (IH (lexec s o) k (fun o' Ho' => Hk o' (or_intror Ho'))) as (A & B). rewrite A, B.
  unfold lexec, run_tx. destruct (lstep s o) as [s'| |] eqn:E; try (split; reflexivity).
  destruct (lstep_exact _ _ _ E) as (_ & _ & F).
  apply F. intros ->. exact (Hk o (or_introl eq_refl) eq_refl).
Qed.

(* the result of a close of exactly the position's amount, computed *)
Lemma lstep_full_close s k : In k (keys (l_sl s)) -> l_comm s k = parts (l_sl s) k -> 0 < parts (l_sl s) k ->
  lstep s (LClose k (parts (l_sl s) k)) =
  Ok (mkLev (mkSL (upd (parts (l_sl s)) k (parts (l_sl s) k - parts (l_sl s) k)) (remove_key k (keys (l_sl s)))
                  (total (l_sl s) - parts (l_sl s) k) (count (l_sl s) - 1))
            (upd (l_comm s) k (l_comm s k - parts (l_sl s) k))).
Proof.
  intros Hin Hc Hpos. set (a := parts (l_sl s) k) in *. cbn [lstep].
  assert (L : (l_comm s k <? a) = false) by (apply Z.ltb_ge; lia). rewrite L.
  assert (M : mem_key k (keys (l_sl s)) = true) by (apply mem_key_In; exact Hin).
  assert (L2 : ((a <? 0) || (parts (l_sl s) k <? a)) = false).
  { apply orb_false_iff. split; apply Z.ltb_ge; unfold a; lia. }
  cbn [sstep]. rewrite M. cbn [negb]. rewrite L2. cbn [bind parts keys].
  rewrite upd_same. assert (Z0 : (parts (l_sl s) k - a =? 0) = true) by (apply Z.eqb_eq; unfold a; lia). rewrite Z0.
  cbn [sstep keys parts]. rewrite M. cbn [negb bind total count]. reflexivity.
Qed.

(* a close of exactly the position's amount removes the position: it is no longer stored, nothing stays committed at
   its address, and the counter drops by exactly one *)
Lemma full_close_removes s k : LInv s -> In k (keys (l_sl s)) ->
  let s' := lexec s (LClose k (parts (l_sl s) k)) in
  ~ In k (keys (l_sl s')) /\ l_comm s' k = 0 /\ count (l_sl s') = count (l_sl s) - 1 /\
  total (l_sl s') = total (l_sl s) - parts (l_sl s) k.
Proof.
  intros HI Hin. cbv zeta. destruct HI as (HS & HC & HN). destruct (HC k Hin) as (Hc & Hpos).
  unfold lexec, run_tx. rewrite (lstep_full_close s k Hin Hc Hpos). cbn [l_sl l_comm keys count total].
  rewrite upd_same. destruct HS as (ND & _).
  destruct (remove_key_spec k (keys (l_sl s)) ND Hin) as (_ & R2 & _).
  split; [intros Hx; apply R2 in Hx; destruct Hx as [_ Hx]; apply Hx; reflexivity|].
  split; [lia|]. split; reflexivity.
Qed.
