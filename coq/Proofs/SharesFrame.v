(* C02, per-account exactness and frame: a join / exit changes the committed shares of the acting account by exactly the
   amount and nobody else's; an exit above the account's committed shares is refused and changes nothing.
   Model: Models/Shares.v over Models/SumLedger.v. Proofs only; statements restated in Props/C02.v. *)
From Coq Require Import ZArith List Bool Arith Lia.
From Elys Require Import Base.Res Base.Fn Models.SumLedger Proofs.SumLedgerProofs Models.Shares Proofs.SharesProofs.
Import ListNotations.
Open Scope Z_scope.

Definition sh_acct (o : shop) : nat := match o with ShJoin k _ | ShExit k _ => k end.
Definition sh_delta (o : shop) : Z := match o with ShJoin _ a => a | ShExit _ a => - a end.

(* a successful step: the acting account's committed shares move by exactly the signed amount (an account not yet
   stored counts as holding [parts] = whatever the store function returns, 0 on reachable states), total, TotalShares
   and custody move by the same amount, every other account is untouched *)
Lemma shstep_exact s o s' : shstep s o = Ok s' ->
  (In (sh_acct o) (keys (sh_sl s)) -> parts (sh_sl s') (sh_acct o) = parts (sh_sl s) (sh_acct o) + sh_delta o) /\
  (~ In (sh_acct o) (keys (sh_sl s)) -> parts (sh_sl s') (sh_acct o) = sh_delta o) /\
  (forall k, k <> sh_acct o -> parts (sh_sl s') k = parts (sh_sl s) k) /\
  total (sh_sl s') = total (sh_sl s) + sh_delta o /\
  sh_tshares s' = sh_tshares s + sh_delta o /\
  sh_custody s' = sh_custody s + sh_delta o /\
  In (sh_acct o) (keys (sh_sl s')).
Proof.
  destruct o as [k a|k a]; cbn [shstep sh_acct sh_delta]; intros E.
  - unfold sh_join, guard in E. destruct (0 <? a); [|discriminate].
    match type of E with (do t <- ?X; _) = _ => destruct X as [t| |] eqn:E1 end; cbn [bind] in E; try discriminate.
    inversion E; subst; clear E. cbn [sh_sl sh_tshares sh_custody].
    destruct (mem_key k (keys (sh_sl s))) eqn:M; cbn [sstep] in E1; rewrite M in E1; cbn [negb] in E1;
      (destruct (a <? 0); [discriminate|]); inversion E1; subst; clear E1; cbn [parts keys total].
    + apply mem_key_In in M. repeat split; try lia.
      * intros _. apply upd_same.
      * intros Hn. contradiction.
      * intros k' Hk. apply upd_other. exact Hk.
      * exact M.
    + assert (Hn : ~ In k (keys (sh_sl s))) by (intros Hin; apply mem_key_In in Hin; congruence).
      repeat split; try lia.
      * intros Hin. contradiction.
      * intros _. apply upd_same.
      * intros k' Hk. apply upd_other. exact Hk.
      * left. reflexivity.
  - unfold sh_exit, guard in E. destruct (0 <? a); [|discriminate].
    destruct (0 <=? sh_tshares s - a); [|discriminate].
    match type of E with (do t <- ?X; _) = _ => destruct X as [t| |] eqn:E1 end; cbn [bind] in E; try discriminate.
    destruct (a <=? sh_custody s); [|discriminate]. inversion E; subst; clear E. cbn [sh_sl sh_tshares sh_custody].
    cbn [sstep] in E1. destruct (mem_key k (keys (sh_sl s))) eqn:M; cbn [negb] in E1; [|discriminate].
    destruct ((a <? 0) || (parts (sh_sl s) k <? a)); [discriminate|]. inversion E1; subst; clear E1. cbn [parts keys total].
    apply mem_key_In in M. repeat split; try lia.
    + intros _. rewrite upd_same. lia.
    + intros Hn. contradiction.
    + intros k' Hk. apply upd_other. exact Hk.
    + exact M.
Qed.

(* an exit above what the account has committed is refused ... *)
Lemma sh_exit_beyond_committed_refused s k a :
  parts (sh_sl s) k < a -> exists c, shstep s (ShExit k a) = Err c.
Proof.
  intros H. cbn [shstep]. unfold sh_exit, guard. destruct (0 <? a) eqn:A; [|eexists; reflexivity].
  destruct (0 <=? sh_tshares s - a); [|eexists; reflexivity].
  cbn [sstep]. destruct (mem_key k (keys (sh_sl s))); cbn [negb]; [|eexists; reflexivity].
  assert (L : (parts (sh_sl s) k <? a) = true) by (apply Z.ltb_lt; exact H).
  rewrite L, orb_true_r. eexists; reflexivity.
Qed.

(* ... and a refused step changes nothing at all *)
Lemma shexec_failed_unchanged s o : (forall s', shstep s o <> Ok s') -> shexec s o = s.
Proof.
  intros H. unfold shexec, run_tx. destruct (shstep s o) as [s'| |] eqn:E; [exfalso; exact (H s' eq_refl)|reflexivity|reflexivity].
Qed.

Lemma sh_exit_beyond_committed_no_effect s k a : parts (sh_sl s) k < a -> shexec s (ShExit k a) = s.
Proof.
  intros H. apply shexec_failed_unchanged. intros s' E.
  destruct (sh_exit_beyond_committed_refused s k a H) as (c & Ec). congruence.
Qed.

(* over histories: an account that never acts keeps exactly its committed shares *)
Lemma shrun_other_accounts h : forall s k, (forall o, In o h -> sh_acct o <> k) ->
  parts (sh_sl (shrun s h)) k = parts (sh_sl s) k.
Proof.
  induction h as [|o r IH]; intros s k Hk; [reflexivity|].
  unfold shrun. cbn [fold_left]. fold (shrun (shexec s o) r).
  rewrite (IH (shexec s o) k (fun o' Ho' => Hk o' (or_intror Ho'))).
  unfold shexec, run_tx. destruct (shstep s o) as [s'| |] eqn:E; try reflexivity.
  destruct (shstep_exact _ _ _ E) as (_ & _ & F & _).
  apply F. intros ->. exact (Hk o (or_introl eq_refl) eq_refl).
Qed.
