(* Bounds on the fixed-point power function Pow of x/amm/types (model: Models/AmmSwap.v [pow]) - part 2:
   range / monotonicity facts of the FRACTIONAL path that hold for every exponent:
     - ApproxSqrt (Newton iteration with rounding) on d >= 1 returns a value in [1, d];
     - maclaurinSeriesApproximation on a base in [1,2) is an alternating series with non-increasing terms:
       every partial sum lies in [1, base];
     - on a base in (0,1) every term is subtracted: every partial sum is <= 1;
   and what they give for Pow as a whole. The ln/exp method (bases outside [0.5,2) with a fractional exponent other
   than 1/2) is NOT covered. *)
From Coq Require Import ZArith List Bool Lia.
From Elys Require Import Base.Res Base.Zdec Models.AmmSwap Proofs.AmmSwapProofs Proofs.AmmSwapProofs2 Proofs.PowBounds.
Import ListNotations.
Open Scope Z_scope.

(* ---------- plumbing for fuelled loops whose step is [lift (do ...)] ---------- *)
Definition okP {A} (Q : A -> Prop) (r : res A) : Prop := match r with Ok v => Q v | _ => True end.
Definition lpP {S A} (I : S -> Prop) (Q : A -> Prop) (r : lp S (res A)) : Prop :=
  match r with Cont s => I s | Done r => okP Q r end.

Lemma lift_bind {S A X} (I : S -> Prop) (Q : A -> Prop) (r : res X) (k : X -> res (lp S (res A))) :
  (forall x, r = Ok x -> lpP I Q (lift (k x))) -> lpP I Q (lift (bind r k)).
Proof. intros H. destruct r as [x|c|c]; simpl; [apply H; reflexivity|exact Logic.I|exact Logic.I]. Qed.

Lemma run_loop_okP {S A} (I : S -> Prop) (Q : A -> Prop) (f : S -> lp S (res A)) p s v :
  (forall s, I s -> lpP I Q (f s)) -> I s -> run_loop p f s = Ok v -> Q v.
Proof.
  intros Hf Hs H.
  exact (run_loop_inv I (okP Q) f p s v Hf Hs H).
Qed.

(* ---------- more facts about Quo ---------- *)
Lemma dquo_one_r a : dquo a PREC = a.
Proof.
  unfold dquo. pose proof PREC_pos.
  replace (a * PREC * PREC) with (a * PREC * PREC) by ring.
  rewrite Z.quot_mul by lia. apply chop_round_mult.
Qed.

Lemma dquo_scale a i : 0 < i -> dquo (a * i) (i * PREC) = a.
Proof.
  intros Hi. unfold dquo. pose proof PREC_pos.
  replace (a * i * PREC * PREC) with (a * PREC * (i * PREC)) by ring.
  rewrite Z.quot_mul by nia. apply chop_round_mult.
Qed.

Lemma dquo_mono_num a b c : 0 <= a <= b -> 0 < c -> dquo a c <= dquo b c.
Proof.
  intros Hab Hc. unfold dquo. pose proof PREC_pos. apply chop_round_mono.
  assert (0 <= a * PREC * PREC <= b * PREC * PREC) by nia.
  split; [apply Z.quot_pos; lia|apply Z.quot_le_mono; lia].
Qed.

Lemma dquo_anti_den a c d : 0 <= a -> 0 < c <= d -> dquo a d <= dquo a c.
Proof.
  intros Ha Hcd. unfold dquo. pose proof PREC_pos. apply chop_round_mono.
  assert (0 <= a * PREC * PREC) by nia.
  split; [apply Z.quot_pos; lia|apply Z.quot_le_compat_l; lia].
Qed.

Lemma dmul_int_r x i : dmul x (i * PREC) = i * x.
Proof. rewrite dmul_comm. apply dmul_int_l. Qed.

Lemma quot2_nonneg z : 0 <= z -> 0 <= Z.quot z 2 <= z.
Proof. intros H. rewrite Z.quot_div_nonneg by lia. split; [apply Z.div_pos; lia|]. apply Z.div_le_upper_bound; lia. Qed.

Lemma quot2_neg z : z <= 0 -> z <= 2 * Z.quot z 2 /\ Z.quot z 2 <= 0.
Proof.
  intros H. replace z with (- (- z)) by ring. rewrite Z.quot_opp_l by lia.
  rewrite Z.quot_div_nonneg by lia.
  pose proof (Z.div_mod (- z) 2 ltac:(lia)). pose proof (Z.mod_pos_bound (- z) 2 ltac:(lia)).
  assert (0 <= - z / 2) by (apply Z.div_pos; lia). lia.
Qed.

(* ---------- ApproxSqrt on d >= 1 ---------- *)
Lemma power_one g v : power g 1 = Ok v -> v = g.
Proof. unfold power, power_loop. intros H. apply cmul_ok in H. unfold ONE in H. now rewrite dmul_one_r in H. Qed.

Lemma sqrt_newton_lb d g : PREC <= d -> PREC <= g -> PREC <= g + Z.quot (dquo d g - g) 2.
Proof.
  intros Hd Hg. pose proof PREC_pos as HP. pose proof HALF_PREC as HH.
  set (q := dquo d g).
  destruct (Z_le_gt_dec g q) as [L|G].
  - destruct (quot2_nonneg (q - g) ltac:(lia)). lia.
  - destruct (quot2_neg (q - g) ltac:(lia)) as [N1 N2].
    set (g' := g + Z.quot (q - g) 2) in *.
    assert (S2 : g + q <= 2 * g') by (unfold g'; lia).
    destruct (dquo_bounds d g ltac:(lia) ltac:(lia)) as [Q0 [Q1 _]]. fold q in Q0, Q1.
    destruct (Z_le_gt_dec PREC g') as [K|K]; [exact K|exfalso].
    assert (Hq : q <= 2 * PREC - 2 - g) by lia.
    assert (HPg : 0 < PREC * g) by (apply Z.mul_pos_pos; lia).
    assert (E1 : q * (PREC * g) <= (2 * PREC - 2 - g) * (PREC * g)) by (apply Z.mul_le_mono_nonneg_r; lia).
    assert (E2 : PREC * (PREC * PREC) <= d * (PREC * PREC)) by (apply Z.mul_le_mono_nonneg_r; [apply Z.mul_nonneg_nonneg|]; lia).
    assert (E3 : 0 <= PREC * ((g - PREC) * (g - PREC))) by (apply Z.mul_nonneg_nonneg; [lia|apply Z.square_nonneg]).
    assert (E4 : 0 < (2 * PREC - 1 - HALF) * g) by (apply Z.mul_pos_pos; lia).
    replace (q * PREC * g) with (q * (PREC * g)) in Q1 by ring.
    replace (d * PREC * PREC) with (d * (PREC * PREC)) in Q1 by ring.
    replace ((2 * PREC - 2 - g) * (PREC * g)) with (2 * (PREC * PREC * g) - 2 * (PREC * g) - PREC * (g * g)) in E1 by ring.
    replace (PREC * ((g - PREC) * (g - PREC))) with (PREC * (g * g) - 2 * (PREC * PREC * g) + PREC * (PREC * PREC)) in E3 by ring.
    replace ((2 * PREC - 1 - HALF) * g) with (2 * (PREC * g) - g - HALF * g) in E4 by ring.
    lia.
Qed.

Lemma sqrt_newton_ub d g : PREC <= d -> PREC <= g <= d -> g + Z.quot (dquo d g - g) 2 <= d.
Proof.
  intros Hd Hg. pose proof PREC_pos as HP.
  assert (Hq : dquo d g <= d).
  { rewrite <- (dquo_one_r d) at 2. apply dquo_anti_den; lia. }
  set (q := dquo d g) in *.
  destruct (Z_le_gt_dec g q) as [L|G].
  - destruct (quot2_nonneg (q - g) ltac:(lia)). lia.
  - destruct (quot2_neg (q - g) ltac:(lia)). lia.
Qed.

Lemma sqrt_step_inv d : PREC <= d -> forall st,
  (PREC <= snd st <= d) ->
  lpP (fun st : Z * Z => PREC <= snd st <= d) (fun v => PREC <= v <= d) (sqrt_step d st).
Proof.
  intros Hd [iter g] Hg. simpl in Hg. pose proof PREC_pos as HP. unfold sqrt_step.
  destruct (ROOT_ITER <=? iter); [exact Hg|].
  apply lift_bind. intros prev0 E0. apply power_one in E0. subst prev0.
  destruct (g =? 0) eqn:Eg; [apply Z.eqb_eq in Eg; lia|].
  apply lift_bind. intros q Eq. apply cquo_ok in Eq. destruct Eq as [_ Eq].
  apply lift_bind. intros dl Edl. apply csub_ok in Edl.
  cbv zeta.
  apply lift_bind. intros g' Eg'. apply cadd_ok in Eg'.
  assert (R : PREC <= g' <= d).
  { subst g' dl q. split; [apply sqrt_newton_lb; lia|apply sqrt_newton_ub; lia]. }
  cbn [lift]. destruct (Z.abs (Z.quot dl 2) <=? 1); exact R.
Qed.

Lemma approx_sqrt_range d v : PREC <= d -> approx_sqrt d = Ok v -> PREC <= v <= d.
Proof.
  intros Hd H. unfold approx_sqrt in H.
  destruct (d =? ONE); [inversion H; lia|].
  refine (run_loop_okP (fun st : Z * Z => PREC <= snd st <= d) (fun v => PREC <= v <= d) _ _ _ _
            (sqrt_step_inv d Hd) _ H).
  simpl. unfold ONE. lia.
Qed.

(* ---------- maclaurinSeriesApproximation on a base in [1, 2): alternating, non-increasing terms ---------- *)
Lemma even_pred_flip i : Z.even i = negb (Z.even (i - 1)).
Proof.
  replace i with (Z.succ (i - 1)) at 1 by lia. rewrite Z.even_succ. now rewrite <- Z.negb_even.
Qed.

Section MacGeOne.
  Variables y e : Z.
  Hypothesis Hy : PREC <= y < TWO.
  Hypothesis He : 0 < e < PREC.
  Let x := y - PREC.

  Definition mac_inv1 (st : Z * Z * Z * bool) : Prop :=
    let '(i, term, sum, neg) := st in
    1 <= i /\ 0 <= term /\ PREC <= sum <= y /\
    ((i = 1 /\ term = ONE /\ sum = ONE /\ neg = false) \/
     (2 <= i /\ neg = Z.even (i - 1) /\ (neg = false -> PREC <= sum - term) /\ (neg = true -> sum + term <= y))).

  Lemma mac_term_le i term c : 2 <= i -> 0 <= term -> 0 <= c <= (i - 1) * PREC ->
    0 <= dquo (dmul (dmul term c) x) (i * PREC) <= term.
  Proof.
    intros Hi Ht Hc. pose proof PREC_pos as HP. unfold TWO in Hy.
    assert (Hx : 0 <= x <= PREC) by (unfold x; lia).
    assert (T1 : 0 <= dmul term c <= (i - 1) * term).
    { split; [apply dmul_nonneg; lia|]. rewrite <- (dmul_int_r term (i - 1)). apply dmul_mono; lia. }
    assert (T2 : 0 <= dmul (dmul term c) x <= dmul term c) by (apply dmul_le_l; lia).
    assert (HiP : 0 < i * PREC) by nia.
    split; [apply dquo_nonneg; lia|].
    rewrite <- (dquo_scale term i) at 2 by lia. apply dquo_mono_num; [|exact HiP]. nia.
  Qed.

  Lemma mac_step_inv1 st : mac_inv1 st -> lpP mac_inv1 (fun v => PREC <= v <= y) (mac_step x false e st).
  Proof.
    destruct st as [[[i term] sum] neg]. intros (Hi & Ht & Hs & Hc).
    pose proof PREC_pos as HP. unfold TWO in Hy.
    assert (Hx : 0 <= x <= PREC) by (unfold x; lia).
    unfold mac_step. destruct (term <? POW_PRECISION); [exact Hs|]. cbv zeta.
    destruct Hc as [(-> & -> & -> & ->)|(Hi2 & Hneg & Hf & Ht')].
    - (* first term: + e*x *)
      replace ((1 - 1) * PREC) with 0 by ring.
      destruct (0 <=? e) eqn:E0; [|apply Z.leb_gt in E0; lia]. cbv beta iota.
      apply lift_bind. intros t1 E1. apply cmul_ok in E1. unfold ONE in E1. rewrite dmul_one_l in E1.
      apply lift_bind. intros t2 E2. apply cmul_ok in E2.
      apply lift_bind. intros t3 E3. apply cquo_ok in E3. destruct E3 as [_ E3].
      rewrite Z.mul_1_l, dquo_one_r in E3.
      assert (B : 0 <= t3 <= x).
      { subst t3 t2 t1. replace (e - 0) with e by ring. rewrite dmul_comm. apply dmul_le_l; lia. }
      destruct (t3 =? 0); [cbn [lift]; exact Hs|].
      cbv beta iota.
      apply lift_bind. intros s Es. apply cadd_ok in Es.
      change (1 =? POW_ITER_LIMIT) with false. cbn [lift].
      unfold mac_inv1. unfold ONE in Es.
      split; [lia|]. split; [lia|]. split; [unfold x in B; lia|]. right.
      split; [lia|]. split; [reflexivity|]. split; [intros _; lia|discriminate].
    - (* later terms: c = (i-1) - e, the sign flips *)
      destruct ((i - 1) * PREC <=? e) eqn:E0; [apply Z.leb_le in E0; nia|]. cbv beta iota.
      assert (Hcr : 0 <= (i - 1) * PREC - e <= (i - 1) * PREC) by nia.
      pose proof (mac_term_le i term ((i - 1) * PREC - e) Hi2 Ht Hcr) as B.
      apply lift_bind. intros t1 E1. apply cmul_ok in E1.
      apply lift_bind. intros t2 E2. apply cmul_ok in E2.
      apply lift_bind. intros t3 E3. apply cquo_ok in E3. destruct E3 as [_ E3].
      rewrite <- E1 in B. rewrite <- E2 in B. rewrite <- E3 in B.
      destruct (t3 =? 0); [cbn [lift]; exact Hs|].
      destruct neg; cbn [negb].
      + apply lift_bind. intros s Es. apply csub_ok in Es || apply cadd_ok in Es.
        destruct (i =? POW_ITER_LIMIT); cbn [lift]; [exact I|].
        unfold mac_inv1. specialize (Ht' eq_refl).
        split; [lia|]. split; [lia|]. split; [lia|]. right.
        split; [lia|]. split; [|split; [intros _; lia|discriminate]].
        replace (i + 1 - 1) with i by ring. rewrite even_pred_flip, <- Hneg. reflexivity.
      + apply lift_bind. intros s Es. apply csub_ok in Es || apply cadd_ok in Es.
        destruct (i =? POW_ITER_LIMIT); cbn [lift]; [exact I|].
        unfold mac_inv1. specialize (Hf eq_refl).
        split; [lia|]. split; [lia|]. split; [lia|]. right.
        split; [lia|]. split; [|split; [discriminate|intros _; lia]].
        replace (i + 1 - 1) with i by ring. rewrite even_pred_flip, <- Hneg. reflexivity.
  Qed.

  Lemma maclaurin_ge_one v : maclaurin y e = Ok v -> PREC <= v <= y.
  Proof.
    intros H. unfold maclaurin in H. unfold TWO in Hy.
    destruct (ONE <=? y) eqn:E1; [|apply Z.leb_gt in E1; unfold ONE in E1; lia].
    cbv beta iota in H. unfold ONE in H at 1. fold x in H.
    refine (run_loop_okP mac_inv1 (fun v => PREC <= v <= y) _ _ _ _ mac_step_inv1 _ H).
    unfold mac_inv1, ONE. split; [lia|]. split; [pose proof PREC_pos; lia|]. split; [lia|]. left. repeat split.
  Qed.
End MacGeOne.

(* ---------- maclaurinSeriesApproximation on a base in (0, 1): every term is subtracted ---------- *)
Section MacLeOne.
  Variables y e : Z.
  Hypothesis Hy : 0 < y < PREC.
  Hypothesis He : 0 < e < PREC.
  Let x := PREC - y.

  Definition mac_inv0 (st : Z * Z * Z * bool) : Prop :=
    let '(i, term, sum, neg) := st in
    1 <= i /\ 0 <= term /\ sum <= PREC /\ ((i = 1 /\ neg = false) \/ (2 <= i /\ neg = true)).

  Lemma mac_step_inv0 st : mac_inv0 st -> lpP mac_inv0 (fun v => v <= PREC) (mac_step x true e st).
  Proof.
    destruct st as [[[i term] sum] neg]. intros (Hi & Ht & Hs & Hc).
    pose proof PREC_pos as HP.
    assert (Hx : 0 <= x <= PREC) by (unfold x; lia).
    unfold mac_step. destruct (term <? POW_PRECISION); [exact Hs|]. cbv zeta.
    assert (HiP : 0 < i * PREC) by nia.
    destruct Hc as [(-> & ->)|(Hi2 & ->)].
    - replace ((1 - 1) * PREC) with 0 by ring.
      destruct (0 <=? e) eqn:E0; [|apply Z.leb_gt in E0; lia]. cbv beta iota.
      apply lift_bind. intros t1 E1. apply cmul_ok in E1.
      apply lift_bind. intros t2 E2. apply cmul_ok in E2.
      apply lift_bind. intros t3 E3. apply cquo_ok in E3. destruct E3 as [_ E3].
      assert (B : 0 <= t3).
      { subst t3 t2 t1. apply dquo_nonneg; [|lia]. apply dmul_nonneg; [|lia]. apply dmul_nonneg; lia. }
      destruct (t3 =? 0); [cbn [lift]; exact Hs|].
      cbn [negb].
      apply lift_bind. intros s Es. apply csub_ok in Es.
      change (1 =? POW_ITER_LIMIT) with false. cbn [lift].
      unfold mac_inv0. split; [lia|]. split; [lia|]. split; [lia|]. right. split; [lia|reflexivity].
    - destruct ((i - 1) * PREC <=? e) eqn:E0; [apply Z.leb_le in E0; nia|]. cbv beta iota.
      apply lift_bind. intros t1 E1. apply cmul_ok in E1.
      apply lift_bind. intros t2 E2. apply cmul_ok in E2.
      apply lift_bind. intros t3 E3. apply cquo_ok in E3. destruct E3 as [_ E3].
      assert (B : 0 <= t3).
      { subst t3 t2 t1. apply dquo_nonneg; [|lia]. apply dmul_nonneg; [|lia]. apply dmul_nonneg; [lia|nia]. }
      destruct (t3 =? 0); [cbn [lift]; exact Hs|].
      cbn [negb].
      apply lift_bind. intros s Es. apply csub_ok in Es.
      destruct (i =? POW_ITER_LIMIT); cbn [lift]; [exact I|].
      unfold mac_inv0. split; [lia|]. split; [lia|]. split; [lia|]. right. split; [lia|reflexivity].
  Qed.

  Lemma maclaurin_le_one v : maclaurin y e = Ok v -> v <= PREC.
  Proof.
    intros H. unfold maclaurin in H.
    destruct (ONE <=? y) eqn:E1; [apply Z.leb_le in E1; unfold ONE in E1; lia|].
    cbv beta iota in H. unfold ONE in H at 1. fold x in H.
    refine (run_loop_okP mac_inv0 (fun v => v <= PREC) _ _ _ _ mac_step_inv0 _ H).
    unfold mac_inv0, ONE. split; [lia|]. split; [pose proof PREC_pos; lia|]. split; [lia|]. left. split; reflexivity.
  Qed.
End MacLeOne.

(* ---------- Pow as a whole ---------- *)
Lemma trunc_dec_nonneg e : 0 <= e ->
  trunc_int (trunc_dec e) = Z.quot e PREC /\ 0 <= Z.quot e PREC /\ e - trunc_dec e = Z.rem e PREC /\ 0 <= Z.rem e PREC < PREC.
Proof.
  intros He. pose proof PREC_pos as HP. unfold trunc_dec, chop_trunc. rewrite trunc_int_mult.
  pose proof (Z.quot_rem' e PREC). pose proof (Z.rem_bound_pos e PREC He HP).
  assert (0 <= Z.quot e PREC) by (apply Z.quot_pos; lia). repeat split; lia.
Qed.

Lemma pow_shape y e pw : 0 <= e -> pow y e = Ok pw ->
  0 < y /\ exists ip, power y (Z.quot e PREC) = Ok ip /\
    ((Z.rem e PREC = 0 /\ pw = ip) \/
     (Z.rem e PREC <> 0 /\ exists fp, power_approx y (Z.rem e PREC) = Ok fp /\ pw = dmul ip fp)).
Proof.
  intros He H. unfold pow in H.
  destruct (y <=? 0) eqn:E; [discriminate|]. apply Z.leb_gt in E.
  destruct (e <? 0) eqn:E2; [apply Z.ltb_lt in E2; lia|]. cbv zeta in H.
  destruct (trunc_dec_nonneg e He) as (T1 & T2 & T3 & T4). rewrite T1, T3 in H.
  apply bind_ok in H. destruct H as [ip [H1 H]].
  split; [exact E|]. exists ip. split; [exact H1|].
  destruct (Z.rem e PREC =? 0) eqn:E3.
  - apply Z.eqb_eq in E3. left. inversion H. auto.
  - apply Z.eqb_neq in E3. right. split; [exact E3|].
    apply bind_ok in H. destruct H as [fp [H2 H]]. apply cmul_ok in H. exists fp. auto.
Qed.

(* base in [1,2) (every exponent), or any base >= 1 with fractional part 0 or 1/2: Pow >= 1 *)
Lemma pow_ge_one y e pw : PREC <= y -> 0 <= e ->
  (y < TWO \/ Z.rem e PREC = 0 \/ Z.rem e PREC = HALF) ->
  pow y e = Ok pw -> PREC <= pw.
Proof.
  intros Hy He Hc H. pose proof PREC_pos as HP.
  destruct (pow_shape y e pw He H) as (_ & ip & Hip & Hr).
  pose proof (power_ge_one y _ ip Hy Hip) as Hip1.
  destruct Hr as [[_ ->]|(Hnz & fp & Hfp & ->)]; [exact Hip1|].
  apply dmul_ge_one; [exact Hip1|].
  pose proof (Z.rem_bound_pos e PREC He HP) as Hrb.
  unfold power_approx in Hfp.
  destruct (Z.rem e PREC =? HALF) eqn:EH.
  - exact (proj1 (approx_sqrt_range y fp Hy Hfp)).
  - apply Z.eqb_neq in EH. destruct Hc as [Hlt|[Hz|Hh]]; [|contradiction..].
    assert (Hb : (HALF <=? y) && (y <? TWO) = true).
    { apply andb_true_intro. split; [apply Z.leb_le; rewrite HALF_eq, PREC_eq in *; lia|apply Z.ltb_lt; exact Hlt]. }
    rewrite Hb in Hfp.
    exact (proj1 (maclaurin_ge_one y (Z.rem e PREC) ltac:(lia) ltac:(lia) fp Hfp)).
Qed.

(* exponent in [0,1]: Pow(y, e) lies between 1 and its base (base in [1,2), or e one of 0, 1/2, 1) *)
Lemma pow_le_base y e pw : PREC <= y -> 0 <= e <= PREC ->
  (y < TWO \/ e = 0 \/ e = HALF \/ e = PREC) ->
  pow y e = Ok pw -> PREC <= pw <= y.
Proof.
  intros Hy He Hc H. pose proof PREC_pos as HP.
  destruct (Z.eq_dec e PREC) as [->|Hne].
  { apply pow_one in H. lia. }
  assert (Hq : Z.quot e PREC = 0) by (apply Z.quot_small; lia).
  assert (Hr : Z.rem e PREC = e) by (apply Z.rem_small; lia).
  destruct (pow_shape y e pw ltac:(lia) H) as (_ & ip & Hip & Hrr).
  rewrite Hq in Hip. rewrite Hr in Hrr. simpl in Hip. inversion Hip; subst ip.
  destruct Hrr as [[_ ->]|(Hnz & fp & Hfp & ->)]; [unfold ONE; lia|].
  unfold ONE. rewrite dmul_one_l.
  unfold power_approx in Hfp.
  destruct (e =? HALF) eqn:EH.
  - exact (approx_sqrt_range y fp Hy Hfp).
  - apply Z.eqb_neq in EH. destruct Hc as [Hlt|[Hz|[Hh|H1]]]; [|contradiction..].
    assert (Hb : (HALF <=? y) && (y <? TWO) = true).
    { apply andb_true_intro. split; [apply Z.leb_le; rewrite HALF_eq, PREC_eq in *; lia|apply Z.ltb_lt; exact Hlt]. }
    rewrite Hb in Hfp.
    exact (maclaurin_ge_one y e ltac:(lia) ltac:(lia) fp Hfp).
Qed.

(* base in [0.5, 1] with a fractional part other than 1/2 (or any base in (0,1] with an integer exponent): Pow <= 1 *)
Lemma pow_le_one y e pw : 0 < y <= PREC -> 0 <= e ->
  (Z.rem e PREC = 0 \/ (HALF <= y /\ Z.rem e PREC <> HALF)) ->
  pow y e = Ok pw -> pw <= PREC.
Proof.
  intros Hy He Hc H. pose proof PREC_pos as HP.
  destruct (pow_shape y e pw He H) as (_ & ip & Hip & Hr).
  pose proof (power_le_one y _ ip ltac:(lia) Hip) as Hip1.
  destruct Hr as [[_ ->]|(Hnz & fp & Hfp & ->)]; [lia|].
  destruct Hc as [Hz|[Hh Hnh]]; [contradiction|].
  pose proof (Z.rem_bound_pos e PREC He HP) as Hrb.
  unfold power_approx in Hfp.
  destruct (Z.rem e PREC =? HALF) eqn:EH; [apply Z.eqb_eq in EH; contradiction|].
  assert (Hb : (HALF <=? y) && (y <? TWO) = true).
  { apply andb_true_intro. split; [apply Z.leb_le; exact Hh|apply Z.ltb_lt; unfold TWO; lia]. }
  rewrite Hb in Hfp.
  assert (Hfp1 : fp <= PREC).
  { destruct (Z.eq_dec y PREC) as [->|Hny].
    - destruct (maclaurin_ge_one PREC (Z.rem e PREC) ltac:(unfold TWO; lia) ltac:(lia) fp Hfp). lia.
    - exact (maclaurin_le_one y (Z.rem e PREC) ltac:(lia) ltac:(lia) fp Hfp). }
  destruct (Z_le_gt_dec 0 fp) as [Hp|Hn].
  - destruct (dmul_le_l ip fp ltac:(lia) ltac:(lia)). lia.
  - rewrite dmul_comm. pose proof (dmul_nonpos_l fp ip ltac:(lia) ltac:(lia)). lia.
Qed.

(* ---------- maclaurinSeriesApproximation on a base in [0.5, 1): the subtracted terms decay geometrically
   (ratio <= 1/4 + for the second term, <= 1/2 + 10^-10 afterwards), so every partial sum stays >= 0 ---------- *)
Lemma dmul_half_le u x : 0 <= u -> 0 <= x <= HALF -> 0 <= dmul u x /\ 2 * dmul u x <= u + 1.
Proof.
  intros Hu Hx. pose proof PREC_pos as HP. pose proof HALF_PREC as HH.
  split; [apply dmul_nonneg; lia|].
  assert (M : dmul u x <= dmul u HALF) by (apply dmul_mono; lia).
  unfold dmul in M at 2.
  assert (H0 : 0 <= u * HALF) by (rewrite HALF_eq; lia).
  destruct (chop_round_bounds _ H0) as [[_ B] _].
  assert (2 * (chop_round (u * HALF) * PREC) <= (u + 1) * PREC) by (rewrite <- HH; lia).
  assert (2 * chop_round (u * HALF) <= u + 1) by nia. lia.
Qed.

Lemma dquo_int_le v i : 0 <= v -> 1 <= i -> 0 <= dquo v (i * PREC) /\ 2 * (i * dquo v (i * PREC)) <= 2 * v + i.
Proof.
  intros Hv Hi. pose proof PREC_pos as HP. pose proof HALF_PREC as HH.
  assert (HiP : 0 < i * PREC) by nia.
  destruct (dquo_bounds v (i * PREC) Hv HiP) as [Q0 [_ Q2]]. split; [exact Q0|].
  set (q := dquo v (i * PREC)) in *.
  assert (PP : 0 < PREC * PREC) by nia.
  assert (F : (2 * (i * q)) * (PREC * PREC) <= (2 * v + i) * (PREC * PREC)).
  { replace (2 * (i * q) * (PREC * PREC)) with (2 * (q * PREC * (i * PREC))) by ring.
    replace ((2 * v + i) * (PREC * PREC)) with (2 * (v * PREC * PREC) + (2 * HALF) * (i * PREC)) by (rewrite HH; ring).
    lia. }
  apply Z.mul_le_mono_pos_r in F; [exact F|exact PP].
Qed.

Section MacHalfToOne.
  Variables y e : Z.
  Hypothesis Hy : HALF <= y < PREC.
  Hypothesis He : 0 < e < PREC.
  Let x := PREC - y.

  Definition mac_inv2 (st : Z * Z * Z * bool) : Prop :=
    let '(i, term, sum, neg) := st in
    1 <= i /\ 0 <= term /\ sum <= PREC /\
    ((i = 1 /\ neg = false /\ term = ONE /\ sum = ONE) \/
     (i = 2 /\ neg = true /\ term <= HALF /\ PREC - term <= sum) \/
     (3 <= i /\ neg = true /\ 105 * term <= 100 * sum)).

  Lemma mac_step_inv2 st : mac_inv2 st -> lpP mac_inv2 (fun v => 0 <= v <= PREC) (mac_step x true e st).
  Proof.
    destruct st as [[[i term] sum] neg]. intros (Hi & Ht & Hs & Hc).
    pose proof PREC_pos as HP. pose proof HALF_PREC as HH.
    assert (Hx : 0 <= x <= HALF) by (unfold x; lia).
    assert (Hsum0 : 0 <= sum).
    { destruct Hc as [(_ & _ & _ & ->)|[(_ & _ & A & B)|(_ & _ & A)]]; [unfold ONE; lia|lia|lia]. }
    unfold mac_step. destruct (term <? POW_PRECISION) eqn:Eprec; [split; assumption|].
    apply Z.ltb_ge in Eprec. unfold POW_PRECISION in Eprec. cbv zeta.
    assert (HiP : 0 < i * PREC) by nia.
    destruct Hc as [(-> & -> & -> & ->)|[(-> & -> & Hth & Hsl)|(Hi3 & -> & Hinv)]].
    - (* i = 1: t = e*x <= 1/2 *)
      replace ((1 - 1) * PREC) with 0 by ring.
      destruct (0 <=? e) eqn:E0; [|apply Z.leb_gt in E0; lia]. cbv beta iota.
      apply lift_bind. intros t1 E1. apply cmul_ok in E1. unfold ONE in E1. rewrite dmul_one_l in E1.
      apply lift_bind. intros t2 E2. apply cmul_ok in E2.
      apply lift_bind. intros t3 E3. apply cquo_ok in E3. destruct E3 as [_ E3].
      rewrite Z.mul_1_l, dquo_one_r in E3.
      assert (B : 0 <= t3 <= HALF).
      { subst t3 t2 t1. replace (e - 0) with e by ring. split; [apply dmul_nonneg; lia|].
        rewrite <- (dmul_one_l HALF). apply dmul_mono; lia. }
      destruct (t3 =? 0); [cbn [lift]; unfold ONE; split; lia|].
      cbn [negb].
      apply lift_bind. intros s Es. apply csub_ok in Es. unfold ONE in Es.
      change (1 =? POW_ITER_LIMIT) with false. cbn [lift].
      unfold mac_inv2. split; [lia|]. split; [lia|]. split; [lia|]. right. left. repeat split; lia.
    - (* i = 2: t' <= t/4 + 3/4 *)
      replace ((2 - 1) * PREC) with PREC by ring.
      destruct (PREC <=? e) eqn:E0; [apply Z.leb_le in E0; lia|]. cbv beta iota.
      apply lift_bind. intros t1 E1. apply cmul_ok in E1.
      apply lift_bind. intros t2 E2. apply cmul_ok in E2.
      apply lift_bind. intros t3 E3. apply cquo_ok in E3. destruct E3 as [_ E3].
      assert (B1 : 0 <= t1 <= term) by (subst t1; apply dmul_le_l; lia).
      destruct (dmul_half_le t1 x ltac:(lia) Hx) as [B2a B2b]. rewrite <- E2 in B2a, B2b.
      destruct (dquo_int_le t2 2 B2a ltac:(lia)) as [B3a B3b]. rewrite <- E3 in B3a, B3b.
      destruct (t3 =? 0); [cbn [lift]; split; lia|].
      cbn [negb].
      apply lift_bind. intros s Es. apply csub_ok in Es.
      change (2 =? POW_ITER_LIMIT) with false. cbn [lift].
      unfold mac_inv2. split; [lia|]. split; [lia|]. split; [lia|]. right. right.
      split; [lia|]. split; [reflexivity|].
      rewrite PREC_eq, HALF_eq in *. lia.
    - (* i >= 3: t' <= (t+1)/2 <= 0.51 t because t >= 10^-8 *)
      destruct ((i - 1) * PREC <=? e) eqn:E0; [apply Z.leb_le in E0; nia|]. cbv beta iota.
      apply lift_bind. intros t1 E1. apply cmul_ok in E1.
      apply lift_bind. intros t2 E2. apply cmul_ok in E2.
      apply lift_bind. intros t3 E3. apply cquo_ok in E3. destruct E3 as [_ E3].
      assert (B1 : 0 <= t1 <= (i - 1) * term).
      { subst t1. split; [apply dmul_nonneg; nia|].
        rewrite <- (dmul_int_r term (i - 1)). apply dmul_mono; [lia|nia]. }
      destruct (dmul_half_le t1 x ltac:(lia) Hx) as [B2a B2b]. rewrite <- E2 in B2a, B2b.
      destruct (dquo_int_le t2 i B2a ltac:(lia)) as [B3a B3b]. rewrite <- E3 in B3a, B3b.
      destruct (t3 =? 0); [cbn [lift]; split; lia|].
      cbn [negb].
      apply lift_bind. intros s Es. apply csub_ok in Es.
      assert (K : 205 * t3 <= 105 * term).
      { assert (K1 : i * 10000000000 <= i * term) by (apply Z.mul_le_mono_nonneg_l; lia).
        assert (K2 : (2 * i) * (205 * t3) <= (2 * i) * (105 * term)).
        { replace (2 * i * (205 * t3)) with (205 * (2 * (i * t3))) by ring.
          replace (2 * i * (105 * term)) with (210 * (i * term)) by ring.
          replace ((i - 1) * term) with (i * term - term) in B1 by ring. lia. }
        apply Z.mul_le_mono_pos_l in K2; [exact K2|lia]. }
      destruct (i =? POW_ITER_LIMIT); cbn [lift]; [exact Logic.I|].
      unfold mac_inv2. split; [lia|]. split; [lia|]. split; [lia|]. right. right.
      split; [lia|]. split; [reflexivity|lia].
  Qed.

  Lemma maclaurin_half_to_one v : maclaurin y e = Ok v -> 0 <= v <= PREC.
  Proof.
    intros H. unfold maclaurin in H.
    destruct (ONE <=? y) eqn:E1; [apply Z.leb_le in E1; unfold ONE in E1; lia|].
    cbv beta iota in H. unfold ONE in H at 1. fold x in H.
    refine (run_loop_okP mac_inv2 (fun v => 0 <= v <= PREC) _ _ _ _ mac_step_inv2 _ H).
    unfold mac_inv2, ONE. split; [lia|]. split; [pose proof PREC_pos; lia|]. split; [lia|]. left. repeat split.
  Qed.
End MacHalfToOne.

(* base in [0.5, 1], fractional part of the exponent other than 1/2 (or any base in (0,1] with an integer exponent):
   0 <= Pow <= 1 *)
Lemma pow_range_le_one y e pw : 0 < y <= PREC -> 0 <= e ->
  (Z.rem e PREC = 0 \/ (HALF <= y /\ Z.rem e PREC <> HALF)) ->
  pow y e = Ok pw -> 0 <= pw <= PREC.
Proof.
  intros Hy He Hc H. pose proof PREC_pos as HP.
  split; [|exact (pow_le_one y e pw Hy He Hc H)].
  destruct (pow_shape y e pw He H) as (_ & ip & Hip & Hr).
  pose proof (power_le_one y _ ip ltac:(lia) Hip) as Hip1.
  destruct Hr as [[_ ->]|(Hnz & fp & Hfp & ->)]; [lia|].
  destruct Hc as [Hz|[Hh Hnh]]; [contradiction|].
  pose proof (Z.rem_bound_pos e PREC He HP) as Hrb.
  unfold power_approx in Hfp.
  destruct (Z.rem e PREC =? HALF) eqn:EH; [apply Z.eqb_eq in EH; contradiction|].
  assert (Hb : (HALF <=? y) && (y <? TWO) = true).
  { apply andb_true_intro. split; [apply Z.leb_le; exact Hh|apply Z.ltb_lt; unfold TWO; lia]. }
  rewrite Hb in Hfp.
  apply dmul_nonneg; [lia|].
  destruct (Z.eq_dec y PREC) as [->|Hny].
  - destruct (maclaurin_ge_one PREC (Z.rem e PREC) ltac:(unfold TWO; lia) ltac:(lia) fp Hfp). lia.
  - destruct (maclaurin_half_to_one y (Z.rem e PREC) ltac:(lia) ltac:(lia) fp Hfp). lia.
Qed.

(* CalcOutAmtGivenIn on ANY constant-product pool (all weights): when the rounded base y = Quo(B_in, B_in + a') is at
   least 1/2 (the amount in after fee does not exceed the in-reserve) and the fractional part of w_in/w_out is not 1/2
   (or the ratio is an integer), the payout is within the out-reserve *)
Lemma weighted_out_within_reserve p a fee out slip :
  use_oracle p = false -> 0 <= rin p -> 0 <= rout p -> 0 <= a -> 0 <= fee <= PREC ->
  calc_out p a fee = Ok (out, slip) ->
  let y := dquo (rin p * PREC) (rin p * PREC + a * (PREC - fee)) in
  let r := dquo (w_in p * PREC) (w_out p * PREC) in
  0 <= r -> (Z.rem r PREC = 0 \/ (HALF <= y /\ Z.rem r PREC <> HALF)) ->
  0 < out <= rout p.
Proof.
  intros Hno HBi HBo Ha Hfee Hcalc y r Hr Hc. pose proof PREC_pos as HP.
  destruct (weighted_out_shape p a fee out slip Hno HBo Hcalc) as (HN & _ & pw & Hpw & Ho & Hopos & Hlb).
  fold y r in Hpw.
  assert (Hy : 0 <= y <= PREC) by (unfold y; apply dquo_le_one; [nia|exact HN]).
  assert (Hy0 : 0 < y) by (unfold pow in Hpw; destruct (y <=? 0) eqn:E; [discriminate|apply Z.leb_gt in E; exact E]).
  destruct (pow_range_le_one y r pw ltac:(lia) Hr Hc Hpw) as [P0 P1].
  pose proof (Hlb 0 P0) as U. split; [exact Hopos|]. nia.
Qed.
