(* Proofs about the weight-breaking fee model (Models/WeightFee.v, Models/WeightFeeJoinExit.v):
   range of GetWeightBreakingFee ([0, 0.99]) and of the fee / bonus the swap, join and exit functions derive from it;
   the fee is zero when the operation improves the weight distance, the bonus is positive only then (and only when the
   distance before was above the threshold) and never above 0.99 * portion; composition with the oracle-pool value
   theorems of Proofs/AmmSwapProofs2.v and Proofs/AmmJoinExitProofs.v, whose hypothesis "fee in [0,1]" is discharged. *)
From Coq Require Import ZArith List Bool Lia.
From Elys Require Import Base.Res Base.Zdec Models.AmmSwap Proofs.AmmSwapProofs Proofs.AmmSwapProofs2 Proofs.PowBounds Proofs.PowSeries.
From Elys Require Import Models.WeightFee.
Import ListNotations.
Open Scope Z_scope.

(* ---------- Pow is non-negative on the exponents whose fractional part is 0 or 1/2 (the default 2.5) ---------- *)
Definition pow_nonneg (e : Z) : Prop := forall y pw, pow y e = Ok pw -> 0 <= pw.

Lemma sqrt_step_nonneg d : 0 <= d -> forall st, 0 <= snd st ->
  lpP (fun st : Z * Z => 0 <= snd st) (fun v => 0 <= v) (sqrt_step d st).
Proof.
  intros Hd [iter g] Hg. simpl in Hg. pose proof PREC_pos as HP. unfold sqrt_step.
  destruct (ROOT_ITER <=? iter); [exact Hg|].
  apply lift_bind. intros prev0 E0. apply power_one in E0. subst prev0.
  apply lift_bind. intros q Eq. apply cquo_ok in Eq. destruct Eq as [_ Eq].
  apply lift_bind. intros dl Edl. apply csub_ok in Edl.
  cbv zeta.
  apply lift_bind. intros g' Eg'. apply cadd_ok in Eg'.
  assert (Hq : 0 <= q).
  { subst q. destruct (g =? 0) eqn:Eg; [apply dquo_nonneg; lia|].
    apply Z.eqb_neq in Eg. apply dquo_nonneg; lia. }
  assert (R : 0 <= g').
  { subst g' dl. destruct (Z_le_gt_dec g q) as [L|G].
    - destruct (quot2_nonneg (q - g) ltac:(lia)). lia.
    - destruct (quot2_neg (q - g) ltac:(lia)) as [N1 N2]. lia. }
  cbn [lift]. destruct (Z.abs (Z.quot dl 2) <=? 1); exact R.
Qed.

Lemma approx_sqrt_nonneg d v : 0 <= d -> approx_sqrt d = Ok v -> 0 <= v.
Proof.
  intros Hd H. unfold approx_sqrt in H.
  destruct (d =? ONE); [inversion H; lia|].
  refine (run_loop_okP (fun st : Z * Z => 0 <= snd st) (fun v => 0 <= v) _ _ _ _
            (sqrt_step_nonneg d Hd) _ H).
  simpl. unfold ONE. pose proof PREC_pos. lia.
Qed.

Lemma power_nonneg y n pw : 0 <= y -> power y n = Ok pw -> 0 <= pw.
Proof.
  intros Hy H. pose proof PREC_pos as HP.
  destruct (Z_le_gt_dec y PREC) as [L|G].
  - exact (proj1 (power_le_one y n pw ltac:(lia) H)).
  - pose proof (power_ge_one y n pw ltac:(lia) H). lia.
Qed.

Lemma pow_nonneg_int_or_half e : 0 <= e -> (Z.rem e PREC = 0 \/ Z.rem e PREC = HALF) -> pow_nonneg e.
Proof.
  intros He Hc y pw H.
  destruct (pow_shape y e pw He H) as (Hy & ip & Hip & Hr).
  pose proof (power_nonneg y _ ip ltac:(lia) Hip) as Hip0.
  destruct Hr as [[_ ->]|(Hnz & fp & Hfp & ->)]; [exact Hip0|].
  destruct Hc as [Hz|Hh]; [contradiction|].
  apply dmul_nonneg; [exact Hip0|].
  unfold power_approx in Hfp. rewrite Hh in Hfp. rewrite Z.eqb_refl in Hfp.
  apply (approx_sqrt_nonneg y fp); [lia|exact Hfp].
Qed.

(* ---------- GetWeightBreakingFee ---------- *)
Lemma WBF_CAP_lt_PREC : 0 < WBF_CAP < PREC. Proof. split; reflexivity. Qed.

Lemma get_wbf_range prm fi fo ti to ii io dd f :
  0 <= wp_mult prm -> pow_nonneg (wp_exp prm) ->
  get_wbf prm fi fo ti to ii io dd = Ok f -> 0 <= f <= WBF_CAP.
Proof.
  intros Hm Hp H. unfold get_wbf in H. pose proof WBF_CAP_lt_PREC as HC.
  destruct (wp_mult prm =? 0); [inversion H; lia|].
  apply bind_ok in H. destruct H as [f0 [Hf H]]. inversion H as [Hff]. clear H.
  assert (F0 : 0 <= f0).
  { destruct (0 <? dd).
    - destruct (negb (fo =? 0) && negb (fi =? 0) && negb (to =? 0) && negb (ti =? 0)); [|inversion Hf; lia].
      apply bind_ok in Hf. destruct Hf as [pw [Hpw Hf]]. apply cmul_ok in Hf. subst f0.
      unfold wbf_ratio_pow in Hpw.
      apply bind_ok in Hpw. destruct Hpw as [x1 [_ Hpw]].
      apply bind_ok in Hpw. destruct Hpw as [x2 [_ Hpw]].
      apply bind_ok in Hpw. destruct Hpw as [x3 [_ Hpw]].
      apply dmul_nonneg; [exact Hm|exact (Hp _ _ Hpw)].
    - destruct (negb (io =? 0) && negb (ii =? 0) && negb (to =? 0) && negb (ti =? 0)); [|inversion Hf; lia].
      apply bind_ok in Hf. destruct Hf as [pw [Hpw Hf]]. apply cmul_ok in Hf. subst f0.
      unfold wbf_ratio_pow in Hpw.
      apply bind_ok in Hpw. destruct Hpw as [x1 [_ Hpw]].
      apply bind_ok in Hpw. destruct Hpw as [x2 [_ Hpw]].
      apply bind_ok in Hpw. destruct Hpw as [x3 [_ Hpw]].
      apply dmul_nonneg; [exact Hm|exact (Hp _ _ Hpw)]. }
  destruct (WBF_CAP <? f0) eqn:E; [apply Z.ltb_lt in E|apply Z.ltb_ge in E]; lia.
Qed.

(* no multiplier, no fee *)
Lemma get_wbf_zero_mult prm fi fo ti to ii io dd f :
  wp_mult prm = 0 -> get_wbf prm fi fo ti to ii io dd = Ok f -> f = 0.
Proof. intros Hm H. unfold get_wbf in H. rewrite Hm in H. simpl in H. now inversion H. Qed.

(* POSITIVE when the distance grows and the in-asset ends up over-weight relative to the out-asset
   (finalWeightIn/targetWeightIn >= finalWeightOut/targetWeightOut as the code computes the ratio: x >= 1):
   the fee is at least min(0.99, multiplier) *)
Lemma get_wbf_worsening_lower prm fi fo ti to ii io dd f x1 x2 x3 :
  0 < wp_mult prm -> 0 <= wp_exp prm ->
  (Z.rem (wp_exp prm) PREC = 0 \/ Z.rem (wp_exp prm) PREC = HALF \/ x3 < TWO) ->
  0 < dd -> fo <> 0 -> fi <> 0 -> to <> 0 -> ti <> 0 ->
  x1 = dmul fi to -> x2 = dquo x1 fo -> x3 = dquo x2 ti -> PREC <= x3 ->
  get_wbf prm fi fo ti to ii io dd = Ok f ->
  Z.min WBF_CAP (wp_mult prm) <= f.
Proof.
  intros Hm He Hc Hdd Hfo Hfi Hto Hti E1 E2 E3 Hx H. unfold get_wbf in H.
  destruct (wp_mult prm =? 0) eqn:Em; [apply Z.eqb_eq in Em; lia|].
  destruct (0 <? dd) eqn:Ed; [|apply Z.ltb_ge in Ed; lia].
  apply Z.eqb_neq in Hfo, Hfi, Hto, Hti. rewrite Hfo, Hfi, Hto, Hti in H. simpl in H.
  apply bind_ok in H. destruct H as [f0 [Hf H]]. inversion H as [Hff]. clear H.
  apply bind_ok in Hf. destruct Hf as [pw [Hpw Hf]]. apply cmul_ok in Hf.
  unfold wbf_ratio_pow in Hpw.
  apply bind_ok in Hpw. destruct Hpw as [y1 [Hy1 Hpw]]. apply cmul_ok in Hy1.
  apply bind_ok in Hpw. destruct Hpw as [y2 [Hy2 Hpw]]. apply cquo_ok in Hy2. destruct Hy2 as [_ Hy2].
  apply bind_ok in Hpw. destruct Hpw as [y3 [Hy3 Hpw]]. apply cquo_ok in Hy3. destruct Hy3 as [_ Hy3].
  assert (Ey : y3 = x3) by (subst; reflexivity). rewrite Ey in Hpw.
  assert (Hpw1 : PREC <= pw).
  { apply (pow_ge_one x3 (wp_exp prm) pw Hx He); [|exact Hpw]. tauto. }
  assert (Hf0 : wp_mult prm <= f0).
  { subst f0. rewrite <- (dmul_one_r (wp_mult prm)) at 1. pose proof PREC_pos. apply dmul_mono; lia. }
  destruct (WBF_CAP <? f0) eqn:E; [apply Z.ltb_lt in E|apply Z.ltb_ge in E]; lia.
Qed.

(* ---------- swaps ---------- *)
Lemma dmul_le_r_one a b : 0 <= a -> 0 <= b <= PREC -> 0 <= dmul a b <= a.
Proof. intros. apply dmul_le_l; lia. Qed.

Lemma wb_decide_swap_spec prm d0 dd f0 perp wbf bonus :
  0 <= f0 <= WBF_CAP -> 0 <= perp <= PREC -> 0 <= wp_portion prm ->
  wb_decide_swap prm d0 dd f0 perp = Ok (wbf, bonus) ->
  0 <= wbf <= WBF_CAP /\
  bonus <= dmul WBF_CAP (wp_portion prm) /\
  (dd < 0 -> wbf = 0 /\ 0 <= bonus /\ (0 < bonus -> wp_thr prm < d0)) /\
  (0 <= dd -> bonus = - wbf).
Proof.
  intros Hf Hp Hpo H. unfold wb_decide_swap in H. pose proof WBF_CAP_lt_PREC as HC.
  apply bind_ok in H. destruct H as [f1 [H1 H]]. apply cmul_ok in H1.
  apply bind_ok in H. destruct H as [rw [H2 H]]. apply cmul_ok in H2.
  assert (F1 : 0 <= f1 <= f0) by (subst f1; apply dmul_le_l; lia).
  assert (RW : 0 <= rw <= dmul WBF_CAP (wp_portion prm)).
  { subst rw. split; [apply dmul_nonneg; lia|apply dmul_mono; lia]. }
  assert (CP : 0 <= dmul WBF_CAP (wp_portion prm)) by (apply dmul_nonneg; lia).
  destruct (dd <? 0) eqn:Ed; [apply Z.ltb_lt in Ed|apply Z.ltb_ge in Ed]; inversion H; subst wbf bonus; clear H.
  - destruct (wp_thr prm <? d0) eqn:Et; [apply Z.ltb_lt in Et|apply Z.ltb_ge in Et].
    + repeat split; try lia.
    + repeat split; try lia.
  - repeat split; try lia.
Qed.

(* what wb_swap returns, in terms of the distances before and after *)
Lemma wb_swap_spec prm init kin kout din dout d0 perp wbf bonus :
  0 <= wp_mult prm -> pow_nonneg (wp_exp prm) -> 0 <= wp_portion prm -> 0 <= perp <= PREC ->
  wb_swap prm init kin kout din dout d0 perp = Ok (wbf, bonus) ->
  exists fin d1,
    after_swap init 0 kin kout din dout = Ok fin /\ weight_distance fin = Ok d1 /\
    0 <= wbf <= WBF_CAP /\
    bonus <= dmul WBF_CAP (wp_portion prm) /\
    (d1 < d0 -> wbf = 0 /\ 0 <= bonus /\ (0 < bonus -> wp_thr prm < d0)) /\
    (d0 <= d1 -> bonus = - wbf).
Proof.
  intros Hm Hp Hpo Hpe H. unfold wb_swap in H.
  apply bind_ok in H. destruct H as [fin [Hfin H]].
  apply bind_ok in H. destruct H as [d1 [Hd1 H]].
  apply bind_ok in H. destruct H as [dd [Hdd H]]. apply csub_ok in Hdd.
  apply bind_ok in H. destruct H as [tin [_ H]].
  apply bind_ok in H. destruct H as [tout [_ H]].
  apply bind_ok in H. destruct H as [fi [_ H]].
  apply bind_ok in H. destruct H as [fo [_ H]].
  apply bind_ok in H. destruct H as [ii [_ H]].
  apply bind_ok in H. destruct H as [io [_ H]].
  apply bind_ok in H. destruct H as [f0 [Hf0 H]].
  pose proof (get_wbf_range _ _ _ _ _ _ _ _ _ Hm Hp Hf0) as R0.
  destruct (wb_decide_swap_spec _ _ _ _ _ _ _ R0 Hpe Hpo H) as (A & B & C & D).
  exists fin, d1. split; [exact Hfin|]. split; [exact Hd1|]. split; [exact A|]. split; [exact B|]. split.
  - intros Hlt. apply C. lia.
  - intros Hle. apply D. lia.
Qed.

(* ---------- the whole swap functions: the fee is one the existing value theorems quantify over ---------- *)
Lemma oracle_swap_out_wf_sound p assets kin kout a ratio perp fee prm out s oo bonus :
  0 <= wp_mult prm -> pow_nonneg (wp_exp prm) -> 0 <= wp_portion prm -> 0 <= perp <= PREC ->
  oracle_swap_out_wf p assets kin kout a ratio perp fee prm = Ok (out, s, oo, bonus) ->
  exists wbf d0 after,
    oracle_swap_out p a ratio wbf fee = Ok (out, s, oo) /\
    weight_distance assets = Ok d0 /\
    wb_swap prm assets kin kout a after d0 perp = Ok (wbf, bonus) /\
    0 <= wbf <= WBF_CAP /\ bonus <= dmul WBF_CAP (wp_portion prm).
Proof.
  intros Hm Hp Hpo Hpe H. unfold oracle_swap_out_wf in H.
  destruct (price_in p =? 0) eqn:E1; [discriminate|].
  destruct (price_out p =? 0) eqn:E2; [discriminate|].
  apply bind_ok in H. destruct H as [d0 [Hd0 H]].
  apply bind_ok in H. destruct H as [m [Hm1 H]].
  apply bind_ok in H. destruct H as [oo0 [Hoo H]].
  destruct (ratio =? 0) eqn:E3; [discriminate|].
  apply bind_ok in H. destruct H as [r [Hr H]].
  apply bind_ok in H. destruct H as [[bo sl] [Hbo H]].
  apply bind_ok in H. destruct H as [s0 [Hs H]].
  apply bind_ok in H. destruct H as [sr [Hsr H]].
  apply bind_ok in H. destruct H as [after [Haf H]].
  apply bind_ok in H. destruct H as [sq [_ H]].
  destruct (trunc_int after <? 0); [discriminate|].
  apply bind_ok in H. destruct H as [[wbf bn] [Hwb H]].
  apply bind_ok in H. destruct H as [[out0 oo1] [Hout H]]. inversion H; subst out0 s0 oo1 bn. clear H.
  destruct (wb_swap_spec _ _ _ _ _ _ _ _ _ _ Hm Hp Hpo Hpe Hwb) as (fin & d1 & _ & _ & R & B & _).
  exists wbf, d0, (trunc_int after). split.
  - unfold oracle_swap_out. rewrite E1, E2, E3, Hr. simpl. rewrite Hbo. simpl. rewrite Hs. simpl. rewrite Hout. reflexivity.
  - auto.
Qed.

Lemma oracle_swap_in_wf_sound p assets kin kout o ratio perp fee prm inn s oi bonus :
  0 <= wp_mult prm -> pow_nonneg (wp_exp prm) -> 0 <= wp_portion prm -> 0 <= perp <= PREC ->
  oracle_swap_in_wf p assets kin kout o ratio perp fee prm = Ok (inn, s, oi, bonus) ->
  exists wbf d0 after,
    oracle_swap_in p o ratio wbf fee = Ok (inn, s, oi) /\
    weight_distance assets = Ok d0 /\
    wb_swap prm assets kin kout after o d0 perp = Ok (wbf, bonus) /\
    0 <= wbf <= WBF_CAP /\ bonus <= dmul WBF_CAP (wp_portion prm).
Proof.
  intros Hm Hp Hpo Hpe H. unfold oracle_swap_in_wf in H.
  destruct (price_in p =? 0) eqn:E1; [discriminate|].
  destruct (price_out p =? 0) eqn:E2; [discriminate|].
  apply bind_ok in H. destruct H as [d0 [Hd0 H]].
  apply bind_ok in H. destruct H as [m [Hm1 H]].
  apply bind_ok in H. destruct H as [oi0 [Hoi H]].
  destruct (ratio =? 0) eqn:E3; [discriminate|].
  apply bind_ok in H. destruct H as [r [Hr H]].
  apply bind_ok in H. destruct H as [[bi sl] [Hbi H]].
  apply bind_ok in H. destruct H as [s0 [Hs H]].
  apply bind_ok in H. destruct H as [sr [Hsr H]].
  apply bind_ok in H. destruct H as [after [Haf H]].
  apply bind_ok in H. destruct H as [sq [_ H]].
  destruct (trunc_int after <? 0); [discriminate|].
  apply bind_ok in H. destruct H as [[wbf bn] [Hwb H]].
  apply bind_ok in H. destruct H as [[in0 oi1] [Hin H]]. inversion H; subst in0 s0 oi1 bn. clear H.
  destruct (wb_swap_spec _ _ _ _ _ _ _ _ _ _ Hm Hp Hpo Hpe Hwb) as (fin & d1 & _ & _ & R & B & _).
  exists wbf, d0, (trunc_int after). split.
  - unfold oracle_swap_in. rewrite E1, E2, E3, Hr. simpl. rewrite Hbi. simpl. rewrite Hs. simpl. rewrite Hin. reflexivity.
  - auto.
Qed.

(* the composed statements: no fee parameter any more *)
Lemma oracle_swap_out_wf_value p assets kin kout a ratio perp fee prm out s oo bonus :
  0 <= wp_mult prm -> pow_nonneg (wp_exp prm) -> 0 <= wp_portion prm -> 0 <= perp <= PREC ->
  0 <= a -> 0 <= ratio -> 0 <= fee -> 0 <= price_in p -> 0 <= price_out p ->
  oracle_swap_out_wf p assets kin kout a ratio perp fee prm = Ok (out, s, oo, bonus) ->
  0 <= s /\ out * price_out p * (PREC * PREC) <= a * price_in p * (PREC * PREC) + HALF * price_out p /\
  bonus <= dmul WBF_CAP (wp_portion prm).
Proof.
  intros Hm Hp Hpo Hpe Ha Hr Hf Hpi Hpout H.
  destruct (oracle_swap_out_wf_sound _ _ _ _ _ _ _ _ _ _ _ _ _ Hm Hp Hpo Hpe H) as (wbf & d0 & af & Hs & _ & _ & R & B).
  pose proof WBF_CAP_lt_PREC as HC.
  destruct (oracle_swap_out_value p a ratio wbf fee out s oo Ha Hr ltac:(lia) Hf Hpi Hpout Hs) as [S0 V].
  auto.
Qed.

Lemma oracle_swap_in_wf_value p assets kin kout o ratio perp fee prm inn s oi bonus :
  0 <= wp_mult prm -> pow_nonneg (wp_exp prm) -> 0 <= wp_portion prm -> 0 <= perp <= PREC ->
  0 <= o -> 0 <= ratio -> 0 <= fee -> 0 <= price_in p -> 0 <= price_out p ->
  oracle_swap_in_wf p assets kin kout o ratio perp fee prm = Ok (inn, s, oi, bonus) ->
  0 <= s /\ o * price_out p * (PREC * PREC) < inn * price_in p * (PREC * PREC) + (1 + HALF) * price_in p /\
  bonus <= dmul WBF_CAP (wp_portion prm).
Proof.
  intros Hm Hp Hpo Hpe Ho Hr Hf Hpi Hpout H.
  destruct (oracle_swap_in_wf_sound _ _ _ _ _ _ _ _ _ _ _ _ _ Hm Hp Hpo Hpe H) as (wbf & d0 & af & Hs & _ & _ & R & B).
  pose proof WBF_CAP_lt_PREC as HC.
  destruct (oracle_swap_in_value p o ratio wbf fee inn s oi Ho Hr ltac:(lia) Hf Hpi Hpout Hs) as [S0 V].
  auto.
Qed.

(* fee zero / bonus positive only when the swap improves the distance; bonus = - fee <= 0 otherwise *)
Lemma oracle_swap_out_wf_direction p assets kin kout a ratio perp fee prm out s oo bonus :
  0 <= wp_mult prm -> pow_nonneg (wp_exp prm) -> 0 <= wp_portion prm -> 0 <= perp <= PREC ->
  oracle_swap_out_wf p assets kin kout a ratio perp fee prm = Ok (out, s, oo, bonus) ->
  exists wbf d0 after fin d1,
    oracle_swap_out p a ratio wbf fee = Ok (out, s, oo) /\
    weight_distance assets = Ok d0 /\
    after_swap assets 0 kin kout a after = Ok fin /\ weight_distance fin = Ok d1 /\
    (d1 < d0 -> wbf = 0 /\ 0 <= bonus /\ (0 < bonus -> wp_thr prm < d0)) /\
    (d0 <= d1 -> bonus = - wbf /\ bonus <= 0) /\
    (0 < bonus -> d1 < d0 /\ wp_thr prm < d0 /\ wbf = 0).
Proof.
  intros Hm Hp Hpo Hpe H.
  destruct (oracle_swap_out_wf_sound _ _ _ _ _ _ _ _ _ _ _ _ _ Hm Hp Hpo Hpe H) as (wbf & d0 & af & Hs & Hd0 & Hwb & R & B).
  destruct (wb_swap_spec _ _ _ _ _ _ _ _ _ _ Hm Hp Hpo Hpe Hwb) as (fin & d1 & Hfin & Hd1 & _ & _ & C & D).
  exists wbf, d0, af, fin, d1.
  split; [exact Hs|]. split; [exact Hd0|]. split; [exact Hfin|]. split; [exact Hd1|]. split; [exact C|]. split.
  - intros Hle. pose proof (D Hle). lia.
  - intros Hb. destruct (Z_lt_ge_dec d1 d0) as [L|G].
    + destruct (C L) as (C1 & _ & C3). auto.
    + pose proof (D ltac:(lia)). lia.
Qed.

(* tie with the bonus decision of UpdatePoolForSwap (bonus_paid): what leaves the treasury is at most the treasury
   balance and at most base * 0.99 * portion *)
Lemma bonus_paid_with_fee_capped base bonus treasury b portion :
  0 <= base -> bonus <= dmul WBF_CAP portion ->
  bonus_paid true base bonus treasury = Ok b ->
  0 <= b /\ (0 < b -> b <= treasury /\ 0 < bonus /\ b * PREC <= base * dmul WBF_CAP portion).
Proof.
  intros Hb Hbn H. destruct (bonus_capped _ _ _ _ _ H) as [B0 B1].
  split; [exact B0|]. intros Hpos. destruct (B1 Hpos) as (T & _ & P & V).
  repeat split; try assumption. nia.
Qed.

(* ---------- the same for the exponents Pow is proved non-negative on (fractional part 0 or 1/2; the chain's 2.5) ---------- *)
Definition exp_int_or_half (e : Z) : Prop := 0 <= e /\ (Z.rem e PREC = 0 \/ Z.rem e PREC = HALF).

Lemma exp_ok_pow_nonneg e : exp_int_or_half e -> pow_nonneg e.
Proof. intros [H0 H1]. exact (pow_nonneg_int_or_half e H0 H1). Qed.

Lemma default_exponent_ok : exp_int_or_half 2500000000000000000.
Proof. split; [lia|right; reflexivity]. Qed.

Lemma get_wbf_range_exp prm fi fo ti to ii io dd f :
  0 <= wp_mult prm -> exp_int_or_half (wp_exp prm) ->
  get_wbf prm fi fo ti to ii io dd = Ok f -> 0 <= f <= WBF_CAP /\ WBF_CAP < PREC.
Proof.
  intros Hm He H. split; [exact (get_wbf_range _ _ _ _ _ _ _ _ _ Hm (exp_ok_pow_nonneg _ He) H)|reflexivity].
Qed.

Lemma oracle_swap_out_wf_value_exp p assets kin kout a ratio perp fee prm out s oo bonus :
  0 <= wp_mult prm -> exp_int_or_half (wp_exp prm) -> 0 <= wp_portion prm -> 0 <= perp <= PREC ->
  0 <= a -> 0 <= ratio -> 0 <= fee -> 0 <= price_in p -> 0 <= price_out p ->
  oracle_swap_out_wf p assets kin kout a ratio perp fee prm = Ok (out, s, oo, bonus) ->
  0 <= s /\ out * price_out p * (PREC * PREC) <= a * price_in p * (PREC * PREC) + HALF * price_out p /\
  bonus <= dmul WBF_CAP (wp_portion prm).
Proof. intros Hm He. exact (oracle_swap_out_wf_value _ _ _ _ _ _ _ _ _ _ _ _ _ Hm (exp_ok_pow_nonneg _ He)). Qed.

Lemma oracle_swap_in_wf_value_exp p assets kin kout o ratio perp fee prm inn s oi bonus :
  0 <= wp_mult prm -> exp_int_or_half (wp_exp prm) -> 0 <= wp_portion prm -> 0 <= perp <= PREC ->
  0 <= o -> 0 <= ratio -> 0 <= fee -> 0 <= price_in p -> 0 <= price_out p ->
  oracle_swap_in_wf p assets kin kout o ratio perp fee prm = Ok (inn, s, oi, bonus) ->
  0 <= s /\ o * price_out p * (PREC * PREC) < inn * price_in p * (PREC * PREC) + (1 + HALF) * price_in p /\
  bonus <= dmul WBF_CAP (wp_portion prm).
Proof. intros Hm He. exact (oracle_swap_in_wf_value _ _ _ _ _ _ _ _ _ _ _ _ _ Hm (exp_ok_pow_nonneg _ He)). Qed.

Lemma oracle_swap_out_wf_direction_exp p assets kin kout a ratio perp fee prm out s oo bonus :
  0 <= wp_mult prm -> exp_int_or_half (wp_exp prm) -> 0 <= wp_portion prm -> 0 <= perp <= PREC ->
  oracle_swap_out_wf p assets kin kout a ratio perp fee prm = Ok (out, s, oo, bonus) ->
  exists wbf d0 after fin d1,
    oracle_swap_out p a ratio wbf fee = Ok (out, s, oo) /\
    weight_distance assets = Ok d0 /\
    after_swap assets 0 kin kout a after = Ok fin /\ weight_distance fin = Ok d1 /\
    (d1 < d0 -> wbf = 0 /\ 0 <= bonus /\ (0 < bonus -> wp_thr prm < d0)) /\
    (d0 <= d1 -> bonus = - wbf /\ bonus <= 0) /\
    (0 < bonus -> d1 < d0 /\ wp_thr prm < d0 /\ wbf = 0).
Proof. intros Hm He. exact (oracle_swap_out_wf_direction _ _ _ _ _ _ _ _ _ _ _ _ _ Hm (exp_ok_pow_nonneg _ He)). Qed.

(* the treasury pays at most min(balance, base * 0.99 * portion) for a swap whose bonus the model computed *)
Lemma swap_out_bonus_from_treasury p assets kin kout a ratio perp fee prm out s oo bonus base treasury b :
  0 <= wp_mult prm -> exp_int_or_half (wp_exp prm) -> 0 <= wp_portion prm -> 0 <= perp <= PREC -> 0 <= base ->
  oracle_swap_out_wf p assets kin kout a ratio perp fee prm = Ok (out, s, oo, bonus) ->
  bonus_paid true base bonus treasury = Ok b ->
  0 <= b /\ (0 < b -> b <= treasury /\ 0 < bonus /\ b * PREC <= base * dmul WBF_CAP (wp_portion prm)).
Proof.
  intros Hm He Hpo Hpe Hb H Hbp.
  destruct (oracle_swap_out_wf_sound _ _ _ _ _ _ _ _ _ _ _ _ _ Hm (exp_ok_pow_nonneg _ He) Hpo Hpe H) as (wbf & d0 & af & _ & _ & _ & _ & B).
  exact (bonus_paid_with_fee_capped _ _ _ _ _ Hb B Hbp).
Qed.

(* non-vacuity: a generated case (seed 1) replayed on the real SwapOutAmtGivenIn: two-asset oracle pool 7321 : 880, equal target
   weights, prices 1e-4 / 8.3e-4, 4880 in, external-liquidity ratio 100, default params: the swap worsens the weights, a fee of
   1.43 % is charged (bonus = - fee), 490 out *)
Lemma with_fee_nonvacuous :
  let p := mkPool 7321 880 1 1 0 0 true 7321 880 100000000000000 831857364403457 in
  let prm := mkWP 500000000000000 2500000000000000000 500000000000000000 300000000000000000 in
  exists s oo, oracle_swap_out_wf p (pool_assets p true) 0 1 4880 (100 * PREC) PREC 0 prm = Ok (490, s, oo, -14349589350757062)
    /\ exp_int_or_half (wp_exp prm) /\ 0 <= wp_mult prm /\ 0 <= wp_portion prm.
Proof.
  eexists. eexists. split; [vm_compute; reflexivity|]. split; [exact default_exponent_ok|]. split; vm_compute; discriminate.
Qed.
