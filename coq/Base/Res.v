(* Result of a handler: Ok with a new state, an ordinary error (the SDK rolls the tx back),
   or a Go panic (recovered by baseapp.runTx: also rolled back, but for block processing fatal). *)
From Coq Require Import ZArith List.
Import ListNotations.

Inductive res (A : Type) : Type :=
| Ok (a : A)
| Err (code : nat)
| Panic (code : nat).
Arguments Ok {A} a.
Arguments Err {A} code.
Arguments Panic {A} code.

Definition bind {A B} (r : res A) (f : A -> res B) : res B :=
  match r with Ok a => f a | Err c => Err c | Panic c => Panic c end.

Notation "'do' x <- r ; k" := (bind r (fun x => k)) (at level 200, x name, r at level 100, k at level 200).
Notation "'do' ' p <- r ; k" := (bind r (fun x => match x with p => k end))
  (at level 200, p pattern, r at level 100, k at level 200).

Definition is_ok {A} (r : res A) : bool := match r with Ok _ => true | _ => false end.

(* all-or-nothing transaction: baseapp writes the cache branch only on success *)
Definition run_tx {S} (h : S -> res S) (s : S) : S :=
  match h s with Ok s' => s' | _ => s end.

(* result kind as observed by the harness: 0 ok, 1 err, 2 panic *)
Definition kind {A} (r : res A) : Z := match r with Ok _ => 0 | Err _ => 1 | Panic _ => 2 end.

Definition guard {A} (b : bool) (c : nat) (k : res A) : res A := if b then k else Err c.

Fixpoint zsum (l : list Z) : Z := match l with [] => 0%Z | x :: r => (x + zsum r)%Z end.

Fixpoint upd_nth {A} (n : nat) (x : A) (l : list A) : list A :=
  match l, n with
  | [], _ => []
  | _ :: r, O => x :: r
  | y :: r, S m => y :: upd_nth m x r
  end.
