(* Total functions with point update; sums over explicit finite key lists. No extensionality:
   all statements are pointwise. *)
From Coq Require Import ZArith List Arith Lia Bool.
Import ListNotations.
Open Scope Z_scope.

Definition upd (f : nat -> Z) (k : nat) (v : Z) : nat -> Z :=
  fun x => if Nat.eqb x k then v else f x.
Definition upd2 (f : nat -> nat -> Z) (a b : nat) (v : Z) : nat -> nat -> Z :=
  fun x y => if Nat.eqb x a && Nat.eqb y b then v else f x y.

Lemma upd_same f k v : upd f k v k = v.
Proof. unfold upd. rewrite Nat.eqb_refl. reflexivity. Qed.
Lemma upd_other f k v x : x <> k -> upd f k v x = f x.
Proof. intros H. unfold upd. destruct (Nat.eqb_spec x k); [contradiction|reflexivity]. Qed.
Lemma upd2_same f a b v : upd2 f a b v a b = v.
Proof. unfold upd2. rewrite !Nat.eqb_refl. reflexivity. Qed.
Lemma upd2_other f a b v x y : (x <> a \/ y <> b) -> upd2 f a b v x y = f x y.
Proof.
  intros H. unfold upd2. destruct (Nat.eqb_spec x a); destruct (Nat.eqb_spec y b); cbn; try reflexivity.
  destruct H; contradiction.
Qed.

Fixpoint sumf (f : nat -> Z) (ks : list nat) : Z :=
  match ks with [] => 0 | k :: r => f k + sumf f r end.

Lemma sumf_upd_notin f k v ks : ~ In k ks -> sumf (upd f k v) ks = sumf f ks.
Proof.
  induction ks as [|x r IH]; intros H; cbn; [reflexivity|].
  rewrite upd_other by (intros ->; apply H; left; reflexivity).
  rewrite IH; [reflexivity|]. intros Hin; apply H; right; exact Hin.
Qed.

Lemma sumf_upd_in f k v ks : NoDup ks -> In k ks -> sumf (upd f k v) ks = sumf f ks - f k + v.
Proof.
  induction ks as [|x r IH]; intros ND Hin; [destruct Hin|].
  inversion ND as [|? ? Hx NDr]; subst. cbn. destruct (Nat.eq_dec x k) as [->|Ne].
  - rewrite upd_same, sumf_upd_notin by exact Hx. lia.
  - rewrite upd_other by exact Ne. destruct Hin as [E|Hin]; [contradiction|].
    rewrite IH by assumption. lia.
Qed.

Lemma sumf_ext f g ks : (forall k, In k ks -> f k = g k) -> sumf f ks = sumf g ks.
Proof.
  induction ks as [|x r IH]; intros H; cbn; [reflexivity|].
  rewrite (H x) by (left; reflexivity). rewrite IH; [reflexivity|].
  intros k Hk. apply H. right. exact Hk.
Qed.
