(* cosmossdk.io/math v1.4.0: Int = Z (big.Int), LegacyDec = Z scaled by 10^18 (dec.go).
   Every operation below computes the same integer as the Go method of the same name; this is
   checked on every run by the differential test TestZdec of the harness (pure, ~10^4 cases).
   Range panics (|x| > 2^256 for Int, 2^256*10^18 for LegacyDec... "Int overflow") are NOT modelled
   here: models that need them carry an explicit in-range side condition.
   big.Int.Quo / QuoRem truncate toward zero = Z.quot / Z.rem; division by zero panics in Go:
   callers must guard (the functions here return Z.quot _ 0 = 0, never used unguarded). *)
From Coq Require Import ZArith Lia.
Open Scope Z_scope.

Definition PREC : Z := 1000000000000000000.      (* 10^18 *)
Definition HALF : Z := 500000000000000000.       (* 5 * 10^17 *)

(* chopPrecisionAndRound: banker's rounding on the absolute value *)
Definition chop_round_nonneg (d : Z) : Z :=
  let q := Z.quot d PREC in
  let r := Z.rem d PREC in
  if r =? 0 then q
  else if r <? HALF then q
  else if HALF <? r then q + 1
  else if Z.even q then q else q + 1.

Definition chop_round (d : Z) : Z :=
  if d <? 0 then - chop_round_nonneg (- d) else chop_round_nonneg d.

(* chopPrecisionAndTruncate *)
Definition chop_trunc (d : Z) : Z := Z.quot d PREC.

(* chopPrecisionAndRoundUp *)
Definition chop_round_up (d : Z) : Z :=
  if d <? 0 then - Z.quot (- d) PREC
  else if Z.rem d PREC =? 0 then Z.quot d PREC else Z.quot d PREC + 1.

(* LegacyDec values are raw scaled integers *)
Definition dec_of_int (i : Z) : Z := i * PREC.                  (* LegacyNewDecFromInt *)
Definition dmul (a b : Z) : Z := chop_round (a * b).             (* Mul *)
Definition dmul_trunc (a b : Z) : Z := chop_trunc (a * b).       (* MulTruncate *)
Definition dmul_round_up (a b : Z) : Z := chop_round_up (a * b). (* MulRoundUp *)
Definition dmul_int (a i : Z) : Z := a * i.                      (* MulInt / MulInt64 *)
Definition dquo (a b : Z) : Z := chop_round (Z.quot (a * PREC * PREC) b).   (* Quo *)
Definition dquo_trunc (a b : Z) : Z := Z.quot (a * PREC) b.                  (* QuoTruncate *)
Definition dquo_round_up (a b : Z) : Z :=                                     (* QuoRoundUp *)
  let n := a * PREC in
  let q := Z.quot n b in let r := Z.rem n b in
  (* as coded: d.IsNegative() is read AFTER d.i was overwritten by the quotient *)
  if ((0 <? r) && (Bool.eqb (q <? 0) (b <? 0)) || (r <? 0) && negb (Bool.eqb (q <? 0) (b <? 0)))%bool
  then q + 1 else q.
Definition dquo_int (a i : Z) : Z := Z.quot a i.                 (* QuoInt / QuoInt64 *)
Definition round_int (a : Z) : Z := chop_round a.                (* RoundInt *)
Definition trunc_int (a : Z) : Z := chop_trunc a.                (* TruncateInt *)
Definition trunc_dec (a : Z) : Z := chop_trunc a * PREC.         (* TruncateDec *)
Definition dceil (a : Z) : Z :=                                  (* Ceil *)
  let q := Z.quot a PREC in let r := Z.rem a PREC in
  if 0 <? r then (q + 1) * PREC else q * PREC.

(* ---------- bounds used by the proofs (all for non-negative arguments) ---------- *)

Lemma PREC_pos : 0 < PREC. Proof. reflexivity. Qed.

Lemma chop_round_nonneg_bounds d : 0 <= d ->
  let c := chop_round_nonneg d in
  d - HALF <= c * PREC <= d + HALF /\ 0 <= c.
Proof.
  intros Hd. unfold chop_round_nonneg.
  pose proof (Z.quot_rem' d PREC) as E.
  assert (Hr : 0 <= Z.rem d PREC < PREC) by (apply Z.rem_bound_pos; [lia|reflexivity]).
  assert (Hq : 0 <= Z.quot d PREC) by (apply Z.quot_pos; [lia|reflexivity]).
  cbv zeta. unfold HALF, PREC in *.
  destruct (Z.rem d 1000000000000000000 =? 0) eqn:A; [apply Z.eqb_eq in A; lia|].
  destruct (Z.rem d 1000000000000000000 <? 500000000000000000) eqn:B; [apply Z.ltb_lt in B; lia|].
  apply Z.ltb_ge in B.
  destruct (500000000000000000 <? Z.rem d 1000000000000000000) eqn:C; [apply Z.ltb_lt in C; lia|].
  apply Z.ltb_ge in C.
  destruct (Z.even (Z.quot d 1000000000000000000)); lia.
Qed.

Lemma chop_round_nonneg_eq d : 0 <= d -> chop_round d = chop_round_nonneg d.
Proof. intros H. unfold chop_round. destruct (d <? 0) eqn:E; [apply Z.ltb_lt in E; lia|reflexivity]. Qed.

Lemma chop_round_bounds d : 0 <= d ->
  d - HALF <= chop_round d * PREC <= d + HALF /\ 0 <= chop_round d.
Proof. intros H. rewrite chop_round_nonneg_eq by lia. apply chop_round_nonneg_bounds. lia. Qed.

Lemma chop_trunc_bounds d : 0 <= d -> d - PREC < chop_trunc d * PREC <= d /\ 0 <= chop_trunc d.
Proof.
  intros Hd. unfold chop_trunc.
  pose proof (Z.quot_rem' d PREC) as E.
  assert (Hr : 0 <= Z.rem d PREC < PREC) by (apply Z.rem_bound_pos; [lia|reflexivity]).
  assert (Hq : 0 <= Z.quot d PREC) by (apply Z.quot_pos; [lia|reflexivity]).
  lia.
Qed.

Lemma chop_round_mono a b : 0 <= a <= b -> chop_round a <= chop_round b.
Proof.
  intros H.
  destruct (chop_round_bounds a ltac:(lia)) as [[A1 A2] A3].
  destruct (chop_round_bounds b ltac:(lia)) as [[B1 B2] B3].
  (* c_a*P <= a + H, c_b*P >= b - H >= a - H: c_a*P - c_b*P <= 2H = P, so c_a <= c_b + 1; need sharper *)
  rewrite !chop_round_nonneg_eq in * by lia.
  unfold chop_round_nonneg in *.
  pose proof (Z.quot_rem' a PREC) as Ea. pose proof (Z.quot_rem' b PREC) as Eb.
  assert (Hra : 0 <= Z.rem a PREC < PREC) by (apply Z.rem_bound_pos; [lia|reflexivity]).
  assert (Hrb : 0 <= Z.rem b PREC < PREC) by (apply Z.rem_bound_pos; [lia|reflexivity]).
  assert (Hqq : Z.quot a PREC <= Z.quot b PREC) by (apply Z.quot_le_mono; [reflexivity|lia]).
  unfold HALF, PREC in *.
  destruct (Z.eq_dec (Z.quot a 1000000000000000000) (Z.quot b 1000000000000000000)) as [Q|Q].
  - rewrite Q in *.
    destruct (Z.rem a 1000000000000000000 =? 0) eqn:A; [apply Z.eqb_eq in A|apply Z.eqb_neq in A];
    destruct (Z.rem b 1000000000000000000 =? 0) eqn:B; [apply Z.eqb_eq in B|apply Z.eqb_neq in B| apply Z.eqb_eq in B|apply Z.eqb_neq in B];
    repeat match goal with |- context [if ?c then _ else _] => destruct c eqn:? end;
    repeat match goal with H : (_ <? _) = true |- _ => apply Z.ltb_lt in H | H : (_ <? _) = false |- _ => apply Z.ltb_ge in H end;
    lia.
  - assert (Z.quot a 1000000000000000000 + 1 <= Z.quot b 1000000000000000000) by lia.
    repeat match goal with |- context [if ?c then _ else _] => destruct c eqn:? end; lia.
Qed.
