(* Go's uint64 arithmetic over Z, for the arithmetic ties (tools/gotrans arith, spec flag Wrap64).
   A uint64 value is a Z in [0, 2^64); + - * wrap around modulo 2^64 (Go language specification, "Integer
   overflow": unsigned operations are computed modulo 2^n and never panic). Conversions: uint64(x) of a signed
   64-bit x is x mod 2^64; int64(u) / int(u) (64-bit platforms) of a uint64 u is its two's complement reading. *)
From Coq Require Import ZArith Lia.
Open Scope Z_scope.

Definition U64M : Z := 18446744073709551616.     (* 2^64 *)
Definition I64M : Z := 9223372036854775808.      (* 2^63 *)

Definition u64_add (a b : Z) : Z := (a + b) mod U64M.
Definition u64_sub (a b : Z) : Z := (a - b) mod U64M.
Definition u64_mul (a b : Z) : Z := (a * b) mod U64M.
Definition u64_of_int (x : Z) : Z := x mod U64M.
Definition int_of_u64 (u : Z) : Z := if u <? I64M then u else u - U64M.

Lemma U64M_eq : U64M = 2 ^ 64. Proof. reflexivity. Qed.
Lemma I64M_eq : I64M = 2 ^ 63. Proof. reflexivity. Qed.

Lemma u64_add_small : forall a b, 0 <= a -> 0 <= b -> a + b < U64M -> u64_add a b = a + b.
Proof. intros. unfold u64_add. apply Z.mod_small. lia. Qed.

Lemma u64_sub_small : forall a b, 0 <= b <= a -> a < U64M -> u64_sub a b = a - b.
Proof. intros. unfold u64_sub. apply Z.mod_small. lia. Qed.

Lemma u64_of_int_small : forall x, 0 <= x < U64M -> u64_of_int x = x.
Proof. intros. unfold u64_of_int. apply Z.mod_small. lia. Qed.

Lemma int_of_u64_small : forall u, u < I64M -> int_of_u64 u = u.
Proof. intros u H. unfold int_of_u64. destruct (u <? I64M) eqn:E; [reflexivity|]. apply Z.ltb_ge in E. lia. Qed.

Lemma u64_add_range : forall a b, 0 <= u64_add a b < U64M.
Proof. intros. unfold u64_add. apply Z.mod_pos_bound. reflexivity. Qed.
