(* x/amm joins and exits (C05), definitions only. Exact over Z with Base/Zdec.v.

   Pool = reserves [R : list Z] in PoolAssets order (PoolAssets are sorted by denom and denoms are
   distinct: SetInitialPoolAssets / GetPoolAssetsByDenom) + total shares [S]. A denomination is the
   POSITION of the asset in the pool ([d < length R]); [d >= length R] is a denom that is not in the
   pool. sdk.Coins values supplied by a USER (MsgJoinPool.MaxAmountsIn is validated coin by coin only:
   it may be unsorted, contain duplicates and zero amounts) are lists of (denom, amount) and the
   sdk.Coins operations applied to them are modelled as coded in cosmos-sdk v0.50.9 types/coin.go
   (isSorted is non-strict, safeAdd coalesces equal denoms and drops zeros, Find is the coded binary
   search, Sub panics on a negative result).

   Modelled functions (Go name -> Gallina):
     MaximalExactRatioJoin + CalcJoinPoolNoSwapShares + JoinPool(len(tokensIn) != 1) + IncreaseLiquidity -> join_coins
     Pool.GetMaximalNoSwapLPAmount                                                     -> maximal_lp
     keeper.JoinPoolNoSwap, non-oracle pool, all-asset (needed liquidity then JoinPool) -> join_shares
     CalcExitPool pro-rata branch + processExitPool (ExitPool)                         -> exit_prorata
     keeper.ExitPool guards                                                            -> keeper_exit
     Pool.TVL (oracle pool)                                                            -> tvl
     JoinPool oracle single-sided branch                                               -> join_oracle
     CalcExitPool oracle single-sided branch + processExitPool                         -> exit_oracle
     calcSingleAssetJoin / calcPoolSharesOutGivenSingleAssetIn (weighted, uses Pow)    -> single_join_*
   The weight-breaking fee (GetWeightBreakingFee uses Pow) and Pow itself are inputs resolved from the
   implementation. *)
From Coq Require Import ZArith List Bool Lia.
From Elys Require Import Base.Res Base.Zdec.
Import ListNotations.
Open Scope Z_scope.

Definition MAXSORT : Z := PREC * PREC.          (* LegacyMaxSortableDec = 1 / 10^-18, raw *)

Definition E_DENOM : nat := 1.       (* EnsureDenomInPool *)
Definition E_NUMASSETS : nat := 2.   (* no-swap joins require all assets *)
Definition E_MER : nat := 3.         (* "unexpected error in MaximalExactRatioJoin" *)
Definition E_MOREJOINED : nat := 4.  (* more coins joined than token In *)
Definition E_FEWSHARES : nat := 5.   (* Too few shares out wanted *)
Definition E_MAXSHARES : nat := 6.   (* exit >= total shares *)
Definition E_TOOMANY : nat := 7.     (* too many shares out *)
Definition E_PRICE : nat := 8.       (* token price not set *)
Definition E_LOW : nat := 9.         (* ErrAmountTooLow *)
Definition E_NEGPOOL : nat := 10.    (* negative pool amount after swap *)
Definition E_NONPOS : nat := 11.     (* keeper: exit a non-positive amount of shares *)
Definition E_EMPTIES : nat := 12.    (* exit would take the pool's balance of a token to zero *)
Definition P_DIVZERO : nat := 1.
Definition P_UNSORTED : nat := 2.
Definition P_NEGCOIN : nat := 3.

Definition coin := (nat * Z)%type.
Definition rsv (R : list Z) (d : nat) : Z := nth d R 0.

(* ---------- sdk.Coins as coded ---------- *)

Fixpoint coins_sorted (l : list coin) : bool :=          (* Coins.isSorted: non-strict *)
  match l with
  | c1 :: r => match r with
               | c2 :: _ => (fst c1 <=? fst c2)%nat && coins_sorted r
               | [] => true
               end
  | [] => true
  end.

Fixpoint sum_denom (d : nat) (l : list coin) : Z :=      (* what safeAdd coalesces for denom d *)
  match l with
  | [] => 0
  | c :: r => (if Nat.eqb (fst c) d then snd c else 0) + sum_denom d r
  end.

Fixpoint coins_find (fuel : nat) (l : list coin) (d : nat) : option Z :=   (* Coins.Find *)
  match fuel with
  | O => None
  | S f =>
    match l with
    | [] => None
    | [c] => if Nat.eqb (fst c) d then Some (snd c) else None
    | _ => let mid := Nat.div2 (length l) in
           match nth_error l mid with
           | Some c => if (d <? fst c)%nat then coins_find f (firstn mid l) d
                       else if Nat.eqb d (fst c) then Some (snd c)
                       else coins_find f (skipn (S mid) l) d
           | None => None
           end
    end
  end.

Definition amount_of (l : list coin) (d : nat) : Z :=     (* Coins.AmountOf *)
  match coins_find (S (length l)) l d with Some a => a | None => 0 end.

(* ---------- all-asset join with given tokens ---------- *)

Definition ratio_of (R : list Z) (c : coin) : Z := Z.quot (snd c * PREC) (rsv R (fst c)).
Definition min_ratio (rs : list Z) : Z := fold_left Z.min rs MAXSORT.
Definition max_ratio (rs : list Z) : Z := fold_left Z.max rs 0.
Definition used_amt (minr r : Z) : Z := trunc_int (dceil (dmul_int minr r)).
Definition shares_of (minr S : Z) : Z := trunc_int (dmul_int minr S).

(* amount of coin c that is joined: all of it when its ratio is the minimal one, else
   ceil(minRatio * reserve) (the remainder goes to remCoins) *)
Definition eff (R : list Z) (minr maxr : Z) (c : coin) : coin :=
  if minr =? maxr then c
  else if ratio_of R c =? minr then c
  else (fst c, used_amt minr (rsv R (fst c))).

Definition joined_of (n : nat) (effs : list coin) : list Z := map (fun d => sum_denom d effs) (seq 0 n).

Definition any_gt (j : list Z) (t : list coin) : bool :=   (* tokensJoined.IsAnyGT(tokensIn) *)
  match t with
  | [] => false
  | _ => existsb (fun d => let x := nth d j 0 in let a := amount_of t d in
                           negb (x =? 0) && (a <? x) && negb (a =? 0)) (seq 0 (length j))
  end.

Fixpoint zip_add (a b : list Z) : list Z :=
  match a, b with
  | x :: r, y :: t => (x + y) :: zip_add r t
  | _, _ => a
  end.

(* result: shares minted, joined amount per pool asset, new reserves, new total shares.
   [join_coins_prefix] is CalcJoinPoolNoSwapShares as it was before fix: 383287d (kept for the
   [_refuted] theorem that documents why the duplicate check is needed). *)
Definition join_coins_prefix (R : list Z) (S : Z) (t : list coin) : res (Z * list Z * list Z * Z) :=
  if negb (forallb (fun c => (fst c <? length R)%nat) t) then Err E_DENOM else
  if negb (Nat.eqb (length t) (length R)) then Err E_NUMASSETS else
  if existsb (fun c => rsv R (fst c) =? 0) t then Panic P_DIVZERO else
  let rs := map (ratio_of R) t in
  let minr := min_ratio rs in
  let maxr := max_ratio rs in
  if minr =? MAXSORT then Err E_MER else
  let shares := shares_of minr S in
  let effs := map (eff R minr maxr) t in
  if negb (coins_sorted t) then Panic P_UNSORTED else
  let j := joined_of (length R) effs in
  if existsb (fun x => x <? 0) j then Panic P_NEGCOIN else
  if any_gt j t then Err E_MOREJOINED else
  Ok (shares, j, zip_add R j, S + shares).

Fixpoint has_dup (l : list coin) : bool :=
  match l with
  | [] => false
  | c :: r => existsb (fun c' => Nat.eqb (fst c') (fst c)) r || has_dup r
  end.

(* CalcJoinPoolNoSwapShares as it is: after EnsureDenomInPool and the length check, a repeated denom
   is rejected (same error as a wrong number of assets) *)
Definition join_coins (R : list Z) (S : Z) (t : list coin) : res (Z * list Z * list Z * Z) :=
  if forallb (fun c => (fst c <? length R)%nat) t && Nat.eqb (length t) (length R) && has_dup t
  then Err E_NUMASSETS else join_coins_prefix R S t.

(* one coin per pool asset, in pool order: what a well-formed sdk.Coins value looks like *)
Definition enum (amts : list Z) : list coin := combine (seq 0 (length amts)) amts.

(* ---------- all-asset join for a requested number of shares (non-oracle pools) ---------- *)

(* reserves are assumed non-zero here (a zero reserve is dropped from GetTotalPoolLiquidity) *)
Definition maximal_lp (R : list Z) (S shareOut : Z) : res (list Z) :=
  if S =? 0 then Panic P_DIVZERO else
  let sr := Z.quot (shareOut * PREC) S in
  if sr <=? 0 then Err E_FEWSHARES else
  let needed := map (fun r => round_int (dceil (dmul (dec_of_int r) sr))) R in
  if existsb (fun n => n <=? 0) needed then Err E_FEWSHARES else Ok needed.

Definition join_shares (R : list Z) (S shareOut : Z) : res (list Z * (Z * list Z * list Z * Z)) :=
  do needed <- maximal_lp R S shareOut;
  do r <- join_coins R S (enum needed);
  Ok (needed, r).

(* ---------- exits ---------- *)

Fixpoint zip_exit (R outs : list Z) : list Z :=
  match R, outs with
  | r :: R', o :: t => (if r - o =? 0 then r else r - o) :: zip_exit R' t
  | _, _ => R
  end.

(* processExitPool: balances := liquidity.Sub(exitCoins) panics on a negative amount and DROPS a
   zero amount, so UpdatePoolAssetBalances never sees (nor rejects) a reserve that became zero:
   that reserve would keep its old book value ([zip_exit]). Before fix: 1c2976e that was all
   ([apply_exit_prefix]); now len(balances) != len(PoolAssets) is an error. *)
Definition apply_exit_prefix (R outs : list Z) : res (list Z) :=
  if existsb (fun ro => fst ro - snd ro <? 0) (combine R outs) then Panic P_NEGCOIN
  else Ok (zip_exit R outs).

Definition apply_exit (R outs : list Z) : res (list Z) :=
  if existsb (fun ro => fst ro - snd ro <? 0) (combine R outs) then Panic P_NEGCOIN else
  if existsb (fun ro => fst ro - snd ro =? 0) (combine R outs) then Err E_EMPTIES
  else Ok (zip_exit R outs).

Definition exit_amt (ratio r : Z) : Z :=
  let e := trunc_int (dmul_int ratio r) in if e <=? 0 then 0 else e.

(* result: coins out per asset, new reserves, new total shares *)
Definition exit_prorata (R : list Z) (S sh : Z) : res (list Z * list Z * Z) :=
  if S <=? sh then Err E_MAXSHARES else
  if S =? 0 then Panic P_DIVZERO else
  let ratio := Z.quot (sh * PREC) S in
  let outs := map (exit_amt ratio) R in
  if existsb (fun ro => (0 <? snd ro) && (fst ro <=? snd ro)) (combine R outs) then Err E_TOOMANY else
  do R' <- apply_exit R outs;
  Ok (outs, R', S - sh).

Definition keeper_exit (R : list Z) (S sh : Z) : res (list Z * list Z * Z) :=
  if S <=? sh then Err E_MAXSHARES else
  if sh <=? 0 then Err E_NONPOS else exit_prorata R S sh.

(* ---------- oracle pools ---------- *)

Definition eff_amount (r a : Z) : Z := if 0 <? a then a else r.   (* accounted balance if positive *)

Fixpoint tvl_sum (R acc prices : list Z) : Z :=
  match R, acc, prices with
  | r :: R', a :: acc', p :: ps => dmul (dec_of_int (eff_amount r a)) p + tvl_sum R' acc' ps
  | _, _, _ => 0
  end.

Definition tvl (R acc prices weights : list Z) : res Z :=
  if existsb (fun p => p =? 0) prices then Err E_PRICE else
  let tw := zsum weights in
  if tw =? 0 then Ok 0 else
  Ok (dquo (dmul (tvl_sum R acc prices) (dec_of_int tw)) (dec_of_int tw)).

(* the final share kernel of the single-sided oracle join: join value jv, pool value T, fee wbf (raw Decs) *)
Definition oracle_join_shares (S jv T wbf : Z) : Z :=
  round_int (dmul (dquo (dmul (dec_of_int S) jv) T) (PREC - wbf)).

Definition join_oracle (R : list Z) (S : Z) (k : nat) (amt : Z) (acc prices weights : list Z) (wbf : Z)
  : res (Z * list Z * Z) :=
  let p := nth k prices 0 in
  if p =? 0 then Err E_PRICE else
  let jv := dmul p (dec_of_int amt) in
  do T <- tvl R acc prices weights;
  if T =? 0 then Err E_LOW else
  let shares := oracle_join_shares S jv T wbf in
  Ok (shares, upd_nth k (rsv R k + amt) R, S + shares).

(* the final amount kernel of the single-sided oracle exit: (amount before fee, amount paid) *)
Definition oracle_exit_out (T S sh p wbf : Z) : Z * Z :=
  let ev := dquo (dmul T (dec_of_int sh)) (dec_of_int S) in
  let oo := dquo ev p in
  (round_int oo, round_int (dmul oo (PREC - wbf))).

(* [fx] = true: the code as it is (processExitPool refuses an emptied reserve). [fx] = false: the code
   before fix: 1c2976e, kept for the [_refuted] theorem. *)
Definition exit_oracle_gen (fx : bool) (R : list Z) (S sh : Z) (k : nat) (acc prices weights : list Z) (wbf : Z)
  : res (Z * list Z * Z) :=
  if S <=? sh then Err E_MAXSHARES else
  if S =? 0 then Panic P_DIVZERO else
  do T <- tvl R acc prices weights;
  let p := nth k prices 0 in
  let '(pre, out) := oracle_exit_out T S sh p wbf in
  if eff_amount (rsv R k) (nth k acc 0) - pre <? 0 then Err E_NEGPOOL else
  do R' <- (if fx then apply_exit else apply_exit_prefix) R (upd_nth k out (map (fun _ => 0) R));
  Ok (out, R', S - sh).

Definition exit_oracle := exit_oracle_gen true.
Definition exit_oracle_prefix := exit_oracle_gen false.

(* ---------- single-asset join of a weighted pool: everything but Pow ---------- *)

(* B reserve of the asset, w its weight, tw total weight, a amount in, fee swap fee (raw Dec) *)
Definition single_join_wn (w tw : Z) : Z := dquo (dec_of_int w) (dec_of_int tw).
Definition single_join_y (B w tw a fee : Z) : Z :=
  let wn := single_join_wn w tw in
  let after_fee := dmul (dec_of_int a) (PREC - dmul (PREC - wn) fee) in
  dquo (dec_of_int B + after_fee) (dec_of_int B).
(* pw = Pow(y, wn) as computed by the implementation *)
Definition single_join_shares (S pw : Z) : Z := trunc_int (- dmul (dec_of_int S) (PREC - pw)).

(* ---------- histories of well-formed operations ---------- *)

Inductive op :=
| OJoinTokens (amts : list Z)     (* one amount per pool asset *)
| OJoinShares (shareOut : Z)
| OExit (sh : Z).

Definition pstate := (list Z * Z)%type.

Definition step (s : pstate) (o : op) : res pstate :=
  let R := fst s in let Sh := snd s in
  match o with
  | OJoinTokens amts =>
      if negb (forallb (fun a => 0 <=? a) amts) then Err E_DENOM else   (* Coin.Validate: no negative amount *)
      do r <- join_coins R Sh (enum amts);
      Ok (snd (fst r), snd r)
  | OJoinShares so =>
      do r <- join_shares R Sh so;
      Ok (snd (fst (snd r)), snd (snd r))
  | OExit sh =>
      do r <- keeper_exit R Sh sh;
      Ok (snd (fst r), snd r)
  end.

Definition exec (s : pstate) (o : op) : pstate := run_tx (fun s => step s o) s.
Definition run (s : pstate) (ops : list op) : pstate := fold_left exec ops s.
