(* C09, second half: "the liquidity pool always holds at least the total custody recorded for each asset".
   State: per asset the amm pool reserve (PoolAssets[i].Token.Amount) and the perpetual pool's recorded
   custody (long and short side), plus the two aggregates the funding code divides by (long collateral,
   short liabilities).  Operations: the primitive moves of the code with the placement of
   CheckMinimumCustodyAmt / CheckLowPoolHealthAndMinimumCustody exactly as coded.

   Every code path that lowers a reserve or raises custody (x/ = /repo/x):
   (a) reserve goes down
     amm/keeper/update_pool_for_swap.go:47,75,111   swap out, swap fee, weight-breaking fee -> SetPool :158 -> hooks.AfterSwap :163
        callers: amm EndBlocker ExecuteSwapRequests (abci.go:124,136,140 every request on its own CacheContext, a failing hook
        drops the request), OnCollectFee -> SwapFeesToRevenueToken (fee.go:36 CacheContext, own hook check), masterchef fee
        conversion (masterchef/keeper/abci.go:346 CacheContext), tradeshield spot orders (SwapByDenom, CacheContext per order)
     amm/keeper/apply_exit_pool_state_change.go:19  exit -> SetPool :27 -> hooks.AfterExitPool :31
        callers: MsgExitPool, leveragelp close / liquidation (leveragelp/keeper/begin_blocker.go:90,135 CacheContext)
     perpetual/keeper/keeper.go:197 SendFromAmmPool, three callers, NONE followed by a check:
        repay.go:14            return of closingCustody - repayAmount (estimate_and_repay.go:73-86: never more than closingCustody)
        keeper.go:299, :315    borrow interest to the fund and to the perpetual module (mtp_borrow_interest.go:80-95: the same
                               amount is taken off the custody)
     the hooks AfterSwap/AfterExitPool/AfterJoinPool (perpetual/keeper/hooks_amm.go) run CheckLowPoolHealthAndMinimumCustody on the
     STORED amm pool, which was stored just before the hook; an error fails the enclosing transaction / cache context
   (b) custody goes up
     perpetual/keeper/keeper.go:146 Borrow (new position, consolidating re-open, collateral top-up with leverage 0):
        open.go:116 (new) and open_consolidate.go:82 (consolidation) run CheckLowPoolHealthAndMinimumCustody at the end of the tx
     settle_funding_fee_distribution.go:37,82 funding distribution: custody of the RECEIVING side grows without any transfer
        (long: trading asset, short: base currency) and without a check (close_position.go:39, process_mtp.go:36).
        The amount is GetFundingDistributionValue(ctx, uint64(ctx.BlockHeight()), pool) (line 17): start block = current block,
        for which keeper/pool.go:308 returns (0,0) on every branch [fdv_now]; so nothing is ever distributed.
     take-profit custody is a separate field, not part of GetPerpetualPoolBalances' total custody
   (c) blockers: perpetual BeginBlocker only recomputes rates and pool health (begin_blocker.go); no custody / reserve move.
   (d) NOT atomic: perpetual MsgClosePositions (msg_server_close_positions.go:39,60,81) runs every item on the message's own
       context and only logs an item's error.  In CheckAndLiquidateUnhealthyPosition (process_mtp.go:32-39) the interest
       transfers are written by SendFromAmmPool at once, the matching custody reduction lives in the handler's copy of the
       pool until SettleFunding stores it; FundingFeeDistribution returns an error in between when the side's open interest
       is zero (settle_funding_fee_distribution.go:23,56): the transfers stay, the custody reduction is lost [item_asis]. *)
From Coq Require Import ZArith List Bool Arith.
From Elys Require Import Base.Res Base.Fn Base.Zdec.
Import ListNotations.
Open Scope Z_scope.

Inductive side := Long | Short.

Record bst := mkB {
  rsv : nat -> Z;     (* amm reserve per asset *)
  lcu : nat -> Z;     (* PoolAssetsLong[d].Custody *)
  scu : nat -> Z;     (* PoolAssetsShort[d].Custody *)
  lco : nat -> Z;     (* PoolAssetsLong[d].Collateral *)
  sli : nat -> Z      (* PoolAssetsShort[d].Liabilities *)
}.

Definition b_empty : bst := mkB (fun _ => 0) (fun _ => 0) (fun _ => 0) (fun _ => 0) (fun _ => 0).

(* GetPerpetualPoolBalances: total custody of an asset = long + short *)
Definition tcu (s : bst) (d : nat) : Z := lcu s d + scu s d.

(* CheckMinimumCustodyAmt, pool_health.go:74 *)
Definition backed_b (assets : list nat) (s : bst) : bool := forallb (fun d => tcu s d <=? rsv s d) assets.

(* types/pool.go:158 GetTotalLongOpenInterest, :175 GetTotalShortOpenInterest *)
Definition long_oi (assets : list nat) (s : bst) : Z :=
  fold_right (fun d a => (if lcu s d =? 0 then 0 else lcu s d - lco s d) + a) 0 assets.
Definition short_oi (assets : list nat) (s : bst) : Z := fold_right (fun d a => sli s d + a) 0 assets.
Definition side_oi (assets : list nat) (s : bst) (sd : side) : Z :=
  match sd with Long => long_oi assets s | Short => short_oi assets s end.

(* the per-block funding store (cumulative amounts, LegacyDec) and keeper/pool.go:308 GetFundingDistributionValue *)
Record fstore := mkFS { fs_has : Z -> bool; fs_long : Z -> Z; fs_short : Z -> Z; fs_first : Z }.

Definition fdv (fs : fstore) (start cur : Z) : Z * Z :=
  if fs_has fs start && fs_has fs cur && negb (start =? cur)
  then (fs_long fs cur - fs_long fs start, fs_short fs cur - fs_short fs start)
  else if negb (fs_has fs start) && fs_has fs cur && (start <? fs_first fs)
  then (fs_long fs cur, fs_short fs cur)
  else (0, 0).

(* settle_funding_fee_distribution.go: amount added to the MTP's and the pool's custody; the caller passes the CURRENT height
   as start block (line 17).  Long positions are paid from what shorts paid and vice versa. *)
Definition fund_dist (sd : side) (fs : fstore) (cur share price : Z) : Z :=
  let '(lg, sh) := fdv fs cur cur in
  match sd with
  | Long => if (share =? 0) || (sh =? 0) then 0 else trunc_int (dmul sh share)
  | Short => if (share =? 0) || (lg =? 0) then 0 else
             let f := trunc_int (dmul lg share) in
             if f =? 0 then 0 else trunc_int (dmul (dec_of_int f) price)
  end.

(* primitive moves *)
Inductive mv :=
| MIn (d : nat) (a : Z)                (* bank send to the pool + AddToPoolBalanceAndUpdateLiquidity *)
| MOut (d : nat) (a : Z)               (* bank send from the pool + RemoveFromPoolBalanceAndUpdateLiquidity *)
| MCust (sd : side) (d : nat) (a : Z)  (* pool.UpdateCustody, signed *)
| MColl (d : nat) (a : Z)              (* pool.UpdateCollateral on the long side, signed *)
| MSLiab (d : nat) (a : Z)             (* pool.UpdateLiabilities on the short side, signed *)
| MFundDist (sd : side) (d : nat) (fs : fstore) (cur share price : Z)
| MCheck (hl : bool)                   (* CheckLowPoolHealthAndMinimumCustody; hl = "pool health <= threshold" (implementation-resolved) *)
| MGuard (ok : bool).                  (* a value the SDK refuses to build (negative coin): panic *)

Definition E_b := 41%nat.

Definition set_cu (s : bst) (sd : side) (d : nat) (v : Z) : bst :=
  match sd with
  | Long => mkB (rsv s) (upd (lcu s) d v) (scu s) (lco s) (sli s)
  | Short => mkB (rsv s) (lcu s) (upd (scu s) d v) (lco s) (sli s)
  end.
Definition cu (s : bst) (sd : side) (d : nat) : Z := match sd with Long => lcu s d | Short => scu s d end.

Definition mstep (assets : list nat) (s : bst) (m : mv) : res bst :=
  match m with
  | MIn d a => if a <? 0 then Panic E_b (* sdk.NewCoin *) else
               Ok (mkB (upd (rsv s) d (rsv s d + a)) (lcu s) (scu s) (lco s) (sli s))
  | MOut d a => if a <? 0 then Panic E_b else
                if rsv s d - a <? 0 then Err E_b (* subtractFromPoolAssetBalances *) else
                Ok (mkB (upd (rsv s) d (rsv s d - a)) (lcu s) (scu s) (lco s) (sli s))
  | MCust sd d a => Ok (set_cu s sd d (cu s sd d + a))
  | MColl d a => Ok (mkB (rsv s) (lcu s) (scu s) (upd (lco s) d (lco s d + a)) (sli s))
  | MSLiab d a => Ok (mkB (rsv s) (lcu s) (scu s) (lco s) (upd (sli s) d (sli s d + a)))
  | MFundDist sd d fs cur share price =>
      if side_oi assets s sd =? 0 then Err E_b else
      Ok (set_cu s sd d (cu s sd d + fund_dist sd fs cur share price))
  | MCheck hl => if hl then Err E_b else if backed_b assets s then Ok s else Err E_b
  | MGuard ok => if ok then Ok s else Panic E_b
  end.

Fixpoint mrun (assets : list nat) (s : bst) (l : list mv) : res bst :=
  match l with [] => Ok s | m :: r => do s1 <- mstep assets s m; mrun assets s1 r end.

(* signed reserve move of an amm operation *)
Definition amm_mv (p : nat * Z) : mv := if snd p <? 0 then MOut (fst p) (- snd p) else MIn (fst p) (snd p).

(* one settlement / close of one MTP: ClosePosition (close_position.go), CheckAndLiquidateUnhealthyPosition and
   CheckAndCloseAtStopLoss / TakeProfit (process_mtp.go) *)
Record sitem := mkSI {
  si_settle : bool;            (* interest + funding settled first (user close, liquidation item); not for stop-loss / take-profit *)
  si_side : side;
  si_d : nat;                  (* custody asset *)
  si_take : Z; si_rev : Z;     (* interest paid from custody: to the fund, to the perpetual module *)
  si_ftake : Z;                (* funding fee collected from custody (only when positive) *)
  si_fs : fstore; si_cur : Z; si_share : Z; si_price : Z;
  si_close : option (Z * Z);   (* Repay runs with (closing custody, repay amount) *)
  si_dcoll : nat; si_coll : Z; (* long side: collateral asset and the collateral released by Repay *)
  si_dliab : nat; si_liab : Z  (* short side: liabilities asset and the liabilities paid by Repay *)
}.

Definition int_out (it : sitem) : list mv := [MOut (si_d it) (si_take it); MOut (si_d it) (si_rev it)].
Definition fund_moves (it : sitem) : list mv :=
  [MCust (si_side it) (si_d it) (- (si_take it + si_rev it))] ++
  (if si_ftake it >? 0 then [MCust (si_side it) (si_d it) (- si_ftake it)] else []) ++
  [MFundDist (si_side it) (si_d it) (si_fs it) (si_cur it) (si_share it) (si_price it)].
(* estimate_and_repay.go CalcReturnAmount + repay.go; a closing custody below zero is outside the model (the per-MTP
   custody is non-negative, as in Models/PerpLedger.v); a negative repay amount cannot be built (sdk.Coin) *)
Definition repay_moves (it : sitem) : list mv :=
  match si_close it with
  | None => []
  | Some (cc, rp) =>
      let ret := if cc <? rp then 0 else cc - rp in
      [MGuard (negb ((cc <? 0) || (rp <? 0)))] ++
      (if ret >? 0 then [MOut (si_d it) ret] else []) ++
      [MCust (si_side it) (si_d it) (- cc)] ++
      match si_side it with Long => [MColl (si_dcoll it) (- si_coll it)] | Short => [MSLiab (si_dliab it) (- si_liab it)] end
  end.
Definition item_moves (it : sitem) : list mv :=
  (if si_settle it then int_out it ++ fund_moves it else []) ++ repay_moves it.

(* handler-level operations inside one transaction *)
Inductive hop :=
| HAmm (ds : list (nat * Z)) (inner : option (list (nat * Z) * bool)) (hl : bool)
    (* swap hop / join / exit: reserves move by the signed amounts, the pool is stored, an optional fee-to-revenue conversion
       runs on a cache context with its own hook check (amm/keeper/fee.go:36), then the operation's own hook check *)
| HOpen (sd : side) (dcoll : nat) (coll : Z) (dcust : nat) (cust : Z) (dliab : nat) (liab : Z)
        (cns : option (Z * fstore * Z * Z * Z)) (hl0 hl1 : bool)
    (* MsgOpen: check, collateral in, Borrow raises custody/collateral/liabilities, for a consolidation SettleFunding of the
       existing position (funding take, store, current height, share, price), final check *)
| HClose (it : sitem).  (* MsgClose: one settlement + Repay inside the transaction *)

Definition hmoves (h : hop) : list mv :=
  match h with
  | HAmm ds _ hl => map amm_mv ds ++ [MCheck hl]
  | HOpen sd dcoll coll dcust cust dliab liab cns hl0 hl1 =>
      [MCheck hl0; MIn dcoll coll; MCust sd dcust cust] ++
      match sd with Long => [MColl dcoll coll] | Short => [MSLiab dliab liab] end ++
      match cns with
      | None => []
      | Some (ftake, fs, cur, share, price) =>
          (if ftake >? 0 then [MCust sd dcust (- ftake)] else []) ++ [MFundDist sd dcust fs cur share price]
      end ++ [MCheck hl1]
  | HClose it => item_moves it
  end.

Definition hstep (assets : list nat) (s : bst) (h : hop) : res bst :=
  match h with
  | HAmm ds inner hl =>
      do s1 <- mrun assets s (map amm_mv ds);
      let s2 := match inner with
                | None => s1
                | Some (ds', hl') => run_tx (fun x => mrun assets x (map amm_mv ds' ++ [MCheck hl'])) s1
                end in
      mstep assets s2 (MCheck hl)
  | _ => mrun assets s (hmoves h)
  end.

Fixpoint hrun (assets : list nat) (s : bst) (l : list hop) : res bst :=
  match l with [] => Ok s | h :: r => do s1 <- hstep assets s h; hrun assets s1 r end.

(* one item of MsgClosePositions AS CODED: no cache context, the error is only logged *)
Definition item_asis (assets : list nat) (s : bst) (it : sitem) : bst :=
  if si_settle it then
    match mstep assets s (MOut (si_d it) (si_take it)) with
    | Ok s1 =>
        match mstep assets s1 (MOut (si_d it) (si_rev it)) with
        | Ok s2 =>
            (* both transfers are written; the custody reduction is in the handler's copy of the pool until SettleFunding *)
            match mrun assets s2 (fund_moves it) with
            | Ok s3 => match mrun assets s3 (repay_moves it) with Ok s4 => s4 | _ => s3 end
            | _ => s2      (* FundingFeeDistribution failed: transfers stay, custody reduction lost *)
            end
        | _ => s1          (* second transfer failed: first one stays *)
        end
    | _ => s
    end
  else match mrun assets s (repay_moves it) with Ok s' => s' | _ => s end.

(* the item leaves a transfer behind without its custody reduction *)
Definition item_aborts (assets : list nat) (s : bst) (it : sitem) : bool :=
  si_settle it &&
  match mstep assets s (MOut (si_d it) (si_take it)) with
  | Ok s1 =>
      match mstep assets s1 (MOut (si_d it) (si_rev it)) with
      | Ok s2 => negb (is_ok (mrun assets s2 (fund_moves it))) && (si_take it + si_rev it >? 0)
      | _ => si_take it >? 0
      end
  | _ => false
  end.

(* the same item when it is run all-or-nothing (what a cache context per item gives) *)
Definition item_atomic (assets : list nat) (s : bst) (it : sitem) : bst :=
  run_tx (fun x => mrun assets x (item_moves it)) s.

(* transaction / block level *)
Inductive bunit :=
| UTx (l : list hop)              (* a transaction, or one cache-context unit of a begin/end blocker: all or nothing *)
| UClosePositions (l : list sitem).  (* perpetual MsgClosePositions *)

Definition ustep (item : list nat -> bst -> sitem -> bst) (assets : list nat) (s : bst) (u : bunit) : bst :=
  match u with
  | UTx l => run_tx (fun x => hrun assets x l) s
  | UClosePositions l => fold_left (item assets) l s
  end.

Definition brun (item : list nat -> bst -> sitem -> bst) (assets : list nat) (s : bst) (h : list bunit) : bst :=
  fold_left (ustep item assets) h s.

(* no item of the history leaves a transfer behind *)
Fixpoint abort_free_items (assets : list nat) (s : bst) (l : list sitem) : bool :=
  match l with
  | [] => true
  | it :: r => negb (item_aborts assets s it) && abort_free_items assets (item_asis assets s it) r
  end.
Fixpoint abort_free (assets : list nat) (s : bst) (h : list bunit) : bool :=
  match h with
  | [] => true
  | u :: r =>
      match u with UClosePositions l => abort_free_items assets s l | _ => true end &&
      abort_free assets (ustep item_asis assets s u) r
  end.
