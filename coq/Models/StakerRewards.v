(* C18 - the per-block reward amounts of x/estaking/keeper/abci.go UpdateStakersRewards (definitions only).
   These are the two amounts handed to sdk.NewCoin in the estaking END blocker that depend on the parameter
   TotalBlocksPerYear (a uint64 of x/parameter which every consumer converts with int64(...), [Blocks.to_int64]):

     stakersMaxEdenAmount := MaxEdenRewardAprStakers.MulInt(totalElysEdenStake).QuoInt64(totalBlocksPerYear)
     stakersEdenBAmount   := LegacyNewDecFromInt(totalElysEdenEdenBStake).Mul(EdenBoostApr).QuoInt64(totalBlocksPerYear).RoundInt()

   sdk.NewCoin panics on a negative amount; the end blocker runs outside any recover frame. *)
From Coq Require Import ZArith.
From Elys Require Import Base.Zdec Models.Blocks.
Open Scope Z_scope.

(* [total]: bonded ELYS + committed Eden + committed EdenB (base units); [apr]: EdenBoostApr as a raw LegacyDec;
   [tbpy]: the stored uint64 *)
Definition edenb_amount (total apr tbpy : Z) : Z :=
  round_int (dquo_int (dmul (dec_of_int total) apr) (to_int64 tbpy)).

(* the APR cap of the Eden amount, before math.MinInt with the tokenomics allocation *)
Definition eden_cap (total apr tbpy : Z) : Z :=
  trunc_int (dquo_int (dmul_int apr total) (to_int64 tbpy)).

(* what x/parameter accepted BEFORE fix: f62637f (ValidateBasic of MsgUpdateTotalBlocksPerYear: any non-zero uint64) ... *)
Definition tbpy_accepted_prefix (tbpy : Z) : Prop := 0 < tbpy < 2 ^ 64.
(* ... and what it accepts since: at most MaxInt64 *)
Definition tbpy_accepted (tbpy : Z) : Prop := 0 < tbpy < 2 ^ 63.
(* ... and the range in which int64(tbpy) = tbpy *)
Definition tbpy_int64 (tbpy : Z) : Prop := 0 < tbpy < 2 ^ 63.
