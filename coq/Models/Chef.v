(* Exact model of the masterchef reward ledger (x/masterchef):
     keeper/abci.go              EndBlocker: CollectGasFees, CollectPerpRevenue, CollectDEXRevenue, the
                                 distribution loop of UpdateLPRewards, ProcessExternalRewardsDistribution
     keeper/hooks_masterchef.go  UpdateAccPerShare, UpdateUserRewardPending, UpdateUserRewardDebt
     keeper/hooks_user_actions.go AfterDeposit / AfterWithdraw over GetRewardDenoms
     keeper/msg_server.go        ClaimRewards, AddExternalIncentive
   Definitions only; proofs are in Proofs/ChefProofs.v. math.Int = Z, LegacyDec = raw Z at scale 10^18
   (Base/Zdec.v, bit-exact, validated against Go by TestZdec).

   Exact: the three collectors' split arithmetic (MulDecTruncate, TruncateDecimal, PortionCoins with
   RoundInt) INCLUDING the account each portion is taken from, the pool shares of the gas/perpetual
   portion (Quo, Mul), the credited integer (TruncateInt), acc-per-share (QuoInt by the commitment
   module's TotalCommitted), pending/debt checkpoints (MulInt, Sub, QuoInt; Mul), the claim
   (TruncateInt, pending reset), external incentives (funding, per-block credit, removal), the failure
   points of the end blocker that involve the masterchef account.
   Implementation-resolved inputs of a block (OBlock): the uusdc the fee collector / the perpetual module
   account hold after fee conversion (b_gas, b_perp), every pool's proxy TVL (tvl * multiplier, a
   LegacyDec) and the coins on its revenue address. Implementation-resolved inputs of user steps: the
   number of shares committed / uncommitted (ODeposit / OWithdraw are the masterchef hooks
   AfterJoinPool/AfterBond and AfterExitPool/AfterUnbond together with the commitment-side change that
   precedes them) and whether an incentive can be funded.
   Not modelled: Eden (not bank-backed; EnableEdenRewards is false for every pool unless governance
   toggles it), APR bookkeeping, Int/Dec overflow panics, negative proxy TVL (negative multiplier).

   [fixes] switches the four sites where the repaired model differs from the code:
     fx_unc   commitment UncommitTokens subtracts from TotalCommitted (open finding of C12; the code adds)
     fx_perp  CollectPerpRevenue takes the stakers' and provider portions from the perpetual account
              (the code takes them from the masterchef account, which only received the LP portion)
     fx_dex   CollectDEXRevenue computes consumerPortion from the protocol coins (the code: staker coins)
     fx_round the LP credit uses the truncated amounts that were really moved and truncating Quo/Mul
              for the pool shares (the code adds the untruncated decimals and rounds half-up)
   [as_coded] = all false is the code as it is. *)
From Coq Require Import ZArith List Bool Arith.
From Elys Require Import Base.Res Base.Zdec.
Import ListNotations.
Open Scope Z_scope.

Definition USDC : nat := 0%nat.
Definition ONE : Z := PREC.                 (* ammtypes.OneShare = 10^18 *)

Record fixes := mkFx { fx_unc : bool; fx_perp : bool; fx_dex : bool; fx_round : bool }.
Definition as_coded : fixes := mkFx false false false false.
Definition repaired (fu : bool) : fixes := mkFx fu true true true.

(* RewardPortionForLps, RewardPortionForStakers (masterchef params), ProviderStakingRewardsPortion (estaking) *)
Record params := mkP { p_lp : Z; p_st : Z; p_prov : Z }.

Record inc := mkI { i_id : Z; i_den : nat; i_pool : nat; i_from : Z; i_to : Z; i_amt : Z }.

Record state := mkS {
  nu : nat;                        (* accounts are 0 .. nu-1 *)
  np : nat;                        (* pools with a PoolInfo are 0 .. np-1 *)
  chef : nat -> Z;                 (* denom -> bank balance of the masterchef module account *)
  acc : nat -> nat -> Z;           (* pool, denom -> PoolRewardInfo.PoolAccRewardPerShare (0 = absent) *)
  tot : nat -> Z;                  (* pool -> commitment Params.TotalCommitted of the pool's share denom *)
  bal : nat -> nat -> Z;           (* account, pool -> committed shares *)
  pend : nat -> nat -> nat -> Z;   (* account, pool, denom -> UserRewardInfo.RewardPending *)
  debt : nat -> nat -> nat -> Z;   (* account, pool, denom -> UserRewardInfo.RewardDebt *)
  xden : nat -> list nat;          (* pool -> PoolInfo.ExternalRewardDenoms *)
  incs : list inc;                 (* external incentives in store order (by id) *)
  height : Z;                      (* height of the block being built *)
  nextid : Z
}.

Definition init_state (n m : nat) (h : Z) : state :=
  mkS n m (fun _ => 0) (fun _ _ => 0) (fun _ => 0) (fun _ _ => 0) (fun _ _ _ => 0) (fun _ _ _ => 0)
      (fun _ => []) [] h 0.

Definition set_chef (s : state) (f : nat -> Z) : state :=
  mkS (nu s) (np s) f (acc s) (tot s) (bal s) (pend s) (debt s) (xden s) (incs s) (height s) (nextid s).
Definition set_acc (s : state) (f : nat -> nat -> Z) : state :=
  mkS (nu s) (np s) (chef s) f (tot s) (bal s) (pend s) (debt s) (xden s) (incs s) (height s) (nextid s).
Definition set_xden (s : state) (f : nat -> list nat) : state :=
  mkS (nu s) (np s) (chef s) (acc s) (tot s) (bal s) (pend s) (debt s) f (incs s) (height s) (nextid s).

Definition addc (f : nat -> Z) (d : nat) (a : Z) : nat -> Z := fun x => if Nat.eqb x d then f x + a else f x.

Definition E_funds := 2%nat.        (* bank: insufficient funds of the masterchef account *)
Definition E_arg := 3%nat.          (* invalid argument *)
Definition E_unknown := 4%nat.      (* account / pool outside the universe of the case *)
Definition E_shares := 5%nat.       (* commitment: not enough committed shares *)
Definition E_domain := 6%nat.       (* input outside the modelled domain *)
Definition P_negcoin := 1%nat.      (* Coins.Sub / DecCoins.Sub below zero *)

Definition memn (d : nat) (l : list nat) : bool := existsb (Nat.eqb d) l.

(* GetRewardDenoms (Eden rewards disabled): uusdc, then the external denoms, without duplicates *)
Definition is_rden (s : state) (p d : nat) : bool := Nat.eqb d USDC || memn d (xden s p).
Definition rden_list (s : state) (p : nat) : list nat := USDC :: xden s p.

(* UpdateAccPerShare(pool, denom, amount) *)
Definition credit (s : state) (p d : nat) (c : Z) : state :=
  if tot s p =? 0 then s
  else set_acc s (fun p' d' => if Nat.eqb p' p && Nat.eqb d' d
                               then acc s p' d' + dquo_int (dec_of_int (c * ONE)) (tot s p) else acc s p' d').

(* UpdateUserRewardPending + UpdateUserRewardDebt for every reward denom of the pool, [bold] = the
   balance before the change (GetPoolBalance -/+ amount), the debt is taken on the current balance *)
Definition checkpoint (s : state) (u p : nat) (bold : Z) : state :=
  mkS (nu s) (np s) (chef s) (acc s) (tot s) (bal s)
      (fun u' p' d => if Nat.eqb u' u && Nat.eqb p' p && is_rden s p d
                      then pend s u' p' d + dquo_int (dmul_int (acc s p d) bold - debt s u' p' d) ONE
                      else pend s u' p' d)
      (fun u' p' d => if Nat.eqb u' u && Nat.eqb p' p && is_rden s p d
                      then dmul (acc s p d) (dec_of_int (bal s u p))
                      else debt s u' p' d)
      (xden s) (incs s) (height s) (nextid s).

Definition set_bal_tot (s : state) (u p : nat) (b t : Z) : state :=
  mkS (nu s) (np s) (chef s) (acc s)
      (fun p' => if Nat.eqb p' p then t else tot s p')
      (fun u' p' => if Nat.eqb u' u && Nat.eqb p' p then b else bal s u' p')
      (pend s) (debt s) (xden s) (incs s) (height s) (nextid s).

Definition deposit (s : state) (u p : nat) (a : Z) : res state :=
  if negb ((u <? nu s)%nat && (p <? np s)%nat) then Err E_unknown else
  if a <? 0 then Err E_arg else
  let s1 := set_bal_tot s u p (bal s u p + a) (tot s p + a) in
  Ok (checkpoint s1 u p (bal s1 u p - a)).

Definition withdraw (fx : fixes) (s : state) (u p : nat) (a : Z) : res state :=
  if negb ((u <? nu s)%nat && (p <? np s)%nat) then Err E_unknown else
  if a <? 0 then Err E_arg else
  if bal s u p <? a then Err E_shares else
  let s1 := set_bal_tot s u p (bal s u p - a) (if fx_unc fx then tot s p - a else tot s p + a) in
  Ok (checkpoint s1 u p (bal s1 u p + a)).

(* one (pool, denom) of ClaimRewards: a positive pending is paid truncated and reset to zero. The bank
   send of the real handler happens once at the end; all amounts are >= 0 and the transaction is atomic,
   so paying slot by slot fails exactly when the single send fails. *)
Definition claim_slot (s : state) (u p d : nat) : res state :=
  let P := pend s u p d in
  if 0 <? P then
    let t := trunc_int P in
    if chef s d <? t then Err E_funds else
    Ok (mkS (nu s) (np s) (addc (chef s) d (- t)) (acc s) (tot s) (bal s)
            (fun u' p' d' => if Nat.eqb u' u && Nat.eqb p' p && Nat.eqb d' d then 0 else pend s u' p' d')
            (debt s) (xden s) (incs s) (height s) (nextid s))
  else Ok s.

Fixpoint claim_slots (s : state) (u p : nat) (ds : list nat) : res state :=
  match ds with [] => Ok s | d :: r => do s1 <- claim_slot s u p d; claim_slots s1 u p r end.

Definition claim_pool (s : state) (u p : nat) : res state :=
  if (p <? np s)%nat then
    let s1 := checkpoint s u p (bal s u p) in      (* AfterWithdraw(pool, sender, 0) *)
    claim_slots s1 u p (rden_list s1 p)
  else Ok s.                                        (* no PoolInfo: GetRewardDenoms is empty *)

Fixpoint claim_pools (s : state) (u : nat) (ps : list nat) : res state :=
  match ps with [] => Ok s | p :: r => do s1 <- claim_pool s u p; claim_pools s1 u r end.

Definition claim (s : state) (u : nat) (ps : list nat) : res state :=
  if negb (u <? nu s)%nat then Err E_unknown else claim_pools s u ps.

(* masterchef query UserPendingReward: UserPoolPendingReward runs AfterWithdraw(pool, user, 0) for every pool WITH A WRITE
   context. The tier module calls it from its amm / stablestake / perpetual hooks (RetrieveAllPortfolio, once per
   account and day), i.e. inside transactions and inside the amm end blocker (AfterSwap), always after the masterchef
   hook of the same action. *)
Fixpoint touch_pools (s : state) (u : nat) (n : nat) : state :=
  match n with O => s | S m => let s1 := touch_pools s u m in checkpoint s1 u m (bal s1 u m) end.
Definition touch (s : state) (u : nat) : res state :=
  if negb (u <? nu s)%nat then Err E_unknown else Ok (touch_pools s u (np s)).

(* MsgAddExternalIncentive; [funded] = the denom is supported, the total reaches its minimum and the
   sender's wallet covers AmountPerBlock * (ToBlock - FromBlock) *)
Definition add_inc (s : state) (d p : nat) (from to amt : Z) (funded : bool) : res state :=
  if from <? height s then Err E_arg else
  if to <=? from then Err E_arg else
  if amt <=? 0 then Err E_arg else
  if negb funded then Err E_funds else
  Ok (mkS (nu s) (np s) (addc (chef s) d (amt * (to - from))) (acc s) (tot s) (bal s) (pend s) (debt s) (xden s)
          (incs s ++ [mkI (nextid s) d p from to amt]) (height s) (nextid s + 1)).

(* ---------------- the end blocker ---------------- *)

Record pinp := mkPI { pi_pool : nat; pi_ptvl : Z; pi_rev : list (nat * Z) }.
Record binp := mkB { b_gas : Z; b_perp : Z; b_pools : list pinp }.

(* sdk.NewDecCoinsFromCoins(c).MulDecTruncate(portion) for one coin *)
Definition portion_dec (a portion : Z) : Z := dmul_trunc (dec_of_int a) portion.
(* ammkeeper.PortionCoins for one coin: amount.ToLegacyDec().Mul(portion).RoundInt() *)
Definition portion_coin (a portion : Z) : Z := round_int (dmul (dec_of_int a) portion).

Definition pay (s : state) (d : nat) (a : Z) : res state :=
  if chef s d <? a then Err E_funds else Ok (set_chef s (addc (chef s) d (- a))).

(* CollectGasFees: only the LP portion reaches the masterchef account; returns gasFeesForLpsDec(uusdc) *)
Definition collect_gas (P : params) (s : state) (G : Z) : state * Z :=
  if G =? 0 then (s, 0) else
  let lpD := portion_dec G (p_lp P) in
  (set_chef s (addc (chef s) USDC (trunc_int lpD)), lpD).

(* CollectPerpRevenue *)
Definition collect_perp (fx : fixes) (P : params) (s : state) (Q : Z) : res (state * Z) :=
  if Q =? 0 then Ok (s, 0) else
  let lpD := portion_dec Q (p_lp P) in
  let stD := portion_dec Q (p_st P) in
  let prD := dec_of_int Q - lpD - stD in
  if prD <? 0 then Panic P_negcoin else
  let s1 := set_chef s (addc (chef s) USDC (trunc_int lpD)) in
  do s2 <- (if (0 <? stD) && negb (fx_perp fx) then pay s1 USDC (trunc_int stD) else Ok s1);
  let pr := trunc_int prD in
  if 0 <? pr then
    let prov := portion_coin pr (p_prov P) in
    if pr - prov <? 0 then Panic P_negcoin else
    do s3 <- (if fx_perp fx then Ok s2 else pay s2 USDC prov);
    Ok (s3, lpD)                      (* the consumer portion goes from the perpetual account *)
  else Ok (s2, lpD).

Definition st_coin (P : params) (a : Z) : Z := trunc_int (portion_dec a (p_st P)).
Definition pr_coin (P : params) (a : Z) : Z :=
  trunc_int (dec_of_int a - portion_dec a (p_lp P) - portion_dec a (p_st P)).

Fixpoint pay_all (s : state) (l : list (nat * Z)) : res state :=
  match l with [] => Ok s | (d, a) :: r => do s1 <- pay s d a; pay_all s1 r end.

Fixpoint recv_all (s : state) (l : list (nat * Z)) : state :=
  match l with [] => s | (d, a) :: r => recv_all (set_chef s (addc (chef s) d a)) r end.

Definition coin_amt (l : list (nat * Z)) (d : nat) : Z :=
  fold_right (fun '(d', a) x => if Nat.eqb d' d then a + x else x) 0 l.

(* one pool of CollectDEXRevenue; [rev] = GetAllBalances(revenue address) (sorted, positive, one entry per denom) *)
Definition collect_dex_pool (fx : fixes) (P : params) (s : state) (rev : list (nat * Z)) : res state :=
  let s1 := recv_all s rev in
  let sts := map (fun '(d, a) => (d, st_coin P a)) rev in
  let prs := map (fun '(d, a) => (d, pr_coin P a)) rev in
  do s2 <- (if existsb (fun '(_, a) => 0 <? a) sts then pay_all s1 sts else Ok s1);
  if existsb (fun '(_, a) => 0 <? a) prs then
    let provs := map (fun '(d, a) => (d, portion_coin (pr_coin P a) (p_prov P))) rev in
    let conss := map (fun '(d, a) => (d, (if fx_dex fx then pr_coin P a else st_coin P a)
                                           - portion_coin (pr_coin P a) (p_prov P))) rev in
    if existsb (fun '(_, a) => a <? 0) conss then Panic P_negcoin else
    do s3 <- pay_all s2 provs;
    pay_all s3 conss
  else Ok s2.

Fixpoint collect_dex (fx : fixes) (P : params) (s : state) (l : list pinp) : res state :=
  match l with
  | [] => Ok s
  | pi :: r => do s1 <- collect_dex_pool fx P s (pi_rev pi); collect_dex fx P s1 r
  end.

(* the credited integer of one pool: poolShare.Mul(gas) .Add(dex) .TruncateInt() *)
Definition pool_credit (fx : fixes) (P : params) (total gasD : Z) (pi : pinp) : Z :=
  let share := if 0 <? total
               then (if fx_round fx then dquo_trunc (pi_ptvl pi) total else dquo (pi_ptvl pi) total) else 0 in
  let gas_p := if fx_round fx then dmul_trunc share gasD else dmul share gasD in
  let dex_p := portion_dec (coin_amt (pi_rev pi) USDC) (p_lp P) in
  trunc_int (gas_p + dex_p).

Fixpoint distribute (fx : fixes) (P : params) (total gasD : Z) (s : state) (l : list pinp) : state :=
  match l with
  | [] => s
  | pi :: r =>
      let s1 := if (pi_ptvl pi =? 0) || negb (pi_pool pi <? np s)%nat then s
                else credit s (pi_pool pi) USDC (pool_credit fx P total gasD pi) in
      distribute fx P total gasD s1 r
  end.

(* ProcessExternalRewardsDistribution for one incentive at height h; returns whether it stays stored *)
Definition inc_active (h : Z) (i : inc) : bool := (i_from i <? h) && (h <=? i_to i).
Definition ext_one (s : state) (i : inc) : state * bool :=
  if negb (i_pool i <? np s)%nat then (s, true) else
  let h := height s in
  let s1 := if inc_active h i then
              let s' := credit s (i_pool i) (i_den i) (i_amt i) in
              (* the denom is appended to the pool's ExternalRewardDenoms when it is not there yet *)
              set_xden s' (fun p => if Nat.eqb p (i_pool i) && negb (memn (i_den i) (xden s' p))
                                    then xden s' p ++ [i_den i] else xden s' p)
            else s in
  (s1, negb (h =? i_to i)).

Fixpoint ext_all (s : state) (l : list inc) : state * list inc :=
  match l with
  | [] => (s, [])
  | i :: r => let '(s1, keep) := ext_one s i in
              let '(s2, r') := ext_all s1 r in
              (s2, if keep then i :: r' else r')
  end.

Definition sum_ptvl (l : list pinp) : Z := fold_right (fun pi x => pi_ptvl pi + x) 0 l.

Definition block (fx : fixes) (P : params) (s : state) (b : binp) : res state :=
  if (b_gas b <? 0) || (b_perp b <? 0) || existsb (fun pi => pi_ptvl pi <? 0) (b_pools b)
     || existsb (fun pi => existsb (fun '(_, a) => a <=? 0) (pi_rev pi)) (b_pools b) then Err E_domain else
  let '(s1, gD) := collect_gas P s (b_gas b) in
  do '(s2, qD) <- collect_perp fx P s1 (b_perp b);
  do s3 <- collect_dex fx P s2 (b_pools b);
  let gasD := if fx_round fx then trunc_dec gD + trunc_dec qD else gD + qD in
  let s4 := distribute fx P (sum_ptvl (b_pools b)) gasD s3 (b_pools b) in
  let '(s5, incs') := ext_all s4 (incs s4) in
  Ok (mkS (nu s5) (np s5) (chef s5) (acc s5) (tot s5) (bal s5) (pend s5) (debt s5) (xden s5) incs'
          (height s5 + 1) (nextid s5)).

Inductive op :=
| ODeposit (u p : nat) (a : Z)
| OWithdraw (u p : nat) (a : Z)
| OClaim (u : nat) (ps : list nat)
| OTouch (u : nat)
| OAddInc (d p : nat) (from to amt : Z) (funded : bool)
| OBlock (b : binp).

Definition step (fx : fixes) (P : params) (s : state) (o : op) : res state :=
  match o with
  | ODeposit u p a => deposit s u p a
  | OWithdraw u p a => withdraw fx s u p a
  | OClaim u ps => claim s u ps
  | OTouch u => touch s u
  | OAddInc d p from to amt funded => add_inc s d p from to amt funded
  | OBlock b => block fx P s b
  end.

(* a failed transaction changes nothing; a failed end blocker fails the block (FinalizeBlock returns the
   error), the harness then stops the history, here the state stays *)
Definition exec (fx : fixes) (P : params) (s : state) (o : op) : state := run_tx (fun s => step fx P s o) s.
Definition run (fx : fixes) (P : params) (s : state) (ops : list op) : state := fold_left (exec fx P) ops s.

(* ---------------- the property's quantities ---------------- *)

(* what ClaimRewards would pay for (u, p, d) now: pending after the checkpoint, truncated *)
Definition pending_total (s : state) (u p d : nat) : Z :=
  pend s u p d + dquo_int (dmul_int (acc s p d) (bal s u p) - debt s u p d) ONE.
Definition claimable (s : state) (u p d : nat) : Z := trunc_int (pending_total s u p d).

Fixpoint sumn (n : nat) (f : nat -> Z) : Z :=
  match n with O => 0 | S m => sumn m f + f m end.

Definition sum_claimable (s : state) (d : nat) : Z :=
  sumn (np s) (fun p => sumn (nu s) (fun u => claimable s u p d)).

(* incentive funds received and not yet credited *)
Definition inc_rem (h : Z) (i : inc) : Z := Z.max 0 (i_to i - Z.max (i_from i) (h - 1)).
Definition reserved (s : state) (d : nat) : Z :=
  fold_right (fun i x => (if Nat.eqb (i_den i) d then i_amt i * inc_rem (height s) i else 0) + x) 0 (incs s).

(* exact (untruncated) liabilities at scale 10^36 *)
Definition term (s : state) (d p u : nat) : Z :=
  pend s u p d * ONE + (acc s p d * bal s u p - debt s u p d).
Definition owed (s : state) (d : nat) : Z :=
  sumn (np s) (fun p => sumn (nu s) (fun u => term s d p u)).
