(* C02: for one pool, pool.TotalShares = bank supply of the share denom = sum of all accounts'
   committed shares = the commitment module's balance of the share denom.
     x/amm/keeper/pool_share.go  MintPoolShareToAccount: MintCoins(amm) -> SendCoinsFromModuleToAccount
         -> CommitLiquidTokens (wallet -> commitment module, committed += amount);
         BurnPoolShareFromAccount: SendCoinsFromAccountToModule(amm) -> BurnCoins
     x/amm/types/pool.go         IncreaseLiquidity / DecreaseLiquidity adjust TotalShares
     x/amm/keeper/apply_join_pool_state_change.go, apply_exit_pool_state_change.go (+ keeper_create_pool.go)
     x/commitment/keeper: CommitLiquidTokens, UncommitTokens (module -> wallet, committed -= amount)
   Accounts (users and leveraged-LP position addresses alike) are small naturals. *)
From Coq Require Import ZArith List Bool Arith.
From Elys Require Import Base.Res Base.Fn Models.SumLedger.
Import ListNotations.
Open Scope Z_scope.

Record shares := mkSh {
  sh_sl : sl;          (* parts = committed shares per account, total = bank supply of the share denom *)
  sh_tshares : Z;      (* pool.TotalShares *)
  sh_custody : Z;      (* commitment module balance of the share denom *)
  sh_wallet : nat -> Z;(* liquid share balance of an account (only inside a handler) *)
  sh_amm : Z           (* amm module balance of the share denom (only inside a handler) *)
}.

Inductive shop :=
| ShJoin (acct : nat) (a : Z)    (* pool creation, join (all-asset / single-asset), leveraged-LP open *)
| ShExit (acct : nat) (a : Z).   (* exit, leveraged-LP close / liquidation *)

Definition E_sh := 21%nat.

(* the handlers, primitive by primitive *)
Definition sh_join (s : shares) (k : nat) (a : Z) : res shares :=
  guard (0 <? a) E_sh (
  (* pool.IncreaseLiquidity *)
  let ts := sh_tshares s + a in
  (* MintCoins(amm): supply and amm module balance *)
  let amm1 := sh_amm s + a in
  (* SendCoinsFromModuleToAccount *)
  let amm2 := amm1 - a in
  let w1 := upd (sh_wallet s) k (sh_wallet s k + a) in
  (* CommitLiquidTokens: wallet -> commitment module, committed += a *)
  let w2 := upd w1 k (w1 k - a) in
  let cust := sh_custody s + a in
  do t <- sstep (sh_sl s) (if mem_key k (keys (sh_sl s)) then SAdd k a else SNew k a);
  Ok (mkSh t ts cust w2 amm2)).

Definition sh_exit (s : shares) (k : nat) (a : Z) : res shares :=
  guard (0 <? a) E_sh (
  (* pool.DecreaseLiquidity: error when TotalShares would go negative *)
  guard (0 <=? sh_tshares s - a) E_sh (
  let ts := sh_tshares s - a in
  (* UncommitTokens: committed -= a (error when not enough / locked), module -> wallet *)
  do t <- sstep (sh_sl s) (SSub k a);
  guard (a <=? sh_custody s) E_sh (
  let cust := sh_custody s - a in
  let w1 := upd (sh_wallet s) k (sh_wallet s k + a) in
  (* BurnPoolShareFromAccount: wallet -> amm module, burn *)
  let w2 := upd w1 k (w1 k - a) in
  let amm1 := sh_amm s + a in
  let amm2 := amm1 - a in
  Ok (mkSh t ts cust w2 amm2)))).

Definition shstep (s : shares) (o : shop) : res shares :=
  match o with ShJoin k a => sh_join s k a | ShExit k a => sh_exit s k a end.
Definition shexec (s : shares) (o : shop) : shares := run_tx (fun s => shstep s o) s.
Definition shrun (s : shares) (h : list shop) : shares := fold_left shexec h s.
Definition sh_empty : shares := mkSh sl_empty 0 0 (fun _ => 0) 0.
