(* C05 - the oracle single-sided join / exit of Models/AmmJoinExit.v with the weight-breaking fee COMPUTED by
   the model of Models/WeightFee.v (no longer an input): the whole of the oracle branch of Pool.JoinPool
   (pool_join_pool.go) and of CalcExitPool + processExitPool (calc_exit_pool.go), in the order of the Go
   statements. Definitions only; proofs in Proofs/WeightFeeProofs.v. *)
From Coq Require Import ZArith List Bool.
From Elys Require Import Base.Res Base.Zdec Models.AmmSwap Models.WeightFee Models.AmmJoinExit.
Import ListNotations.
Open Scope Z_scope.

(* Pool.GetAccountedBalance over the pool's assets: (accounted amount, weight, oracle price) in pool order *)
Fixpoint assets_of (R acc prices weights : list Z) : list asset :=
  match R, acc, prices, weights with
  | r :: R', a :: acc', p :: ps, w :: ws => (eff_amount r a, w, p) :: assets_of R' acc' ps ws
  | _, _, _, _ => []
  end.

(* JoinPool, oracle branch: (shares, reserves after, supply after, weightBalanceBonus) *)
Definition join_oracle_wf (R : list Z) (S : Z) (k : nat) (amt : Z) (acc prices weights : list Z) (prm : wparams)
  : res (Z * list Z * Z * Z) :=
  let p := nth k prices 0 in
  if p =? 0 then Err E_PRICE else                        (* CalcJoinValueWithoutSlippage *)
  let A := assets_of R acc prices weights in
  do d0 <- weight_distance A;                            (* initialWeightDistance *)
  do T <- tvl R acc prices weights;
  if T =? 0 then Err E_LOW else
  do '(wbf, bonus) <- wb_join prm A k amt d0;
  do '(sh, R', S') <- join_oracle R S k amt acc prices weights wbf;
  Ok (sh, R', S', bonus).

(* CalcExitPool oracle branch + processExitPool: (amount out, reserves after, supply after, weightBalanceBonus) *)
Definition exit_oracle_wf (R : list Z) (S sh : Z) (k : nat) (acc prices weights : list Z) (prm : wparams)
  : res (Z * list Z * Z * Z) :=
  if S <=? sh then Err E_MAXSHARES else
  if S =? 0 then Panic P_DIVZERO else
  let A := assets_of R acc prices weights in
  do d0 <- weight_distance A;
  do T <- tvl R acc prices weights;
  let p := nth k prices 0 in
  let pre := fst (oracle_exit_out T S sh p 0) in          (* oracleOutAmount.RoundInt(): does not depend on the fee *)
  do wbf <- wb_exit prm A k pre d0;
  do '(out, R', S') <- exit_oracle R S sh k acc prices weights wbf;
  Ok (out, R', S', - wbf).
