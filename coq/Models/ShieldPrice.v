(* x/tradeshield Keeper.GetAssetPriceFromDenomInToDenomOut: "the market price" a spot order's trigger is compared with.
   Definitions only.  [market_price] is the code BEFORE fix: 12bba76 (kept for the _refuted theorem and as the fallback
   path, which the repaired code still takes when an oracle record is missing); [market_price_fixed] further down is the
   code as it is in /repo since that commit, and the one the harness compares the keeper with (c20PriceFixed = true).

     priceIn  := amm.CalculateUSDValue(denomIn, 1)      = Dec(1).Mul(oracle.GetAssetPriceFromDenom(denomIn))
     priceOut := amm.CalculateUSDValue(denomOut, 1)
     oracle.GetAssetPriceFromDenom(d) = price(display of d).Quo(Pow10(decimals of d))     (LegacyDec, 18 digits)
     if priceIn.IsZero() || priceOut.IsZero() -> ErrPriceNotFound ; else priceIn.Quo(priceOut)

   Inputs: the oracle's price records of the two display assets (per WHOLE token, raw LegacyDec) and the decimals of the
   two denoms.  Exact: every LegacyDec operation (Base/Zdec.v).  Not modelled: when the oracle has no record, or when
   price/10^decimals rounds to zero, CalculateUSDValue substitutes the amm spot price; [market_price] answers None there
   (the harness hands the model the keeper's value in those cases, and only in those). *)
From Coq Require Import ZArith List Bool.
From Elys Require Import Base.Res Base.Zdec Models.Shield.
Import ListNotations.
Open Scope Z_scope.

Definition pow10 (n : Z) : Z := 10 ^ n.

(* oracle GetAssetPriceFromDenom; Pow10 builds Dec(10^n) by n exact multiplications *)
Definition unit_price (p dec : Z) : Z := dquo p (dec_of_int (pow10 dec)).

(* amm CalculateUSDValue(denom, 1) with an oracle record *)
Definition usd_value_of_one (p dec : Z) : Z := dmul (dec_of_int 1) (unit_price p dec).

Definition market_price (pin din pout dout : Z) : option Z :=
  let a := usd_value_of_one pin din in
  let b := usd_value_of_one pout dout in
  if (a =? 0) || (b =? 0) then None else Some (dquo a b).

(* ---------- the exact market price, as the property means it ----------
   E = (pin / 10^din) / (pout / 10^dout)  (USD value of one base unit of each side); comparisons with a LegacyDec
   rate (raw, i.e. rate / 10^18) by cross-multiplication, no rounding anywhere. *)
Definition exact_ge (pin din pout dout rate : Z) : bool := rate * (pout * pow10 din) <=? pin * pow10 dout * PREC.
Definition exact_le (pin din pout dout rate : Z) : bool := pin * pow10 dout * PREC <=? rate * (pout * pow10 din).

(* spot order types: 1 LIMITSELL executes when the price is at or above the rate; 0 STOPLOSS / 2 LIMITBUY at or below *)
Definition exact_triggered (typ pin din pout dout rate : Z) : bool :=
  if typ =? 1 then exact_ge pin din pout dout rate else exact_le pin din pout dout rate.

(* a pending spot order with the given type and rate (the other fields do not enter the trigger) *)
Definition spot_order (typ rate : Z) : order := mkO false 1 0 typ 0 0 rate 0 0 0 0 0.

(* ---------- the code as it is since fix: 12bba76 ----------
   one division of the two whole-token prices, the difference of the decimals multiplied in first (MulInt is exact);
   the old computation remains the fallback when a record is missing.  [price_gen false] is the code before the fix. *)
Definition market_price_fixed (pin din pout dout : Z) : option Z :=
  if (pin <=? 0) || (pout <=? 0) then None
  else if din <=? dout then Some (dquo (dmul_int pin (pow10 (dout - din))) pout)
  else Some (dquo pin (dmul_int pout (pow10 (din - dout)))).

Definition price_gen (fixed : bool) := if fixed then market_price_fixed else market_price.
