(* C17, owner-scoped part - how every Msg handler SELECTS the stored object it acts on, and the
   semantics of that selection. Definitions only.

   The table Generated/OwnerFlow.v is regenerated from the Go sources by `gotrans ownerflow` on every
   run of ./check: one [oflow] per method of every module's MsgServer, with the translator's class
     CA  the object is read under a key that contains the signer (a non-owner addresses his own object)
     CB  the object is read under an id / payload key and its stored owner is compared with the signer
         before anything is written
     CC  the handler runs the body of another handler on an inner message (per item, in a loop) whose
         signer field is fed from the outer signer
     CD  not object-scoped (only the signer's balances / new objects / module-wide state)
     CE  governance-only (covered by Models/Authority.v)
     CU  unknown, with file:line reasons - acceptable only for the handlers of [reviewed] below
   and a nested flow skeleton. The class is only a label: safety of EVERY body is re-decided here by
   [flow_safe], and [class_ok] checks that the label agrees with the shape of the body.

   Semantics. The store holds owned objects [oid -> option obj]; [obj] carries its owner and a
   payload. A Select step picks an object (choice [CPick i]): under a signer key it is found only if
   its stored owner IS the signer (that is what a (signer, id) key means); under an id key it is found
   whoever owns it. A Write can only touch an object that is currently selected under some name
   ([CPut name o]) or create one that does not exist ([CNew i o]). Everything else is
   nondeterministic (checks may fail, selects may be skipped, loops run any number of times, cached
   loop items are rolled back when they fail). The handler is run at HANDLER level: no reliance on
   baseapp discarding the transaction branch. *)
From Coq Require Import String List Bool Arith.
Import ListNotations.
Open Scope string_scope.

Inductive keykind := KSigner | KId.
Inductive wkind := WSigner | WObj | WOther | WPayload.
Inductive src := SrcSigner | SrcField (f : string) | SrcState | SrcOther.
Inductive oclass := CA | CB | CC | CD | CE | CU.

Inductive ostep : Type :=
| ORead (what : string)
| OCheck
| OSelect (k : keykind) (name what : string)
| OCompare (name field : string)
| OWrite (w : wkind) (what : string)
| OLoop (cached : bool) (body : obody)
| OInner (handler isigner : string) (from : src) (body : obody)
with obody : Type :=
| ONil
| OCons (s : ostep) (r : obody).

Notation "<[ x ; .. ; y ]>" := (OCons x .. (OCons y ONil) ..).

Scheme ostep_mut := Induction for ostep Sort Prop
  with obody_mut := Induction for obody Sort Prop.

Record oflow : Type := mkOF {
  of_mod : string; of_method : string; of_req : string;
  of_signer : string;          (* Go name of the request's signer field *)
  of_class : oclass;           (* the translator's label *)
  of_reasons : string;         (* for CU: file:line reasons *)
  of_body : obody
}.

Definition of_name (h : oflow) : string := of_mod h ++ "." ++ of_method h.

(* ---------------------------------------------------------------- reviewed handlers
   Handlers that the translator cannot classify (class CU) and that are accepted after review: all
   four are PERMISSIONLESS TRIGGERS by design - the signer chooses which object is looked at, not what
   happens to it. Everything else that comes out CU fails the obligation [all_classified]. *)
Definition reviewed : list (string * string) := [
  ("perpetual.ClosePositions", "keeper bot: liquidates / closes at stop-loss / take-profit only positions whose on-chain condition holds; proceeds go to the stored owner");
  ("leveragelp.ClosePositions", "keeper bot: same for leveraged LP positions (liquidation / stop-loss conditions checked on chain)");
  ("tradeshield.ExecuteOrders", "keeper bot: executes pending orders whose trigger price condition holds, on behalf of and paying to the stored owner");
  ("tier.SetPortfolio", "recomputes the derived portfolio snapshot of the named user from that user's own state; moves no funds, takes no value from the signer's message")
].

Definition is_reviewed (h : oflow) : bool := existsb (fun p => String.eqb (fst p) (of_name h)) reviewed.

(* ---------------------------------------------------------------- the decidable safety scan
   [u] = names of objects selected WITHOUT the signer in their key whose owner has not yet been
   compared with the signer. Nothing may be written while [u] is non-empty; a loop is entered and
   left with [u] empty; an inner handler must get its signer field from the outer signer. *)
Definition sremove (n : string) (u : list string) : list string := filter (fun x => negb (String.eqb x n)) u.

Definition is_nil {A} (l : list A) : bool := match l with [] => true | _ => false end.

Fixpoint scan_step (signer : string) (s : ostep) (u : list string) {struct s} : option (list string) :=
  match s with
  | ORead _ | OCheck => Some u
  | OSelect KSigner n _ => Some (sremove n u)
  | OSelect KId n _ => Some (n :: sremove n u)
  | OCompare n f => if String.eqb f signer then Some (sremove n u) else Some u
  | OWrite WPayload _ => None
  | OWrite _ _ => if is_nil u then Some u else None
  | OLoop _ b => if is_nil u then match scan_body signer b [] with Some [] => Some [] | _ => None end else None
  | OInner _ _ SrcSigner b => scan_body signer b u
  | OInner _ _ _ _ => None
  end
with scan_body (signer : string) (b : obody) (u : list string) {struct b} : option (list string) :=
  match b with
  | ONil => Some u
  | OCons s r => match scan_step signer s u with Some u' => scan_body signer r u' | None => None end
  end.

Definition flow_safe (h : oflow) : bool :=
  negb (String.eqb (of_signer h) "") &&
  match scan_body (of_signer h) (of_body h) [] with Some _ => true | None => false end.

(* shape predicates used by [class_ok] *)
Fixpoint has_step (p : ostep -> bool) (b : obody) : bool :=
  match b with
  | ONil => false
  | OCons s r => p s || (match s with OLoop _ b' => has_step p b' | OInner _ _ _ b' => has_step p b' | _ => false end) || has_step p r
  end.
Definition is_inner (s : ostep) := match s with OInner _ _ _ _ => true | _ => false end.
Definition is_compare (s : ostep) := match s with OCompare _ _ => true | _ => false end.
Definition is_select_id (s : ostep) := match s with OSelect KId _ _ => true | _ => false end.
Definition is_select_signer (s : ostep) := match s with OSelect KSigner _ _ => true | _ => false end.
Definition is_write_signer (s : ostep) := match s with OWrite WSigner _ => true | _ => false end.

Definition class_ok (h : oflow) : bool :=
  match of_class h with
  | CA => flow_safe h && (has_step is_select_signer (of_body h) || has_step is_write_signer (of_body h)) && negb (has_step is_select_id (of_body h))
  | CB => flow_safe h && has_step is_compare (of_body h)
  | CC => flow_safe h && has_step is_inner (of_body h)
  | CD => flow_safe h && negb (has_step is_select_id (of_body h)) && negb (has_step is_inner (of_body h))
  | CE => true
  | CU => is_reviewed h
  end.

Definition owner_scoped_class (h : oflow) : bool :=
  match of_class h with CA | CB | CC => true | _ => false end.

(* every inner handler named in a body is itself in the table with a safe body of class A/B/C/D *)
Fixpoint inner_names (b : obody) : list string :=
  match b with
  | ONil => []
  | OCons s r => (match s with
                  | OInner n _ _ b' => n :: inner_names b'
                  | OLoop _ b' => inner_names b'
                  | _ => [] end) ++ inner_names r
  end.

(* ---------------------------------------------------------------- semantics *)
Record obj := mkObj { o_owner : string; o_ver : nat }.
Definition ostore := nat -> option obj.
Definition benv := string -> option nat.             (* name -> selected object *)
Definition message := string -> string.

Definition upd {A} (f : nat -> A) (i : nat) (v : A) : nat -> A := fun j => if Nat.eqb j i then v else f j.
Definition bind (r : benv) (n : string) (v : option nat) : benv := fun m => if String.eqb m n then v else r m.

Inductive ch :=
| CCont                       (* the step completes *)
| CFail (code : nat)          (* the step returns this error *)
| CPick (i : nat)             (* a Select addresses object i *)
| CSkip                       (* a Select finds nothing and the handler goes on with nothing selected *)
| CPut (name : string) (o : option obj)   (* a Write replaces / deletes the object selected under [name] *)
| CNew (i : nat) (o : obj)    (* a Write creates object i (only if it does not exist) *)
| CIter (n : nat).            (* a loop runs n times *)

Inductive outcome := Go | Fail (code : nat).
Definition Unauthorized : nat := 4.
Definition NotFound : nat := 38.

Definition owner_eqb (o : obj) (a : string) : bool := String.eqb (o_owner o) a.

Definition result : Type := outcome * benv * ostore * list ch.

Fixpoint run_step (s : ostep) (signer : string) (msg : message) (r : benv) (st : ostore) (chs : list ch) {struct s} : result :=
  match s with
  | ORead _ => (Go, r, st, chs)
  | OCheck =>
      match chs with
      | CFail c :: chs' => (Fail c, r, st, chs')
      | _ :: chs' => (Go, r, st, chs')
      | [] => (Go, r, st, [])
      end
  | OSelect k n _ =>
      match chs with
      | CPick i :: chs' =>
          match st i with
          | Some o =>
              match k with
              | KId => (Go, bind r n (Some i), st, chs')
              | KSigner => if owner_eqb o (msg signer) then (Go, bind r n (Some i), st, chs')
                           else (Fail NotFound, r, st, chs')
              end
          | None => (Fail NotFound, r, st, chs')
          end
      | CSkip :: chs' => (Go, bind r n None, st, chs')
      | CFail c :: chs' => (Fail c, r, st, chs')
      | _ :: chs' => (Fail NotFound, r, st, chs')
      | [] => (Fail NotFound, r, st, [])
      end
  | OCompare n f =>
      match r n with
      | Some i =>
          match st i with
          | Some o => if owner_eqb o (msg f) then (Go, r, st, chs) else (Fail Unauthorized, r, st, chs)
          | None => (Go, r, st, chs)
          end
      | None => (Go, r, st, chs)
      end
  | OWrite _ _ =>
      match chs with
      | CFail c :: chs' => (Fail c, r, st, chs')
      | CPut n o :: chs' =>
          match r n with
          | Some i => (Go, r, upd st i o, chs')
          | None => (Go, r, st, chs')
          end
      | CNew i o :: chs' =>
          match st i with
          | None => (Go, r, upd st i (Some o), chs')
          | Some _ => (Go, r, st, chs')
          end
      | _ :: chs' => (Go, r, st, chs')
      | [] => (Go, r, st, [])
      end
  | OLoop cached b =>
      match chs with
      | CIter n :: chs' =>
          (fix iter (n : nat) (r : benv) (st : ostore) (chs : list ch) {struct n} : result :=
             match n with
             | O => (Go, r, st, chs)
             | S n' =>
                 match run_body b signer msg r st chs with
                 | (Go, r', st', chs'') => iter n' r' st' chs''
                 | (Fail c, r', st', chs'') =>
                     if cached then iter n' r st chs''       (* the item's branch is discarded, the loop goes on *)
                     else (Fail c, r', st', chs'')
                 end
             end) n r st chs'
      | _ :: chs' => (Go, r, st, chs')
      | [] => (Go, r, st, [])
      end
  | OInner _ _ _ b => run_body b signer msg r st chs
  end
with run_body (b : obody) (signer : string) (msg : message) (r : benv) (st : ostore) (chs : list ch) {struct b} : result :=
  match b with
  | ONil => (Go, r, st, chs)
  | OCons s rest =>
      match run_step s signer msg r st chs with
      | (Go, r', st', chs') => run_body rest signer msg r' st' chs'
      | x => x
      end
  end.

Definition run_flow (h : oflow) (msg : message) (st : ostore) (chs : list ch) : result :=
  run_body (of_body h) (of_signer h) msg (fun _ => None) st chs.

Definition res_outcome (x : result) : outcome := match x with (o, _, _, _) => o end.
Definition res_store (x : result) : ostore := match x with (_, _, s, _) => s end.

(* ---------------------------------------------------------------- "compared before anything else" (class B and the items of class C)
   Only reads and error-only checks precede the id-keyed selection; the comparison of the selected
   object's owner with the signer follows it with only reads/checks in between; loops and inner
   handlers may wrap such a body. *)
Fixpoint await_compare (signer n : string) (b : obody) : bool :=
  match b with
  | OCons (ORead _) r | OCons OCheck r => await_compare signer n r
  | OCons (OCompare n' f) _ => String.eqb n' n && String.eqb f signer
  | _ => false
  end.

Fixpoint strict_step (signer : string) (s : ostep) : bool :=
  match s with
  | ORead _ | OCheck => true
  | OLoop _ b => strict_body signer b
  | OInner _ _ SrcSigner b => strict_body signer b
  | _ => false
  end
with strict_body (signer : string) (b : obody) : bool :=
  match b with
  | ONil => true
  | OCons (OSelect KId n _) r => await_compare signer n r
  | OCons s r => strict_step signer s && strict_body signer r
  end.

Definition strictly_compared (h : oflow) : bool :=
  negb (String.eqb (of_signer h) "") && strict_body (of_signer h) (of_body h) && has_step is_select_id (of_body h).

(* every object that the run picks exists and belongs to somebody else; no lookup is skipped *)
Fixpoint picks_foreign (a : string) (st : ostore) (chs : list ch) : bool :=
  match chs with
  | [] => true
  | CPick i :: r => (match st i with Some o => negb (owner_eqb o a) | None => false end) && picks_foreign a st r
  | CSkip :: _ => false
  | _ :: r => picks_foreign a st r
  end.
