(* C06: the stable-stake vault as a ledger machine.
     Params.TotalValue  =  deposit-token balance of the module account
                           + sum over the stored Debt records of Borrowed + InterestStacked - InterestPaid

   Code modelled (as it is in /repo):
     x/stablestake/keeper/msg_server_bond.go    Bond:   user -> module [amount]; TotalValue += amount
     x/stablestake/keeper/msg_server_unbond.go  Unbond: module -> user [redemption]; TotalValue -= redemption
     x/stablestake/keeper/debt.go
        UpdateInterestStacked   debt.InterestStacked += i; SetDebt (the record is WRITTEN even when it was
                                absent); TotalValue += i          (i = GetInterest(...), a choice here)
        Borrow                  90 % cap on (TotalValue - balance) + amount, evaluated before the interest
                                update; UpdateInterestAndGetDebt; Borrowed += amount; module -> borrower
        Repay                   borrower -> module [amount]; UpdateInterestAndGetDebt; interest first
                                (min(amount, stacked - paid)), the rest lowers Borrowed; negative Borrowed is
                                an error; at Borrowed = 0 the record is DELETED, otherwise stored
     x/leveragelp/keeper (position_open.go, position_close.go, add_collateral.go, begin_blocker.go,
        msg_server_close_positions.go): every path is a composition of the three debt primitives above on
        the position's own address.  ForceCloseLong with a position that cannot cover its debt repays only
        the balance it has ("repay partial"): that is a Repay of less than the liability - nothing is
        written off, the record stays with Borrowed > 0 although the position is destroyed.
     x/amm/keeper/msg_server_swap_exact_amount_{in,out}.go: the payout of a swap goes to msg.Recipient by a
        keeper-level SendCoins; bank's blocked-address list is only consulted by bank's own MsgSend, so the
        recipient can be the vault's module account: [VDonate] (cash grows, no book is touched).

   Choices resolved by the implementation (the theorems quantify over all of them): the amounts, the
   interest [i] returned by GetInterest (only 0 <= i, and i = 0 on a zero principal because the formula
   multiplies by Borrowed), the redemption amount of an unbond (its exact value is C07's kernel).
   Borrowers are interned as naturals. An absent record reads as the all-zero record (getDebt).
   [v_don] is a ghost: the sum of third-party transfers into the module account. *)
From Coq Require Import ZArith List Bool Arith.
From Elys Require Import Base.Res Base.Fn Base.Zdec Models.SumLedger Models.Stable.
Import ListNotations.
Open Scope Z_scope.

Record vault := mkV {
  v_tv : Z;             (* Params.TotalValue *)
  v_cash : Z;           (* bank balance of the module account in the deposit denom *)
  v_b : nat -> Z;       (* Debt.Borrowed *)
  v_s : nat -> Z;       (* Debt.InterestStacked *)
  v_p : nat -> Z;       (* Debt.InterestPaid *)
  v_keys : list nat;    (* addresses that have a stored Debt record *)
  v_don : Z             (* ghost: received from third parties outside bond / repay *)
}.

Definition liab (v : vault) (k : nat) : Z := v_b v k + v_s v k - v_p v k.
Definition loans (v : vault) : Z := sumf (liab v) (v_keys v).

Definition vault_empty : vault := mkV 0 0 (fun _ => 0) (fun _ => 0) (fun _ => 0) [] 0.

Definition E_vamount := 21%nat.     (* amount not positive (ValidateBasic / invalid sdk.Coins) *)
Definition E_vcash := 22%nat.       (* module account cannot pay *)
Definition E_vcap := 23%nat.        (* ErrMaxBorrowAmount *)
Definition E_vnegb := 24%nat.       (* ErrNegativeBorrowed *)
Definition E_vchoice := 25%nat.     (* not an admissible interest amount *)
Definition E_vblocked := 26%nat.    (* repaired model only: recipient is a blocked module account *)
Definition E_vpayout := 27%nat.     (* a payout of the module account that is neither a redemption nor a loan *)

(* SetDebt: store the record of k *)
Definition put (v : vault) (tv cash : Z) (k : nat) (b s p : Z) : vault :=
  mkV tv cash (upd (v_b v) k b) (upd (v_s v) k s) (upd (v_p v) k p)
      (if mem_key k (v_keys v) then v_keys v else k :: v_keys v) (v_don v).

(* DeleteDebt *)
Definition del (v : vault) (tv cash : Z) (k : nat) : vault :=
  mkV tv cash (upd (v_b v) k 0) (upd (v_s v) k 0) (upd (v_p v) k 0) (remove_key k (v_keys v)) (v_don v).

(* what GetInterest can return for the record of k *)
Definition int_ok (v : vault) (k : nat) (i : Z) : bool :=
  (0 <=? i) && (negb (v_b v k =? 0) || (i =? 0)).

Inductive vop :=
| VBond (a : Z)                   (* MsgBond of any lender *)
| VUnbond (p : Z)                 (* MsgUnbond of any lender; p = redemption amount *)
| VBorrow (k : nat) (a i : Z)     (* Keeper.Borrow (leveragelp open / consolidating re-open) *)
| VRepay (k : nat) (a i : Z)      (* Keeper.Repay (close, partial close, liquidation, stop-loss, add collateral) *)
| VAccrue (k : nat) (i : Z)       (* UpdateInterestAndGetDebt alone (health checks, begin blocker) *)
| VDonate (a : Z)                 (* a third party's keeper-level transfer to the module account *)
| VOut (a : Z).                   (* any other payout of the module account: no code path does this *)

Definition vstep (v : vault) (o : vop) : res vault :=
  match o with
  | VBond a =>
      guard (0 <? a) E_vamount (
      Ok (mkV (v_tv v + a) (v_cash v + a) (v_b v) (v_s v) (v_p v) (v_keys v) (v_don v)))
  | VUnbond p =>
      guard (0 <? p) E_vamount (guard (p <=? v_cash v) E_vcash (
      Ok (mkV (v_tv v - p) (v_cash v - p) (v_b v) (v_s v) (v_p v) (v_keys v) (v_don v))))
  | VBorrow k a i =>
      guard (int_ok v k i) E_vchoice (guard (0 <? a) E_vamount (
      (* the cap uses TotalValue and the balance as they are before the interest update *)
      guard (negb (cap_max (v_tv v) <? cap_borrowed (v_tv v) (v_cash v) a)) E_vcap (
      guard (a <=? v_cash v) E_vcash (
      Ok (put v (v_tv v + i) (v_cash v - a) k (v_b v k + a) (v_s v k + i) (v_p v k))))))
  | VRepay k a i =>
      guard (int_ok v k i) E_vchoice (guard (0 <? a) E_vamount (
      let stacked := v_s v k + i in
      let ip0 := stacked - v_p v k in
      let ip := if a <? ip0 then a else ip0 in
      let rp := a - ip in
      let b := v_b v k - rp in
      let paid := v_p v k + ip in
      guard (0 <=? b) E_vnegb (
      if b =? 0 then Ok (del v (v_tv v + i) (v_cash v + a) k)
      else Ok (put v (v_tv v + i) (v_cash v + a) k b stacked paid))))
  | VAccrue k i =>
      guard (int_ok v k i) E_vchoice (
      Ok (put v (v_tv v + i) (v_cash v) k (v_b v k) (v_s v k + i) (v_p v k)))
  | VDonate a =>
      guard (0 <? a) E_vamount (
      Ok (mkV (v_tv v) (v_cash v + a) (v_b v) (v_s v) (v_p v) (v_keys v) (v_don v + a)))
  | VOut _ => Err E_vpayout
  end.

(* the repaired machine differs at one site: a transfer whose recipient is the module account is refused *)
Definition vstep_fixed (v : vault) (o : vop) : res vault :=
  match o with
  | VDonate _ => Err E_vblocked
  | _ => vstep v o
  end.

Definition is_donate (o : vop) : bool := match o with VDonate _ => true | _ => false end.

(* one transaction / one block = several primitive steps, all or nothing *)
Fixpoint vsteps (f : vault -> vop -> res vault) (v : vault) (l : list vop) : res vault :=
  match l with [] => Ok v | o :: r => do v1 <- f v o; vsteps f v1 r end.
Definition vtx (f : vault -> vop -> res vault) (v : vault) (l : list vop) : vault := run_tx (fun v => vsteps f v l) v.
Definition vrun (f : vault -> vop -> res vault) (v : vault) (h : list (list vop)) : vault := fold_left (vtx f) h v.
