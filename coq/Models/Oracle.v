(* Exact model of the price side of x/oracle, with BYTE-STRING store keys (C16 is about concatenation):
     types/keys.go                         PriceKey, PriceKeyPrefixAsset, PriceKeyPrefixAssetAndSource
     keeper/price.go                       SetPrice, RemovePrice, GetAllPrice, GetLatestPriceFromAssetAndSource,
                                           GetLatestPriceFromAnySource, GetAssetPrice, GetAssetPriceFromDenom, Pow10
     keeper/abci.go                        EndBlock (PriceExpiryTime, LifeTimeInBlocks; uint64 arithmetic wraps)
     keeper/msg_server_price.go            FeedPrice            types/messages_price.go   FeedPrice.Validate
     keeper/msg_server_feed_multiple_prices.go  FeedMultiplePrices
     keeper/msg_server_price_feeder.go     SetPriceFeeder, DeletePriceFeeder (signed by the feeder itself)
     keeper/msg_server_proposals.go        UpdateParams, RemoveAssetInfo, AddPriceFeeders, RemovePriceFeeders (authority)
     keeper/msg_server_create_asset_info.go CreateAssetInfo (any signer)
   Definitions only; proofs are in Proofs/OracleProofs.v.
   The KV store is a strictly sorted association list by key bytes (lexicographic, a proper prefix is
   smaller), which is the order of every SDK KVStore iterator. A byte is an N; names are arbitrary
   byte strings. [fixed = false] is the code as it is; [fixed = true] is the proposed repair of the two
   lookups (skip iterator entries whose decoded asset/source differ from the asked ones). *)
From Coq Require Import ZArith NArith List Bool.
From Elys Require Import Base.Res Base.Zdec.
Import ListNotations.
Open Scope N_scope.

Definition bytes := list N.

(* ---------- byte strings ---------- *)

Fixpoint bcmp (a b : bytes) : comparison :=
  match a, b with
  | [], [] => Eq
  | [], _ :: _ => Lt
  | _ :: _, [] => Gt
  | x :: r, y :: t => match N.compare x y with Eq => bcmp r t | c => c end
  end.

Definition beqb (a b : bytes) : bool := match bcmp a b with Eq => true | _ => false end.

Fixpoint is_prefix (p k : bytes) : bool :=
  match p, k with
  | [], _ => true
  | _ :: _, [] => false
  | x :: r, y :: t => (x =? y) && is_prefix r t
  end.

(* sdk.Uint64ToBigEndian for x < 256^n (callers reduce modulo 2^64 first): most significant first *)
Fixpoint be (n : nat) (x : N) : bytes :=
  match n with
  | O => []
  | S m => x / 256 ^ N.of_nat m :: be m (x mod 256 ^ N.of_nat m)
  end.

Definition U64 : N := 18446744073709551616.
Definition u64 (x : N) : N := x mod U64.
Definition add64 (a b : N) : N := (a + b) mod U64.          (* Go uint64 addition wraps *)
Definition be8 (x : N) : bytes := be 8 (u64 x).

(* "Price/value/" *)
Definition PFX : bytes := [80; 114; 105; 99; 101; 47; 118; 97; 108; 117; 101; 47].
Definition SLASH : N := 47.
Definition ELYS : bytes := [101; 108; 121; 115].
Definition BAND : bytes := [98; 97; 110; 100].

(* types/keys.go: no separator between asset and source; "/" only before the timestamp *)
Definition key_prefix_asset (asset : bytes) : bytes := PFX ++ asset.
Definition key_prefix_asset_source (asset source : bytes) : bytes := key_prefix_asset asset ++ source.
Definition price_key_of (asset source : bytes) (ts : N) : bytes :=
  key_prefix_asset_source asset source ++ [SLASH] ++ be8 ts.

(* ---------- the price store ---------- *)

Record price := mkPrice {
  p_asset : bytes; p_source : bytes;
  p_price : Z;              (* LegacyDec, raw 10^18-scaled integer *)
  p_provider : N;           (* interned address of the feeder *)
  p_ts : N;                 (* uint64(ctx.BlockTime().Unix()) *)
  p_height : N              (* uint64(ctx.BlockHeight()) *)
}.

Definition price_key (v : price) : bytes := price_key_of (p_asset v) (p_source v) (p_ts v).

Definition store := list (bytes * price).

Fixpoint sset (k : bytes) (v : price) (s : store) : store :=
  match s with
  | [] => [(k, v)]
  | (k', v') :: r =>
      match bcmp k k' with
      | Lt => (k, v) :: s
      | Eq => (k, v) :: r
      | Gt => (k', v') :: sset k v r
      end
  end.

Fixpoint sdel (k : bytes) (s : store) : store :=
  match s with
  | [] => []
  | (k', v') :: r =>
      match bcmp k k' with
      | Lt => s
      | Eq => r
      | Gt => (k', v') :: sdel k r
      end
  end.

Definition values (s : store) : list price := map snd s.

(* KVStoreReversePrefixIterator: every entry whose key has the prefix bytes, greatest key first *)
Definition rev_prefix_iter (p : bytes) (s : store) : list (bytes * price) :=
  rev (filter (fun kv => is_prefix p (fst kv)) s).

(* the loop "for ; iterator.Valid(); iterator.Next() { unmarshal; return val, true }" returns the first
   entry; the repaired loop continues past entries that decode to another asset / source *)
Definition first_entry (fixed : bool) (want : price -> bool) (it : list (bytes * price)) : option price :=
  option_map snd (if fixed then find (fun kv => want (snd kv)) it else hd_error it).

Definition latest_asset_source (fixed : bool) (s : store) (asset source : bytes) : option price :=
  first_entry fixed (fun v => beqb (p_asset v) asset && beqb (p_source v) source)
              (rev_prefix_iter (key_prefix_asset_source asset source) s).

Definition latest_any_source (fixed : bool) (s : store) (asset : bytes) : option price :=
  first_entry fixed (fun v => beqb (p_asset v) asset) (rev_prefix_iter (key_prefix_asset asset) s).

(* GetAssetPrice: elys, then band, then any *)
Definition get_asset_price (fixed : bool) (s : store) (asset : bytes) : option price :=
  match latest_asset_source fixed s asset ELYS with
  | Some v => Some v
  | None =>
      match latest_asset_source fixed s asset BAND with
      | Some v => Some v
      | None => latest_any_source fixed s asset
      end
  end.

(* ---------- module state ---------- *)

Record params := mkP { expiry : N; life : N }.    (* PriceExpiryTime, LifeTimeInBlocks (uint64) *)

Record info := mkI { i_display : bytes; i_decimal : N }.

Record state := mkS {
  st_prices : store;
  st_feeders : list (N * bool);         (* PriceFeeder{IsActive} by interned address *)
  st_infos : list (bytes * info);       (* AssetInfo by denom (exact-key Get) *)
  st_params : params;
  st_h : N;                             (* height of the block being built *)
  st_t : N                              (* its time, unix seconds *)
}.

Fixpoint fget (a : N) (l : list (N * bool)) : option bool :=
  match l with [] => None | (b, x) :: r => if a =? b then Some x else fget a r end.
Definition fdel (a : N) (l : list (N * bool)) : list (N * bool) := filter (fun e => negb (a =? fst e)) l.
Definition fset (a : N) (x : bool) (l : list (N * bool)) : list (N * bool) := (a, x) :: fdel a l.

Fixpoint iget (d : bytes) (l : list (bytes * info)) : option info :=
  match l with [] => None | (e, x) :: r => if beqb d e then Some x else iget d r end.
Definition idel (d : bytes) (l : list (bytes * info)) : list (bytes * info) := filter (fun e => negb (beqb d (fst e))) l.

(* keeper/abci.go EndBlock: iterates a SNAPSHOT (GetAllPrice) and deletes by the key recomputed from the
   decoded value; the two conditions are evaluated in uint64 arithmetic *)
Definition expired_time (p : params) (t : N) (v : price) : bool := add64 (p_ts v) (expiry p) <? u64 t.
Definition expired_height (p : params) (h : N) (v : price) : bool := add64 (p_height v) (life p) <? u64 h.

Definition end_block_prices (p : params) (h t : N) (s : store) : store :=
  fold_left (fun acc kv =>
               let v := snd kv in
               let acc := if expired_time p t v then sdel (price_key v) acc else acc in
               if expired_height p h v then sdel (price_key v) acc else acc) s s.

(* ---------- validation (ValidateBasic) ---------- *)

Definition is_letter (c : N) : bool := ((65 <=? c) && (c <=? 90)) || ((97 <=? c) && (c <=? 122)).
Definition is_digit (c : N) : bool := (48 <=? c) && (c <=? 57).
(* [a-zA-Z0-9/:._-] *)
Definition is_denom_char (c : N) : bool :=
  is_letter c || is_digit c || (c =? 47) || (c =? 58) || (c =? 46) || (c =? 95) || (c =? 45).
(* sdk.ValidateDenom: ^[a-zA-Z][a-zA-Z0-9/:._-]{2,127}$ *)
Definition valid_denom (d : bytes) : bool :=
  match d with
  | [] => false
  | c :: r => is_letter c && forallb is_denom_char r && (2 <=? length r)%nat && (length r <=? 127)%nat
  end.

Record feed := mkF { f_asset : bytes; f_source : bytes; f_price : Z }.

Definition valid_feed (f : feed) : bool :=
  (0 <=? f_price f)%Z && valid_denom (f_asset f) && negb (match f_source f with [] => true | _ => false end).

(* ---------- handlers ---------- *)

Definition E_invalid := 1%nat.
Definition E_not_feeder := 2%nat.
Definition E_inactive := 3%nat.
Definition E_authority := 4%nat.
Definition E_exists := 5%nat.

Inductive op :=
| OFeed (sender : N) (f : feed)
| OFeedMulti (sender : N) (fs : list feed)
| OAddFeeders (auth : bool) (l : list N)          (* auth: msg.Authority = k.authority *)
| ORemoveFeeders (auth : bool) (l : list N)
| OSetFeeder (feeder : N) (active : bool)
| ODeleteFeeder (feeder : N)
| OCreateInfo (denom display : bytes) (decimal : N)
| ORemoveInfo (auth : bool) (denom : bytes)
| OUpdateParams (auth : bool) (p : params)
| OEndBlock (dt : N).

Definition with_prices (s : state) (st : store) : state :=
  mkS st (st_feeders s) (st_infos s) (st_params s) (st_h s) (st_t s).
Definition with_feeders (s : state) (l : list (N * bool)) : state :=
  mkS (st_prices s) l (st_infos s) (st_params s) (st_h s) (st_t s).
Definition with_infos (s : state) (l : list (bytes * info)) : state :=
  mkS (st_prices s) (st_feeders s) l (st_params s) (st_h s) (st_t s).

Definition mk_price (s : state) (sender : N) (f : feed) : price :=
  mkPrice (f_asset f) (f_source f) (f_price f) sender (u64 (st_t s)) (u64 (st_h s)).

Definition set_price (v : price) (st : store) : store := sset (price_key v) v st.

(* GetPriceFeeder found and IsActive *)
Definition feeder_check (s : state) (sender : N) : res unit :=
  match fget sender (st_feeders s) with
  | None => Err E_not_feeder
  | Some false => Err E_inactive
  | Some true => Ok tt
  end.

Definition step (s : state) (o : op) : res state :=
  match o with
  | OFeed sender f =>
      guard (valid_feed f) E_invalid (
      do _ <- feeder_check s sender;
      Ok (with_prices s (set_price (mk_price s sender f) (st_prices s))))
  | OFeedMulti sender fs =>
      guard (negb (match fs with [] => true | _ => false end) && forallb valid_feed fs) E_invalid (
      do _ <- feeder_check s sender;
      Ok (with_prices s (fold_left (fun st f => set_price (mk_price s sender f) st) fs (st_prices s))))
  | OAddFeeders auth l =>
      guard (negb (match l with [] => true | _ => false end)) E_invalid (
      guard auth E_authority (
      Ok (with_feeders s (fold_left (fun fl a => fset a true fl) l (st_feeders s)))))
  | ORemoveFeeders auth l =>
      guard (negb (match l with [] => true | _ => false end)) E_invalid (
      guard auth E_authority (
      Ok (with_feeders s (fold_left (fun fl a => fdel a fl) l (st_feeders s)))))
  | OSetFeeder a active =>
      match fget a (st_feeders s) with
      | None => Err E_not_feeder
      | Some _ => Ok (with_feeders s (fset a active (st_feeders s)))
      end
  | ODeleteFeeder a =>
      match fget a (st_feeders s) with
      | None => Err E_not_feeder
      | Some _ => Ok (with_feeders s (fdel a (st_feeders s)))
      end
  | OCreateInfo denom display decimal =>
      guard (valid_denom denom && negb (match display with [] => true | _ => false end)
             && (6 <=? decimal) && (decimal <=? 18)) E_invalid (
      match iget denom (st_infos s) with
      | Some _ => Err E_exists
      | None => Ok (with_infos s ((denom, mkI display decimal) :: st_infos s))
      end)
  | ORemoveInfo auth denom =>
      guard (valid_denom denom) E_invalid (
      guard auth E_authority (
      Ok (with_infos s (idel denom (st_infos s)))))
  | OUpdateParams auth p =>
      guard auth E_authority (
      Ok (mkS (st_prices s) (st_feeders s) (st_infos s) p (st_h s) (st_t s)))
  | OEndBlock dt =>
      Ok (mkS (end_block_prices (st_params s) (st_h s) (st_t s) (st_prices s))
              (st_feeders s) (st_infos s) (st_params s) (st_h s + 1) (st_t s + dt))
  end.

Definition exec (s : state) (o : op) : state := run_tx (fun s => step s o) s.
Definition run (s : state) (ops : list op) : state := fold_left exec ops s.

(* ---------- queries ---------- *)

Definition lookup (fixed : bool) (s : state) (asset : bytes) : option price :=
  get_asset_price fixed (st_prices s) asset.

(* Pow10(decimal) = 10^decimal as a LegacyDec (exact: repeated Mul by 10 of an integer) *)
Definition pow10_dec (d : N) : Z := (10 ^ Z.of_N d * PREC)%Z.

(* GetAssetPriceFromDenom: zero when there is no asset info or no price *)
Definition price_from_denom (fixed : bool) (s : state) (denom : bytes) : Z :=
  match iget denom (st_infos s) with
  | None => 0%Z
  | Some i =>
      match lookup fixed s (i_display i) with
      | None => 0%Z
      | Some v => dquo (p_price v) (pow10_dec (i_decimal i))
      end
  end.

(* ---------- the specification: a map (asset, source) -> fed prices ---------- *)

(* the live fed prices as a flat list of records; the map view is [spec_at] *)
Definition same_slot (v w : price) : bool :=
  beqb (p_asset v) (p_asset w) && beqb (p_source v) (p_source w) && (p_ts v =? p_ts w).

Definition spec_at (m : list price) (asset source : bytes) : list price :=
  filter (fun v => beqb (p_asset v) asset && beqb (p_source v) source) m.

Definition spec_feed (v : price) (m : list price) : list price :=
  v :: filter (fun w => negb (same_slot v w)) m.

Definition live (p : params) (h t : N) (v : price) : bool :=
  negb (expired_time p t v) && negb (expired_height p h v).

(* evolution of the specification map along the same operation (feeders, params, clock are read from the
   concrete state before the step: they are plain data with exact-key access) *)
Definition authorised (s : state) (sender : N) : bool :=
  match fget sender (st_feeders s) with Some true => true | _ => false end.

Definition spec_step (s : state) (o : op) (m : list price) : list price :=
  match o with
  | OFeed sender f =>
      if valid_feed f && authorised s sender then spec_feed (mk_price s sender f) m else m
  | OFeedMulti sender fs =>
      if negb (match fs with [] => true | _ => false end) && forallb valid_feed fs && authorised s sender
      then fold_left (fun m f => spec_feed (mk_price s sender f) m) fs m else m
  | OEndBlock _ => filter (live (st_params s) (st_h s) (st_t s)) m
  | _ => m
  end.

Fixpoint spec_run (s : state) (m : list price) (ops : list op) : state * list price :=
  match ops with
  | [] => (s, m)
  | o :: r => spec_run (exec s o) (spec_step s o m) r
  end.

(* what a lookup must return, in terms of the specification map *)
Definition has (m : list price) (asset source : bytes) : Prop :=
  exists v, In v m /\ p_asset v = asset /\ p_source v = source.

Definition is_newest (m : list price) (asset source : bytes) (v : price) : Prop :=
  In v m /\ p_asset v = asset /\ p_source v = source /\
  forall w, In w m -> p_asset w = asset -> p_source w = source -> p_ts w <= p_ts v.

Definition lookup_ok (m : list price) (asset : bytes) (r : option price) : Prop :=
  (has m asset ELYS -> exists v, r = Some v /\ is_newest m asset ELYS v) /\
  (~ has m asset ELYS -> has m asset BAND -> exists v, r = Some v /\ is_newest m asset BAND v) /\
  (~ has m asset ELYS -> ~ has m asset BAND ->
     match r with
     | None => forall w, In w m -> p_asset w <> asset
     | Some v => is_newest m asset (p_source v) v
     end).

(* ---------- side condition on names under which the code as written is correct ---------- *)

Definition TIERS : list bytes := [ELYS; BAND; []].

(* the scan prefix asset||tier captures a key of (asset', source') only if it is the asked asset (and, for
   the elys/band tiers, the asked source). Exact: this is all the refinement proof needs. *)
Definition sep_for (names : list (bytes * bytes)) (a : bytes) : Prop :=
  forall a' s' q ts, In (a', s') names -> In q TIERS ->
    is_prefix (a ++ q) (a' ++ s' ++ [SLASH] ++ be8 ts) = true ->
    a' = a /\ (q = [] \/ s' = q).

Definition sep (names : list (bytes * bytes)) : Prop :=
  forall a s, In (a, s) names -> sep_for names a.

(* decidable sufficient condition: the asked name contains no "/" and asset||tier is a prefix of no other
   asset'||source' *)
Definition slash_free (a : bytes) : bool := forallb (fun c => negb (c =? SLASH)) a.

Definition sep_forb (names : list (bytes * bytes)) (a : bytes) : bool :=
  slash_free a &&
  forallb (fun n : bytes * bytes => let (a', s') := n in
     forallb (fun q => negb (is_prefix (a ++ q) (a' ++ s'))
                       || (beqb a' a && (match q with [] => true | _ => false end || beqb s' q))) TIERS) names.

Definition sepb (names : list (bytes * bytes)) : bool := forallb (fun n => sep_forb names (fst n)) names.

Definition feed_in (names : list (bytes * bytes)) (f : feed) : Prop := In (f_asset f, f_source f) names.

Definition op_in (names : list (bytes * bytes)) (o : op) : Prop :=
  match o with
  | OFeed _ f => feed_in names f
  | OFeedMulti _ fs => Forall (feed_in names) fs
  | _ => True
  end.
