(* C08: leveraged-LP pool total = sum of the positions' LeveragedLpAmount; each position's amount =
   the shares committed at the position's own address; open counter = number of stored positions.
     x/leveragelp/keeper/position_open.go   ProcessOpenLong / OpenConsolidate: JoinPool by the position
         address (mints + commits the shares there), position.LeveragedLpAmount += shares,
         pool.LeveragedLpAmount += shares, SetPosition (counter++ when new)
     x/leveragelp/keeper/position_close.go  ForceCloseLong: ExitPool by the position address (uncommits
         + burns lpAmount), pool -= lpAmount, position -= lpAmount, DestroyPosition at zero (counter--)
     x/leveragelp/keeper/begin_blocker.go, msg_server_close_positions.go: the same ForceCloseLong on a
         cache context that is written only on success (fix: commit), so each item is atomic.
   Positions are keyed by a small natural (interned (owner,id)). *)
From Coq Require Import ZArith List Bool Arith.
From Elys Require Import Base.Res Base.Fn Models.SumLedger.
Import ListNotations.
Open Scope Z_scope.

Record lev := mkLev { l_sl : sl; l_comm : nat -> Z }.   (* l_comm k: shares committed at position k's address *)

Inductive lop :=
| LOpen (k : nat) (shares : Z)      (* open or consolidating re-open / add collateral *)
| LClose (k : nat) (lp : Z).        (* user close, liquidation, stop-loss close: partial or full *)

Definition lstep (s : lev) (o : lop) : res lev :=
  match o with
  | LOpen k a =>
      (* amm.JoinPool(positionAddress): shares minted and committed at the position address *)
      let comm := upd (l_comm s) k (l_comm s k + a) in
      do t <- sstep (l_sl s) (if mem_key k (keys (l_sl s)) then SAdd k a else SNew k a);
      Ok (mkLev t comm)
  | LClose k a =>
      (* amm.ExitPool(positionAddress, lpAmount): uncommit + burn; fails when not enough committed *)
      if l_comm s k <? a then Err E_negative else
      let comm := upd (l_comm s) k (l_comm s k - a) in
      do t <- sstep (l_sl s) (SSub k a);
      (* DestroyPosition when nothing is left *)
      do t' <- (if parts t k =? 0 then sstep t (SDel k) else Ok t);
      Ok (mkLev t' comm)
  end.

(* one message / one begin-block item is atomic *)
Definition lexec (s : lev) (o : lop) : lev := run_tx (fun s => lstep s o) s.
Definition lrun (s : lev) (h : list lop) : lev := fold_left lexec h s.
Definition lev_empty : lev := mkLev sl_empty (fun _ => 0).

(* the code at the pinned commit: a liquidation in the begin blocker / MsgClosePositions whose
   ForceCloseLong failed AFTER the pool exit kept the exit's effects (no cache context) *)
Definition lclose_partial_failure (s : lev) (k : nat) (a : Z) : lev :=
  mkLev (l_sl s) (upd (l_comm s) k (l_comm s k - a)).
