(* C10: who may force-close a leveraged-LP / perpetual position, and the health check after an open.
   DECISION layer exactly as coded; health values, prices and pay-out amounts are inputs resolved from
   the implementation at the moment of each decision (the harness recomputes them independently on a
   throw-away context; see harness/c10_test.go).

     x/leveragelp/keeper/begin_blocker.go
        BeginBlocker: per position of the page: CheckAndLiquidateUnhealthyPosition; `if err == nil
           continue`; `if isHealthy && !closeAttempted` then CheckAndCloseAtStopLoss.
        CheckAndLiquidateUnhealthyPosition: h := GetPositionHealth; isHealthy := h.GT(SafetyFactor);
           `if isHealthy || liab.IsZero() return true,false,h,err`; otherwise ForceCloseLong of the whole
           position on a cache context written only on success (fix: f605879); panics recovered.
        CheckAndCloseAtStopLoss: h := GetPositionHealth (error -> return); lp price (error -> return);
           `!StopLossPrice.IsNil() && lpTokenPrice.LTE(StopLossPrice)`; same cache-context close.
     x/leveragelp/keeper/msg_server_close_positions.go: Liquidate list then StopLoss list, positions looked
        up by the REQUEST's (address,id), missing ones skipped; a failing after-close hook fails the tx.
     x/leveragelp/keeper/position_open.go ProcessOpenLong: `if lr.LTE(safetyFactor) return ErrPositionUnhealthy`.
     x/leveragelp/keeper/position_close.go CloseLong: GetPosition(ctx, msg.Creator, msg.Id).
     x/perpetual/keeper/process_mtp.go
        CheckAndLiquidateUnhealthyPosition: settle borrow interest and funding (custody changes, stored),
           h := GetMTPHealth, SetMTP, hook, `if h.LTE(SafetyFactor)` ForceClose{Long,Short} (each item on a cache context since fix: 85af696).
        CheckAndCloseAtStopLoss: LONG `!nil && price.LTE(sl)`, SHORT `!nil && price.GTE(sl)`.
        CheckAndCloseAtTakeProfit: LONG `price.GTE(tp)`, SHORT `price.LTE(tp)` (no nil check: a nil
           trigger panics inside LegacyDec comparison, recovered by the deferred recover, nothing closed).
     x/perpetual/keeper/msg_server_close_positions.go: Liquidate, StopLoss, TakeProfit lists in that order.
     x/perpetual/keeper/process_open.go, open_consolidate.go: `if MtpHealth.LTE(safetyFactor) return ErrMTPUnhealthy`
        (for a consolidating re-open: first on the new part alone, then on the merged position).
     x/perpetual/keeper/close_position.go ClosePosition: GetMTP(ctx, msg.Creator, msg.Id).

   LegacyDec values are raw integers scaled by 10^18 (order is the same); a nil LegacyDec is None. *)
From Coq Require Import ZArith List Bool.
From Elys Require Import Base.Res.
Import ListNotations.
Open Scope Z_scope.

(* ---------------------------------------------------------------- guards, as coded *)

Definition open_ok (h sf : Z) : bool := sf <? h.                       (* not h.LTE(sf) *)

Definition lev_is_healthy (h sf : Z) : bool := sf <? h.                (* h.GT(sf) *)
Definition lev_may_liquidate (h sf liab : Z) : bool :=
  negb (lev_is_healthy h sf || (liab =? 0)).
Definition lev_stop_hit (price : Z) (sl : option Z) : bool :=
  match sl with None => false | Some t => price <=? t end.

Definition perp_may_liquidate (h sf : Z) : bool := h <=? sf.          (* h.LTE(sf) *)
Definition perp_stop_hit (long : bool) (price : Z) (sl : option Z) : bool :=
  match sl with None => false | Some t => if long then price <=? t else t <=? price end.
(* None: nil trigger -> panic inside the comparison, recovered, nothing happens *)
Definition perp_take_hit (long : bool) (price : Z) (tp : option Z) : option bool :=
  match tp with None => None | Some t => Some (if long then t <=? price else price <=? t) end.

(* ---------------------------------------------------------------- state *)

Record pos := mkPos {
  p_size : Z;          (* leveragelp: LeveragedLpAmount;  perpetual: Custody *)
  p_accr : Z;          (* ghost: interest / funding already settled out of (or into) p_size *)
  p_coll : Z;          (* Collateral *)
  p_princ : Z;         (* leveragelp: stablestake Debt.Borrowed of the position;  perpetual: Liabilities *)
  p_sl : option Z;     (* StopLossPrice *)
  p_tp : option Z;     (* TakeProfitPrice (perpetual) *)
  p_long : bool }.

(* what a third party must not change without a guard: size net of accrued interest/funding,
   collateral, principal; and the triggers / side *)
Definition core (p : pos) : Z * Z * Z := (p_size p - p_accr p, p_coll p, p_princ p).
Definition trig (p : pos) : option Z * option Z * bool := (p_sl p, p_tp p, p_long p).

Definition pmap := Z -> Z -> option pos.            (* owner -> id -> position *)
Definition fmap := Z -> Z -> Z.                     (* owner -> denom -> balance *)

Definition pset (m : pmap) (o i : Z) (v : option pos) : pmap :=
  fun o' i' => if (o' =? o) && (i' =? i) then v else m o' i'.
Definition fadd (f : fmap) (o d a : Z) : fmap :=
  fun o' d' => if (o' =? o) && (d' =? d) then f o' d' + a else f o' d'.
Fixpoint pay_all (f : fmap) (o : Z) (l : list (Z * Z)) : fmap :=
  match l with [] => f | (d, a) :: r => pay_all (fadd f o d a) o r end.

Inductive module := MLev | MPerp.

Record state := mkSt { st_lev : pmap; st_perp : pmap; st_funds : fmap; st_sfl : Z; st_sfp : Z }.

Definition pm (m : module) (s : state) : pmap := match m with MLev => st_lev s | MPerp => st_perp s end.
Definition sf (m : module) (s : state) : Z := match m with MLev => st_sfl s | MPerp => st_sfp s end.
Definition with_pm (m : module) (s : state) (x : pmap) : state :=
  match m with
  | MLev => mkSt x (st_perp s) (st_funds s) (st_sfl s) (st_sfp s)
  | MPerp => mkSt (st_lev s) x (st_funds s) (st_sfl s) (st_sfp s)
  end.
Definition with_funds (s : state) (f : fmap) : state := mkSt (st_lev s) (st_perp s) f (st_sfl s) (st_sfp s).

(* ---------------------------------------------------------------- forced steps *)

(* outcome of the force close itself, resolved from the implementation.
   CloseFail pay: the close returned an error / panicked. both modules run each item on a cache
   context that is written only on success (leveragelp since fix: f605879, perpetual since fix: 85af696), so nothing is kept. *)
Inductive closeres := CloseOk (pay : list (Z * Z)) | CloseFail (pay : list (Z * Z)).

Inductive kind := KLevLiq | KLevStop | KLevSweep | KPerpLiq | KPerpStop | KPerpTake.
Definition kmod (k : kind) : module :=
  match k with KLevLiq | KLevStop | KLevSweep => MLev | _ => MPerp end.

Record item := mkItem {
  i_owner : Z; i_id : Z;
  i_settle : option Z;    (* perpetual liquidate: None = settling interest/funding failed, nothing stored;
                             Some d = custody changed by d (stored) before the health is read *)
  i_health : option Z;    (* health read by the liquidation check; None = error *)
  i_liab : Z;             (* leveragelp: total debt after the interest update *)
  i_hook : bool;          (* perpetual liquidate: AfterPerpetualPositionModified returned nil *)
  i_health2 : option Z;   (* leveragelp stop-loss check re-reads the health; None = error -> return *)
  i_price : option Z;     (* lp token price (leveragelp) / trading asset price (perpetual); None = error *)
  i_close : closeres }.

(* the guard of one item for a position with triggers t, as the code evaluates it *)
Definition lev_liq_guard (sfv : Z) (it : item) : bool :=
  match i_health it with Some h => lev_may_liquidate h sfv (i_liab it) | None => false end.
Definition lev_stop_guard (t : option Z * option Z * bool) (it : item) : bool :=
  match i_health2 it, i_price it with
  | Some _, Some pr => lev_stop_hit pr (fst (fst t))
  | _, _ => false
  end.
Definition guard_of (k : kind) (sfv : Z) (t : option Z * option Z * bool) (it : item) : bool :=
  match k with
  | KLevLiq => lev_liq_guard sfv it
  | KLevStop => lev_stop_guard t it
  | KLevSweep =>
      (* liquidation first; the stop-loss check only when the liquidation check said "healthy" *)
      lev_liq_guard sfv it ||
      (match i_health it with Some _ => true | None => false end) && lev_stop_guard t it
  | KPerpLiq =>
      match i_settle it, i_health it with
      | Some _, Some h => i_hook it && perp_may_liquidate h sfv
      | _, _ => false
      end
  | KPerpStop =>
      match i_price it with Some pr => perp_stop_hit (snd t) pr (fst (fst t)) | None => false end
  | KPerpTake =>
      match i_price it with
      | Some pr => match perp_take_hit (snd t) pr (snd (fst t)) with Some b => b | None => false end
      | None => false
      end
  end.

(* force close of the whole position: the record is destroyed, the owner is paid *)
Definition do_close (m : module) (s : state) (o i : Z) (c : closeres) : state :=
  match c with
  | CloseOk pay => with_funds (with_pm m s (pset (pm m s) o i None)) (pay_all (st_funds s) o pay)
  | CloseFail pay =>
      match m with
      | MLev => s                                              (* cache context dropped (fix: f605879) *)
      | MPerp => s                                             (* cache context dropped (fix: 85af696; before it what had been paid out stayed) *)
      end
  end.

Definition forced_step (s : state) (x : kind * item) : state :=
  let '(k, it) := x in
  let m := kmod k in
  let o := i_owner it in let i := i_id it in
  match pm m s o i with
  | None => s                                                   (* `continue` *)
  | Some p =>
      match k with
      | KLevLiq | KLevStop | KLevSweep =>
          if guard_of k (sf m s) (trig p) it then do_close m s o i (i_close it) else s
      | KPerpLiq =>
          match i_settle it with
          | None => s
          | Some d =>
              let p1 := mkPos (p_size p + d) (p_accr p + d) (p_coll p) (p_princ p) (p_sl p) (p_tp p) (p_long p) in
              let s1 := with_pm m s (pset (pm m s) o i (Some p1)) in
              if guard_of k (sf m s) (trig p) it then do_close m s1 o i (i_close it) else s1
          end
      | KPerpStop | KPerpTake =>
          if guard_of k (sf m s) (trig p) it then do_close m s o i (i_close it) else s
      end
  end.

Definition forced_run (s : state) (l : list (kind * item)) : state := fold_left forced_step l s.

(* MsgClosePositions of either module: the lists in the order the handler walks them; the whole
   message is one transaction (tx_ok = false: a hook error / panic rolled everything back) *)
Definition lev_close_positions (s : state) (tx_ok : bool) (liq stop : list item) : state :=
  if tx_ok then forced_run s (map (fun it => (KLevLiq, it)) liq ++ map (fun it => (KLevStop, it)) stop) else s.
Definition perp_close_positions (s : state) (tx_ok : bool) (liq stop take : list item) : state :=
  if tx_ok then forced_run s (map (fun it => (KPerpLiq, it)) liq ++ map (fun it => (KPerpStop, it)) stop
                              ++ map (fun it => (KPerpTake, it)) take) else s.
(* leveragelp begin-block sweep over the page of positions *)
Definition lev_sweep (s : state) (page : list item) : state :=
  forced_run s (map (fun it => (KLevSweep, it)) page).

(* ---------------------------------------------------------------- owner steps *)

(* user close (MsgClose): the position is looked up under the SENDER; everything the close does is
   resolved (new record or destroyed, pay-out) but it is applied to that key and that owner only *)
Record ownerclose := mkOC { oc_mod : module; oc_sender : Z; oc_id : Z; oc_ok : bool;
                            oc_new : option pos; oc_pay : list (Z * Z) }.
Definition owner_close (s : state) (c : ownerclose) : res state :=
  match pm (oc_mod c) s (oc_sender c) (oc_id c) with
  | None => Err 1                                               (* ErrPositionDoesNotExist / ErrMTPDoesNotExist *)
  | Some _ =>
      if oc_ok c then
        Ok (with_funds (with_pm (oc_mod c) s (pset (pm (oc_mod c) s) (oc_sender c) (oc_id c) (oc_new c)))
                       (pay_all (st_funds s) (oc_sender c) (oc_pay c)))
      else Err 2
  end.

(* open / consolidating re-open: every other check is resolved (op_pre); the health checks are the model's.
   op_hcheck is the health value the handler computes and compares (and stores in the record's health
   field): leveragelp ProcessOpenLong right after the pool join; perpetual ProcessOpen / OpenConsolidate
   right after Borrow / the merge, BEFORE the after-open hooks refresh the accounted pool that the swap
   estimation inside GetMTPHealth reads. op_health is the health of the stored position in the state the
   transaction leaves behind (what a liquidation request evaluates next). op_hnew: perpetual consolidation
   checks the new part alone first (None when not applicable or not observable). *)
Record openop := mkOpen { op_mod : module; op_owner : Z; op_id : Z; op_pre : bool;
                          op_hnew : option Z; op_hcheck : Z; op_health : Z; op_pos : pos; op_debit : list (Z * Z) }.
Definition open_checks_on (h sfv : Z) (o : openop) : bool :=
  (match op_hnew o with Some h' => open_ok h' sfv | None => true end) && open_ok h sfv.
Definition open_store (s : state) (o : openop) : state :=
  with_funds (with_pm (op_mod o) s (pset (pm (op_mod o) s) (op_owner o) (op_id o) (Some (op_pos o))))
             (pay_all (st_funds s) (op_owner o) (op_debit o)).
(* the code BEFORE fix: ba85cca: the comparison is made on op_hcheck only *)
Definition open_step_prefix (s : state) (o : openop) : res state :=
  if negb (op_pre o) then Err 3 else
  if negb (open_checks_on (op_hcheck o) (sf (op_mod o) s) o) then Err 4    (* ErrPositionUnhealthy / ErrMTPUnhealthy *)
  else Ok (open_store s o).
(* the code as it is: perpetual Open / OpenConsolidate repeat the comparison on the health of the position as the
   transaction leaves it (CheckHealthAfterOpen, after the hooks); leveragelp compares op_hcheck only *)
Definition rechecks (m : module) : bool := match m with MPerp => true | MLev => false end.
Definition open_step (s : state) (o : openop) : res state :=
  if negb (op_pre o) then Err 3 else
  if negb (open_checks_on (op_hcheck o) (sf (op_mod o) s) o &&
           (negb (rechecks (op_mod o)) || open_ok (op_health o) (sf (op_mod o) s))) then Err 4
  else Ok (open_store s o).
(* the comparison repeated on the final health for BOTH modules *)
Definition open_step_fixed (s : state) (o : openop) : res state :=
  if negb (op_pre o) then Err 3 else
  if negb (open_checks_on (op_hcheck o) (sf (op_mod o) s) o && open_ok (op_health o) (sf (op_mod o) s)) then Err 4
  else Ok (open_store s o).

(* governance sets a safety factor *)
Definition set_sf (m : module) (s : state) (v : Z) : state :=
  match m with
  | MLev => mkSt (st_lev s) (st_perp s) (st_funds s) v (st_sfp s)
  | MPerp => mkSt (st_lev s) (st_perp s) (st_funds s) (st_sfl s) v
  end.

(* ---------------------------------------------------------------- histories *)

Inductive op :=
| OForced (l : list (kind * item))        (* the items of one close-positions message / one sweep *)
| OOwnerClose (c : ownerclose)
| OOpen (o : openop)
| OSetSf (m : module) (v : Z)
| OOther (f : state -> state).            (* anything else (other users' transactions, time passing) *)

Definition exec (s : state) (o : op) : state :=
  match o with
  | OForced l => forced_run s l
  | OOwnerClose c => run_tx (fun s => owner_close s c) s
  | OOpen o => run_tx (fun s => open_step s o) s
  | OSetSf m v => set_sf m s v
  | OOther f => f s
  end.
Definition run (s : state) (h : list op) : state := fold_left exec h s.
