(* C10 - the two HEALTH formulas as functions of the quantities they are computed from (exact, raw 18-decimal integers):
     x/leveragelp/keeper/position.go GetPositionHealth:
        debt := stablestake UpdateInterestAndGetDebt(position address); debtAmount := Borrowed + InterestStacked - InterestPaid
        (Debt.GetTotalLiablities); zero debt -> LegacyMaxSortableDec; exit := amm ExitPoolEst of ALL shares committed at the
        position address, in the base currency; health := exit.ToLegacyDec().Quo(debtAmount.ToLegacyDec()).
     x/perpetual/keeper/mtp_health.go GetMTPHealth:
        Liabilities zero -> LegacyMaxSortableDec; total := Liabilities + BorrowInterestUnpaidLiability; SHORT: total := what
        EstimateSwapGivenOut says has to be paid in the base currency for `total` of the liabilities asset (error -> error;
        zero -> health 0); custody not positive -> health 0; LONG: custody := EstimateSwapGivenOut for the custody amount
        (error -> error); health := custody.ToLegacyDec().Quo(total.ToLegacyDec()).
   Inputs taken from the implementation: the exit estimate, the debt record, the MTP fields after settlement and the two swap
   estimates (the amm pricing behind them is C03/C05's model). Definitions only; proofs in Proofs/HealthProofs.v. *)
From Coq Require Import ZArith Bool.
From Elys Require Import Base.Res Base.Zdec.
Open Scope Z_scope.

Definition MAXSORT : Z := PREC * PREC.              (* LegacyMaxSortableDec, raw *)
Definition E_est : nat := 1%nat.                    (* EstimateSwapGivenOut returned an error *)
Definition P_quozero : nat := 2%nat.                (* LegacyDec.Quo by zero *)

Definition total_debt (borrowed stacked paid : Z) : Z := borrowed + stacked - paid.   (* Debt.GetTotalLiablities *)

Definition lev_health (exit debt : Z) : Z :=
  if debt =? 0 then MAXSORT else dquo (dec_of_int exit) (dec_of_int debt).

Definition lev_health_of (exit borrowed stacked paid : Z) : Z := lev_health exit (total_debt borrowed stacked paid).

(* est_liab / est_custody: result of the EstimateSwapGivenOut call the code makes for this side (None = it returned an error) *)
Definition perp_health (long : bool) (liab unpaid custody : Z) (est_liab est_custody : option Z) : res Z :=
  if liab =? 0 then Ok MAXSORT else
  let total := liab + unpaid in
  do tl <- (if long then Ok total else match est_liab with Some v => Ok v | None => Err E_est end);
  if negb long && (tl =? 0) then Ok 0 else
  if negb (0 <? custody) then Ok 0 else
  do c <- (if long then match est_custody with Some v => Ok v | None => Err E_est end else Ok custody);
  if tl =? 0 then Panic P_quozero else Ok (dquo (dec_of_int c) (dec_of_int tl)).
