(* C17 - authorisation skeletons of the Msg service handlers and their small-step semantics.
   Definitions only. The table of skeletons is NOT written by hand: tools/gotrans regenerates
   coq/Generated/Handlers.v from the Go sources of /repo on every run of ./check (one abstract
   statement per top-level statement of each handler body, delegation inlined up to depth 3).

   A handler is executed at HANDLER level: a Write takes effect at once and an error return does
   not undo it (no reliance on baseapp discarding the transaction branch). So "rejected with the
   state unchanged" below is stronger than what the SDK's transaction atomicity alone would give,
   and it is what breaks when an authority check is moved behind a store write. *)
From Coq Require Import String List Bool.
From Elys Require Import Base.Res.
Import ListNotations.
Open Scope string_scope.

Inductive stmt : Type :=
| SPure                                         (* no state access, cannot return *)
| SRead (what : string)                         (* reads state, cannot return *)
| SCheck                                        (* may return an ERROR early; writes nothing *)
| SMayReturn                                    (* may return early, possibly with SUCCESS; writes nothing *)
| SGuardAuthority (field : string)              (* if k.authority != msg.<field> { return err } *)
| SGuardOwner (field : string) (against : string) (* if msg.<field> != <stored object>.<owner> { return err } *)
| SKeyedLookup (field : string) (call : string) (* object looked up under key msg.<field>; absent => return err *)
| SWrite (what : string)                        (* anything that may mutate state (unknown call = Write) *)
| SReturn.                                      (* unconditional return *)

Record handler : Type := mkH {
  h_mod : string;            (* x/<module> *)
  h_method : string;         (* MsgServer method *)
  h_req : string;            (* request type *)
  h_has_authority : bool;    (* request struct has a field named Authority *)
  h_signer : string;         (* Go name of the field named by the proto option cosmos.msg.v1.signer *)
  h_skel : list stmt
}.

Definition h_name (h : handler) : string := h_mod h ++ "." ++ h_method h.

(* error codes (symbolic) *)
Definition Unauthorized : nat := 4.
Definition NotFound : nat := 38.

(* A message is the valuation of its (string) fields; addresses are compared as Go strings, exactly
   as the handlers do (k.authority != msg.Authority). The transaction signer is the value of the
   signer field (enforced by the SDK's signature verification: trusted). *)
Definition message := string -> string.

(* Nondeterminism of everything that is not an authorisation decision, resolved by a list of choices
   (one consumed per Check / Write). The theorems quantify over ALL choice lists. *)
Inductive choice (state : Type) : Type :=
| ChCont                                  (* the statement completes normally, state as it is *)
| ChFail (code : nat)                     (* the statement returns this error, state as it is *)
| ChReturn                                (* a MayReturn statement returns successfully *)
| ChWrite (s' : state)                    (* a Write replaces the state by s' and continues *)
| ChWriteFail (s' : state) (code : nat).  (* a Write changes the state and then returns an error *)
Arguments ChCont {state}.
Arguments ChFail {state} code.
Arguments ChReturn {state}.
Arguments ChWrite {state} s'.
Arguments ChWriteFail {state} s' code.

Section Semantics.
  Variable state : Type.
  (* owner (as stored in the state) of the object the message addresses; None = no such object *)
  Variable owner : state -> option string.

  Definition owner_is (s : state) (a : string) : bool :=
    match owner s with Some o => String.eqb o a | None => false end.

  Fixpoint run_skel (sk : list stmt) (msg : message) (auth : string) (s : state)
           (chs : list (choice state)) : res unit * state :=
    match sk with
    | [] => (Ok tt, s)
    | st :: r =>
      match st with
      | SPure | SRead _ => run_skel r msg auth s chs
      | SReturn => (Ok tt, s)
      | SGuardAuthority f =>
          if String.eqb (msg f) auth then run_skel r msg auth s chs else (Err Unauthorized, s)
      | SGuardOwner f _ =>
          if owner_is s (msg f) then run_skel r msg auth s chs else (Err Unauthorized, s)
      | SKeyedLookup f _ =>
          if owner_is s (msg f) then run_skel r msg auth s chs else (Err NotFound, s)
      | SCheck =>
          match chs with
          | ChFail c :: _ => (Err c, s)
          | _ :: chs' => run_skel r msg auth s chs'
          | [] => run_skel r msg auth s []
          end
      | SMayReturn =>
          match chs with
          | ChFail c :: _ => (Err c, s)
          | ChReturn :: _ => (Ok tt, s)
          | _ :: chs' => run_skel r msg auth s chs'
          | [] => run_skel r msg auth s []
          end
      | SWrite _ =>
          match chs with
          | ChFail c :: _ => (Err c, s)
          | ChWrite s' :: chs' => run_skel r msg auth s' chs'
          | ChWriteFail s' c :: _ => (Err c, s')
          | _ :: chs' => run_skel r msg auth s chs'
          | [] => run_skel r msg auth s []
          end
      end
    end.

  Definition run_handler (h : handler) (msg : message) (auth : string) (s : state)
             (chs : list (choice state)) : res unit * state :=
    run_skel (h_skel h) msg auth s chs.
End Semantics.

Arguments run_skel {state} owner sk msg auth s chs.
Arguments run_handler {state} owner h msg auth s chs.

(* ---- the decidable obligations evaluated on the regenerated table ---- *)

Definition is_guard_authority (st : stmt) : bool := match st with SGuardAuthority _ => true | _ => false end.
Definition is_guard_owner (st : stmt) : bool := match st with SGuardOwner _ _ => true | _ => false end.

(* governance-only: carries an Authority field, or compares some field with the keeper's authority *)
Definition gov_only (h : handler) : bool := h_has_authority h || existsb is_guard_authority (h_skel h).

(* Before anything that can write or return successfully, the signer field is compared with the
   keeper's authority; only local computation, state reads and error-only checks (e.g. a stateless
   validation of the request) may come first. *)
Fixpoint prefix_guard_authority (signer : string) (sk : list stmt) : bool :=
  match sk with
  | SPure :: r => prefix_guard_authority signer r
  | SRead _ :: r => prefix_guard_authority signer r
  | SCheck :: r => prefix_guard_authority signer r
  | SGuardAuthority f :: _ => String.eqb f signer
  | _ => false
  end.

Definition guarded (h : handler) : bool :=
  negb (String.eqb (h_signer h) "") && prefix_guard_authority (h_signer h) (h_skel h).

(* strict form: nothing that could return at all precedes the guard, so the error is Unauthorized *)
Fixpoint strict_prefix_guard_authority (signer : string) (sk : list stmt) : bool :=
  match sk with
  | SPure :: r => strict_prefix_guard_authority signer r
  | SRead _ :: r => strict_prefix_guard_authority signer r
  | SGuardAuthority f :: _ => String.eqb f signer
  | _ => false
  end.

Definition strictly_guarded (h : handler) : bool :=
  negb (String.eqb (h_signer h) "") && strict_prefix_guard_authority (h_signer h) (h_skel h).

Definition authority_is_signer (h : handler) : bool := String.eqb (h_signer h) "Authority".

(* owner-scoped: before anything that can write, the signer field is compared with the stored owner
   (or the object is looked up under the signer's key); only non-writing statements come first *)
Fixpoint prefix_guard_owner (signer : string) (sk : list stmt) : bool :=
  match sk with
  | SPure :: r => prefix_guard_owner signer r
  | SRead _ :: r => prefix_guard_owner signer r
  | SCheck :: r => prefix_guard_owner signer r
  | SGuardAuthority _ :: r => prefix_guard_owner signer r
  | SGuardOwner f _ :: _ => String.eqb f signer
  | SKeyedLookup f _ :: _ => String.eqb f signer
  | _ => false
  end.

Definition owner_guarded (h : handler) : bool :=
  negb (String.eqb (h_signer h) "") && prefix_guard_owner (h_signer h) (h_skel h).

(* Hand-written list of the owner-scoped messages of the property statement (cancel/update an order,
   close/modify a position, claim for an account). The generic rule below (every handler that
   contains an owner comparison at all) does not depend on this list. *)
Definition owner_spec : list string := [
  "tradeshield.UpdateSpotOrder"; "tradeshield.CancelSpotOrder";
  "tradeshield.UpdatePerpetualOrder"; "tradeshield.CancelPerpetualOrder";
  "leveragelp.Close"; "leveragelp.UpdateStopLoss";
  "perpetual.Close"; "perpetual.UpdateStopLoss"; "perpetual.UpdateTakeProfitPrice";
  "tokenomics.ClaimAirdrop"
].

Definition in_spec (h : handler) : bool := existsb (String.eqb (h_name h)) owner_spec.

Definition owner_scoped (h : handler) : bool := in_spec h || existsb is_guard_owner (h_skel h).
