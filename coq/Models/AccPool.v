(* C11: accounted pool balance = amm reserve + perpetual liabilities - perpetual custody, and the
   recorded non-amm part = liabilities - custody; for one (pool, denom).
     x/accountedpool/keeper/hooks_perpetual.go  PerpetualUpdates(ammPool, perpetualPool): RECOMPUTES
         total := ammPool.balance + liabilities - custody ; nonAmm := total - ammPool.balance
         from the two pool VALUES THE CALLER PASSES
     x/accountedpool/keeper/hooks_amm.go  UpdateAccountedPoolOnAmmChange(ammPool):
         total := ammPool.balance + stored nonAmm
   Two independent hook families, each trusting the other's last write. What matters is (1) which value
   the call site passes (freshly read vs. a snapshot taken before its own transfers) and (2) whether a
   code path that changes reserve / liabilities / custody fires a hook at all. Both are explicit here. *)
From Coq Require Import ZArith List Bool.
From Elys Require Import Base.Res.
Import ListNotations.
Open Scope Z_scope.

Record acc := mkAcc {
  a_R : Z;   (* amm pool reserve of the denom (stored) *)
  a_L : Z;   (* perpetual pool total liabilities of the denom (long + short) *)
  a_C : Z;   (* perpetual pool total custody of the denom (long + short) *)
  a_T : Z;   (* accounted pool TotalTokens *)
  a_N : Z    (* accounted pool NonAmmPoolTokens *)
}.

Definition perp_hook (s : acc) (Rarg Larg Carg : Z) : acc :=
  let t := Rarg + Larg - Carg in mkAcc (a_R s) (a_L s) (a_C s) t (t - Rarg).
Definition amm_hook (s : acc) (Rarg : Z) : acc :=
  mkAcc (a_R s) (a_L s) (a_C s) (Rarg + a_N s) (a_N s).

Inductive hook :=
| HAmmFresh                 (* AfterSwap / AfterJoinPool / AfterExitPool with the updated pool *)
| HPerpFresh                (* AfterPerpetualPosition{Open,Modified,Closed} with freshly read pools *)
| HPerpStaleAmm             (* ... with the amm pool as read BEFORE the handler's own transfers *)
| HNone.                    (* the code path fires no hook *)

(* a code path: the three source records move to (R', L', C'), then the hook the path fires *)
Inductive accop := AChange (R' L' C' : Z) (h : hook).

Definition accstep (s : acc) (o : accop) : acc :=
  match o with
  | AChange R' L' C' h =>
      let s1 := mkAcc R' L' C' (a_T s) (a_N s) in
      match h with
      | HAmmFresh => amm_hook s1 R'
      | HPerpFresh => perp_hook s1 R' L' C'
      | HPerpStaleAmm => perp_hook s1 (a_R s) L' C'
      | HNone => s1
      end
  end.

Definition accrun (s : acc) (h : list accop) : acc := fold_left accstep h s.

(* the discipline the code follows after the fix: commits: an amm-only change fires the amm hook with
   the updated pool; any change of perpetual totals fires a perpetual hook with freshly read pools *)
Definition disciplined (s : acc) (o : accop) : Prop :=
  match o with
  | AChange R' L' C' HAmmFresh => L' = a_L s /\ C' = a_C s
  | AChange _ _ _ HPerpFresh => True
  | AChange R' L' C' HPerpStaleAmm => R' = a_R s       (* a stale snapshot is harmless only when nothing moved *)
  | AChange R' L' C' HNone => R' = a_R s /\ L' = a_L s /\ C' = a_C s
  end.

Fixpoint disciplined_run (s : acc) (h : list accop) : Prop :=
  match h with [] => True | o :: r => disciplined s o /\ disciplined_run (accstep s o) r end.

(* what the harness can observe: the source records after a step; the model predicts T and N *)
Definition fixed_step (s : acc) (R' L' C' : Z) : acc :=
  if (L' =? a_L s) && (C' =? a_C s) then accstep s (AChange R' L' C' HAmmFresh)
  else accstep s (AChange R' L' C' HPerpFresh).
