(* C08 over SEVERAL leveraged-LP pools: one LevLedger machine per pool (pool total, the pool's positions and the
   shares committed at their addresses) plus the module's single open-position counter.
     x/leveragelp/keeper/position.go  SetPosition: a position not stored before raises the ONE counter of the module
         (OpenPositionCountPrefix, not keyed by pool); DestroyPosition lowers it
     x/leveragelp/keeper/pool.go      SetPool / GetPool are keyed by the amm pool id: a position's open / close moves the
         total of the pool named by position.AmmPoolId and of no other pool
   An operation names its pool: (p, o) runs o on pool p's machine; the counter moves with that machine's own count
   (the same SetPosition / DestroyPosition call sites).  One-pool histories are the special case of a constant p. *)
From Coq Require Import ZArith List Bool Arith.
From Elys Require Import Base.Res Base.Fn Models.SumLedger Models.LevLedger.
Import ListNotations.
Open Scope Z_scope.

Record mlev := mkML { ml_pool : nat -> lev; ml_count : Z }.

Definition ml_upd (f : nat -> lev) (p : nat) (s : lev) : nat -> lev := fun x => if Nat.eqb x p then s else f x.

(* one message item / one begin-block item on the position's pool, atomic *)
Definition mlexec (s : mlev) (po : nat * lop) : mlev :=
  let '(p, o) := po in
  let t := lexec (ml_pool s p) o in
  mkML (ml_upd (ml_pool s) p t) (ml_count s + (count (l_sl t) - count (l_sl (ml_pool s p)))).

Definition mlrun (s : mlev) (h : list (nat * lop)) : mlev := fold_left mlexec h s.
Definition mlev_empty : mlev := mkML (fun _ => lev_empty) 0.
