(* C19 - the one map range of the tree whose body writes state: x/burner/keeper/burn.go
   BurnTokensForAllDenoms. DEFINITIONS ONLY (proofs in Proofs/RestartProofs.v).

     balances := getPositiveBalances(ctx)          // map[denom]Coins, filled while iterating the bank's
                                                   // denom metadata (a store iteration: key order)
     for denom, balance := range balances {        // Go picks the order
         burnTokensForDenom(ctx, balance, denom)   // zero address -> burner module, BurnCoins, SetHistory
     }                                             // an error stops the loop; the epoch hook panics on it

   Finite maps are std++ gmaps (canonical representation, Leibniz equality). Denoms and the block-time
   string are interned as N. All failure points are one outcome (Err 1): the error text is not an observable,
   the caller panics on any of them and the block fails. *)
From stdpp Require Import gmap.
From Coq Require Import ZArith.
From Elys Require Import Base.Res Models.Restart.
Open Scope Z_scope.

Record bstate := mkB {
  zero_bal : gmap N Z;         (* bank balances of the zero address *)
  mod_bal : gmap N Z;          (* bank balances of the burner module account *)
  supply : gmap N Z;           (* bank supply *)
  history : gmap (N * N) Z     (* burner History entries, key (block time, denom) *)
}.

Definition getz (m : gmap N Z) (d : N) : Z := default 0 (m !! d).

(* getPositiveBalances: one entry per denom that has metadata and a positive balance at the zero address *)
Definition positive_balances (meta : list N) (s : bstate) : gmap N Z :=
  foldr (fun d acc => if 0 <? getz (zero_bal s) d then <[d := getz (zero_bal s) d]> acc else acc) ∅ meta.

(* SendCoinsFromAccountToModule needs the balance, BurnCoins needs the module balance and the supply *)
Definition can_burn (d : N) (a : Z) (s : bstate) : bool :=
  (0 <? a) && (a <=? getz (zero_bal s) d) && (0 <=? getz (mod_bal s) d) && (a <=? getz (supply s) d).

Definition apply_burn (ts : N) (d : N) (a : Z) (s : bstate) : bstate :=
  mkB (<[d := getz (zero_bal s) d - a]> (zero_bal s))
      (<[d := getz (mod_bal s) d + a - a]> (mod_bal s))
      (<[d := getz (supply s) d - a]> (supply s))
      (<[(ts, d) := a]> (history s)).

(* burnTokensForDenom *)
Definition burn_one (ts : N) (d : N) (a : Z) (s : bstate) : res bstate :=
  if can_burn d a s then Ok (apply_burn ts d a s) else Err 1.

(* BurnTokensForAllDenoms with the entries visited in the order [l] *)
Definition burn_in_order (ts : N) (l : list (N * Z)) (s : bstate) : res bstate :=
  fold_res (burn_one ts) l (Ok s).

(* the orders the Go runtime may pick: the permutations of the map's entries *)
Definition burn_orders (meta : list N) (s : bstate) (l : list (N * Z)) : Prop :=
  Permutation l (map_to_list (positive_balances meta s)).

(* the same loop as an operation of the abstract node (Models/Restart.v): persistent state = bstate *)
Definition lift_body {P T K E : Type} (b : K -> E -> P -> res P) (k : K) (e : E) (s : @store P T) : res (@store P T) :=
  match b k e (pers s) with Ok p => Ok (mkS p (trans s)) | Err c => Err c | Panic c => Panic c end.
Definition burner_op {T V : Type} (ts : N) (meta : list N) : @op bstate T V bool N Z :=
  Range (fun s => map_to_list (positive_balances meta (pers s))) (lift_body (burn_one ts)) is_ok.
