(* C19 - deterministic state transition that survives a restart. DEFINITIONS ONLY.

   Part 1: the shape of the tables that tools/gotrans (subcommand `determinism`) regenerates from the Go
           sources into Generated/Determinism.v on every run, and the decision procedures over them.
   Part 2: the abstract node: persistent store + transient store + process memory, blocks of
           operations, commit, restart, and Go map ranges executed in an order the runtime picks.

   What is NOT modelled (C19 is claimed as a PARTIAL proof): goroutine scheduling, the Go runtime, the
   SDK's own stores (IAVL, cache layers), CometBFT. The replicas of the correspondence run cover those
   only by execution. *)
From Coq Require Import String List Bool Permutation Arith.
From Elys Require Import Base.Res.
Import ListNotations.
Open Scope string_scope.

(* ------------------------------------------------------------------------------------------- *)
(* Part 1: generated tables                                                                     *)

(* shape of a Go type, as far as it matters for "can this hold state between two blocks" *)
Inductive shape :=
| KInterface | KKeeper | KStoreKey | KCodec | KFunc        (* wiring: services, other keepers, keys, codecs, callbacks *)
| KString | KScalar                                        (* immutable unless assigned *)
| KMap | KSlice | KArray | KChan | KPointer | KStruct | KSync | KUnknown.

(* a field of a struct of a keeper package (Keeper, msgServer, Hooks wrappers, ...) *)
Record kfield := mkF {
  f_pkg : string; f_struct : string; f_name : string; f_shape : shape; f_type : string;
  f_assigned : bool        (* assigned / incremented / address taken in a function that is not a New* constructor *)
}.

(* a package-level variable *)
Record pvar := mkV {
  v_pkg : string; v_name : string; v_shape : shape; v_type : string;
  v_mutated : bool;        (* written outside init and outside its initialiser *)
  v_where : string
}.

(* classification of the body of a `range` over a map *)
Inductive rclass :=
| ROrderFree               (* only lookups, local variables, writes into maps, exact commutative accumulation *)
| RCollectSorted           (* only appends to slices each of which is sorted later in the same function *)
| RWrites (callee : string)(* can reach a store write / bank call / event *)
| RReview (why : string).  (* break, first-match return, unsorted collection, non-commutative accumulation, ... *)

Record mrange := mkR {
  r_pkg : string; r_func : string; r_expr : string; r_class : rclass;
  r_fn_writes : bool;      (* the enclosing function can reach a store write / bank call / event *)
  r_typed : bool           (* go/types determined the type (false: syntactic fallback) *)
}.

Inductive ndkind := NTimeNow | NRand | NCryptoRand | NUnsafe | NGo | NSelect | NGetenv | NPtrPrint.
Record ndsite := mkN { n_pkg : string; n_func : string; n_kind : ndkind; n_ctx : string }.

(* --- decisions --- *)

(* A keeper field cannot carry state from one block to the next (so losing it at a restart is invisible):
   wiring, or a string/scalar that only the constructor assigns. Everything that can be mutated in place
   (map, slice, array, channel, pointer to data, struct value, sync primitive, undetermined) is state. *)
Definition no_memory_state (f : kfield) : bool :=
  match f_shape f with
  | KInterface | KKeeper | KStoreKey | KCodec | KFunc => true
  | KString | KScalar => negb (f_assigned f)
  | _ => false
  end.

(* Reviewed writes of package-level variables (package, variable, exact text of the write sites).
   - the two app/ante switches are written only by exported setters that NOTHING in the tree calls
     (test knobs); a call from a handler changes the site text and fails the check;
   - version.Version is normalised ("v" prefix) once in the application constructor, the same on every start. *)
Definition reviewed_vars : list (string * string * string) := [
  ("app/ante", "expeditedPropDecoratorEnabled", "app/ante:SetExpeditedProposalsEnabled assigns [no caller in the tree]");
  ("app/ante", "minStakedTokens", "app/ante:SetMinStakedTokens assigns [no caller in the tree]");
  ("github.com/cosmos/cosmos-sdk/version", "Version", "app:NewElysApp assigns")
].

Definition var_ok (v : pvar) : bool :=
  negb (v_mutated v)
  || existsb (fun '(p, n, w) => String.eqb p (v_pkg v) && String.eqb n (v_name v) && String.eqb w (v_where v)) reviewed_vars.

Definition rclass_eqb (a b : rclass) : bool :=
  match a, b with
  | ROrderFree, ROrderFree | RCollectSorted, RCollectSorted => true
  | RWrites x, RWrites y | RReview x, RReview y => String.eqb x y
  | _, _ => false
  end.

(* Reviewed map ranges whose body writes state; each has a commutativity instance proved in
   Proofs/RestartProofs.v (named in [range_instances] there).
   burner: one burn per denom with a positive balance of the zero address; the amounts are read before the
   loop; iterations touch disjoint keys (balance, supply, history entry of that denom).
   The skeleton of the loop body (statement kinds, callee names with argument counts; no variable names) is
   part of the entry: if the loop gains or loses a statement or an argument it has to be reviewed again. *)
Definition reviewed_ranges : list (string * string * string * rclass) := [
  ("x/burner/keeper", "Keeper.BurnTokensForAllDenoms", "balances",
   RWrites "call:Keeper.burnTokensForDenom | body: if assign:= burnTokensForDenom/3 return/1")
].

Definition range_ok (r : mrange) : bool :=
  match r_class r with
  | ROrderFree | RCollectSorted => true
  | c => existsb (fun '(p, f, e, c') => String.eqb p (r_pkg r) && String.eqb f (r_func r) && String.eqb e (r_expr r) && rclass_eqb c' c)
                 reviewed_ranges
  end.

(* wall clock only as the start time handed to a telemetry call; nothing else at all *)
Definition reviewed_sites : list (string * string * ndkind) := [].
Definition ndkind_eqb (a b : ndkind) : bool :=
  match a, b with
  | NTimeNow, NTimeNow | NRand, NRand | NCryptoRand, NCryptoRand | NUnsafe, NUnsafe
  | NGo, NGo | NSelect, NSelect | NGetenv, NGetenv | NPtrPrint, NPtrPrint => true
  | _, _ => false
  end.
Definition site_ok (s : ndsite) : bool :=
  (ndkind_eqb (n_kind s) NTimeNow && String.eqb (n_ctx s) "telemetry")
  || existsb (fun '(p, f, k) => String.eqb p (n_pkg s) && String.eqb f (n_func s) && ndkind_eqb k (n_kind s)) reviewed_sites.

(* the cells of process memory that the tree's code can keep between blocks, according to the tables *)
Definition memory_cells (fs : list kfield) (vs : list pvar) : list (string * string) :=
  map (fun f => (f_pkg f ++ "." ++ f_struct f, f_name f)) (filter (fun f => negb (no_memory_state f)) fs)
  ++ map (fun v => (v_pkg v, v_name v)) (filter (fun v => negb (var_ok v)) vs).

(* ------------------------------------------------------------------------------------------- *)
(* Part 2: the node                                                                              *)

(* A loop over the entries of a Go map, in the error monad: an error stops the loop. *)
Section Fold.
  Context {S K E : Type}.
  Definition fold_res (body : K -> E -> S -> res S) (l : list (K * E)) (a : res S) : res S :=
    fold_left (fun acc kv => bind acc (body (fst kv) (snd kv))) l a.
  (* per-key commutation of a loop body (an error is an error whatever was done before it) *)
  Definition commutes (body : K -> E -> S -> res S) : Prop :=
    forall k1 e1 k2 e2 s, k1 <> k2 ->
      bind (body k1 e1 s) (body k2 e2) = bind (body k2 e2 s) (body k1 e1).
End Fold.

Section Node.
  (* P persistent stores (what Commit hashes and the database keeps), T transient stores, V the value of one
     memory cell, R result of one operation (tx result / blocker outcome), H hash, K/E key and entry of a Go map *)
  Context {P T V R H K E : Type}.
  Variable hash : P -> H.
  Variable t0 : T.            (* empty transient store *)
  Variable m0 : list V.       (* memory of a freshly started process *)
  Variable ncell : nat.       (* number of memory cells the code can reach = length (memory_cells ...) *)

  Record store := mkS { pers : P; trans : T }.
  Record node := mkNode { st : store; mem : list V }.

  (* One operation of a block (a transaction, a begin/end blocker, a hook):
     - Det: any deterministic function of the stores and the memory;
     - Range: a Go `range` over a map computed from the stores; the body runs once per entry, an error
       stops the loop and fails the operation (its writes are dropped); the ORDER is picked by the runtime. *)
  Inductive op :=
  | Det (f : store -> list V -> store * list V * R)
  | Range (entries : store -> list (K * E)) (body : K -> E -> store -> res store) (out : res store -> R).

  Definition fold_body (body : K -> E -> store -> res store) (l : list (K * E)) (a : res store) : res store :=
    fold_res body l a.

  Definition settle (s : store) (r : res store) : store := match r with Ok s' => s' | _ => s end.

  (* the runtime may visit the entries in any order: any permutation of them *)
  Inductive exec_op : op -> node -> node -> R -> Prop :=
  | ex_det : forall f s m s' m' r, f s m = (s', m', r) -> exec_op (Det f) (mkNode s m) (mkNode s' m') r
  | ex_range : forall en body out s m l, Permutation l (en s) ->
      exec_op (Range en body out) (mkNode s m) (mkNode (settle s (fold_body body l (Ok s))) m) (out (fold_body body l (Ok s))).

  Inductive exec_ops : list op -> node -> node -> list R -> Prop :=
  | ex_nil : forall n, exec_ops [] n n []
  | ex_cons : forall o os n n1 n2 r rs, exec_op o n n1 r -> exec_ops os n1 n2 rs -> exec_ops (o :: os) n n2 (r :: rs).

  (* Commit: the persistent stores are saved and hashed, the transient stores are emptied *)
  Definition commit (n : node) : node := mkNode (mkS (pers (st n)) t0) (mem n).
  (* Restart after a commit: the persistent stores are reloaded from the database, transient stores are
     empty, the memory is that of a new process *)
  Definition restart (n : node) : node := mkNode (mkS (pers (st n)) t0) m0.

  (* a run: [cuts h = true] means the process is stopped and started again after committing height h *)
  Inductive run (cuts : nat -> bool) : nat -> list (list op) -> node -> list (H * list R) -> Prop :=
  | run_nil : forall h n, run cuts h [] n []
  | run_cons : forall h b bs n n1 rs tr,
      exec_ops b n n1 rs ->
      run cuts (S h) bs (if cuts h then restart (commit n1) else commit n1) tr ->
      run cuts h (b :: bs) n ((hash (pers (st n1)), rs) :: tr).

  (* --- side conditions on the operations --- *)

  (* the operation looks at (and is affected by) at most the first [ncell] memory cells *)
  Definition det_respects (f : store -> list V -> store * list V * R) : Prop :=
    forall s m m', firstn ncell m = firstn ncell m' ->
      fst (fst (f s m)) = fst (fst (f s m')) /\ snd (f s m) = snd (f s m') /\
      firstn ncell (snd (fst (f s m))) = firstn ncell (snd (fst (f s m'))).

  Definition body_commutes (body : K -> E -> store -> res store) : Prop := commutes body.

  Definition op_ok (o : op) : Prop :=
    match o with
    | Det f => det_respects f
    | Range en body _ => body_commutes body /\ forall s, NoDup (map fst (en s))
    end.

  (* an executable instance of the relation: the runtime happens to keep the order of [entries] *)
  Definition step_fun (o : op) (n : node) : node * R :=
    match o with
    | Det f => let '(s', m', r) := f (st n) (mem n) in (mkNode s' m', r)
    | Range en body out => let x := fold_body body (en (st n)) (Ok (st n)) in (mkNode (settle (st n) x) (mem n), out x)
    end.
  Fixpoint steps_fun (os : list op) (n : node) : node * list R :=
    match os with
    | [] => (n, [])
    | o :: r => let '(n1, x) := step_fun o n in let '(n2, xs) := steps_fun r n1 in (n2, x :: xs)
    end.
  Fixpoint run_fun (cuts : nat -> bool) (h : nat) (bs : list (list op)) (n : node) : list (H * list R) :=
    match bs with
    | [] => []
    | b :: r => let '(n1, rs) := steps_fun b n in
                (hash (pers (st n1)), rs) :: run_fun cuts (S h) r (if cuts h then restart (commit n1) else commit n1)
    end.
End Node.

Arguments Det {P T V R K E} f.
Arguments Range {P T V R K E} entries body out.

(* ------------------------------------------------------------------------------------------- *)
(* The "collect the keys, sort, iterate" idiom (keys interned as N): insertion sort by <=. *)
From Coq Require Import NArith.
Fixpoint ins_sorted (x : N) (l : list N) : list N :=
  match l with
  | [] => [x]
  | y :: r => if N.leb x y then x :: y :: r else y :: ins_sorted x r
  end.
Fixpoint isort (l : list N) : list N :=
  match l with [] => [] | x :: r => ins_sorted x (isort r) end.
(* the loop that follows the sort: an arbitrary (not necessarily commutative) body, in sorted key order *)
Definition sorted_loop {S : Type} (body : N -> S -> res S) (collected : list N) (s : S) : res S :=
  fold_left (fun acc k => bind acc (body k)) (isort collected) (Ok s).
