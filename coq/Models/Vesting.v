(* Exact model of Eden -> ELYS vesting in x/commitment:
     keeper/msg_server_vest.go            ProcessTokenVesting
     keeper/msg_server_claim_vesting.go   ClaimVesting
     keeper/msg_server_cancel_vest.go     CancelVest
     keeper/msg_server_vest_now.go        VestNow
     keeper/msg_server_update_vesting_info.go, msg_server_update_enable_vest_now.go
     types/commitments.go                 VestedSoFar, SubClaimed, AddClaimed
   Definitions only; proofs are in Proofs/VestingProofs.v. Integers are math.Int = Z.
   One account at a time would do for most theorems, but governance parameters are global, so the
   state carries a list of accounts. Ghost fields (prefix g_) are never read by the handlers. *)
From Coq Require Import ZArith List Bool.
From Elys Require Import Base.Res.
Import ListNotations.
Open Scope Z_scope.

Record ventry := mkV { v_total : Z; v_claimed : Z; v_start : Z; v_num : Z }.

Record acct := mkA {
  a_eden : Z;              (* Claimed ueden (claimable Eden) *)
  a_elys : Z;              (* bank balance of uelys *)
  a_vs   : list ventry;    (* VestingTokens, oldest first *)
  g_in : Z;                (* ghost: Eden put into vesting *)
  g_released : Z;          (* ghost: ELYS released by claims *)
  g_returned : Z           (* ghost: Eden returned by cancels *)
}.

Record params := mkP {
  p_num : Z;               (* VestingInfo.NumBlocks for ueden *)
  p_max : Z;               (* NumMaxVestings *)
  p_factor : Z;            (* VestNowFactor *)
  p_now : bool             (* EnableVestNow *)
}.

Record state := mkS { s_p : params; s_accts : list acct }.

Definition dflt_acct : acct := mkA 0 0 [] 0 0 0.
Definition get_acct (s : state) (i : nat) : acct := nth i (s_accts s) dflt_acct.
Definition set_acct (s : state) (i : nat) (a : acct) : state :=
  mkS (s_p s) (upd_nth i a (s_accts s)).

(* error codes (only Ok/Err/Panic is compared with the implementation) *)
Definition E_amount := 1%nat.
Definition E_max := 2%nat.
Definition E_claimed := 3%nat.
Definition E_insufficient_vesting := 4%nat.
Definition E_disabled := 5%nat.
Definition E_params := 6%nat.
Definition E_noacct := 7%nat.
Definition P_div0 := 1%nat.
Definition P_negcoin := 2%nat.

(* types/commitments.go VestedSoFar; big.Int Quo truncates toward zero. A schedule of zero blocks is fully vested
   at once (fix: 3c63217; before it the division by NumBlocks = 0 panicked: [vested_so_far_prefix]) *)
Definition vested_so_far_prefix (v : ventry) (h : Z) : res Z :=
  if v_num v =? 0 then Panic P_div0 else
  let e := h - v_start v in
  let e := if v_num v <? e then v_num v else e in
  Ok (Z.quot (v_total v * e) (v_num v)).

Definition vested_so_far (v : ventry) (h : Z) : res Z :=
  if v_num v <=? 0 then Ok (v_total v) else
  let e := h - v_start v in
  let e := if v_num v <? e then v_num v else e in
  Ok (Z.quot (v_total v * e) (v_num v)).

(* ProcessTokenVesting (MsgVest for ueden) *)
Definition vest (h : Z) (amt : Z) (p : params) (a : acct) : res acct :=
  guard (0 <? amt) E_amount (
  guard (negb (p_max p <=? Z.of_nat (length (a_vs a)))) E_max (
  guard (amt <=? a_eden a) E_claimed (
  Ok (mkA (a_eden a - amt) (a_elys a)
          (a_vs a ++ [mkV amt 0 h (p_num p)])
          (g_in a + amt) (g_released a) (g_returned a))))).

(* ClaimVesting, loop body. [clamp] = true is the code after the fix: commit
   (vestedSoFar below ClaimedAmount after a cancel is treated as "nothing new");
   [clamp] = false is the code as it was at the pinned commit: sdk.NewCoin panics on a
   negative amount. *)
Definition claim_entry (clamp : bool) (h : Z) (v : ventry) : res (Z * ventry) :=
  do vs <- vested_so_far v h;
  if vs <? v_claimed v then
    (if clamp then Ok (0, v) else Panic P_negcoin)
  else Ok (vs - v_claimed v, mkV (v_total v) vs (v_start v) (v_num v)).

Fixpoint claim_loop (clamp : bool) (h : Z) (vs : list ventry) : res (Z * list ventry) :=
  match vs with
  | [] => Ok (0, [])
  | v :: r =>
      do '(c, v') <- claim_entry clamp h v;
      do '(cr, r') <- claim_loop clamp h r;
      Ok (c + cr, if v_claimed v' =? v_total v' then r' else v' :: r')
  end.

Definition claim_gen (clamp : bool) (h : Z) (a : acct) : res acct :=
  do '(c, vs') <- claim_loop clamp h (a_vs a);
  (* newClaims.IsAllPositive(): mint + send only when something is due *)
  Ok (mkA (a_eden a) (a_elys a + c) vs' (g_in a) (g_released a + c) (g_returned a)).

Definition claim := claim_gen true.
Definition claim_prefix := claim_gen false.

(* CancelVest: newest entry first. Entries with NumBlocks = 0 or TotalAmount = 0 are skipped. *)
Fixpoint cancel_loop (rem : Z) (rev_vs : list ventry) : Z * list ventry :=
  match rev_vs with
  | [] => (rem, [])
  | v :: r =>
      if (v_num v =? 0) || (v_total v =? 0) then
        let '(rem', r') := cancel_loop rem r in (rem', v :: r')
      else
        let c := Z.min rem (v_total v - v_claimed v) in
        let '(rem', r') := cancel_loop (rem - c) r in
        (rem', mkV (v_total v - c) (v_claimed v) (v_start v) (v_num v) :: r')
  end.

Definition cancel (amt : Z) (a : acct) : res acct :=
  guard (0 <? amt) E_amount (
  let '(rem, rvs) := cancel_loop amt (rev (a_vs a)) in
  let vs' := filter (fun v => negb (v_total v <=? v_claimed v)) (rev rvs) in
  guard (rem =? 0) E_insufficient_vesting (
  Ok (mkA (a_eden a + amt) (a_elys a) vs' (g_in a) (g_released a) (g_returned a + amt)))).

(* VestNow: burns amt claimable Eden, pays amt / factor ELYS *)
Definition vest_now (amt : Z) (p : params) (a : acct) : res acct :=
  guard (0 <? amt) E_amount (
  guard (p_now p) E_disabled (
  guard (amt <=? a_eden a) E_claimed (
  guard (negb (p_factor p =? 0)) E_amount (
  Ok (mkA (a_eden a - amt) (a_elys a + Z.quot amt (p_factor p)) (a_vs a)
          (g_in a) (g_released a) (g_returned a)))))).

(* MsgUpdateVestingInfo: VestingInfo.Validate accepts NumBlocks >= 0, NumMaxVestings >= 0,
   VestNowFactor > 0 *)
Definition gov_update (n mx f : Z) (p : params) : res params :=
  guard ((0 <=? n) && (0 <=? mx) && (0 <? f)) E_params (Ok (mkP n mx f (p_now p))).

Inductive op :=
| OVest (i : nat) (h amt : Z)
| OClaim (i : nat) (h : Z)
| OCancel (i : nat) (amt : Z)
| OVestNow (i : nat) (amt : Z)
| OGov (n mx f : Z)
| OEnableNow (b : bool).

Definition on_acct (s : state) (i : nat) (f : acct -> res acct) : res state :=
  if Nat.ltb i (length (s_accts s)) then
    do a <- f (get_acct s i); Ok (set_acct s i a)
  else Err E_noacct.

Definition step_gen (clamp : bool) (s : state) (o : op) : res state :=
  match o with
  | OVest i h amt => on_acct s i (vest h amt (s_p s))
  | OClaim i h => on_acct s i (claim_gen clamp h)
  | OCancel i amt => on_acct s i (cancel amt)
  | OVestNow i amt => on_acct s i (vest_now amt (s_p s))
  | OGov n mx f => do p <- gov_update n mx f (s_p s); Ok (mkS p (s_accts s))
  | OEnableNow b => Ok (mkS (mkP (p_num (s_p s)) (p_max (s_p s)) (p_factor (s_p s)) b) (s_accts s))
  end.

Definition step := step_gen true.
Definition step_prefix := step_gen false.

(* transactions are atomic: a failed op leaves the state as it was *)
Definition exec (s : state) (o : op) : state := run_tx (fun s => step s o) s.
Definition run (s : state) (ops : list op) : state := fold_left exec ops s.
Definition exec_prefix (s : state) (o : op) : state := run_tx (fun s => step_prefix s o) s.

Definition outstanding (a : acct) : Z := zsum (map (fun v => v_total v - v_claimed v) (a_vs a)).

(* initial states used by the harness: every account has some claimable Eden and no vesting *)
Definition init_acct (eden elys : Z) : acct := mkA eden elys [] 0 0 0.
Definition init_state (p : params) (l : list (Z * Z)) : state :=
  mkS p (map (fun '(e, y) => init_acct e y) l).
