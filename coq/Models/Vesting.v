(* Exact model of vesting in x/commitment (Eden -> ELYS, and one bank-held "liquid" denom vested into itself,
   uusdc -> uusdc, through MsgVestLiquid under its own governance VestingInfo):
     keeper/msg_server_vest.go            ProcessTokenVesting
     keeper/msg_server_vest_liquid.go     VestLiquid (+ deposit_liquid_tokens.go DepositLiquidTokensClaimed)
     keeper/msg_server_claim_vesting.go   ClaimVesting
     keeper/msg_server_cancel_vest.go     CancelVest
     keeper/msg_server_vest_now.go        VestNow
     keeper/msg_server_update_vesting_info.go, msg_server_update_enable_vest_now.go
     types/commitments.go                 VestedSoFar, SubClaimed, AddClaimed
   Definitions only; proofs are in Proofs/VestingProofs.v. Integers are math.Int = Z.
   One account at a time would do for most theorems, but governance parameters are global, so the
   state carries a list of accounts. Ghost fields (prefix g_) are never read by the handlers.
   All schedules of an account live in ONE list (Commitments.VestingTokens); an entry carries the denom it
   pays out in ([v_den]: 0 = uelys, anything else = the liquid denom, the harness uses 1 = uusdc). *)
From Coq Require Import ZArith List Bool.
From Elys Require Import Base.Res.
Import ListNotations.
Open Scope Z_scope.

Record ventry := mkV { v_total : Z; v_claimed : Z; v_start : Z; v_num : Z; v_den : Z }.

(* VestingTokens.Denom == ptypes.Elys *)
Definition is0 (v : ventry) : bool := v_den v =? 0.

Record acct := mkA {
  a_eden : Z;              (* Claimed ueden (claimable Eden) *)
  a_elys : Z;              (* bank balance of uelys *)
  a_usdc : Z;              (* bank balance of the liquid denom *)
  a_vs   : list ventry;    (* VestingTokens, oldest first, all denoms *)
  g_in : Z;                (* ghost: Eden put into vesting *)
  g_released : Z;          (* ghost: ELYS released by claims *)
  g_returned : Z;          (* ghost: Eden returned by cancels *)
  g_in1 : Z;               (* ghost: liquid coins put into vesting *)
  g_released1 : Z;         (* ghost: liquid coins released by claims *)
  g_usdc0 : Z              (* ghost: the initial wallet balance of the liquid denom *)
}.

Record params := mkP {
  p_num : Z;               (* VestingInfo.NumBlocks for ueden *)
  p_max : Z;               (* NumMaxVestings *)
  p_factor : Z;            (* VestNowFactor *)
  p_now : bool             (* EnableVestNow *)
}.

(* the VestingInfo of the liquid denom (BaseDenom = VestingDenom = uusdc); its VestNowFactor is validated but never
   read (vest-now of a denom without a Claimed bucket cannot succeed) *)
Record linfo := mkL { l_num : Z; l_max : Z }.

Record state := mkS {
  s_p : params;
  s_l : option linfo;      (* None: governance has not added the second VestingInfo *)
  s_mod : Z;               (* commitment module account: custody of the liquid denom *)
  s_accts : list acct }.

Definition dflt_acct : acct := mkA 0 0 0 [] 0 0 0 0 0 0.
Definition get_acct (s : state) (i : nat) : acct := nth i (s_accts s) dflt_acct.
Definition set_acct (s : state) (i : nat) (a : acct) : state :=
  mkS (s_p s) (s_l s) (s_mod s) (upd_nth i a (s_accts s)).
Definition set_mod (s : state) (m : Z) : state := mkS (s_p s) (s_l s) m (s_accts s).

(* error codes (only Ok/Err/Panic is compared with the implementation) *)
Definition E_amount := 1%nat.
Definition E_max := 2%nat.
Definition E_claimed := 3%nat.
Definition E_insufficient_vesting := 4%nat.
Definition E_disabled := 5%nat.
Definition E_params := 6%nat.
Definition E_noacct := 7%nat.
Definition E_denom := 8%nat.
Definition E_funds := 9%nat.
Definition P_div0 := 1%nat.
Definition P_negcoin := 2%nat.

(* types/commitments.go VestedSoFar; big.Int Quo truncates toward zero. A schedule of zero blocks is fully vested
   at once (fix: 3c63217; before it the division by NumBlocks = 0 panicked: [vested_so_far_prefix]) *)
Definition vested_so_far_prefix (v : ventry) (h : Z) : res Z :=
  if v_num v =? 0 then Panic P_div0 else
  let e := h - v_start v in
  let e := if v_num v <? e then v_num v else e in
  Ok (Z.quot (v_total v * e) (v_num v)).

Definition vested_so_far (v : ventry) (h : Z) : res Z :=
  if v_num v <=? 0 then Ok (v_total v) else
  let e := h - v_start v in
  let e := if v_num v <? e then v_num v else e in
  Ok (Z.quot (v_total v * e) (v_num v)).

(* ProcessTokenVesting (MsgVest for ueden) *)
Definition vest (h : Z) (amt : Z) (p : params) (a : acct) : res acct :=
  guard (0 <? amt) E_amount (
  guard (negb (p_max p <=? Z.of_nat (length (a_vs a)))) E_max (
  guard (amt <=? a_eden a) E_claimed (
  Ok (mkA (a_eden a - amt) (a_elys a) (a_usdc a)
          (a_vs a ++ [mkV amt 0 h (p_num p) 0])
          (g_in a + amt) (g_released a) (g_returned a) (g_in1 a) (g_released1 a) (g_usdc0 a))))).

(* VestLiquid: DepositLiquidTokensClaimed (bank send wallet -> commitment module, Claimed[denom] += amt) followed by
   ProcessTokenVesting with the VestingInfo of THAT denom (Claimed[denom] -= amt: the bucket is back where it was).
   NumMaxVestings of the liquid info is compared with the length of the WHOLE list. The module side of the bank
   send is in [step_gen]. *)
Definition vest_liquid (h : Z) (amt : Z) (l : option linfo) (a : acct) : res acct :=
  guard (0 <? amt) E_amount (
  guard (amt <=? a_usdc a) E_funds (
  match l with
  | None => Err E_denom
  | Some li =>
    guard (negb (l_max li <=? Z.of_nat (length (a_vs a)))) E_max (
    Ok (mkA (a_eden a) (a_elys a) (a_usdc a - amt)
            (a_vs a ++ [mkV amt 0 h (l_num li) 1])
            (g_in a) (g_released a) (g_returned a) (g_in1 a + amt) (g_released1 a) (g_usdc0 a)))
  end)).

(* ClaimVesting, loop body. [clamp] = true is the code after the fix: commit
   (vestedSoFar below ClaimedAmount after a cancel is treated as "nothing new");
   [clamp] = false is the code as it was at the pinned commit: sdk.NewCoin panics on a
   negative amount. *)
Definition claim_entry (clamp : bool) (h : Z) (v : ventry) : res (Z * ventry) :=
  do vs <- vested_so_far v h;
  if vs <? v_claimed v then
    (if clamp then Ok (0, v) else Panic P_negcoin)
  else Ok (vs - v_claimed v, mkV (v_total v) vs (v_start v) (v_num v) (v_den v)).

(* newClaims is an sdk.Coins: every entry adds its new claim under its own denom. Result: (ELYS, liquid, kept entries) *)
Fixpoint claim_loop (clamp : bool) (h : Z) (vs : list ventry) : res (Z * Z * list ventry) :=
  match vs with
  | [] => Ok (0, 0, [])
  | v :: r =>
      do '(c, v') <- claim_entry clamp h v;
      do '(c0, c1, r') <- claim_loop clamp h r;
      Ok (if is0 v then c + c0 else c0, if is0 v then c1 else c + c1,
          if v_claimed v' =? v_total v' then r' else v' :: r')
  end.

Definition claim_gen (clamp : bool) (h : Z) (a : acct) : res acct :=
  do '(c0, c1, vs') <- claim_loop clamp h (a_vs a);
  (* newClaims.IsAllPositive(): mint (ELYS part) + send only when something is due; the liquid part is paid from
     the module account: see [step_gen] *)
  Ok (mkA (a_eden a) (a_elys a + c0) (a_usdc a + c1) vs' (g_in a) (g_released a + c0) (g_returned a)
          (g_in1 a) (g_released1 a + c1) (g_usdc0 a)).

Definition claim := claim_gen true.
Definition claim_prefix := claim_gen false.

(* CancelVest: newest entry first, index by index over the FULL list. Entries of another vesting denom, with
   NumBlocks = 0 or TotalAmount = 0 are skipped and stay where they are; a touched entry is written back to its own
   slot. Afterwards every entry (of any denom) with ClaimedAmount >= TotalAmount is dropped. msg.Denom must be ueden. *)
Fixpoint cancel_loop (rem : Z) (rev_vs : list ventry) : Z * list ventry :=
  match rev_vs with
  | [] => (rem, [])
  | v :: r =>
      if negb (is0 v) || (v_num v =? 0) || (v_total v =? 0) then
        let '(rem', r') := cancel_loop rem r in (rem', v :: r')
      else
        let c := Z.min rem (v_total v - v_claimed v) in
        let '(rem', r') := cancel_loop (rem - c) r in
        (rem', mkV (v_total v - c) (v_claimed v) (v_start v) (v_num v) (v_den v) :: r')
  end.

Definition cancel_keep (v : ventry) : bool := negb (v_total v <=? v_claimed v).

Definition cancel (d : Z) (amt : Z) (a : acct) : res acct :=
  guard (d =? 0) E_denom (
  guard (0 <? amt) E_amount (
  let '(rem, rvs) := cancel_loop amt (rev (a_vs a)) in
  let vs' := filter cancel_keep (rev rvs) in
  guard (rem =? 0) E_insufficient_vesting (
  Ok (mkA (a_eden a + amt) (a_elys a) (a_usdc a) vs' (g_in a) (g_released a) (g_returned a + amt)
          (g_in1 a) (g_released1 a) (g_usdc0 a))))).

(* VestNow: burns amt claimable Eden, pays amt / factor ELYS *)
Definition vest_now (amt : Z) (p : params) (a : acct) : res acct :=
  guard (0 <? amt) E_amount (
  guard (p_now p) E_disabled (
  guard (amt <=? a_eden a) E_claimed (
  guard (negb (p_factor p =? 0)) E_amount (
  Ok (mkA (a_eden a - amt) (a_elys a + Z.quot amt (p_factor p)) (a_usdc a) (a_vs a)
          (g_in a) (g_released a) (g_returned a) (g_in1 a) (g_released1 a) (g_usdc0 a)))))).

(* MsgUpdateVestingInfo: VestingInfo.Validate accepts NumBlocks >= 0, NumMaxVestings >= 0,
   VestNowFactor > 0 *)
Definition gov_update (n mx f : Z) (p : params) : res params :=
  guard ((0 <=? n) && (0 <=? mx) && (0 <? f)) E_params (Ok (mkP n mx f (p_now p))).

(* the same message with BaseDenom = VestingDenom = the liquid denom: appends the second VestingInfo or updates it *)
Definition gov_update_l (n mx f : Z) : res (option linfo) :=
  guard ((0 <=? n) && (0 <=? mx) && (0 <? f)) E_params (Ok (Some (mkL n mx))).

Inductive op :=
| OVest (i : nat) (h amt : Z)
| OClaim (i : nat) (h : Z)
| OCancel (i : nat) (d : Z) (amt : Z)     (* d: msg.Denom, 0 = ueden *)
| OVestNow (i : nat) (amt : Z)
| OGov (n mx f : Z)
| OEnableNow (b : bool)
| OVestLiquid (i : nat) (h amt : Z)
| OGovL (n mx f : Z).

Definition on_acct (s : state) (i : nat) (f : acct -> res acct) : res state :=
  if Nat.ltb i (length (s_accts s)) then
    do a <- f (get_acct s i); Ok (set_acct s i a)
  else Err E_noacct.

Definition step_gen (clamp : bool) (s : state) (o : op) : res state :=
  match o with
  | OVest i h amt => on_acct s i (vest h amt (s_p s))
  | OClaim i h =>
      do s' <- on_acct s i (claim_gen clamp h);
      (* SendCoinsFromModuleToAccount: the liquid part comes out of the module's custody *)
      let paid := a_usdc (get_acct s' i) - a_usdc (get_acct s i) in
      guard (paid <=? s_mod s) E_funds (Ok (set_mod s' (s_mod s - paid)))
  | OCancel i d amt => on_acct s i (cancel d amt)
  | OVestNow i amt => on_acct s i (vest_now amt (s_p s))
  | OGov n mx f => do p <- gov_update n mx f (s_p s); Ok (mkS p (s_l s) (s_mod s) (s_accts s))
  | OEnableNow b => Ok (mkS (mkP (p_num (s_p s)) (p_max (s_p s)) (p_factor (s_p s)) b) (s_l s) (s_mod s) (s_accts s))
  | OVestLiquid i h amt =>
      do s' <- on_acct s i (vest_liquid h amt (s_l s));
      Ok (set_mod s' (s_mod s + amt))
  | OGovL n mx f => do l <- gov_update_l n mx f; Ok (mkS (s_p s) l (s_mod s) (s_accts s))
  end.

Definition step := step_gen true.
Definition step_prefix := step_gen false.

(* transactions are atomic: a failed op leaves the state as it was *)
Definition exec (s : state) (o : op) : state := run_tx (fun s => step s o) s.
Definition run (s : state) (ops : list op) : state := fold_left exec ops s.
Definition exec_prefix (s : state) (o : op) : state := run_tx (fun s => step_prefix s o) s.

(* not yet released, per vesting denom: [true] = the ELYS schedules, [false] = the schedules of the liquid denom *)
Definition out_d (b : bool) (vs : list ventry) : Z :=
  zsum (map (fun v => if Bool.eqb (is0 v) b then v_total v - v_claimed v else 0) vs).
Definition outstanding (a : acct) : Z := out_d true (a_vs a).
Definition outstanding1 (a : acct) : Z := out_d false (a_vs a).

(* initial states used by the harness: every account has some claimable Eden, both wallets, and no vesting; the
   second VestingInfo does not exist yet and the module holds none of the liquid denom *)
Definition init_acct (eden elys usdc : Z) : acct := mkA eden elys usdc [] 0 0 0 0 0 usdc.
Definition init_state (p : params) (l : list (Z * Z * Z)) : state :=
  mkS p None 0 (map (fun '(e, y, u) => init_acct e y u) l).
