(* Exact model of the stable-stake vault (x/stablestake):
     keeper/params.go            GetRedemptionRate
     keeper/msg_server_bond.go   Bond   (types/message_bond.go ValidateBasic)
     keeper/msg_server_unbond.go Unbond (types/message_unbond.go ValidateBasic)
     keeper/debt.go              Borrow (90 % cap), Repay, UpdateInterestStacked / UpdateInterestAndGetDebt
   Definitions only; proofs are in Proofs/StableProofs.v. math.Int = Z, LegacyDec = raw Z at scale
   10^18 (Base/Zdec.v, every operation bit-exact, validated against Go by TestZdec).

   What is exact: the redemption rate, the number of shares minted, the redemption amount, the cap
   decision, the interest-first split of a repayment, deletion of a debt at zero principal, every
   book update (TotalValue, share supply, module balance, committed shares, wallet) and the order of
   the failure points. What is a CHOICE resolved by the implementation: the interest amount [i] that
   GetInterest returns inside UpdateInterestStacked (a parameter of OBorrow / ORepay / OAccrue; the
   handlers only require 0 <= i), and [OExt], any change of an account's uusdc wallet that does not
   involve the vault (collateral transfers, pool joins/exits of leveragelp position addresses).
   An absent Debt record is the all-zero record (getDebt returns zeros; times are not modelled because
   the interest is a choice). Int/Dec overflow panics (|x| >= 2^256) are not modelled. *)
From Coq Require Import ZArith List Bool.
From Elys Require Import Base.Res Base.Zdec.
Import ListNotations.
Open Scope Z_scope.

Record acct := mkA {
  a_wallet : Z;      (* bank balance of the deposit denom (uusdc) *)
  a_shares : Z;      (* committed vault shares (commitment module, denom stablestake/share) *)
  a_borrowed : Z;    (* Debt.Borrowed *)
  a_stacked : Z;     (* Debt.InterestStacked *)
  a_paid : Z         (* Debt.InterestPaid *)
}.

Record state := mkS {
  s_tv : Z;          (* Params.TotalValue *)
  s_supply : Z;      (* bank supply of the share denom *)
  s_cash : Z;        (* uusdc balance of the stablestake module account *)
  s_accts : list acct
}.

Definition dflt_acct : acct := mkA 0 0 0 0 0.
Definition get_acct (s : state) (u : nat) : acct := nth u (s_accts s) dflt_acct.
Definition set_acct (s : state) (u : nat) (a : acct) : state :=
  mkS (s_tv s) (s_supply s) (s_cash s) (upd_nth u a (s_accts s)).

Definition E_amount := 1%nat.        (* ValidateBasic: amount not positive *)
Definition E_funds := 2%nat.         (* bank: insufficient funds of the sender *)
Definition E_shares := 3%nat.        (* commitment: not enough committed shares *)
Definition E_vault_cash := 4%nat.    (* bank: module account cannot pay *)
Definition E_cap := 5%nat.           (* ErrMaxBorrowAmount *)
Definition E_negborrowed := 6%nat.   (* ErrNegativeBorrowed *)
Definition E_invalid := 8%nat.       (* bank: sdk.Coins{coin} with a zero amount is not a valid Coins value *)
Definition E_choice := 7%nat.        (* not an admissible environment choice (negative interest / wallet) *)
Definition P_negcoin := 1%nat.       (* sdk.NewCoin with a negative amount *)

(* GetRedemptionRate: zero when there are no shares, else TotalValue.ToLegacyDec().Quo(supply.ToLegacyDec()) *)
Definition rate_of (tv sup : Z) : Z :=
  if sup =? 0 then 0 else dquo (dec_of_int tv) (dec_of_int sup).

(* Bond: "if redemptionRate.IsZero() { redemptionRate = 1 }";
   shareAmount = amount.ToLegacyDec().Quo(redemptionRate).RoundInt() *)
Definition bond_rate (tv sup : Z) : Z :=
  let r := rate_of tv sup in if r =? 0 then PREC else r.
Definition bond_shares (tv sup amt : Z) : Z :=
  round_int (dquo (dec_of_int amt) (bond_rate tv sup)).

(* Unbond: redemptionAmount = shares.ToLegacyDec().Mul(redemptionRate).RoundInt() *)
Definition unbond_payout (tv sup sh : Z) : Z :=
  round_int (dmul (dec_of_int sh) (rate_of tv sup)).

Definition bond (u : nat) (amt : Z) (s : state) : res state :=
  guard (0 <? amt) E_amount (
  let a := get_acct s u in
  let sh := bond_shares (s_tv s) (s_supply s) amt in       (* rate read BEFORE the deposit arrives *)
  guard (amt <=? a_wallet a) E_funds (
  if sh <? 0 then Panic P_negcoin else
  Ok (mkS (s_tv s + amt) (s_supply s + sh) (s_cash s + amt)
          (upd_nth u (mkA (a_wallet a - amt) (a_shares a + sh) (a_borrowed a) (a_stacked a) (a_paid a))
                   (s_accts s))))).

Definition unbond (u : nat) (sh : Z) (s : state) : res state :=
  guard (0 <? sh) E_amount (
  let a := get_acct s u in
  let p := unbond_payout (s_tv s) (s_supply s) sh in       (* rate read BEFORE the shares are burnt *)
  guard (sh <=? a_shares a) E_shares (
  if p <? 0 then Panic P_negcoin else
  guard (0 <? p) E_invalid (                                (* SendCoins refuses sdk.Coins{0uusdc} *)
  guard (p <=? s_cash s) E_vault_cash (
  Ok (mkS (s_tv s - p) (s_supply s - sh) (s_cash s - p)
          (upd_nth u (mkA (a_wallet a + p) (a_shares a - sh) (a_borrowed a) (a_stacked a) (a_paid a))
                   (s_accts s))))))).

(* Borrow: borrowed = (TotalValue - balance).ToLegacyDec() + amount.ToLegacyDec();
   maxAllowed = TotalValue.ToLegacyDec().Mul(9).Quo(10); refuse if borrowed > maxAllowed.
   The cap is evaluated BEFORE the borrower's pending interest is added to TotalValue. *)
Definition cap_borrowed (tv cash amt : Z) : Z := dec_of_int (tv - cash) + dec_of_int amt.
Definition cap_max (tv : Z) : Z := dquo (dmul (dec_of_int tv) (dec_of_int 9)) (dec_of_int 10).

Definition borrow (u : nat) (amt i : Z) (s : state) : res state :=
  guard (0 <=? amt) E_choice (guard (0 <=? i) E_choice (
  guard (negb (cap_max (s_tv s) <? cap_borrowed (s_tv s) (s_cash s) amt)) E_cap (
  let a := get_acct s u in
  (* UpdateInterestAndGetDebt; Borrowed += amount; SetDebt; SendCoinsFromModuleToAccount *)
  guard (0 <? amt) E_invalid (
  guard (amt <=? s_cash s) E_vault_cash (
  Ok (mkS (s_tv s + i) (s_supply s) (s_cash s - amt)
          (upd_nth u (mkA (a_wallet a + amt) (a_shares a) (a_borrowed a + amt) (a_stacked a + i) (a_paid a))
                   (s_accts s)))))))).

(* Repay: the coins arrive first, then interest is stacked, interest is paid first, the rest reduces
   the principal; negative principal is refused; at zero principal the record is deleted. *)
Definition repay (u : nat) (amt i : Z) (s : state) : res state :=
  guard (0 <=? amt) E_choice (guard (0 <=? i) E_choice (
  let a := get_acct s u in
  guard (0 <? amt) E_invalid (
  guard (amt <=? a_wallet a) E_funds (
  let stacked := a_stacked a + i in
  let ip0 := stacked - a_paid a in
  let ip := if amt <? ip0 then amt else ip0 in
  let rp := amt - ip in
  let b := a_borrowed a - rp in
  let paid := a_paid a + ip in
  guard (negb (b <? 0)) E_negborrowed (
  let a' := if b =? 0 then mkA (a_wallet a - amt) (a_shares a) 0 0 0
            else mkA (a_wallet a - amt) (a_shares a) b stacked paid in
  Ok (mkS (s_tv s + i) (s_supply s) (s_cash s + amt) (upd_nth u a' (s_accts s)))))))).

(* UpdateInterestAndGetDebt alone (leveragelp health checks, begin-blocker) *)
Definition accrue (u : nat) (i : Z) (s : state) : res state :=
  guard (0 <=? i) E_choice (
  let a := get_acct s u in
  Ok (mkS (s_tv s + i) (s_supply s) (s_cash s)
          (upd_nth u (mkA (a_wallet a) (a_shares a) (a_borrowed a) (a_stacked a + i) (a_paid a)) (s_accts s)))).

(* anything that moves an account's uusdc without touching the vault *)
Definition ext (u : nat) (d : Z) (s : state) : res state :=
  let a := get_acct s u in
  guard (0 <=? a_wallet a + d) E_choice (
  Ok (set_acct s u (mkA (a_wallet a + d) (a_shares a) (a_borrowed a) (a_stacked a) (a_paid a)))).

Inductive op :=
| OBond (u : nat) (amt : Z)
| OUnbond (u : nat) (sh : Z)
| OBorrow (u : nat) (amt i : Z)
| ORepay (u : nat) (amt i : Z)
| OAccrue (u : nat) (i : Z)
| OExt (u : nat) (d : Z).

Definition step (s : state) (o : op) : res state :=
  match o with
  | OBond u amt => bond u amt s
  | OUnbond u sh => unbond u sh s
  | OBorrow u amt i => borrow u amt i s
  | ORepay u amt i => repay u amt i s
  | OAccrue u i => accrue u i s
  | OExt u d => ext u d s
  end.

(* one transaction = several handler calls, all or nothing *)
Fixpoint steps (s : state) (l : list op) : res state :=
  match l with
  | [] => Ok s
  | o :: r => do s' <- step s o; steps s' r
  end.

Definition exec (s : state) (o : op) : state := run_tx (fun s => step s o) s.
Definition run (s : state) (l : list op) : state := fold_left exec l s.

(* the allowances of the theorems, as raw numerators over 2*10^36 (bond) and 2*10^18 (unbond):
   a bond of [amt] minting [sh] shares at code rate r may take at most  bond_slack / (2 P^2)  base units
   of real value from the shares that existed before it; an unbond of [sh] shares at most
   unbond_slack / (2 P). *)
Definition bond_slack (r sh : Z) : Z := (PREC + 1) * r + (PREC + 2) * sh.
Definition unbond_slack (sh : Z) : Z := sh + PREC.
