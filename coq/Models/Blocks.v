(* C18 - block processing pipeline with failure points (definitions only; proofs in Proofs/BlocksProofs.v).

   The TABLE [Generated.BlockerSurface.blockers] is regenerated from the Go sources by `tools/gotrans blockers`
   on every run: one record per module of the production SetOrderBeginBlockers / SetOrderEndBlockers lists
   and per epochs hook wired in app/keepers/keepers.go, with the syntactic failure points reachable from the
   blocker inside x/ (see tools/gotrans/blockers.go for the exact rules and for what it cannot see).

   Semantics. A block = begin blockers in production order (the epochs hooks run inside the epochs begin
   blocker, which turns a hook error into panic(err)), then end blockers in production order. A blocker is
   the sequence of its failure points; the ENVIRONMENT (state, prices, time, parameters) decides for every
   point whether it fires. What a firing point does to the block is decided by the discipline the code
   really has, as read off by the translator:
     - an error-kind point (fresh error value / error of an SDK keeper handed upwards) fails the blocker only
       if every caller hands it upwards ([fp_live]) AND the module method returns it to the module manager
       ([b_propagates]); otherwise it is logged/dropped and the blocker continues;
     - a panic-kind point (panic, Must*, Quo, NewCoin, Coins.Sub, index, and KExtPanic: a call into the SDK distribution
       keeper that reaches explicit panic sites there) cannot fire if its syntactic guard is
       present in the same function ([fp_guarded]); if EVERY path to it passes a `defer recover()` frame
       ([fp_recovered]) the panic becomes an error at that frame, which all such frames' callers log;
       otherwise it aborts FinalizeBlock;
     - KCodec points (cdc.MustMarshal/MustUnmarshal of values the keepers wrote themselves) are assumed not
       to fire (store integrity; stated in the trusted base).
   Points that are unsafe by these syntactic rules are allowed only if they are in the REVIEWED list below,
   each with a class whose modelled guard is proved to hold on reachable environments, or in KNOWN_UNSAFE
   (real defects of the unchanged tree: they CAN fire; witnesses in Proofs, replayed on the real app).
   SDK modules (staking, distribution, gov, IBC, CCV, ...) are NOT modelled: [b_elys = false] entries are
   taken to succeed (this is the stated partiality of C18). *)
From Coq Require Import String List Bool ZArith Lia.
From Elys Require Import Base.Res.
Import ListNotations.
Open Scope string_scope.

Inductive phase := PBegin | PEnd | PEpochAfter | PEpochBefore.
Inductive pkind := KPanic | KMust | KQuo | KNewCoin | KCoinSub | KIndex | KCodec | KErr | KExtErr
  | KExtPanic. (* a call into the cosmos-sdk distribution keeper that reaches [fp_count] explicit panic sites INSIDE the SDK
                  package (tools/gotrans/blockers_ext.go); a panic kind: nothing in x/ guards it syntactically *)

Record fpoint := mkPoint {
  fp_fn : string;         (* package.Receiver.Function *)
  fp_kind : pkind;
  fp_detail : string;     (* divisor / amount / callee / error value, source text *)
  fp_count : nat;         (* occurrences in the function *)
  fp_guarded : bool;
  fp_recovered : bool;
  fp_live : bool }.

Record blocker := mkBlocker {
  b_module : string;
  b_phase : phase;
  b_pos : nat;            (* position in the production order of its phase *)
  b_elys : bool;          (* an Elys module method exists (false: SDK module, not modelled) *)
  b_trivial : bool;       (* the method body is `return nil` *)
  b_propagates : bool;    (* an error of the keeper's blocker is returned to the module manager *)
  b_cut : nat;            (* call edges not followed because of the depth limit *)
  b_points : list fpoint }.

Definition phase_eqb (a b : phase) : bool :=
  match a, b with PBegin, PBegin | PEnd, PEnd | PEpochAfter, PEpochAfter | PEpochBefore, PEpochBefore => true | _, _ => false end.

Definition kind_eqb (a b : pkind) : bool :=
  match a, b with
  | KPanic, KPanic | KMust, KMust | KQuo, KQuo | KNewCoin, KNewCoin | KCoinSub, KCoinSub | KIndex, KIndex
  | KCodec, KCodec | KErr, KErr | KExtErr, KExtErr | KExtPanic, KExtPanic => true
  | _, _ => false end.

Definition is_err_kind (k : pkind) : bool := match k with KErr | KExtErr => true | _ => false end.

(* ------------------------------------------------------------------ syntactic safety *)

Definition point_safe (propagates : bool) (p : fpoint) : bool :=
  match fp_kind p with
  | KCodec => true
  | KErr | KExtErr => negb (fp_live p && propagates)
  | _ => fp_guarded p || fp_recovered p
  end.

(* ------------------------------------------------------------------ reviewed list *)

(* Why an unsafe-looking point cannot fire from a reachable state. Each class has a modelled guard over the
   environment [env] below and a lemma (Proofs/BlocksProofs.v) that the guard holds whenever [reach env]. *)
Inductive rclass :=
| RStructural   (* not an independent point: `if err != nil { panic(err) }` fed by the hooks / by the error points
                   of the same blocker; modelled by [hook_wrap] / by those points *)
| RParam        (* value accepted by the module's Validate (ValidateBasic of its MsgUpdateParams): TotalBlocksPerYear > 0,
                   ProtocolRevenueAddress is bech32, portions are non-negative *)
| RLocalGuard   (* guarded in the same function by a test the translator's pattern does not match; modelled *)
| RNonNeg       (* amount that is a non-negative result (swap output, truncated non-negative product, balance) *)
| RStoredAddr   (* Must*Bech32 on an address the keeper itself stored after validating it *)
| RBankOwn      (* bank operation on exactly the coins the account was just observed to hold / on a module account
                   that has the permission in maccPerms *)
| RGovState     (* state only governance can remove (base-currency profile, ueden vesting info); absent only after
                   a governance action; see findings for the one that halts the chain *)
| RSdk.         (* error of an SDK keeper (staking, distribution, IBC channel) : not modelled (partiality) *)

Record review := mkReview { rv_module : string; rv_phase : phase; rv_fn : string; rv_kind : pkind; rv_detail : string;
                            rv_max : nat; rv_class : rclass }.

Definition R := mkReview.

Definition reviewed : list review := [
  (* x/epochs BeginBlocker: `err := RunHooks...; if err != nil { panic(err) }` twice: fires iff a wired hook returns
     an error; that is [hook_wrap], and the hooks are blockers of their own below *)
  R "epochs" PBegin "x/epochs/keeper.Keeper.BeginBlocker" KPanic "err" 2 RStructural;

  (* x/estaking/modules/distribution BeginBlock (wrapper around the SDK distribution module) *)
  R "distribution" PBegin "x/commitment/types.Commitments.GetCreatorAccount" KMust "sdk.MustAccAddressFromBech32" 1 RStoredAddr;
  (* 8+8 `panic(err)` on errors of GetCommunityTax / IterateBondedValidatorsByPower / TotalBondedTokens /
     AllocateTokensToValidator / FeePool.Get/Set (SDK collections and staking) and of the module-to-module send of
     exactly the balance just read *)
  R "distribution" PBegin "x/estaking/modules/distribution.AppModule.AllocateEdenBTokens" KPanic "err" 8 RSdk;
  R "distribution" PBegin "x/estaking/modules/distribution.AppModule.AllocateEdenUsdcTokens" KPanic "err" 8 RSdk;
  (* QuoTruncate(sumOfValTokensDec) sits in the callback of IterateBondedValidatorsByPower: it runs once per bonded
     validator that was summed (the EdenB validator is skipped in both loops), so the divisor is >= that validator's
     own positive tokens: [guard_valsum] *)
  R "distribution" PBegin "x/estaking/modules/distribution.AppModule.AllocateEdenBTokens" KQuo "sumOfValTokensDec" 1 RLocalGuard;
  R "distribution" PBegin "x/estaking/modules/distribution.AppModule.AllocateEdenUsdcTokens" KQuo "sumOfValTokensDec" 1 RLocalGuard;
  R "distribution" PBegin "x/estaking/modules/distribution.AppModule.BeginBlock" KExtErr "am.keeper.SetPreviousProposerConsAddr" 1 RSdk;

  (* x/perpetual BeginBlocker *)
  R "perpetual" PBegin "x/perpetual/keeper.Keeper.BeginBlocker" KQuo "blocksPerYear" 2 RParam;
  (* ComputeFundingRate returns early when either open interest is zero; both are non-negative: [guard_funding] *)
  R "perpetual" PBegin "x/perpetual/keeper.Keeper.ComputeFundingRate" KQuo "totalLongOpenInterest.Add(totalShortOpenInterest)" 2 RLocalGuard;

  (* x/leveragelp BeginBlocker -> stablestake GetInterest: branch 1 requires startBlock != height, branch 2
     firstStoredBlock > startBlock with the current block stored: [guard_interest_blocks] *)
  R "leveragelp" PBegin "x/stablestake/keeper.Keeper.GetInterest" KQuo "numberOfBlocks" 2 RLocalGuard;

  (* x/amm EndBlocker (swap requests are executed here, not in the transaction) *)
  R "amm" PEnd "x/amm/keeper.Keeper.RouteExactAmountIn" KNewCoin "tokenOutAmount" 1 RNonNeg;
  (* isElysRoutedMultihop returns unless route.Length() == 2, PoolIds() has one entry per route element *)
  R "amm" PEnd "x/amm/keeper.Keeper.isElysRoutedMultihop" KIndex "poolIds[0]" 1 RLocalGuard;
  R "amm" PEnd "x/amm/keeper.Keeper.isElysRoutedMultihop" KIndex "poolIds[1]" 1 RLocalGuard;
  (* `if asset.Token.IsZero() { asset.Token.Amount = 1 }` directly before the division: [guard_stacked] *)
  R "amm" PEnd "x/amm/types.Pool.StackedRatioFromSnapshot" KQuo "asset.Token.Amount" 1 RLocalGuard;

  (* x/masterchef EndBlocker: the only Elys blocker whose error reaches the module manager *)
  R "masterchef" PEnd "x/amm/keeper.PortionCoins" KNewCoin "portionAmount" 1 RNonNeg;
  R "masterchef" PEnd "x/masterchef/keeper.Keeper.CollectDEXRevenue" KExtErr "k.bankKeeper.SendCoinsFromAccountToModule" 1 RBankOwn;
  R "masterchef" PEnd "x/masterchef/keeper.Keeper.CollectDEXRevenue" KExtErr "sdk.AccAddressFromBech32" 1 RParam;
  R "masterchef" PEnd "x/masterchef/keeper.Keeper.CollectGasFees" KExtErr "k.bankKeeper.SendCoinsFromModuleToAccount" 1 RBankOwn;
  R "masterchef" PEnd "x/masterchef/keeper.Keeper.CollectGasFees" KExtErr "k.bankKeeper.SendCoinsFromModuleToModule" 1 RBankOwn;
  R "masterchef" PEnd "x/masterchef/keeper.Keeper.CollectGasFees" KExtErr "sdk.AccAddressFromBech32" 1 RParam;
  R "masterchef" PEnd "x/masterchef/keeper.Keeper.CollectPerpRevenue" KExtErr "k.bankKeeper.SendCoinsFromAccountToModule" 1 RBankOwn;
  (* providerPortion = round(x * ProviderStakingRewardsPortion) <= x coin by coin once Validate bounds the portion by 1 *)
  R "masterchef" PEnd "x/masterchef/keeper.Keeper.CollectGasFees" KCoinSub "protocolGasFeeCoins - providerPortion" 1 RParam;
  R "masterchef" PEnd "x/masterchef/keeper.Keeper.CollectPerpRevenue" KCoinSub "protocolGasFeeCoins - providerPortion" 1 RParam;
  R "masterchef" PEnd "x/masterchef/keeper.Keeper.CollectDEXRevenue" KCoinSub "protocolRevenueCoins - providerPortion" 1 RParam;
  (* all portions are paid from the account that received the whole revenue and sum to at most it *)
  R "masterchef" PEnd "x/masterchef/keeper.Keeper.CollectPerpRevenue" KExtErr "k.bankKeeper.SendCoins" 1 RBankOwn;
  R "masterchef" PEnd "x/masterchef/keeper.Keeper.CollectDEXRevenue" KExtErr "k.bankKeeper.SendCoinsFromModuleToModule" 1 RBankOwn;
  R "masterchef" PEnd "x/masterchef/keeper.Keeper.CollectDEXRevenue" KExtErr "k.bankKeeper.SendCoinsFromModuleToAccount" 1 RBankOwn;
  (* the truncated Eden amount is tested positive before it is minted *)
  R "masterchef" PEnd "x/commitment/keeper.Keeper.MintCoins" KExtErr "k.bankKeeper.MintCoins" 1 RLocalGuard;
  R "masterchef" PEnd "x/masterchef/keeper.Keeper.CollectPerpRevenue" KExtErr "sdk.AccAddressFromBech32" 1 RParam;
  R "masterchef" PEnd "x/masterchef/keeper.Keeper.ConvertGasFeesToUsdc" KNewCoin "tokenOutAmount" 1 RNonNeg;
  (* else-branch of `firstAccum.Timestamp == lastAccum.Timestamp` (uint64 difference of different values) *)
  R "masterchef" PEnd "x/masterchef/keeper.Keeper.UpdateAmmPoolAPR" KQuo "duration" 2 RLocalGuard;
  R "masterchef" PEnd "x/masterchef/keeper.Keeper.UpdateLPRewards" KErr "assetprofiletypes.ErrAssetProfileNotFound" 1 RGovState;
  (* `totalBlocksPerYear == 0` is excluded by Validate. (Before fix: 8b97a4c the same error was also returned for an Eden
     price that rounds to zero at 10^-18, which an allow-listed pool creator could produce with one lopsided pool: found by
     the harness fault f_lopsided; the code now allocates no Eden in such a block instead of failing it.) *)
  R "masterchef" PEnd "x/masterchef/keeper.Keeper.UpdateLPRewards" KErr "types.ErrNoInflationaryParams" 1 RParam;
  (* proxyTVL = tvl * multiplier is tested non-zero (`continue`), hence tvl is non-zero: [guard_product] *)
  R "masterchef" PEnd "x/masterchef/keeper.Keeper.UpdateLPRewards" KQuo "tvl" 1 RLocalGuard;

  (* x/estaking EndBlocker: its error is dropped by the module method; panics are not *)
  R "estaking" PEnd "x/commitment/types.Commitments.GetCreatorAccount" KMust "sdk.MustAccAddressFromBech32" 1 RStoredAddr;
  R "estaking" PEnd "x/estaking/keeper.Keeper.CalcDelegationAmount" KPanic "err" 3 RSdk;
  R "estaking" PEnd "x/estaking/keeper.Keeper.UpdateStakersRewards" KNewCoin "providerEdenAmount" 1 RNonNeg;
  R "estaking" PEnd "x/estaking/keeper.Keeper.UpdateStakersRewards" KNewCoin "stakersEdenBAmount" 1 RNonNeg;
  R "estaking" PEnd "x/estaking/keeper.Keeper.UpdateStakersRewards" KNewCoin "stakersEdenAmountForGovernors" 1 RParam;
  R "estaking" PEnd "x/estaking/keeper.Keeper.UpdateStakersRewards" KQuo "totalBlocksPerYear" 3 RParam;
  R "estaking" PEnd "x/estaking/keeper.Keeper.WithdrawAllRewards" KMust "sdk.MustAccAddressFromBech32" 1 RStoredAddr;
  R "estaking" PEnd "x/estaking/types.ElysStaked.GetAccountAddress" KMust "sdk.MustAccAddressFromBech32" 1 RStoredAddr;
  (* EXTERNAL panic sites (sanity checks of the SDK's distribution keeper) reached from the estaking end blocker outside any
     recover frame: BurnEdenBIfElysStakingReduced -> BurnEdenBFromElysUnstaking -> WithdrawAllRewards ->
     distrKeeper.WithdrawDelegationRewards (CalculateDelegationRewards: "calculated final stake ... greater than current
     stake", negative rewards, period order; reference counts), and -> commitment BurnEdenBoost -> commitment hooks ->
     estaking BeforeEdenBCommitChange / CommitmentChanged -> staking hooks -> distribution Before*/After* hooks
     (withdrawDelegationRewards / initializeDelegation). What the Elys code relies on, NOT modelled (class RSdk = assumption):
     distribution's recorded starting stake of every (delegator, validator) pair, real or virtual (Eden / EdenB validator =
     committed amount), never exceeds the current stake, i.e. every change of a delegation or of a committed Eden/EdenB amount
     is bracketed by BeforeDelegationSharesModified / AfterDelegationModified and the After hook reads the amount that is
     ALREADY STORED (commitment SetCommitments precedes CommitmentChanged). Seeded change C18-3 breaks exactly this order;
     it is caught by the correspondence run (staking histories of harness/c18_stake_test.go), not by this table. The maxima
     are the numbers of panic sites in cosmos-sdk v0.50.9 x/distribution/keeper: an upgrade that adds one needs a re-review. *)
  R "estaking" PEnd "x/estaking/keeper.Keeper.WithdrawAllRewards" KExtPanic "k.distrKeeper.WithdrawDelegationRewards" 8 RSdk;
  R "estaking" PEnd "x/estaking/keeper.Keeper.BeforeEdenBCommitChange" KExtPanic "k.Keeper.Hooks().BeforeDelegationCreated" 1 RSdk;
  R "estaking" PEnd "x/estaking/keeper.Keeper.BeforeEdenBCommitChange" KExtPanic "k.Keeper.Hooks().BeforeDelegationSharesModified" 7 RSdk;
  R "estaking" PEnd "x/estaking/keeper.Keeper.CommitmentChanged" KExtPanic "k.Keeper.Hooks().AfterDelegationModified" 1 RSdk;

  (* epochs hooks: an error here is a panic in x/epochs BeginBlocker *)
  R "burner" PEpochAfter "x/burner/keeper.Keeper.AfterEpochEnd" KPanic "err" 1 RStructural;
  R "burner" PEpochAfter "x/burner/keeper.Keeper.burnCoins" KExtErr "k.bankKeeper.BurnCoins" 1 RBankOwn;
  R "burner" PEpochAfter "x/burner/keeper.Keeper.sendCoinsFromZeroAddressToModule" KExtErr "k.bankKeeper.SendCoinsFromAccountToModule" 1 RBankOwn;
  (* only with a Band IBC channel capability (none without IBC) *)
  R "oracle" PEpochBefore "x/oracle/keeper.Keeper.BeforeEpochStart" KExtErr "k.channelKeeper.SendPacket" 1 RSdk;
  R "oracle" PEpochBefore "x/oracle/keeper.Keeper.BeforeEpochStart" KMust "obi.MustEncode" 1 RSdk;
  (* estaking BeforeEpochStart (ten_days): ClaimVesting + ProcessTokenVesting for the provider reward account *)
  R "estaking" PEpochBefore "x/commitment/keeper.Keeper.ClaimVesting" KExtErr "k.bankKeeper.MintCoins" 1 RBankOwn;
  R "estaking" PEpochBefore "x/commitment/keeper.Keeper.ClaimVesting" KExtErr "k.bankKeeper.SendCoinsFromModuleToAccount" 1 RBankOwn;
  R "estaking" PEpochBefore "x/commitment/keeper.Keeper.ClaimVesting" KMust "sdk.MustAccAddressFromBech32" 1 RStoredAddr;
  (* newClaim = VestedSoFar - ClaimedAmount, clamped since fix 56b3876 (C14) *)
  R "estaking" PEpochBefore "x/commitment/keeper.Keeper.ClaimVesting" KNewCoin "newClaim" 1 RNonNeg;
  R "estaking" PEpochBefore "x/commitment/keeper.Keeper.DeductClaimed" KNewCoin "amount" 1 RNonNeg;
  (* the caller turns ErrExceedMaxVestings into nil *)
  R "estaking" PEpochBefore "x/commitment/keeper.Keeper.ProcessTokenVesting" KErr "types.ErrExceedMaxVestings" 1 RLocalGuard;
  R "estaking" PEpochBefore "x/commitment/keeper.Keeper.ProcessTokenVesting" KErr "types.ErrInvalidDenom" 1 RGovState;
  R "estaking" PEpochBefore "x/commitment/types.Commitments.GetCreatorAccount" KMust "sdk.MustAccAddressFromBech32" 1 RStoredAddr;
  (* the amount deducted is the claimed amount read in the same call *)
  R "estaking" PEpochBefore "x/commitment/types.Commitments.SubClaimed" KErr "ErrInsufficientClaimed" 1 RLocalGuard
].

(* Points of the UNCHANGED tree that can really fire from a state reachable with parameter values the modules'
   own validation accepts (reproduced on the real application by harness/c18_test.go, see c18Corpus):
     - Coins.Sub(providerPortion...) panics when ProviderStakingRewardsPortion > 1 (estaking Validate only asks >= 0),
       and in CollectDEXRevenue also whenever the stakers' portion is smaller than the provider's share of the
       protocol portion (the subtraction is taken from the wrong coin set);
     - the stakers'/provider portions of perpetual and DEX revenue are sent FROM the masterchef account, which only
       received the LPs' portion: `insufficient funds` is returned to the module manager;
     - an Eden-enabled pool whose per-block Eden allocation lies strictly between 0 and 1 ueden (small pool share or small TVL
       under the APR cap) makes the masterchef end blocker return `0ueden: invalid coins` (no parameter edge needed). *)
Definition known_unsafe : list review := [].

Definition review_matches (b : blocker) (p : fpoint) (r : review) : bool :=
  String.eqb (rv_module r) (b_module b) && phase_eqb (rv_phase r) (b_phase b) && String.eqb (rv_fn r) (fp_fn p) &&
  kind_eqb (rv_kind r) (fp_kind p) && String.eqb (rv_detail r) (fp_detail p) && Nat.leb (fp_count p) (rv_max r).

Definition in_list (l : list review) (b : blocker) (p : fpoint) : bool := existsb (review_matches b p) l.

(* a point is accounted for: safe by the syntactic discipline, or reviewed, or a known defect *)
Definition point_ok (b : blocker) (p : fpoint) : bool :=
  point_safe (b_propagates b) p || in_list reviewed b p || in_list known_unsafe b p.

Definition blocker_ok (b : blocker) : bool :=
  negb (b_elys b) || b_trivial b || forallb (point_ok b) (b_points b).

(* the STRICT criterion: safe by syntax alone (what C18_pipeline_total needs) *)
Definition blocker_safe (b : blocker) : bool :=
  negb (b_elys b) || b_trivial b || forallb (point_safe (b_propagates b)) (b_points b).

(* well-formedness of the generated order: positions 0,1,2,... within each phase, in table order *)
Fixpoint positions_from (ph : phase) (n : nat) (l : list blocker) : bool :=
  match l with
  | [] => true
  | b :: r => if phase_eqb (b_phase b) ph then Nat.eqb (b_pos b) n && positions_from ph (S n) r else positions_from ph n r
  end.

Definition order_wf (tbl : list blocker) : bool :=
  positions_from PBegin 0 tbl && positions_from PEnd 0 tbl && positions_from PEpochAfter 0 tbl && positions_from PEpochBefore 0 tbl.

Definition has_blocker (tbl : list blocker) (m : string) (ph : phase) : bool :=
  existsb (fun b => String.eqb (b_module b) m && phase_eqb (b_phase b) ph && b_elys b && negb (b_trivial b)) tbl.

(* ------------------------------------------------------------------ environment and guards *)

(* The facts about a state / parameter setting that the reviewed guards talk about. *)
Record env := mkEnv {
  e_tbpy : Z;                 (* parameter TotalBlocksPerYear (uint64) *)
  e_provider_portion : Z;     (* estaking ProviderStakingRewardsPortion, scaled by 10^18 *)
  e_vals : list Z;            (* tokens of the bonded validators iterated by the distribution wrapper *)
  e_long_oi : Z; e_short_oi : Z;
  e_height : Z; e_start_block : Z; e_first_stored : Z;
  e_reserve : Z;              (* a pool asset amount of the snapshot *)
  e_ts_first : Z; e_ts_last : Z;
  e_tvl : Z; e_multiplier : Z }.

(* x/parameter Params.Validate: TotalBlocksPerYear = 0 and, since fix: f62637f, values above MaxInt64 are rejected *)
Definition param_validate (e : env) : bool := (0 <? e_tbpy e)%Z && (e_tbpy e <? 2 ^ 63)%Z.
(* the blockers use int64(TotalBlocksPerYear) *)
Definition to_int64 (z : Z) : Z := if (z <? 2 ^ 63)%Z then z else (z - 2 ^ 64)%Z.
Definition guard_tbpy (e : env) : bool := negb (to_int64 (e_tbpy e) =? 0)%Z.

Fixpoint zsum_pos (l : list Z) : Z := match l with [] => 0%Z | x :: r => (x + zsum_pos r)%Z end.
(* every validator for which the callback runs divides by the sum over all of them *)
Definition guard_valsum (e : env) : bool := forallb (fun _ => negb (zsum_pos (e_vals e) =? 0)%Z) (e_vals e).

(* perpetual ComputeFundingRate *)
Definition funding_divisor (long short : Z) : option Z :=
  if ((long =? 0) || (short =? 0))%Z then None else Some (long + short)%Z.
Definition guard_funding (e : env) : bool :=
  match funding_divisor (e_long_oi e) (e_short_oi e) with None => true | Some d => negb (d =? 0)%Z end.

(* stablestake GetInterest: the two branches that divide by numberOfBlocks *)
Definition interest_blocks (height start first_stored : Z) (has_start : bool) : option Z :=
  if has_start then (if (start =? height)%Z then None else Some (height - start)%Z)
  else if (start <? first_stored)%Z then Some (height - start + 1)%Z else None.
Definition guard_interest_blocks (e : env) : bool :=
  forallb (fun hs => match interest_blocks (e_height e) (e_start_block e) (e_first_stored e) hs with
                     | None => true | Some d => negb (d =? 0)%Z end) [true; false].

(* amm StackedRatioFromSnapshot *)
Definition stacked_divisor (reserve : Z) : Z := if (reserve =? 0)%Z then 1%Z else reserve.
Definition guard_stacked (e : env) : bool := negb (stacked_divisor (e_reserve e) =? 0)%Z.

(* masterchef UpdateAmmPoolAPR *)
Definition apr_duration (first last : Z) : option Z := if (first =? last)%Z then None else Some (last - first)%Z.
Definition guard_duration (e : env) : bool :=
  match apr_duration (e_ts_first e) (e_ts_last e) with None => true | Some d => negb (d =? 0)%Z end.

(* masterchef UpdateLPRewards: proxyTVL = tvl * multiplier, `if proxyTVL.IsZero() { continue }` *)
Definition guard_product (e : env) : bool :=
  if (e_tvl e * e_multiplier e =? 0)%Z then true else negb (e_tvl e =? 0)%Z.

(* what is assumed of a reachable environment: parameters passed their module's Validate, amounts and open
   interests are non-negative, bonded validators have positive tokens, the interest store has the current block
   and nothing younger than it *)
Definition reach (e : env) : Prop :=
  param_validate e = true /\ forallb (fun v => (0 <? v)%Z) (e_vals e) = true /\
  (0 <= e_long_oi e)%Z /\ (0 <= e_short_oi e)%Z /\ (e_first_stored e <= e_height e)%Z /\ (0 <= e_reserve e)%Z.

(* the modelled guards, all together *)
Definition guards (e : env) : bool :=
  guard_tbpy e && guard_valsum e && guard_funding e && guard_interest_blocks e && guard_stacked e && guard_duration e && guard_product e.

(* ------------------------------------------------------------------ executable pipeline *)

Inductive outcome := OOk | OFire.

Definition review_class (l : list review) (b : blocker) (p : fpoint) : option rclass :=
  match find (review_matches b p) l with Some r => Some (rv_class r) | None => None end.

(* [holds c]: the guard of review class c holds in the environment of this block, so the reviewed points of that
   class cannot fire; [kn]: the known defects are repaired (true) or as in the tree (false, they can fire) *)
Definition point_res (holds : rclass -> bool) (kn : bool) (b : blocker) (p : fpoint) (o : outcome) : res unit :=
  match o with
  | OOk => Ok tt
  | OFire =>
      if point_safe (b_propagates b) p then Ok tt
      else match review_class reviewed b p with
           | Some c => if holds c then Ok tt else if is_err_kind (fp_kind p) then Err 1 else Panic 2
           | None => if kn && in_list known_unsafe b p then Ok tt
                     else if is_err_kind (fp_kind p) then Err 1 else Panic 2
           end
  end.

Fixpoint run_points (holds : rclass -> bool) (kn : bool) (b : blocker) (oc : fpoint -> outcome) (ps : list fpoint) : res unit :=
  match ps with
  | [] => Ok tt
  | p :: r => match point_res holds kn b p (oc p) with Ok _ => run_points holds kn b oc r | Err c => Err c | Panic c => Panic c end
  end.

(* classes whose guard is modelled over [env] (lemmas in Proofs) vs. classes that are assumptions of the partial claim *)
Definition assumed_class (c : rclass) : bool :=
  match c with RNonNeg | RStoredAddr | RBankOwn | RGovState | RSdk => true | _ => false end.

Definition local_guards (e : env) : bool :=
  guard_valsum e && guard_funding e && guard_interest_blocks e && guard_stacked e && guard_duration e && guard_product e.

Definition holds_in (e : env) (assume : rclass -> bool) (c : rclass) : bool :=
  match c with
  | RStructural => true
  | RParam => guard_tbpy e
  | RLocalGuard => local_guards e
  | c => assume c
  end.

Section Pipeline.
  Context {S : Type}.
  Variable step : blocker -> S -> S.            (* what the blocker does to the state when it completes: arbitrary *)
  Variable oc : blocker -> fpoint -> outcome.   (* which points fire: chosen by the environment *)
  Variable holds : rclass -> bool.
  Variable kn : bool.

  Definition run_blocker (b : blocker) (s : S) : res S :=
    if negb (b_elys b) || b_trivial b then Ok (step b s)      (* SDK module (not modelled) / `return nil` *)
    else match run_points holds kn b (oc b) (b_points b) with
         | Ok _ => Ok (step b s) | Err c => Err c | Panic c => Panic c end.

  Fixpoint run_list (l : list blocker) (s : S) : res S :=
    match l with [] => Ok s | b :: r => match run_blocker b s with Ok s' => run_list r s' | e => e end end.

  (* x/epochs BeginBlocker: `if err != nil { panic(err) }` around the hook multiplexer *)
  Definition hook_wrap (r : res S) : res S := match r with Err c => Panic c | x => x end.

  Definition is_phase (ph : phase) (b : blocker) : bool := phase_eqb (b_phase b) ph.
  Definition is_epochs_begin (b : blocker) : bool := String.eqb (b_module b) "epochs" && phase_eqb (b_phase b) PBegin.

  Definition hooks_of (tbl : list blocker) : list blocker :=
    filter (is_phase PEpochAfter) tbl ++ filter (is_phase PEpochBefore) tbl.

  Definition run_begin_one (tbl : list blocker) (b : blocker) (s : S) : res S :=
    if is_epochs_begin b then
      match hook_wrap (run_list (hooks_of tbl) s) with
      | Ok s' => run_blocker b s' | e => e end
    else run_blocker b s.

  Fixpoint run_begin (tbl l : list blocker) (s : S) : res S :=
    match l with [] => Ok s | b :: r => match run_begin_one tbl b s with Ok s' => run_begin tbl r s' | e => e end end.

  Definition run_block (tbl : list blocker) (s : S) : res S :=
    match run_begin tbl (filter (is_phase PBegin) tbl) s with
    | Ok s' => run_list (filter (is_phase PEnd) tbl) s'
    | e => e end.
End Pipeline.
