(* C09: perpetual pool aggregates = sums over the stored MTPs, open counter = number of stored MTPs,
   and the amm pool holds at least the total custody of each asset.
     x/perpetual/keeper/keeper.go  Borrow: mtp.{Liabilities,Custody,Collateral} += ..., pool.Update*(+)
     x/perpetual/keeper/repay.go   Repay: mtp fields -= closed part, pool.Update*(-); DestroyMTP at zero custody
     x/perpetual/keeper/mtp_borrow_interest.go, settle_funding_fee_*.go: custody moves on both sides
     x/perpetual/keeper/open_consolidate_merge_mtp.go: the new MTP's amounts are merged into the existing one
     x/perpetual/keeper/mtp.go     SetMTP / DestroyMTP maintain the open counter
     x/perpetual/keeper/pool_health.go CheckMinimumCustodyAmt: amm balance >= total custody, or the op fails
   A field f is a small natural encoding (side, asset, kind) with kind in {liabilities, custody,
   collateral}; an MTP is a small natural k. [pp f k] is MTP k's contribution to field f. *)
From Coq Require Import ZArith List Bool Arith.
From Elys Require Import Base.Res Base.Fn Models.SumLedger.
Import ListNotations.
Open Scope Z_scope.

Record perp := mkPerp {
  pp : nat -> nat -> Z;     (* field -> mtp -> amount *)
  agg : nat -> Z;           (* the pool's recorded aggregate per field *)
  live : list nat;          (* stored MTPs *)
  cnt : Z                   (* open MTP counter *)
}.

Inductive pop :=
| PNew (k : nat)                    (* SetMTP of a new position (counter++) *)
| PDelta (k f : nat) (d : Z)        (* the MTP's field f and the pool's aggregate f both move by d *)
| PDel (k : nat).                   (* DestroyMTP (counter--) *)

Definition E_p := 31%nat.

Definition pstep (fields : list nat) (s : perp) (o : pop) : res perp :=
  match o with
  | PNew k => if mem_key k (live s) then Err E_p else Ok (mkPerp (pp s) (agg s) (k :: live s) (cnt s + 1))
  | PDelta k f d =>
      if negb (mem_key k (live s)) || negb (mem_key f fields) then Err E_p else
      if pp s f k + d <? 0 then Err E_p else
      Ok (mkPerp (upd2 (pp s) f k (pp s f k + d)) (upd (agg s) f (agg s f + d)) (live s) (cnt s))
  | PDel k =>
      if negb (mem_key k (live s)) then Err E_p else
      if negb (forallb (fun f => pp s f k =? 0) fields) then Err E_p else
      Ok (mkPerp (pp s) (agg s) (remove_key k (live s)) (cnt s - 1))
  end.

Fixpoint psteps (fields : list nat) (s : perp) (l : list pop) : res perp :=
  match l with [] => Ok s | o :: r => do s1 <- pstep fields s o; psteps fields s1 r end.
Definition ptx (fields : list nat) (s : perp) (l : list pop) : perp := run_tx (fun s => psteps fields s l) s.
Definition prun (fields : list nat) (s : perp) (h : list (list pop)) : perp := fold_left (ptx fields) h s.
Definition perp_empty : perp := mkPerp (fun _ _ => 0) (fun _ => 0) [] 0.

(* custody backing: [cust_fields d] are the custody fields of asset d (long and short); an operation
   that lowers the amm balance or raises custody is followed by CheckMinimumCustodyAmt *)
Definition total_custody (s : perp) (cust_fields : list nat) : Z := sumf (agg s) cust_fields.
Definition check_min_custody (s : perp) (cust_fields : list nat) (reserve : Z) : bool :=
  total_custody s cust_fields <=? reserve.
