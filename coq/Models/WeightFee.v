(* C03 / C05 - exact model (raw integers, SDK range panics kept) of the WEIGHT-BREAKING FEE of oracle pools, x/amm/types:
     GetOraclePoolNormalizedWeights, NormalizedWeights, Pool.WeightDistanceFromTarget, GetDenomOracleAssetWeight,
     GetDenomNormalizedWeight, Pool.NewPoolAssetsAfterSwap, GetWeightBreakingFee (utils.go), and the way
     Pool.SwapOutAmtGivenIn / Pool.SwapInAmtGivenOut (swap_out_amt_given_in.go, swap_in_amt_given_out.go),
     Pool.JoinPool (pool_join_pool.go, oracle single-sided branch) and CalcExitPool (calc_exit_pool.go, oracle
     single-sided branch) obtain the fee they apply and the weightBalanceBonus they return from the pool state
     before / after the operation and the parameters WeightBreakingFeeMultiplier / Exponent / Portion and
     ThresholdWeightDifference.  Definitions only; proofs in Proofs/WeightFeeProofs.v.

   An asset is (amount, weight, oracle price): the amount is the ACCOUNTED one (Pool.GetAccountedBalance: the
   accounted-pool balance if positive, else the pool's own), the weight is PoolAsset.Weight (Int), the price is
   what OracleKeeper.GetAssetPriceFromDenom returns (raw LegacyDec).  Assets are in the order of Pool.PoolAssets;
   a denom is its position in that list.

   The fee the swap functions apply no longer is an input: [oracle_swap_out_wf] / [oracle_swap_in_wf] are the whole
   of SwapOutAmtGivenIn / SwapInAmtGivenOut for oracle pools, in the order of the Go statements (which decides
   between error and panic), and return the amount, the slippage amount, the oracle amount and the bonus. *)
From Coq Require Import ZArith List Bool.
From Elys Require Import Base.Res Base.Zdec Models.AmmSwap.
Import ListNotations.
Open Scope Z_scope.

Record wparams := mkWP {
  wp_mult : Z;      (* Params.WeightBreakingFeeMultiplier *)
  wp_exp : Z;       (* Params.WeightBreakingFeeExponent *)
  wp_portion : Z;   (* Params.WeightBreakingFeePortion *)
  wp_thr : Z        (* Params.ThresholdWeightDifference *)
}.

Definition asset := (Z * Z * Z)%type.
Definition a_amt (x : asset) : Z := fst (fst x).
Definition a_w (x : asset) : Z := snd (fst x).
Definition a_price (x : asset) : Z := snd x.

Definition P_negcoin : nat := 5%nat.    (* sdk.NewCoin with a negative amount *)
Definition WBF_CAP : Z := 990000000000000000.   (* LegacyNewDecWithPrec(99, 2) *)

(* ---------- GetOraclePoolNormalizedWeights ---------- *)
(* first loop: weight_i = amount_i * price_i, running total; a zero price is an (unregistered) error *)
Fixpoint oracle_raw (l : list asset) (tot : Z) : res (list Z * Z) :=
  match l with
  | [] => Ok ([], tot)
  | x :: r =>
      if a_price x =? 0 then Err E_other else
      do w <- cmul (a_amt x * PREC) (a_price x);
      do t <- cadd tot w;
      do '(ws, t2) <- oracle_raw r t;
      Ok (w :: ws, t2)
  end.

Fixpoint quo_all (ws : list Z) (t : Z) : res (list Z) :=
  match ws with
  | [] => Ok []
  | w :: r => do q <- cquo w t; do qs <- quo_all r t; Ok (q :: qs)
  end.

Definition oracle_norm (l : list asset) : res (list Z) :=
  do '(ws, t) <- oracle_raw l 0;
  quo_all ws (if t =? 0 then ONE else t).

(* ---------- NormalizedWeights (target weights) ---------- *)
Definition total_weight (l : list asset) : Z := zsum (map a_w l).
Definition target_norm (l : list asset) : res (list Z) :=
  let tw := total_weight l in
  let tw' := if tw =? 0 then 1 else tw in
  quo_all (map (fun x => a_w x * PREC) l) (tw' * PREC).

(* ---------- Pool.WeightDistanceFromTarget ---------- *)
Fixpoint dist_sum (tws ows : list Z) (acc : Z) : res Z :=
  match tws, ows with
  | t :: tr, o :: orr => do d <- csub t o; do a <- cadd acc (Z.abs d); dist_sum tr orr a
  | _, _ => Ok acc
  end.

Definition weight_distance (l : list asset) : res Z :=
  match oracle_norm l with
  | Err _ => Ok 0                         (* a price is missing: distance 0 *)
  | Panic c => Panic c
  | Ok ows =>
      do tws <- target_norm l;
      do s <- dist_sum tws ows 0;
      let n := Z.of_nat (length l) in
      if n =? 0 then Ok 0 else cquo s (n * PREC)
  end.

(* GetDenomOracleAssetWeight / GetDenomNormalizedWeight for the asset at position k *)
Definition oracle_weight_of (l : list asset) (k : nat) : res Z :=
  match oracle_norm l with
  | Err _ => Ok 0
  | Panic c => Panic c
  | Ok ows => Ok (nth k ows 0)
  end.
Definition target_weight_of (l : list asset) (k : nat) : res Z :=
  do tws <- target_norm l; Ok (nth k tws 0).

(* ---------- Pool.NewPoolAssetsAfterSwap: [din] more of asset kin, [dout] less of asset kout ---------- *)
Definition set_amt (x : asset) (v : Z) : asset := (v, a_w x, a_price x).
Fixpoint after_swap (l : list asset) (i kin kout : nat) (din dout : Z) : res (list asset) :=
  match l with
  | [] => Ok []
  | x :: r =>
      let v := a_amt x + (if Nat.eqb i kin then din else 0) - (if Nat.eqb i kout then dout else 0) in
      if v <? 0 then Err E_other else
      do r' <- after_swap r (S i) kin kout din dout;
      Ok (set_amt x v :: r')
  end.

(* ---------- GetWeightBreakingFee ---------- *)
Definition wbf_ratio_pow (a b c d e : Z) : res Z :=   (* Pow(a.Mul(b).Quo(c).Quo(d), e) *)
  do x1 <- cmul a b; do x2 <- cquo x1 c; do x3 <- cquo x2 d; pow x3 e.

Definition get_wbf (prm : wparams) (fin_in fin_out tgt_in tgt_out ini_in ini_out dd : Z) : res Z :=
  if wp_mult prm =? 0 then Ok 0 else
  do f <- (if 0 <? dd then
             if negb (fin_out =? 0) && negb (fin_in =? 0) && negb (tgt_out =? 0) && negb (tgt_in =? 0)
             then do pw <- wbf_ratio_pow fin_in tgt_out fin_out tgt_in (wp_exp prm); cmul (wp_mult prm) pw
             else Ok 0
           else
             if negb (ini_out =? 0) && negb (ini_in =? 0) && negb (tgt_out =? 0) && negb (tgt_in =? 0)
             then do pw <- wbf_ratio_pow ini_out tgt_in ini_in tgt_out (wp_exp prm); cmul (wp_mult prm) pw
             else Ok 0);
  Ok (if WBF_CAP <? f then WBF_CAP else f).

(* ---------- swaps: from the distance before (d0, computed first by the Go code) to (applied fee, bonus) ---------- *)
Definition wb_decide_swap (prm : wparams) (d0 dd f0 perp : Z) : res (Z * Z) :=
  do f1 <- cmul f0 perp;                       (* weightBreakingFeePerpetualFactor *)
  do reward <- cmul f1 (wp_portion prm);       (* weightRecoveryReward *)
  if dd <? 0 then Ok (0, if wp_thr prm <? d0 then reward else 0)
  else Ok (f1, - f1).

Definition wb_swap (prm : wparams) (init : list asset) (kin kout : nat) (din dout d0 perp : Z) : res (Z * Z) :=
  do fin <- after_swap init 0 kin kout din dout;
  do d1 <- weight_distance fin;
  do dd <- csub d1 d0;
  do tin <- target_weight_of fin kin;
  do tout <- target_weight_of fin kout;
  do fi <- oracle_weight_of fin kin;
  do fo <- oracle_weight_of fin kout;
  do ii <- oracle_weight_of init kin;
  do io <- oracle_weight_of init kout;
  do f0 <- get_wbf prm fi fo tin tout ii io dd;
  wb_decide_swap prm d0 dd f0 perp.

(* ---------- JoinPool, oracle single-sided branch: amount [amt] of asset k joins ---------- *)
Definition no_asset (l : list asset) : nat := length l.   (* a position that names no asset *)

Definition wb_decide_join (prm : wparams) (d0 dd f0 : Z) : res (Z * Z) :=
  do reward <- cmul f0 (wp_portion prm);
  if (wp_thr prm <? d0) && (dd <? 0) then Ok (0, reward) else Ok (f0, - f0).

Definition wb_join (prm : wparams) (init : list asset) (k : nat) (amt d0 : Z) : res (Z * Z) :=
  do fin <- after_swap init 0 k (no_asset init) amt 0;
  do d1 <- weight_distance fin;
  do dd <- csub d1 d0;
  do tin <- target_weight_of init k;
  do tout <- csub ONE tin;
  do fi <- oracle_weight_of fin k;
  do fo <- csub ONE fi;
  do ii <- oracle_weight_of init k;
  do io <- csub ONE ii;
  do f0 <- get_wbf prm fi fo tin tout ii io dd;
  wb_decide_join prm d0 dd f0.

(* ---------- CalcExitPool, oracle single-sided branch: [out] of asset k leaves; the fee (bonus = - fee) ---------- *)
Definition wb_exit (prm : wparams) (init : list asset) (k : nat) (out d0 : Z) : res Z :=
  if out <? 0 then Panic P_negcoin else
  do fin <- after_swap init 0 (no_asset init) k 0 out;
  do d1 <- weight_distance fin;
  do dd <- csub d1 d0;
  do tout <- target_weight_of init k;
  do tin <- csub ONE tout;
  do fo <- oracle_weight_of fin k;
  do fi <- csub ONE fo;
  do io <- oracle_weight_of init k;
  do ii <- csub ONE io;
  get_wbf prm fi fo tin tout ii io dd.

(* ---------- the whole of SwapOutAmtGivenIn / SwapInAmtGivenOut for oracle pools ----------
   [p] as in Models/AmmSwap.v (the in / out assets, snapshot, prices), [assets] = the accounted assets of the
   pool in pool order, kin / kout the positions of the in / out asset, [ratio] the ExternalLiquidityRatio of the
   OUT asset, [perp] the weightBreakingFeePerpetualFactor. Result: (amount, slippageAmount, oracle amount,
   weightBalanceBonus). *)
Definition oracle_swap_out_wf (p : pool) (assets : list asset) (kin kout : nat) (a ratio perp fee : Z) (prm : wparams)
  : res (Z * Z * Z * Z) :=
  if price_in p =? 0 then Err E_other else
  if price_out p =? 0 then Err E_other else
  do d0 <- weight_distance assets;
  do m <- cmul (a * PREC) (price_in p);
  do oo <- cquo m (price_out p);
  if ratio =? 0 then Err E_low else
  do r <- resized_amount a ratio;
  do '(bo, _) <- calc_out p r 0;
  do s <- given_in_slippage r (price_in p) (price_out p) bo;
  do sr <- cmul s ratio;
  do after <- csub oo sr;
  do _ <- cquo sr oo;                                   (* slippage = slippageAmount*ratio / oracleOutAmount *)
  if trunc_int after <? 0 then Panic P_negcoin else
  do '(wbf, bonus) <- wb_swap prm assets kin kout a (trunc_int after) d0 perp;
  do '(out, oo') <- oracle_out a (price_in p) (price_out p) ratio s wbf fee;
  Ok (out, s, oo', bonus).

Definition oracle_swap_in_wf (p : pool) (assets : list asset) (kin kout : nat) (o ratio perp fee : Z) (prm : wparams)
  : res (Z * Z * Z * Z) :=
  if price_in p =? 0 then Err E_other else
  if price_out p =? 0 then Err E_other else
  do d0 <- weight_distance assets;
  do m <- cmul (o * PREC) (price_out p);
  do oi <- cquo m (price_in p);
  if ratio =? 0 then Err E_low else
  do r <- resized_amount o ratio;
  do '(bi, _) <- calc_in p r 0;
  do s <- given_out_slippage r (price_in p) (price_out p) bi;
  do sr <- cmul s ratio;
  do after <- cadd oi sr;
  do _ <- cquo sr oi;
  if trunc_int after <? 0 then Panic P_negcoin else
  do '(wbf, bonus) <- wb_swap prm assets kin kout (trunc_int after) o d0 perp;
  do '(inn, oi') <- oracle_in o (price_in p) (price_out p) ratio s wbf fee;
  Ok (inn, s, oi', bonus).

(* the accounted assets of the two-asset pool [p] of Models/AmmSwap.v, in pool order *)
Definition eff_amt (bal acc : Z) : Z := if 0 <? acc then acc else bal.
Definition pool_assets (p : pool) (in_first : bool) : list asset :=
  let ai := (eff_amt (b_in p) (acc_in p), w_in p, price_in p) in
  let ao := (eff_amt (b_out p) (acc_out p), w_out p, price_out p) in
  if in_first then [ai; ao] else [ao; ai].
Definition pos_in (in_first : bool) : nat := if in_first then 0%nat else 1%nat.
Definition pos_out (in_first : bool) : nat := if in_first then 1%nat else 0%nat.
