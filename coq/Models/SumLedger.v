(* A ledger whose aggregate must equal the sum of its parts and whose counter must equal the number
   of stored parts. The module-specific machines (Models/Shares.v, LevLedger.v, PerpLedger.v) map
   every code path onto these four primitives:
     SNew k a : a new part k is stored with amount a, aggregate += a, counter += 1
     SAdd k a : part k += a, aggregate += a
     SSub k a : part k -= a, aggregate -= a   (error when the part would go negative)
     SDel k   : part k (amount 0) is removed from the store, counter -= 1
   A one-sided update is not expressible with these primitives; the correspondence check is what
   establishes that the implementation's code paths really are compositions of them. *)
From Coq Require Import ZArith List Bool Arith.
From Elys Require Import Base.Res Base.Fn.
Import ListNotations.
Open Scope Z_scope.

Record sl := mkSL { parts : nat -> Z; keys : list nat; total : Z; count : Z }.

Inductive sop := SNew (k : nat) (a : Z) | SAdd (k : nat) (a : Z) | SSub (k : nat) (a : Z) | SDel (k : nat).

Definition mem_key (k : nat) (l : list nat) : bool := existsb (Nat.eqb k) l.
Fixpoint remove_key (k : nat) (l : list nat) : list nat :=
  match l with [] => [] | x :: r => if Nat.eqb k x then r else x :: remove_key k r end.

Definition E_exists := 11%nat.
Definition E_missing := 12%nat.
Definition E_negative := 13%nat.
Definition E_nonzero := 14%nat.

Definition sstep (s : sl) (o : sop) : res sl :=
  match o with
  | SNew k a =>
      if mem_key k (keys s) then Err E_exists else
      if a <? 0 then Err E_negative else
      Ok (mkSL (upd (parts s) k a) (k :: keys s) (total s + a) (count s + 1))
  | SAdd k a =>
      if negb (mem_key k (keys s)) then Err E_missing else
      if a <? 0 then Err E_negative else
      Ok (mkSL (upd (parts s) k (parts s k + a)) (keys s) (total s + a) (count s))
  | SSub k a =>
      if negb (mem_key k (keys s)) then Err E_missing else
      if (a <? 0) || (parts s k <? a) then Err E_negative else
      Ok (mkSL (upd (parts s) k (parts s k - a)) (keys s) (total s - a) (count s))
  | SDel k =>
      if negb (mem_key k (keys s)) then Err E_missing else
      if negb (parts s k =? 0) then Err E_nonzero else
      Ok (mkSL (parts s) (remove_key k (keys s)) (total s) (count s - 1))
  end.

Fixpoint ssteps (s : sl) (l : list sop) : res sl :=
  match l with [] => Ok s | o :: r => do s1 <- sstep s o; ssteps s1 r end.
Definition stx (s : sl) (l : list sop) : sl := run_tx (fun s => ssteps s l) s.
Definition srun (s : sl) (h : list (list sop)) : sl := fold_left stx h s.

Definition sl_empty : sl := mkSL (fun _ => 0) [] 0 0.
