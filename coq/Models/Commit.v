(* Exact model of the commitment ledger of x/commitment:
     types/commitments.go                          AddCommittedTokens, DeductFromCommitted, AddClaimed, SubClaimed
     keeper/commit_liquid_tokens.go                CommitLiquidTokens
     keeper/msg_server_uncommit_tokens.go          Keeper.UncommitTokens, msgServer.UncommitTokens
     keeper/msg_server_commit_claimed_rewards.go   CommitClaimedRewards
     keeper/commitments.go                         BurnEdenBoost, DeductClaimed
     keeper/deposit_liquid_tokens.go               DepositLiquidTokensClaimed
     keeper/keeper.go                              AddEdenEdenBOnAccount (the virtual ueden/uedenb credit)
   and of the one hook that writes the ledger again inside an uncommit:
     x/estaking/keeper/keeper_burn_edenB.go        BurnEdenBFromEdenUncommitted (exact LegacyDec arithmetic)
   and the shape of the callers in other modules:
     amm MintPoolShareToAccount / stablestake Bond          = mint shares to the user, CommitLiquidTokens
     amm ApplyExitPoolStateChange / stablestake Unbond      = UncommitTokens, burn the shares from the user
   Definitions only; proofs are in Proofs/CommitProofs.v.  math.Int = Z.

   The code is modelled AS IT IS.  Params.TotalCommitted is never READ by the commitment module (only
   masterchef and estaking read it), so the handlers are functions of the [ledger] (accounts, module
   balance, asset profiles) that additionally emit the list of updates they make to the total
   ([tup]); [step_gen] applies them.  Two places do not keep the total in step with the per-account
   ledger; each has a switch so that the repaired behaviour can be stated beside the real one:
     fu = false : UncommitTokens ADDS the uncommitted amount to TotalCommitted (msg_server_uncommit_tokens.go:75)
     fb = false : BurnEdenBoost deducts committed EdenB without touching TotalCommitted (commitments.go:187)
   [step] = step_gen false false is the code; [step_fixed] = step_gen true true subtracts at both.

   Denoms are interned: 0 = ueden, 1 = uedenb (virtual: never in x/bank), >= 2 bank-backed
   (pool shares, stablestake shares, anything with an asset profile entry). *)
From Coq Require Import ZArith List Bool.
From Elys Require Import Base.Res Base.Zdec.
Import ListNotations.
Open Scope Z_scope.

Definition EDEN : Z := 0.
Definition EDENB : Z := 1.
Definition is_virtual (d : Z) : bool := (d =? EDEN) || (d =? EDENB).

Record lockup := mkLk { l_amt : Z; l_unlock : Z }.
Record ctok := mkT { t_denom : Z; t_amt : Z; t_locks : list lockup }.

(* error / panic codes (only the kind is compared with the implementation) *)
Definition E_noprofile := 1%nat.
Definition E_disabled := 2%nat.
Definition E_funds := 3%nat.
Definition E_insufficient_committed := 4%nat.
Definition E_insufficient_withdrawable := 5%nat.
Definition E_claimed := 6%nat.
Definition E_unsupported := 7%nat.
Definition E_noacct := 8%nat.
Definition E_arg := 9%nat.
Definition P_negcoin := 1%nat.

(* ---------- types/commitments.go ---------- *)

(* AddCommittedTokens: first entry of that denom is updated in place, otherwise one is appended;
   a lock-up record is appended iff unlockTime != 0 *)
Fixpoint add_committed (d amt unlock : Z) (l : list ctok) : list ctok :=
  match l with
  | [] => [mkT d amt (if unlock =? 0 then [] else [mkLk amt unlock])]
  | t :: r =>
      if t_denom t =? d then
        mkT (t_denom t) (t_amt t + amt)
            (if unlock =? 0 then t_locks t else t_locks t ++ [mkLk amt unlock]) :: r
      else t :: add_committed d amt unlock r
  end.

(* a lock-up survives DeductFromCommitted iff UnlockTimestamp > currTime && !isLiquidation *)
Definition keep_lock (now : Z) (liq : bool) (k : lockup) : bool := (now <? l_unlock k) && negb liq.
Definition locked_sum (ls : list lockup) : Z := zsum (map l_amt ls).

(* DeductFromCommitted on the first entry of that denom: negative remainder -> error; expired
   lock-ups (all of them under liquidation) are dropped; still-locked amount > remainder -> error;
   a zero remainder removes the entry.  (On error the Go method has already mutated its receiver;
   every caller discards it, so the model returns no list.) *)
Fixpoint deduct_committed (d amt now : Z) (liq : bool) (l : list ctok) : res (list ctok) :=
  match l with
  | [] => Err E_insufficient_committed
  | t :: r =>
      if t_denom t =? d then
        let a' := t_amt t - amt in
        if a' <? 0 then Err E_insufficient_committed else
        let nl := filter (keep_lock now liq) (t_locks t) in
        if a' <? locked_sum nl then Err E_insufficient_withdrawable else
        if a' =? 0 then Ok r else Ok (mkT (t_denom t) a' nl :: r)
      else
        do r' <- deduct_committed d amt now liq r; Ok (t :: r')
  end.

(* GetCommittedAmountForDenom / lock-ups of the first entry of that denom *)
Fixpoint camt (d : Z) (l : list ctok) : Z :=
  match l with [] => 0 | t :: r => if t_denom t =? d then t_amt t else camt d r end.
Fixpoint clocks (d : Z) (l : list ctok) : list lockup :=
  match l with [] => [] | t :: r => if t_denom t =? d then t_locks t else clocks d r end.
(* amount of the entry still under lock at time [now] *)
Definition clocked (now d : Z) (l : list ctok) : Z := locked_sum (filter (keep_lock now false) (clocks d l)).

(* sum of ALL entries of that denom (the entries of one account have distinct denoms in every
   reachable state, so this is camt there: Proofs, csum_camt) *)
Definition csum (d : Z) (l : list ctok) : Z :=
  zsum (map t_amt (filter (fun t => t_denom t =? d) l)).

(* ---------- state ---------- *)

Definition fupd (f : Z -> Z) (d x : Z) : Z -> Z := fun d' => if d' =? d then x else f d'.
Definition fadd (f : Z -> Z) (d x : Z) : Z -> Z := fupd f d (f d + x).

Record acct := mkA {
  a_com : list ctok;       (* Commitments.CommittedTokens, in store order *)
  a_claimed : Z -> Z;      (* Commitments.Claimed *)
  a_wallet : Z -> Z        (* x/bank balance of the account (bank-backed denoms) *)
}.

Record ledger := mkLed {
  s_accts : list acct;
  s_mod : Z -> Z;                          (* x/bank balance of the commitment module account *)
  s_ap : Z -> option (bool * bool)         (* asset profile: Some (CommitEnabled, WithdrawEnabled) *)
}.

Record state := mkS {
  s_led : ledger;
  s_total : Z -> Z                         (* Params.TotalCommitted *)
}.

(* updates of Params.TotalCommitted, by call site *)
Inductive tup :=
| TCommit (d x : Z)      (* CommitLiquidTokens / CommitClaimedRewards: TotalCommitted.Add *)
| TUncommit (d x : Z)    (* UncommitTokens: the code ADDS again; repaired: subtract *)
| TBurn (d x : Z).       (* BurnEdenBoost took x out of committed: the code does nothing; repaired: subtract *)

Definition apply_tup (fu fb : bool) (t : Z -> Z) (u : tup) : Z -> Z :=
  match u with
  | TCommit d x => fadd t d x
  | TUncommit d x => fadd t d (if fu then - x else x)
  | TBurn d x => if fb then fadd t d (- x) else t
  end.

Definition zero : Z -> Z := fun _ => 0.
Definition dflt_acct : acct := mkA [] zero zero.
Definition get_acct (s : ledger) (i : nat) : acct := nth i (s_accts s) dflt_acct.
Definition set_acct (s : ledger) (i : nat) (a : acct) : ledger :=
  mkLed (upd_nth i a (s_accts s)) (s_mod s) (s_ap s).
Definition has_acct (s : ledger) (i : nat) : bool := Nat.ltb i (length (s_accts s)).

(* ---------- keeper ---------- *)

(* CommitLiquidTokens *)
Definition commit_liquid (s : ledger) (a : nat) (d amt lock : Z) : res (ledger * list tup) :=
  guard (has_acct s a) E_noacct (
  match s_ap s d with
  | None => Err E_noprofile
  | Some (ce, _) =>
    guard ce E_disabled (
    if amt <? 0 then Panic P_negcoin else             (* sdk.NewCoin *)
    let A := get_acct s a in
    guard (amt <=? a_wallet A d) E_funds (            (* SendCoinsFromAccountToModule *)
    Ok (mkLed (upd_nth a (mkA (add_committed d amt lock (a_com A)) (a_claimed A) (fadd (a_wallet A) d (- amt)))
                     (s_accts s))
            (fadd (s_mod s) d amt)
            (s_ap s),
        [TCommit d amt])))
  end).

(* BurnEdenBoost.  Note the two early returns AFTER SubClaimed on the local copy: nothing is
   stored then, so when the claimed balance covers the whole burn nothing is burned at all. *)
Definition burn_eden_boost (s : ledger) (a : nat) (d amt now : Z) : res (ledger * list tup) :=
  guard (has_acct s a) E_noacct (
  let A := get_acct s a in
  if amt =? 0 then Ok (s, []) else
  let claimed := a_claimed A d in
  let rem := if claimed <? amt then claimed else amt in
  if rem <? 0 then Panic P_negcoin else               (* sdk.NewCoin(denom, claimedRemovalAmount) *)
  let amt1 := amt - rem in
  if amt1 =? 0 then Ok (s, []) else
  let committed := camt d (a_com A) in
  let amt2 := if committed <? amt1 then committed else amt1 in
  if amt2 =? 0 then Ok (s, []) else
  do com' <- deduct_committed d amt2 now false (a_com A);
  Ok (mkLed (upd_nth a (mkA com' (fadd (a_claimed A) d (- rem)) (a_wallet A)) (s_accts s)) (s_mod s) (s_ap s),
      [TBurn d amt2])).

(* estaking BurnEdenBFromEdenUncommitted, called through the EdenUncommitted hook at the end of an
   Eden uncommit: WithdrawAllRewards credits [rew_e] ueden and [rew_b] uedenb (resolved from the
   implementation; amounts of coins, so never negative) to Claimed, then EdenB is burned in
   proportion. [staked] = ElysStaked of the account. *)
Definition edenb_to_burn (u eden_committed staked total_edenb : Z) : Z :=
  let den := eden_committed + staked + u in
  if den =? 0 then 0 else
  if 0 <? den then trunc_int (dmul_int (dquo (dec_of_int u) (dec_of_int den)) total_edenb) else 0.

Definition eden_uncommitted_hook (s : ledger) (a : nat) (u now staked rew_e rew_b : Z) : res (ledger * list tup) :=
  guard ((0 <=? rew_e) && (0 <=? rew_b)) E_arg (
  let A := get_acct s a in
  let A1 := mkA (a_com A) (fadd (fadd (a_claimed A) EDEN rew_e) EDENB rew_b) (a_wallet A) in
  let s1 := set_acct s a A1 in
  let burn := edenb_to_burn u (camt EDEN (a_com A1)) staked (camt EDENB (a_com A1) + a_claimed A1 EDENB) in
  burn_eden_boost s1 a EDENB burn now).

(* Keeper.UncommitTokens *)
Definition uncommit (s : ledger) (a : nat) (d amt now : Z) (liq : bool)
                    (staked rew_e rew_b : Z) : res (ledger * list tup) :=
  guard (has_acct s a) E_noacct (
  match s_ap s d with
  | None => Err E_noprofile
  | Some (_, we) =>
    guard we E_disabled (
    let A := get_acct s a in
    do com' <- deduct_committed d amt now liq (a_com A);
    if amt <? 0 then Panic P_negcoin else             (* sdk.NewCoin(denom, amount) *)
    let virt := is_virtual d in
    let cl' := if virt then fadd (a_claimed A) d amt else a_claimed A in
    guard (virt || (amt =? 0) || (amt <=? s_mod s d)) E_funds (   (* SendCoinsFromModuleToAccount *)
    let s1 := mkLed (upd_nth a (mkA com' cl' (if virt then a_wallet A else fadd (a_wallet A) d amt)) (s_accts s))
                  (if virt then s_mod s else fadd (s_mod s) d (- amt))
                  (s_ap s) in
    if d =? EDEN then
      do '(s2, ups) <- eden_uncommitted_hook s1 a amt now staked rew_e rew_b; Ok (s2, TUncommit d amt :: ups)
    else Ok (s1, [TUncommit d amt])))
  end).

(* msgServer.CommitClaimedRewards: TotalCommitted is raised first, then SubClaimed may fail *)
Definition commit_claimed (s : ledger) (a : nat) (d amt now : Z) : res (ledger * list tup) :=
  guard (has_acct s a) E_noacct (
  match s_ap s d with
  | None => Err E_noprofile
  | Some (ce, _) =>
    guard ce E_disabled (
    if amt <? 0 then Panic P_negcoin else
    let A := get_acct s a in
    guard (amt <=? a_claimed A d) E_claimed (
    Ok (mkLed (upd_nth a (mkA (add_committed d amt now (a_com A)) (fadd (a_claimed A) d (- amt)) (a_wallet A))
                     (s_accts s))
            (s_mod s) (s_ap s),
        [TCommit d amt])))
  end).

(* DepositLiquidTokensClaimed (MsgVestLiquid, first half) *)
Definition deposit_claimed (s : ledger) (a : nat) (d amt : Z) : res ledger :=
  guard (has_acct s a) E_noacct (
  match s_ap s d with
  | None => Err E_noprofile
  | Some (ce, _) =>
    guard ce E_disabled (
    if amt <? 0 then Panic P_negcoin else
    let A := get_acct s a in
    guard (amt <=? a_wallet A d) E_funds (
    Ok (mkLed (upd_nth a (mkA (a_com A) (fadd (a_claimed A) d amt) (fadd (a_wallet A) d (- amt))) (s_accts s))
            (fadd (s_mod s) d amt) (s_ap s))))
  end).

(* AddEdenEdenBOnAccount / AddClaimed of a virtual denom (rewards, airdrop, cancel-vest) *)
Definition add_claimed (s : ledger) (a : nat) (d amt : Z) : res ledger :=
  guard (has_acct s a) E_noacct (
  guard (is_virtual d) E_arg (
  guard (0 <=? amt) E_arg (
  let A := get_acct s a in
  Ok (set_acct s a (mkA (a_com A) (fadd (a_claimed A) d amt) (a_wallet A)))))).

(* DeductClaimed + SetCommitments (vest, vest-now) *)
Definition sub_claimed (s : ledger) (a : nat) (d amt : Z) : res ledger :=
  guard (has_acct s a) E_noacct (
  if amt <? 0 then Panic P_negcoin else
  let A := get_acct s a in
  guard (amt <=? a_claimed A d) E_claimed (
  Ok (set_acct s a (mkA (a_com A) (fadd (a_claimed A) d (- amt)) (a_wallet A))))).

(* x/bank: mint to / burn from a user wallet (share mint on join / bond, share burn on exit / unbond) *)
Definition mint_wallet (s : ledger) (a : nat) (d amt : Z) : res ledger :=
  guard (has_acct s a) E_noacct (
  guard (0 <=? amt) E_arg (
  let A := get_acct s a in
  Ok (set_acct s a (mkA (a_com A) (a_claimed A) (fadd (a_wallet A) d amt))))).

Definition burn_wallet (s : ledger) (a : nat) (d amt : Z) : res ledger :=
  guard (has_acct s a) E_noacct (
  guard (0 <=? amt) E_arg (
  let A := get_acct s a in
  guard (amt <=? a_wallet A d) E_funds (
  Ok (set_acct s a (mkA (a_com A) (a_claimed A) (fadd (a_wallet A) d (- amt))))))).

Inductive op :=
| OCommitLiquid (a : nat) (d amt lock : Z)                       (* Keeper.CommitLiquidTokens *)
| OMintCommit (a : nat) (d amt lock : Z)                         (* join pool / bond *)
| OUncommit (a : nat) (d amt now : Z) (liq : bool) (staked rew_e rew_b : Z)   (* Keeper.UncommitTokens *)
| OUncommitMsg (a : nat) (d amt now : Z) (staked rew_e rew_b : Z)             (* MsgUncommitTokens *)
| OUncommitBurn (a : nat) (d amt now : Z) (liq : bool)           (* exit pool / unbond / liquidation *)
| OCommitClaimed (a : nat) (d amt now : Z)                       (* MsgCommitClaimedRewards *)
| OBurnEdenB (a : nat) (amt now : Z)                             (* Keeper.BurnEdenBoost(uedenb) *)
| ODepositClaimed (a : nat) (d amt : Z)
| OAddClaimed (a : nat) (d amt : Z)
| OSubClaimed (a : nat) (d amt : Z)
| OMintWallet (a : nat) (d amt : Z)
| ODonate (d amt : Z)                                            (* anybody sends coins to the module account *)
| OSetProfile (d : Z) (e : option (bool * bool)).                (* assetprofile entry (governance) *)

Definition nolog (r : res ledger) : res (ledger * list tup) := do s <- r; Ok (s, []).

(* the handlers on the ledger, with the updates they make to Params.TotalCommitted *)
Definition core (s : ledger) (o : op) : res (ledger * list tup) :=
  match o with
  | OCommitLiquid a d amt lock => commit_liquid s a d amt lock
  | OMintCommit a d amt lock => do s1 <- mint_wallet s a d amt; commit_liquid s1 a d amt lock
  | OUncommit a d amt now liq st re rb => uncommit s a d amt now liq st re rb
  | OUncommitMsg a d amt now st re rb =>
      guard (is_virtual d) E_unsupported (uncommit s a d amt now false st re rb)
  | OUncommitBurn a d amt now liq =>
      do '(s1, ups) <- uncommit s a d amt now liq 0 0 0; do s2 <- burn_wallet s1 a d amt; Ok (s2, ups)
  | OCommitClaimed a d amt now => commit_claimed s a d amt now
  | OBurnEdenB a amt now => burn_eden_boost s a EDENB amt now
  | ODepositClaimed a d amt => nolog (deposit_claimed s a d amt)
  | OAddClaimed a d amt => nolog (add_claimed s a d amt)
  | OSubClaimed a d amt => nolog (sub_claimed s a d amt)
  | OMintWallet a d amt => nolog (mint_wallet s a d amt)
  | ODonate d amt => guard (0 <=? amt) E_arg (Ok (mkLed (s_accts s) (fadd (s_mod s) d amt) (s_ap s), []))
  | OSetProfile d e => Ok (mkLed (s_accts s) (s_mod s) (fun d' => if d' =? d then e else s_ap s d'), [])
  end.

Definition step_gen (fu fb : bool) (s : state) (o : op) : res state :=
  do '(l, ups) <- core (s_led s) o; Ok (mkS l (fold_left (apply_tup fu fb) ups (s_total s))).

Definition step := step_gen false false.        (* the code as it is *)
Definition step_fixed := step_gen true true.    (* TotalCommitted lowered on uncommit and on EdenB burn *)

(* transactions are atomic *)
Definition exec_gen (fu fb : bool) (s : state) (o : op) : state := run_tx (fun s => step_gen fu fb s o) s.
Definition exec := exec_gen false false.
Definition exec_fixed := exec_gen true true.
Definition run_gen (fu fb : bool) (s : state) (ops : list op) : state := fold_left (exec_gen fu fb) ops s.
Definition run := run_gen false false.
Definition run_fixed := run_gen true true.

Definition init_state (n : nat) : state := mkS (mkLed (repeat dflt_acct n) zero (fun _ => None)) zero.

(* the quantities the property speaks about *)
Definition sum_committed (d : Z) (s : ledger) : Z := zsum (map (fun A => csum d (a_com A)) (s_accts s)).
Definition sum_claimed (d : Z) (s : ledger) : Z := zsum (map (fun A => a_claimed A d) (s_accts s)).

(* the steps at which the code and the repaired model treat TotalCommitted differently *)
Definition total_site (o : op) : bool :=
  match o with
  | OUncommit _ _ _ _ _ _ _ _ | OUncommitMsg _ _ _ _ _ _ _ | OUncommitBurn _ _ _ _ _ | OBurnEdenB _ _ _ => true
  | _ => false
  end.
