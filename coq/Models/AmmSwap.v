(* C03 - exact model (raw integers, bit for bit) of the pure swap mathematics of x/amm/types:
     solveConstantFunctionInvariant, Pow, powerApproximation (ApproxSqrt / maclaurinSeriesApproximation /
     exponentialLogarithmicMethod = computeLn + computeExp), CalculateTokenARate, CalcOutAmtGivenIn,
     CalcInAmtGivenOut (constant-product AND oracle-weighted variants), the final value formula of the
     oracle-pool SwapOutAmtGivenIn / SwapInAmtGivenOut and the bonus decision of UpdatePoolForSwap.
   Definitions only; proofs are in Proofs/AmmSwapProofs.v.

   Numbers: sdkmath.Int = Z; LegacyDec = raw Z at scale 10^18 (Base/Zdec.v). Every LegacyDec operation
   that ends in assertInValidRange (Add Sub Mul Quo MulInt64 Ceil) is modelled with the range check
   ([chk]: |x| <= 2^256*10^18 - 1, otherwise the Go code panics "Int overflow"); big.Int division by zero
   panics. Go `panic` = [Panic], returned `error` = [Err code] with the codes below (registered error
   identity, never message text).

   Loops: PowerMut is structural recursion over the binary digits of the exponent. The three series
   loops and ApproxRoot's Newton loop are [iter_fuel] loops whose step function carries the Go loop
   counter and applies the Go exit conditions itself (precision reached / term = 0 /
   n > powIterationLimit = 150000 / iter = 300); the positive-structured fuel (2^18-1 > 150001 steps) is
   therefore never the reason a loop stops - if it ever were, the model returns [Panic P_fuel] and the
   correspondence run would show it. *)
From Coq Require Import ZArith List Bool.
From Elys Require Import Base.Res Base.Zdec.
Import ListNotations.
Open Scope Z_scope.

(* ---------- error / panic codes ---------- *)
Definition E_low      : nat := 1%nat.  (* ErrAmountTooLow *)
Definition E_outzero  : nat := 2%nat.  (* ErrTokenOutAmountZero *)
Definition E_approx   : nat := 3%nat.  (* ErrInvalidMathApprox *)
Definition E_fee      : nat := 4%nat.  (* ErrTooMuchSwapFee *)
Definition E_other    : nat := 5%nat.  (* unregistered errors: price not set, parse errors *)
Definition P_overflow : nat := 1%nat.
Definition P_divzero  : nat := 2%nat.
Definition P_base     : nat := 3%nat.  (* Pow: base must be greater than 0 *)
Definition P_iter     : nat := 4%nat.  (* iteration limit reached (error re-panicked by Pow / panic in maclaurin) *)
Definition P_unmodelled : nat := 9%nat. (* negative exponent: uint64 wrap-around, never generated *)
Definition P_fuel     : nat := 99%nat.

(* ---------- range-checked LegacyDec operations ---------- *)
Definition LIMIT : Z :=   (* upperLimit = 2^256 * 10^18 - 1 *)
  115792089237316195423570985008687907853269984665640564039457584007913129639936 * PREC - 1.
Definition in_range (x : Z) : bool := (- LIMIT <=? x) && (x <=? LIMIT).
Definition chk (x : Z) : res Z := if in_range x then Ok x else Panic P_overflow.
Definition cadd (a b : Z) : res Z := chk (a + b).
Definition csub (a b : Z) : res Z := chk (a - b).
Definition cmul (a b : Z) : res Z := chk (dmul a b).
Definition cquo (a b : Z) : res Z := if b =? 0 then Panic P_divzero else chk (dquo a b).
Definition cmul_int (a i : Z) : res Z := chk (a * i).
Definition cceil (a : Z) : res Z := chk (dceil a).

Definition ONE : Z := PREC.
Definition TWO : Z := 2 * PREC.
Definition LN2 : Z := 693147180559945309.
Definition INV_LN2 : Z := 1442695040888963407.
Definition EULER : Z := 2718281828459045235.
Definition POW_PRECISION : Z := 10000000000.        (* 0.00000001 *)
Definition POW_ITER_LIMIT : Z := 150000.
Definition ROOT_ITER : Z := 300.                     (* maxApproxRootIterations *)
Definition BIG_FUEL : positive := 262143%positive.   (* 2^18 - 1 >= 150002 *)
Definition SMALL_FUEL : positive := 1023%positive.

(* ---------- generic fuelled loop with early exit ---------- *)
Inductive lp (S R : Type) : Type := Cont (s : S) | Done (r : R).
Arguments Cont {S R} s.
Arguments Done {S R} r.

Fixpoint iter_fuel {S R : Type} (p : positive) (f : S -> lp S R) (s : S) : lp S R :=
  match p with
  | xH => f s
  | xO p' => match iter_fuel p' f s with Cont s' => iter_fuel p' f s' | Done r => Done r end
  | xI p' => match f s with
             | Cont s1 => match iter_fuel p' f s1 with Cont s2 => iter_fuel p' f s2 | Done r => Done r end
             | Done r => Done r
             end
  end.

Definition run_loop {S A : Type} (p : positive) (f : S -> lp S (res A)) (s : S) : res A :=
  match iter_fuel p f s with Done r => r | Cont _ => Panic P_fuel end.

(* a step whose body is in the res monad *)
Definition lift {S A : Type} (r : res (lp S (res A))) : lp S (res A) :=
  match r with Ok x => x | Err c => Done (Err c) | Panic c => Done (Panic c) end.

(* ---------- LegacyDec.Power (PowerMut): square and multiply, rounding Mul at each step ---------- *)
Fixpoint power_loop (p : positive) (d tmp : Z) : res Z :=
  match p with
  | xH => cmul d tmp
  | xO p' => do d2 <- cmul d d; power_loop p' d2 tmp
  | xI p' => do t <- cmul tmp d; do d2 <- cmul d d; power_loop p' d2 t
  end.

Definition power (d n : Z) : res Z :=
  match n with
  | Z0 => Ok ONE
  | Zpos p => power_loop p d ONE
  | Zneg _ => Panic P_unmodelled
  end.

(* ---------- LegacyDec.ApproxRoot(2) ---------- *)
(* state: (iter, guess) ; delta is recomputed from scratch in every iteration *)
Definition sqrt_step (d : Z) (st : Z * Z) : lp (Z * Z) (res Z) :=
  let '(iter, guess) := st in
  if ROOT_ITER <=? iter then Done (Ok guess) else
  lift (do prev0 <- power guess 1;
        let prev := if prev0 =? 0 then 1 else prev0 in
        do q <- cquo d prev;
        do dl <- csub q guess;
        let delta := Z.quot dl 2 in
        do g <- cadd guess delta;
        Ok (if Z.abs delta <=? 1 then Done (Ok g) else Cont (iter + 1, g))).

Definition approx_sqrt (d : Z) : res Z :=   (* d > 0 *)
  if d =? ONE then Ok d else run_loop SMALL_FUEL (sqrt_step d) (0, ONE).

(* ---------- maclaurinSeriesApproximation(base, exp, powPrecision), 0.5 <= base < 2, 0 < exp < 1, exp <> 0.5 ---------- *)
(* state at the loop head: (i, term, sum, negative) *)
Definition mac_step (x : Z) (xneg : bool) (e : Z) (st : Z * Z * Z * bool) : lp (Z * Z * Z * bool) (res Z) :=
  let '(i, term, sum, neg) := st in
  if term <? POW_PRECISION then Done (Ok sum) else
  let bigK := (i - 1) * PREC in
  let '(c, cneg) := if bigK <=? e then (e - bigK, false) else (bigK - e, true) in
  lift (do t1 <- cmul term c;
        do t2 <- cmul t1 x;
        do t3 <- cquo t2 (i * PREC);
        if t3 =? 0 then Ok (Done (Ok sum)) else
        let neg1 := if xneg then negb neg else neg in
        let neg2 := if cneg then negb neg1 else neg1 in
        do s <- (if neg2 then csub sum t3 else cadd sum t3);
        if i =? POW_ITER_LIMIT then Panic P_iter else Ok (Cont (i + 1, t3, s, neg2))).

Definition maclaurin (base e : Z) : res Z :=
  let '(x, xneg) := if ONE <=? base then (base - ONE, false) else (ONE - base, true) in
  run_loop BIG_FUEL (mac_step x xneg e) (1, ONE, ONE, false).

(* ---------- computeLn ---------- *)
Definition ln_down_step (st : Z * Z) : lp (Z * Z) (res (Z * Z)) :=
  let '(x, k) := st in
  if TWO <? x then lift (do x' <- cquo x TWO; Ok (Cont (x', k + 1))) else Done (Ok (x, k)).
Definition ln_up_step (st : Z * Z) : lp (Z * Z) (res (Z * Z)) :=
  let '(x, k) := st in
  if x <? HALF then lift (do x' <- cmul_int x 2; Ok (Cont (x', k - 1))) else Done (Ok (x, k)).

(* state at the loop head: (n, yPower, result) *)
Definition ln_series_step (y : Z) (st : Z * Z * Z) : lp (Z * Z * Z) (res Z) :=
  let '(n, ypow, result) := st in
  let sgn := if Z.even n then -1 else 1 in
  lift (do sp <- cmul_int ypow sgn;
        let term := Z.quot sp n in
        do r <- cadd result term;
        if Z.abs term <? POW_PRECISION then Ok (Done (Ok r)) else
        if POW_ITER_LIMIT <? n then Panic P_iter else
        do yp <- cmul ypow y;
        Ok (Cont (n + 1, yp, r))).

Definition compute_ln (x0 : Z) : res Z :=   (* x0 > 0 *)
  if x0 =? ONE then Ok 0 else
  if x0 =? TWO then Ok LN2 else
  do '(x1, k1) <- run_loop SMALL_FUEL ln_down_step (x0, 0);
  do '(x2, k2) <- run_loop SMALL_FUEL ln_up_step (x1, k1);
  do y <- csub x2 ONE;
  do r <- run_loop BIG_FUEL (ln_series_step y) (1, y, 0);
  do kl <- cmul_int LN2 k2;
  cadd r kl.

(* ---------- computeExp ---------- *)
(* state at the loop head: (n, term, expY) *)
Definition exp_series_step (y : Z) (st : Z * Z * Z) : lp (Z * Z * Z) (res Z) :=
  let '(n, term, expy) := st in
  lift (do tm <- cmul term y;
        let t := Z.quot tm n in
        do e <- cadd expy t;
        if Z.abs t <=? POW_PRECISION then Ok (Done (Ok e)) else
        if POW_ITER_LIMIT <? n then Panic P_iter else
        Ok (Cont (n + 1, t, e))).

Definition compute_exp (x : Z) : res Z :=
  if x =? 0 then Ok ONE else
  if x =? ONE then Ok EULER else
  if x <=? (-42) * PREC then Ok 0 else
  do xi <- cmul x INV_LN2;
  let k := trunc_int xi in
  do kl <- cmul (k * PREC) LN2;
  do y <- csub x kl;
  do expy <- run_loop BIG_FUEL (exp_series_step y) (1, ONE, ONE);
  do two_k <- (if 0 <? k then power TWO k
               else if k <? 0 then (do p <- power TWO (- k); cquo ONE p)
               else Ok ONE);
  cmul expy two_k.

Definition exp_log (base e : Z) : res Z :=
  do l <- compute_ln base;
  do x <- cmul e l;
  compute_exp x.

(* ---------- powerApproximation for the fractional part (0 < e < 1) and Pow ---------- *)
Definition power_approx (base e : Z) : res Z :=
  if e =? HALF then approx_sqrt base
  else if (HALF <=? base) && (base <? TWO) then maclaurin base e
  else exp_log base e.

Definition pow (base e : Z) : res Z :=
  if base <=? 0 then Panic P_base else
  if e <? 0 then Panic P_unmodelled else
  let integer := trunc_dec e in
  let frac := e - integer in
  do ip <- power base (trunc_int integer);
  if frac =? 0 then Ok ip else
  do fp <- power_approx base frac;
  cmul ip fp.

(* ---------- solveConstantFunctionInvariant ---------- *)
Definition solve (bfix_before bfix_after wfix bunk wunk : Z) : res Z :=
  if wunk =? 0 then Err E_low else
  do ratio <- cquo wfix wunk;
  if bfix_after <=? 0 then Err E_low else
  do y <- cquo bfix_before bfix_after;
  do yw <- pow y ratio;
  do par <- csub ONE yw;
  cmul bunk par.

(* CalculateTokenARate(balA, wA, balB, wB) on LegacyDec arguments *)
Definition token_a_rate (balA wA balB wB : Z) : res Z :=
  if (balA =? 0) || (wB =? 0) then Ok 0 else
  do m <- cmul balB wA;
  do q <- cquo m wB;
  cquo q balA.

(* ---------- pool description seen by CalcOutAmtGivenIn / CalcInAmtGivenOut ----------
   Two assets "in" and "out": reserve (Pool.PoolAssets[..].Token.Amount), weight (Int), accounted-pool balance
   (0 = none). For oracle pools additionally the snapshot reserves and the two oracle prices. *)
Record pool := mkPool {
  b_in : Z; b_out : Z; w_in : Z; w_out : Z; acc_in : Z; acc_out : Z;
  use_oracle : bool; snap_in : Z; snap_out : Z; price_in : Z; price_out : Z
}.

Definition eff (bal acc : Z) : Z := if 0 <? acc then acc * PREC else bal * PREC.

(* GetOraclePoolNormalizedWeights on [in; out] of the snapshot *)
Definition oracle_weights (p : pool) : res (Z * Z) :=
  if price_in p =? 0 then Err E_other else
  do wi <- cmul (snap_in p * PREC) (price_in p);
  do t1 <- cadd 0 wi;
  if price_out p =? 0 then Err E_other else
  do wo <- cmul (snap_out p * PREC) (price_out p);
  do t2 <- cadd t1 wo;
  let tot := if t2 =? 0 then ONE else t2 in
  do ni <- cquo wi tot;
  do no <- cquo wo tot;
  Ok (ni, no).

Definition weights (p : pool) : res (Z * Z) :=
  if use_oracle p then oracle_weights p else Ok (w_in p * PREC, w_out p * PREC).

(* GetTokenARate(tokenIn, tokenOut) *)
Definition rate_in_out (p : pool) : res Z :=
  if use_oracle p then
    if price_in p =? 0 then Err E_other else
    if price_out p =? 0 then Err E_other else
    cquo (price_in p) (price_out p)
  else token_a_rate (b_in p * PREC) (w_in p * PREC) (b_out p * PREC) (w_out p * PREC).

(* CalcOutAmtGivenIn: returns (token out amount, slippage) *)
Definition calc_out (p : pool) (a fee : Z) : res (Z * Z) :=
  do omf <- csub ONE fee;
  do afee <- cmul (a * PREC) omf;
  let pin := eff (b_in p) (acc_in p) in
  let pout := eff (b_out p) (acc_out p) in
  do post <- cadd pin afee;
  do '(inw, outw) <- weights p;
  do out <- solve pin post inw pout outw;
  if out =? 0 then Err E_outzero else
  do rate <- rate_in_out p;
  do awo <- cmul afee rate;
  if awo =? 0 then Err E_approx else
  do q <- cquo out awo;
  do slip <- csub ONE q;
  let oi := trunc_int out in
  if oi <=? 0 then Err E_outzero else
  Ok (oi, slip).

(* CalcInAmtGivenOut: returns (token in amount, slippage) *)
Definition calc_in (p : pool) (o fee : Z) : res (Z * Z) :=
  do '(inw, outw) <- weights p;
  let pout := eff (b_out p) (acc_out p) in
  let pin := eff (b_in p) (acc_in p) in
  do post <- csub pout (o * PREC);
  do t0 <- solve pout post outw pin inw;
  let tin := - t0 in
  do rate <- rate_in_out p;
  do awo <- cquo (o * PREC) rate;
  if tin =? 0 then Err E_low else
  do q <- cquo tin awo;
  do slip <- csub ONE q;
  if ONE <=? fee then Err E_fee else
  do omf <- csub ONE fee;
  do tbf <- cquo tin omf;
  do c <- cceil tbf;
  let ii := trunc_int c in
  if ii <=? 0 then Err E_approx else
  Ok (ii, slip).

(* ---------- oracle pools: final value formula of SwapOutAmtGivenIn / SwapInAmtGivenOut ----------
   slippageAmount (>= 0, from CalcGivenInSlippage on the resized amount) and the weight-breaking fee
   (in [0, 0.99], from GetWeightBreakingFee) are CHOICES taken from the implementation's return values
   (wbf = -weightBalanceBonus when that is negative, else 0); everything after them is exact. *)
Definition oracle_out (a p_in p_out ratio slip_amt wbf fee : Z) : res (Z * Z) :=
  do m <- cmul (a * PREC) p_in;
  do oracle_out_amt <- cquo m p_out;
  do sr <- cmul slip_amt ratio;
  do after <- csub oracle_out_amt sr;
  if ONE <=? fee then Err E_fee else
  do omw <- csub ONE wbf;
  do omf <- csub ONE fee;
  do x1 <- cmul after omw;
  do x2 <- cmul x1 omf;
  Ok (trunc_int x2, oracle_out_amt).

Definition oracle_in (o p_in p_out ratio slip_amt wbf fee : Z) : res (Z * Z) :=
  do m <- cmul (o * PREC) p_out;
  do oracle_in_amt <- cquo m p_in;
  do sr <- cmul slip_amt ratio;
  do after <- cadd oracle_in_amt sr;
  if ONE <=? fee then Err E_fee else
  do omw <- csub ONE wbf;
  do omf <- csub ONE fee;
  do x1 <- cquo after omw;
  do x2 <- cquo x1 omf;
  do c <- cceil x2;
  Ok (trunc_int c, oracle_in_amt).

(* CalcGivenInSlippage / CalcGivenOutSlippage given the balancer amount of the resized trade *)
Definition given_in_slippage (resized p_in p_out balancer_out : Z) : res Z :=
  do m <- cmul (resized * PREC) p_in;
  do o <- cquo m p_out;
  do s <- csub o (balancer_out * PREC);
  Ok (if s <? 0 then 0 else s).

Definition given_out_slippage (resized p_in p_out balancer_in : Z) : res Z :=
  do m <- cmul (resized * PREC) p_out;
  do o <- cquo m p_in;
  do s <- csub (balancer_in * PREC) o;
  Ok (if s <? 0 then 0 else s).

(* resizedAmount = amount / externalLiquidityRatio, RoundInt *)
Definition resized_amount (a ratio : Z) : res Z :=
  do q <- cquo (a * PREC) ratio; Ok (round_int q).

(* ---------- bonus decision of UpdatePoolForSwap ----------
   base = tokenOut.Amount (givenOut) or oracleOutAmount (Int) ; bonus = weightBalanceBonus (LegacyDec).
   Result: amount sent FROM THE REBALANCE TREASURY to the recipient (0 = no transfer). *)
Definition bonus_paid (use_orc : bool) (base bonus treasury : Z) : res Z :=
  if use_orc && (0 <? bonus) then
    do m <- cmul (base * PREC) bonus;
    let b := trunc_int m in
    let b' := if treasury <? b then treasury else b in
    Ok (if 0 <? b' then b' else 0)
  else Ok 0.

(* ---------- ApplyDiscount (utils.go): swapFee * (1 - discount) ---------- *)
Definition apply_discount (fee discount : Z) : res Z :=
  do omd <- csub ONE discount; cmul fee omd.

(* ---------- oracle pools: the whole of SwapOutAmtGivenIn / SwapInAmtGivenOut ----------
   Composition of the kernels above in the order of the Go code. [ratio] = ExternalLiquidityRatio of the
   OUT asset; [wbf] = the weight-breaking fee the implementation applied (GetWeightBreakingFee times the
   perpetual factor, or 0 when the swap improves the weights) - a CHOICE resolved from the implementation.
   Result: (amount, slippageAmount, oracle amount). *)
Definition oracle_swap_out (p : pool) (a ratio wbf fee : Z) : res (Z * Z * Z) :=
  if price_in p =? 0 then Err E_other else
  if price_out p =? 0 then Err E_other else
  if ratio =? 0 then Err E_low else
  do r <- resized_amount a ratio;
  do '(bo, _) <- calc_out p r 0;
  do s <- given_in_slippage r (price_in p) (price_out p) bo;
  do '(out, oo) <- oracle_out a (price_in p) (price_out p) ratio s wbf fee;
  Ok (out, s, oo).

Definition oracle_swap_in (p : pool) (o ratio wbf fee : Z) : res (Z * Z * Z) :=
  if price_in p =? 0 then Err E_other else
  if price_out p =? 0 then Err E_other else
  if ratio =? 0 then Err E_low else
  do r <- resized_amount o ratio;
  do '(bi, _) <- calc_in p r 0;
  do s <- given_out_slippage r (price_in p) (price_out p) bi;
  do '(inn, oi) <- oracle_in o (price_in p) (price_out p) ratio s wbf fee;
  Ok (inn, s, oi).
