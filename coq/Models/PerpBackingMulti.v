(* C09 custody backing over SEVERAL perpetual pools.  Every pool has its own books (Models/PerpBacking.v: reserve, long / short
   custody, long collateral, short liabilities per asset of THAT pool) and its own asset list; the perpetual keeper reads and
   writes them by the amm pool id of the position / of the amm pool handed to the hook:
     x/perpetual/keeper/pool.go          GetPool / SetPool keyed by AmmPoolId
     x/perpetual/keeper/hooks_amm.go     AfterSwap / AfterJoinPool / AfterExitPool run CheckLowPoolHealthAndMinimumCustody on the
                                         perpetual pool of the amm pool that was just stored
     x/perpetual/keeper/msg_server_close_positions.go  every item is looked up by (owner, id); its pool is mtp.AmmPoolId
   What is NOT per pool is transaction atomicity: a transaction whose route crosses two pools, or that opens on one pool after
   swapping on another, is written for all pools or for none; a MsgClosePositions may list positions of several pools, each
   item on its own cache context.  Operations therefore name their pool, and a transaction is all-or-nothing over the family. *)
From Coq Require Import ZArith List Bool Arith.
From Elys Require Import Base.Res Base.Fn Base.Zdec Models.PerpBacking.
Import ListNotations.
Open Scope Z_scope.

Definition mbst := nat -> bst.
Definition mb_upd (f : mbst) (p : nat) (s : bst) : mbst := fun x => if Nat.eqb x p then s else f x.

(* handler-level operations of one transaction, each on the pool it names *)
Fixpoint mhrun (assets : nat -> list nat) (f : mbst) (l : list (nat * hop)) : res mbst :=
  match l with
  | [] => Ok f
  | (p, h) :: r => do s1 <- hstep (assets p) (f p) h; mhrun assets (mb_upd f p s1) r
  end.

Inductive mbunit :=
| MUTx (l : list (nat * hop))                 (* one transaction / one cache-context unit of a blocker: all pools or none *)
| MUClosePositions (l : list (nat * sitem)).  (* perpetual MsgClosePositions: items of any pools, each all-or-nothing *)

Definition mitem (assets : nat -> list nat) (f : mbst) (pi : nat * sitem) : mbst :=
  mb_upd f (fst pi) (item_atomic (assets (fst pi)) (f (fst pi)) (snd pi)).

Definition mustep (assets : nat -> list nat) (f : mbst) (u : mbunit) : mbst :=
  match u with
  | MUTx l => run_tx (fun x => mhrun assets x l) f
  | MUClosePositions l => fold_left (mitem assets) l f
  end.

Definition mbrun (assets : nat -> list nat) (f : mbst) (h : list mbunit) : mbst := fold_left (mustep assets) h f.
Definition mb_empty : mbst := fun _ => b_empty.

(* the part of a transaction / a message that concerns pool p *)
Definition hops_of (p : nat) (l : list (nat * hop)) : list hop :=
  map snd (filter (fun ph => Nat.eqb (fst ph) p) l).
Definition items_of (p : nat) (l : list (nat * sitem)) : list sitem :=
  map snd (filter (fun pi => Nat.eqb (fst pi) p) l).
