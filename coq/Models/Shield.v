(* x/tradeshield as it is in /repo: pending spot / perpetual limit orders, their per-order escrow
   addresses, create / update / cancel / batch cancel / ExecuteOrders.  Definitions only.

   What is exact: ids and counters, owner checks, trigger comparisons, the order of escrow return /
   inner call / order removal, which errors are returned (tx reverted) and which are swallowed and
   logged by ExecuteOrders (NO cache context around an order in the code as it is: whatever the inner
   call wrote before failing stays), the nil dereference of the event constructor for a skipped spot
   order (Go panic), the ratio check of UpdatePerpetualOrder (LegacyDec.Quo, bit exact).
   What is resolved from the implementation (quantified over in the theorems): the market price the
   keeper reads, and the result of the inner amm.SwapByDenom / perpetual.Open call: ok / error /
   panic plus the bank transfers it committed (between the owner and non-user, non-escrow accounts).

   [fixed = true] is the repaired ExecuteOrders (each order attempt on a CacheContext that is written
   only when the attempt succeeded); [fixed = false] is the code as it is. *)
From Coq Require Import ZArith List Bool.
From Elys Require Import Base.Res Base.Zdec.
Import ListNotations.
Open Scope Z_scope.

(* ---------- bank ---------- *)
Inductive addr := AUser (n : Z) | ASpot (id : Z) | APerp (id : Z) | AExt (n : Z).

Definition addr_eqb (a b : addr) : bool :=
  match a, b with
  | AUser x, AUser y => x =? y
  | ASpot x, ASpot y => x =? y
  | APerp x, APerp y => x =? y
  | AExt x, AExt y => x =? y
  | _, _ => false
  end.

Definition bank := addr -> Z -> Z.

Definition bset (b : bank) (a : addr) (d v : Z) : bank :=
  fun a' d' => if addr_eqb a' a && (d' =? d) then v else b a' d'.

(* x/bank SendCoins of sdk.NewCoins(coin): a zero coin is dropped (nothing happens); the sender must
   hold the amount.  Accounts outside the model (AExt: pools, module accounts) are never short. *)
Definition is_ext (a : addr) : bool := match a with AExt _ => true | _ => false end.

Definition send (b : bank) (from to : addr) (d amt : Z) : option bank :=
  if amt <=? 0 then (if amt =? 0 then Some b else None)
  else if negb (is_ext from) && (b from d <? amt) then None
  else let b1 := bset b from d (b from d - amt) in
       Some (bset b1 to d (b1 to d + amt)).

(* every denom an escrow account can hold in the modelled universe: uusdc uatom uelys aweth (18 decimals) *)
Definition all_denoms : list Z := [0; 1; 2; 3].

Definition known_denom (d : Z) : bool := (d =? 0) || (d =? 1) || (d =? 2) || (d =? 3).

(* CancelSpotOrder: GetAllBalances(order address) sent to the owner *)
Definition move_all (b : bank) (from to : addr) (d : Z) : bank :=
  let v := b from d in
  if v <=? 0 then b else
  let b1 := bset b from d 0 in bset b1 to d (b1 to d + v).

Definition sweep (b : bank) (from to : addr) : bank :=
  fold_left (fun b d => move_all b from to d) all_denoms b.

(* ---------- orders ---------- *)
(* o_type: spot 0 STOPLOSS 1 LIMITSELL 2 LIMITBUY (3 MARKETBUY is never stored);
           perpetual 1 LONG 2 SHORT (PerpetualOrderType is always LIMITOPEN) *)
Record order := mkO {
  o_perp : bool; o_id : Z; o_owner : Z; o_type : Z;
  o_base : Z; o_quote : Z;          (* spot: OrderPrice denoms; perp: unused (0) *)
  o_rate : Z;                       (* OrderPrice.Rate / TriggerPrice.Rate, LegacyDec raw *)
  o_den : Z; o_amt : Z;             (* OrderAmount / Collateral *)
  o_tp : Z; o_pool : Z; o_asset : Z (* perp: TakeProfitPrice raw, PoolId, TradingAsset *)
}.

Definition esc (o : order) : addr := if o_perp o then APerp (o_id o) else ASpot (o_id o).

Definition key_eqb (p : bool) (id : Z) (o : order) : bool := Bool.eqb (o_perp o) p && (o_id o =? id).

Definition find_ord (p : bool) (id : Z) (l : list order) : option order := find (key_eqb p id) l.
Definition remove_ord (p : bool) (id : Z) (l : list order) : list order :=
  filter (fun o => negb (key_eqb p id o)) l.
Definition replace_ord (n : order) (l : list order) : list order :=
  map (fun o => if key_eqb (o_perp n) (o_id n) o then n else o) l.

Record state := mkS { bk : bank; ords : list order; nsid : Z; npid : Z }.

Definition init_state (b : bank) : state := mkS b [] 1 1.

(* ---------- resolved environment ---------- *)
Definition xfer := (addr * addr * Z * Z)%type.
Inductive inner := IOk (ops : list xfer) | IErr (ops : list xfer) | IPanic.
Record reso := mkR { r_price : option Z; r_inner : inner }.

(* transfers committed by the inner call: between the owner and accounts outside the model only *)
Definition party_ok (owner : Z) (a : addr) : bool :=
  match a with AUser n => n =? owner | AExt _ => true | _ => false end.

Definition E_reject : nat := 99.   (* the implementation left the protocol the model accepts *)

Fixpoint apply_xfers (owner : Z) (b : bank) (ops : list xfer) : res bank :=
  match ops with
  | [] => Ok b
  | (from, to, d, amt) :: r =>
      if party_ok owner from && party_ok owner to && (0 <? amt) then
        match send b from to d amt with
        | Some b' => apply_xfers owner b' r
        | None => Err E_reject
        end
      else Err E_reject
  end.

(* ---------- error / panic codes ---------- *)
Definition E_invalid : nat := 1.     (* ValidateBasic *)
Definition E_notfound : nat := 2.
Definition E_unauth : nat := 3.
Definition E_funds : nat := 4.
Definition E_dup : nat := 5.
Definition E_env : nat := 6.         (* pool missing / position exists / estimation failed *)
Definition E_ratio : nat := 7.
Definition E_inner : nat := 8.
Definition P_nilres : nat := 1.      (* NewExecuteSpotOrderEvt(order, nil) *)
Definition P_inner : nat := 2.
Definition P_divzero : nat := 3.

(* ---------- operations ---------- *)
Inductive op :=
| OCreateSpot (owner typ base quote rate den amt : Z) (inn : inner)   (* inn: MARKETBUY only *)
| OUpdateSpot (sender id base quote rate : Z)
| OCancelSpot (sender id : Z)
| OCancelSpots (sender : Z) (ids : list Z)
| OCreatePerp (owner pos trig den amt tp pool asset : Z) (env : Z)   (* env: 0 accepted, 1 refused, 2 panic inside the perpetual queries *)
| OUpdatePerp (sender id trig minL maxL maxS : Z)
| OCancelPerp (sender id : Z)
| OCancelPerps (sender : Z) (ids : list Z)
| OExecute (sender : Z) (sids pids : list (Z * reso))
| OSend (from : Z) (to : addr) (d amt : Z)          (* bank MsgSend by a user *)
| OEnv (l : list (Z * Z * Z)).                      (* end of block: user wallets as settled by other modules *)

(* trigger conditions, as the NEGATION of the code's skip tests *)
Definition triggered (o : order) (mp : Z) : bool :=
  if o_perp o then
    (if o_type o =? 1 then negb (o_rate o <? mp)          (* LONG: skip if market > trigger *)
     else if o_type o =? 2 then negb (mp <? o_rate o)     (* SHORT: skip if market < trigger *)
     else true)
  else
    (if o_type o =? 1 then negb (mp <? o_rate o)          (* LIMITSELL: skip if market < rate *)
     else negb (o_rate o <? mp)).                         (* STOPLOSS, LIMITBUY: skip if market > rate *)

Definition set_bk (s : state) (b : bank) : state := mkS b (ords s) (nsid s) (npid s).

(* one order inside ExecuteOrders *)
Definition exec_one (fixed : bool) (o : order) (r : reso) (s : state) : res state :=
  match r_price r with
  | None => Ok s                                             (* price error: logged *)
  | Some mp =>
    if negb (o_perp o) && (mp =? 0) then Ok s                (* ErrZeroMarketPrice: logged *)
    else if negb (triggered o mp) then
      (if o_perp o then Ok s else Panic P_nilres)            (* (nil, nil) -> res.Amount *)
    else
      match send (bk s) (esc o) (AUser (o_owner o)) (o_den o) (o_amt o) with
      | None => Ok s                                         (* escrow short: error logged *)
      | Some b1 =>
        match r_inner r with
        | IPanic => Panic P_inner
        | IOk ops =>
            do b2 <- apply_xfers (o_owner o) b1 ops;
            Ok (mkS b2 (remove_ord (o_perp o) (o_id o) (ords s)) (nsid s) (npid s))
        | IErr ops =>
            if fixed then Ok s                               (* branch discarded *)
            else do b2 <- apply_xfers (o_owner o) b1 ops; Ok (set_bk s b2)
        end
      end
  end.

Fixpoint exec_list (fixed : bool) (p : bool) (l : list (Z * reso)) (s : state) : res state :=
  match l with
  | [] => Ok s
  | (id, r) :: t =>
      if id =? 0 then Err E_invalid else
      match find_ord p id (ords s) with
      | None => Err E_notfound
      | Some o => do s1 <- exec_one fixed o r s; exec_list fixed p t s1
      end
  end.

Definition cancel_one (sender : Z) (p : bool) (id : Z) (s : state) : res state :=
  if id =? 0 then Err E_invalid else
  match find_ord p id (ords s) with
  | None => Err E_notfound
  | Some o =>
      if negb (o_owner o =? sender) then Err E_unauth else
      if p then
        match send (bk s) (esc o) (AUser (o_owner o)) (o_den o) (o_amt o) with
        | None => Err E_funds
        | Some b => Ok (mkS b (remove_ord p id (ords s)) (nsid s) (npid s))
        end
      else Ok (mkS (sweep (bk s) (esc o) (AUser (o_owner o))) (remove_ord p id (ords s)) (nsid s) (npid s))
  end.

Fixpoint cancel_list (sender : Z) (p : bool) (ids : list Z) (s : state) : res state :=
  match ids with
  | [] => Ok s
  | id :: t => do s1 <- cancel_one sender p id s; cancel_list sender p t s1
  end.

Definition dup_perp (owner pos den pool asset : Z) (o : order) : bool :=
  o_perp o && (o_owner o =? owner) && (o_pool o =? pool) && (o_type o =? pos) && (o_den o =? den) && (o_asset o =? asset).

Definition future_esc (s : state) (a : addr) : bool :=
  match a with ASpot id => nsid s <=? id | APerp id => npid s <=? id | _ => false end.

Fixpoint set_wallets (b : bank) (l : list (Z * Z * Z)) : bank :=
  match l with
  | [] => b
  | (u, d, v) :: t => set_wallets (bset b (AUser u) d v) t
  end.

Definition step_gen (fixed : bool) (s : state) (o : op) : res state :=
  match o with
  | OCreateSpot owner typ base quote rate den amt inn =>
      if (rate <? 0) || (amt <? 0) || (typ <? 0) || (3 <? typ) || negb (known_denom den) then Err E_invalid else
      if typ =? 3 then
        match inn with
        | IOk ops => do b <- apply_xfers owner (bk s) ops; Ok (set_bk s b)
        | IErr _ => Err E_inner
        | IPanic => Panic P_inner
        end
      else
        let id := nsid s in
        let n := mkO false id owner typ base quote rate den amt 0 0 0 in
        match send (bk s) (AUser owner) (esc n) den amt with
        | None => Err E_funds
        | Some b => Ok (mkS b (ords s ++ [n]) (id + 1) (npid s))
        end
  | OUpdateSpot sender id base quote rate =>
      if (rate <? 0) || (id =? 0) then Err E_invalid else
      match find_ord false id (ords s) with
      | None => Err E_notfound
      | Some x =>
          if negb (o_owner x =? sender) then Err E_unauth else
          let n := mkO false id (o_owner x) (o_type x) base quote rate (o_den x) (o_amt x) 0 0 0 in
          Ok (mkS (bk s) (replace_ord n (ords s)) (nsid s) (npid s))
      end
  | OCancelSpot sender id => cancel_one sender false id s
  | OCancelSpots sender ids =>
      match ids with [] => Err E_invalid | _ =>
        if existsb (fun i => i =? 0) ids then Err E_invalid else cancel_list sender false ids s end
  | OCreatePerp owner pos trig den amt tp pool asset env =>
      if (trig <? 0) || (amt <? 0) || (tp <? 0) || (pool =? 0) || negb ((pos =? 1) || (pos =? 2)) || negb (known_denom den) then Err E_invalid else
      if env =? 1 then Err E_env else
      if existsb (dup_perp owner pos den pool asset) (ords s) then Err E_dup else
      if negb (env =? 0) then Panic P_inner else
      let id := npid s in
      let n := mkO true id owner pos 0 0 trig den amt tp pool asset in
      match send (bk s) (AUser owner) (esc n) den amt with
      | None => Err E_funds
      | Some b => Ok (mkS b (ords s ++ [n]) (nsid s) (id + 1))
      end
  | OUpdatePerp sender id trig minL maxL maxS =>
      if (trig <? 0) || (id =? 0) then Err E_invalid else
      match find_ord true id (ords s) with
      | None => Err E_notfound
      | Some x =>
          if negb (o_owner x =? sender) then Err E_unauth else
          if trig =? 0 then Panic P_divzero else
          let ratio := dquo (o_tp x) trig in
          if (o_type x =? 1) && ((ratio <? minL) || (maxL <? ratio)) then Err E_ratio else
          if (o_type x =? 2) && (maxS <? ratio) then Err E_ratio else
          let n := mkO true id (o_owner x) (o_type x) 0 0 trig (o_den x) (o_amt x) (o_tp x) (o_pool x) (o_asset x) in
          Ok (mkS (bk s) (replace_ord n (ords s)) (nsid s) (npid s))
      end
  | OCancelPerp sender id => cancel_one sender true id s
  | OCancelPerps sender ids =>
      match ids with [] => Err E_invalid | _ =>
        if existsb (fun i => i =? 0) ids then Err E_invalid else cancel_list sender true ids s end
  | OExecute sender sids pids =>
      match sids, pids with
      | [], [] => Err E_invalid
      | _, _ =>
        if existsb (fun x => fst x =? 0) sids || existsb (fun x => fst x =? 0) pids then Err E_invalid else
        do s1 <- exec_list fixed false sids s; exec_list fixed true pids s1
      end
  | OSend from to d amt =>
      if (amt <=? 0) || future_esc s to then Err E_invalid else
      match send (bk s) (AUser from) to d amt with
      | None => Err E_funds
      | Some b => Ok (set_bk s b)
      end
  | OEnv l => Ok (set_bk s (set_wallets (bk s) l))
  end.

Definition step := step_gen false.        (* the code as it is *)
Definition step_fixed := step_gen true.   (* with a cache context around each order attempt *)

Definition exec_gen (fixed : bool) (s : state) (o : op) : state := run_tx (fun s => step_gen fixed s o) s.
Definition run_gen (fixed : bool) (s : state) (l : list op) : state := fold_left (exec_gen fixed) l s.
Definition run := run_gen false.
Definition run_fixed := run_gen true.

(* ---------- the quantities the property talks about ---------- *)
(* funds of owner [u] in denom [d]: the wallet plus the escrow of every pending order of [u] *)
Fixpoint esc_sum (b : bank) (l : list order) (u d : Z) : Z :=
  match l with
  | [] => 0
  | o :: t => (if o_owner o =? u then b (esc o) d else 0) + esc_sum b t u d
  end.

Definition total (s : state) (u d : Z) : Z := bk s (AUser u) d + esc_sum (bk s) (ords s) u d.
