(* C01: AMM reserves vs. the bank balance at the pool's address, DenomLiquidity vs. the sum of reserves.

   Level A - the ledger: the stored state (reserve, liquidity records, bank balance of the pool
   address) and the three primitives every code path is built from:
     x/amm/keeper/pool.go      AddToPoolBalanceAndUpdateLiquidity / RemoveFromPoolBalanceAndUpdateLiquidity
     x/amm/types/pool.go       addToPoolAssetBalances / subtractFromPoolAssetBalances (negative => error)
     x/amm/keeper/denom_liquidity.go  RecordTotalLiquidityIncrease / Decrease (not enough => error)
     bank SendCoins to / from the pool address (overdraft => error)
   and the paired operations the handlers perform with them (swap legs, fee skims, joins, exits,
   perpetual SendToAmmPool / SendFromAmmPool), plus plain third-party sends to the pool address.

   Level B - UpdatePoolForSwap + OnCollectFee as coded: the handler works on an in-memory pool whose
   PoolAssets array is shared with the nested fee-conversion swap that runs on a cache context. The
   in-memory array [mem] is therefore a separate component from the store; a discarded branch drops
   store writes but not array writes unless the code restores them ([restore] = the fix: commit).

   Pools and denoms are small naturals (interned by the harness). Amounts are Z. *)
From Coq Require Import ZArith List Bool Arith.
From Elys Require Import Base.Res Base.Fn.
Import ListNotations.
Open Scope Z_scope.

Record amm := mkAmm {
  reserve : nat -> nat -> Z;    (* stored pool.PoolAssets[d].Token.Amount *)
  pbank   : nat -> nat -> Z;    (* bank balance of denom d at pool p's own address *)
  liq     : nat -> Z;           (* DenomLiquidity record *)
  donated : nat -> nat -> Z     (* ghost: sent straight to the pool address outside the protocol *)
}.

Definition E_neg := 1%nat.
Definition E_liq := 2%nat.
Definition E_funds := 3%nat.
Definition E_amount := 4%nat.

(* AddToPoolBalanceAndUpdateLiquidity (shares 0) for one coin *)
Definition add_book (s : amm) (p d : nat) (a : Z) : res amm :=
  Ok (mkAmm (upd2 (reserve s) p d (reserve s p d + a)) (pbank s) (upd (liq s) d (liq s d + a)) (donated s)).

(* RemoveFromPoolBalanceAndUpdateLiquidity (shares 0) for one coin *)
Definition remove_book (s : amm) (p d : nat) (a : Z) : res amm :=
  if reserve s p d - a <? 0 then Err E_neg
  else if liq s d <? a then Err E_liq
  else Ok (mkAmm (upd2 (reserve s) p d (reserve s p d - a)) (pbank s) (upd (liq s) d (liq s d - a)) (donated s)).

Definition bank_in (s : amm) (p d : nat) (a : Z) : res amm :=
  Ok (mkAmm (reserve s) (upd2 (pbank s) p d (pbank s p d + a)) (liq s) (donated s)).

Definition bank_out (s : amm) (p d : nat) (a : Z) : res amm :=
  if pbank s p d <? a then Err E_funds
  else Ok (mkAmm (reserve s) (upd2 (pbank s) p d (pbank s p d - a)) (liq s) (donated s)).

Inductive aop :=
| AIn (p d : nat) (a : Z)       (* transfer into the pool + book increase *)
| AOut (p d : nat) (a : Z)      (* transfer out of the pool + book decrease *)
| ADonate (p d : nat) (a : Z).  (* a third party's plain send to the pool address *)

Definition astep (s : amm) (o : aop) : res amm :=
  match o with
  | AIn p d a => guard (0 <=? a) E_amount (do s1 <- bank_in s p d a; add_book s1 p d a)
  | AOut p d a => guard (0 <=? a) E_amount (do s1 <- bank_out s p d a; remove_book s1 p d a)
  | ADonate p d a => guard (0 <=? a) E_amount (
      do s1 <- bank_in s p d a;
      Ok (mkAmm (reserve s1) (pbank s1) (liq s1) (upd2 (donated s1) p d (donated s1 p d + a))))
  end.

(* a transaction = a list of primitive steps, all or nothing *)
Fixpoint asteps (s : amm) (l : list aop) : res amm :=
  match l with [] => Ok s | o :: r => do s1 <- astep s o; asteps s1 r end.
Definition atx (s : amm) (l : list aop) : amm := run_tx (fun s => asteps s l) s.
Definition arun (s : amm) (h : list (list aop)) : amm := fold_left atx h s.

(* ---------------- Level B: UpdatePoolForSwap / OnCollectFee ---------------- *)

(* the handler's in-memory pool: only the PoolAssets array matters here (for pool p) *)
Definition memarr := nat -> Z.

Record hstate := mkH { st : amm; mem : memarr }.

(* k.AddToPoolBalanceAndUpdateLiquidity(ctx, &pool, 0, coin): array += a; SetPool(array); liq += a *)
Definition h_add (h : hstate) (p d : nat) (a : Z) : res hstate :=
  let m := upd (mem h) d (mem h d + a) in
  let s := st h in
  Ok (mkH (mkAmm (fun x y => if Nat.eqb x p then m y else reserve s x y) (pbank s) (upd (liq s) d (liq s d + a)) (donated s)) m).

(* k.RemoveFromPoolBalanceAndUpdateLiquidity: the array is written before the error checks? No:
   subtractFromPoolAssetBalances returns before storing into the array when negative. *)
Definition h_remove (h : hstate) (p d : nat) (a : Z) : res hstate :=
  if mem h d - a <? 0 then Err E_neg else
  let m := upd (mem h) d (mem h d - a) in
  let s := st h in
  if liq s d <? a then
    (* SetPool already happened, then RecordTotalLiquidityDecrease fails: the error aborts the
       enclosing (cache) context, only the array write survives *)
    Err E_liq
  else Ok (mkH (mkAmm (fun x y => if Nat.eqb x p then m y else reserve s x y) (pbank s) (upd (liq s) d (liq s d - a)) (donated s)) m).

Definition h_bank_in (h : hstate) (p d : nat) (a : Z) : res hstate :=
  do s <- bank_in (st h) p d a; Ok (mkH s (mem h)).
Definition h_bank_out (h : hstate) (p d : nat) (a : Z) : res hstate :=
  do s <- bank_out (st h) p d a; Ok (mkH s (mem h)).

(* Where the nested conversion swap may fail (resolved by the implementation):
   0 = does not fail; 1 = before touching anything (price / amount errors);
   2 = after the in-leg (transfer in + array/store update) when sending out fails;
   3 = after both legs, in the AfterSwap hooks. *)
Record nested := mkN { n_in : Z; n_out : Z; n_dout : nat; n_fail : nat }.

(* the array as the failing nested swap leaves it *)
Definition nested_mem_effect (m : memarr) (din : nat) (n : nested) : memarr :=
  match n_fail n with
  | 2%nat => upd m din (m din + n_in n)
  | 3%nat => upd (upd m din (m din + n_in n)) (n_dout n) (upd m din (m din + n_in n) (n_dout n) - n_out n)
  | _ => m
  end.

(* nested UpdatePoolForSwap(cacheCtx, pool(shared array), revenueAddr -> revenueAddr, zero fees) *)
Definition nested_swap (restore : bool) (h : hstate) (p din : nat) (n : nested) : res hstate :=
  match n_fail n with
  | 0%nat =>
      (* success: branch written *)
      do h1 <- h_bank_in h p din (n_in n);
      do h2 <- h_add h1 p din (n_in n);
      do h3 <- h_bank_out h2 p (n_dout n) (n_out n);
      h_remove h3 p (n_dout n) (n_out n)
  | _ =>
      (* failure: cache context dropped (store unchanged); the shared array keeps what the nested
         handler wrote unless OnCollectFee restores it *)
      Ok (mkH (st h) (if restore then mem h else nested_mem_effect (mem h) din n))
  end.

(* UpdatePoolForSwap for pool p. [fee] is the skim sent to the rebalance treasury (0 = none),
   [conv] the nested conversion attempted by OnCollectFee (None when the fee is in the fee denom),
   [wb] the weight-breaking fee sent to the treasury. The final k.SetPool(ctx, pool) stores the array. *)
Definition swap_handler (restore : bool) (s : amm) (p din dout : nat) (ain aout fee wb : Z) (conv : option nested) : res amm :=
  let h0 := mkH s (reserve s p) in
  do h1 <- h_bank_in h0 p din ain;
  do h2 <- h_add h1 p din ain;
  do h3 <- h_bank_out h2 p dout aout;
  do h4 <- h_remove h3 p dout aout;
  do h5 <- (if 0 <? fee then
              do a <- h_bank_out h4 p din fee;
              do b <- h_remove a p din fee;
              match conv with Some n => nested_swap restore b p din n | None => Ok b end
            else Ok h4);
  do h6 <- (if 0 <? wb then do a <- h_bank_out h5 p din wb; h_remove a p din wb else Ok h5);
  (* k.SetPool(ctx, pool) *)
  let s6 := st h6 in
  Ok (mkAmm (fun x y => if Nat.eqb x p then mem h6 y else reserve s6 x y) (pbank s6) (liq s6) (donated s6)).

(* the same swap as a list of Level-A operations *)
Definition swap_as_aops (p din dout : nat) (ain aout fee wb : Z) (conv : option nested) : list aop :=
  [AIn p din ain; AOut p dout aout]
  ++ (if 0 <? fee then
        AOut p din fee ::
        match conv with
        | Some n => if Nat.eqb (n_fail n) 0 then [AIn p din (n_in n); AOut p (n_dout n) (n_out n)] else []
        | None => []
        end
      else [])
  ++ (if 0 <? wb then [AOut p din wb] else []).
