(* C15 - the bank's supply per denomination, the table of mint/burn call sites and what a site may do.
   Definitions only (proofs: Proofs/SupplyProofs.v).

   STATIC part. [site] is one row of Generated/MintSites.v, which tools/gotrans (subcommand mintsites)
   regenerates from the Go sources of /repo on every run: every MintCoins / BurnCoins call (on a bank
   keeper, on the commitment keeper's wrapper, or through an in-tree function that forwards its coins
   parameter) with the syntactic class of the denomination and the reachability class of the enclosing
   function. [site_ok] is the rule of the property:
     - externally issued denominations: no site at all;
     - the native token: minted only by the commitment module's vesting release (ClaimVesting, VestNow),
       burned only by the burner / governance / staking-pool accounts;
     - pool shares only by the amm account, vault shares only by the stablestake account;
     - Eden / EdenB only through the commitment wrapper, which books them as claimed balances (virtual);
     - the burner burns what it collected from the zero address;
     - a site whose denomination the translator cannot classify (DOther / an unresolved parameter) is
       allowed only if it is reachable from migration code or test helpers alone; a site whose
       reachability is unknown (RDead) is not allowed.

   DYNAMIC part. A step (one transaction or one block) is the ordered list of committed bank operations;
   every mint / burn names the table row it is attributed to. [op_ok] accepts an operation only if the row
   is an entry-reachable bank site of the right kind and module account whose (resolved) denomination
   class is compatible with the class of the runtime denomination, and if the pairing rule of that class
   holds inside the step (share mint <-> positive deposit into that pool / vault; share burn <-> withdrawal from
   it, or - an exit whose pro-rata amounts all round to zero moves no tokens - at least the hand-over of exactly
   the burned shares by their holder;
   native mint <-> release of exactly that amount by the commitment module, burner burn <-> collection of
   exactly that coin from the zero address). *)
From Coq Require Import ZArith List Bool String Arith.
From Elys Require Import Base.Fn.
Import ListNotations.
Open Scope Z_scope.

Inductive mkind := Mint | Burn.
Inductive target := TBank | TWrap (f : string).
Inductive dexpr :=
| DElys | DElysGuarded | DEden | DEdenB | DPoolShare | DVaultShare | DZeroBal
| DParam (f : string) | DOther (txt : string).
Inductive reach := REntry | RMigOnly | RTestOnly | RDead.

Record site := mkSite {
  s_file : string; s_func : string; s_module : string; s_macc : string; s_kind : mkind; s_target : target;
  s_denoms : list dexpr;   (* syntactic classes at the call *)
  s_origin : list dexpr;   (* translator's own resolution of forwarded parameters (informational) *)
  s_strip : bool;          (* the coins went through the commitment wrapper: Eden/EdenB never reach the bank *)
  s_reach : reach }.

Definition mem (x : string) (l : list string) : bool := existsb (String.eqb x) l.
Definition kind_eqb (a b : mkind) : bool := match a, b with Mint, Mint | Burn, Burn => true | _, _ => false end.
Definition is_bank (s : site) : bool := match s_target s with TBank => true | _ => false end.
Definition is_entry (s : site) : bool := match s_reach s with REntry => true | _ => false end.
Definition is_param (e : dexpr) : bool := match e with DParam _ => true | _ => false end.
Definition wraps (f : string) (k : mkind) (c : site) : bool :=
  match s_target c with TWrap g => String.eqb f g && kind_eqb k (s_kind c) | TBank => false end.

(* classes that reach a site: a forwarded parameter is replaced by the classes found at the callers of
   the forwarding function (rows with target TWrap f), transitively *)
Fixpoint origins (fuel : nat) (tbl : list site) (s : site) : list dexpr :=
  match fuel with
  | O => s_denoms s
  | S n => flat_map (fun e => match e with
                             | DParam f => flat_map (origins n tbl) (filter (wraps f (s_kind s)) tbl)
                             | _ => [e]
                             end) (s_denoms s)
  end.
Definition origin_fuel : nat := 5.
Definition origin_of (tbl : list site) (s : site) : list dexpr := origins origin_fuel tbl s.

Definition vest_release_fns : list string := ["ClaimVesting"; "VestNow"]%string.
Definition native_burners : list string := ["burner"; "gov"; "bonded_tokens_pool"; "not_bonded_tokens_pool"]%string.

Definition origin_ok (s : site) (e : dexpr) : bool :=
  match e with
  | DEden | DEdenB => s_strip s
  | DElys | DElysGuarded =>
      match s_kind s with
      | Mint => String.eqb (s_macc s) "commitment" && String.eqb (s_module s) "commitment" && mem (s_func s) vest_release_fns
      | Burn => mem (s_macc s) native_burners
      end
  | DPoolShare => String.eqb (s_macc s) "amm" && String.eqb (s_module s) "amm"
  | DVaultShare => String.eqb (s_macc s) "stablestake" && String.eqb (s_module s) "stablestake"
  | DZeroBal => kind_eqb (s_kind s) Burn && String.eqb (s_macc s) "burner" && String.eqb (s_module s) "burner"
  | DParam _ | DOther _ => false
  end.

Definition is_nil {A} (l : list A) : bool := match l with [] => true | _ => false end.

Definition site_ok (tbl : list site) (s : site) : bool :=
  match s_reach s with
  | RMigOnly | RTestOnly => true      (* cannot act in a transaction or a block; listed in the evidence *)
  | RDead => false
  | REntry =>
      match s_target s with
      | TWrap _ => true               (* judged at the bank call it is forwarded to *)
      | TBank => forallb (origin_ok s) (origin_of tbl s) &&
                 (negb (is_nil (origin_of tbl s)) || forallb is_param (s_denoms s))
      end
  end.

(* standard SDK burns the property allows (not in x/ or app/, so not in the generated table) *)
Definition sdk_sites : list site := [
  mkSite "cosmos-sdk/x/gov/keeper/deposit.go" "DeleteAndBurnDeposits" "gov" "gov" Burn TBank [DElys] [DElys] false REntry;
  mkSite "cosmos-sdk/x/staking/keeper/pool.go" "burnBondedTokens" "staking" "bonded_tokens_pool" Burn TBank [DElys] [DElys] false REntry;
  mkSite "cosmos-sdk/x/staking/keeper/pool.go" "burnNotBondedTokens" "staking" "not_bonded_tokens_pool" Burn TBank [DElys] [DElys] false REntry
]%string.

(* module account permissions (app/modules.go maccPerms, also in the generated file) *)
Definition minter_allow : list string :=
  ["ammmoduletypes.ModuleName"; "commitmentmoduletypes.ModuleName"; "stablestaketypes.ModuleName"; "masterchefmoduletypes.ModuleName";
   "ibctransfertypes.ModuleName"; "minttypes.ModuleName"]%string.
Definition burner_allow : list string :=
  ["ammmoduletypes.ModuleName"; "commitmentmoduletypes.ModuleName"; "stablestaketypes.ModuleName"; "masterchefmoduletypes.ModuleName";
   "ibctransfertypes.ModuleName"; "burnermoduletypes.ModuleName"; "govtypes.ModuleName"; "stakingtypes.BondedPoolName";
   "stakingtypes.NotBondedPoolName"; "ccvconsumertypes.ConsumerRedistributeName"]%string.
Definition perm_ok (p : string * string * list string) : bool :=
  let '(e, _, ps) := p in
  (negb (mem "Minter" ps) || mem e minter_allow) && (negb (mem "Burner" ps) || mem e burner_allow).
(* every entry-reachable bank site on a concrete Elys module account has the permission it needs *)
Definition site_has_perm (perms : list (string * string * list string)) (s : site) : bool :=
  negb (is_entry s && is_bank s) || String.eqb (s_macc s) "" || (if String.prefix "param:" (s_macc s) then true else
  existsb (fun '(_, n, ps) => String.eqb n (s_macc s) && mem (match s_kind s with Mint => "Minter" | Burn => "Burner" end)%string ps) perms).

(* ------------------------------------------------------------------ dynamic part *)

Inductive rdenom := RExternal | RNative | RVirtual | RPoolShare (pool_acct : nat) | RVaultShare (vault_acct : nat).

Inductive bop :=
| Send (from to d : nat) (a : Z)
| MintOp (row : nat) (macc : string) (d : nat) (a : Z)
| BurnOp (row : nat) (macc : string) (d : nat) (a : Z).

Record world := mkW { w_dcl : nat -> rdenom; w_zero : nat; w_burner : nat; w_commit : nat }.

Definition dcl_of (l : list (nat * rdenom)) : nat -> rdenom :=
  fun d => match find (fun p => Nat.eqb (fst p) d) l with Some p => snd p | None => RExternal end.

Definition compat (e : dexpr) (r : rdenom) : bool :=
  match e, r with
  | DElys, RNative | DElysGuarded, RNative => true
  | DPoolShare, RPoolShare _ => true
  | DVaultShare, RVaultShare _ => true
  | DEden, _ | DEdenB, _ => false                 (* virtual: booked by the wrapper, never a bank operation *)
  | DZeroBal, _ | DParam _, _ | DOther _, _ => true (* not known statically: anything *)
  | _, _ => false
  end.

Definition macc_matches (s : site) (m : string) : bool :=
  String.eqb (s_macc s) m || String.prefix "param:" (s_macc s).

Definition has_send_to (acct : nat) (st : list bop) : bool :=
  existsb (fun o => match o with Send _ t _ a => Nat.eqb t acct && (0 <? a) | _ => false end) st.
Definition has_send_from (acct : nat) (st : list bop) : bool :=
  existsb (fun o => match o with Send f _ _ a => Nat.eqb f acct && (0 <? a) | _ => false end) st.
Definition has_exact_send (f t d : nat) (a : Z) (st : list bop) : bool :=
  existsb (fun o => match o with Send f' t' d' a' => Nat.eqb f f' && Nat.eqb t t' && Nat.eqb d d' && (a =? a') | _ => false end) st.
(* the coin (d, a) itself changed hands in the step (a holder handed exactly these shares to the burning module) *)
Definition has_moved (d : nat) (a : Z) (st : list bop) : bool :=
  existsb (fun o => match o with Send _ _ d' a' => Nat.eqb d d' && (a =? a') | _ => false end) st.
Definition has_release (f d : nat) (a : Z) (st : list bop) : bool :=
  existsb (fun o => match o with Send f' _ d' a' => Nat.eqb f f' && Nat.eqb d d' && (a =? a') | _ => false end) st.

Definition is_zero_bal (e : dexpr) : bool := match e with DZeroBal => true | _ => false end.
Definition zero_site (tbl : list site) (s : site) : bool := existsb is_zero_bal (origin_of tbl s).

Definition paired (W : world) (tbl : list site) (s : site) (st : list bop) (k : mkind) (d : nat) (a : Z) : bool :=
  if zero_site tbl s then
    (* the burner: only what it has just collected from the zero address, native or external *)
    kind_eqb k Burn &&
    match w_dcl W d with
    | RNative | RExternal => has_exact_send (w_zero W) (w_burner W) d a st
    | _ => false
    end
  else
    match w_dcl W d, k with
    | RPoolShare p, Mint => has_send_to p st
    | RPoolShare p, Burn => has_send_from p st || has_moved d a st
    | RVaultShare v, Mint => has_send_to v st
    | RVaultShare v, Burn => has_send_from v st || has_moved d a st
    | RNative, Mint => has_release (w_commit W) d a st
    | RNative, Burn => true
    | RVirtual, _ => false
    | RExternal, _ => false
    end.

Definition row_ok (W : world) (tbl : list site) (st : list bop) (k : mkind) (row : nat) (m : string) (d : nat) (a : Z) : bool :=
  (0 <? a) &&
  match nth_error tbl row with
  | None => false
  | Some s => is_entry s && is_bank s && kind_eqb k (s_kind s) && macc_matches s m &&
              existsb (fun e => compat e (w_dcl W d)) (origin_of tbl s) && paired W tbl s st k d a
  end.

Definition op_ok (W : world) (tbl : list site) (st : list bop) (o : bop) : bool :=
  match o with
  | Send _ _ _ a => 0 <=? a
  | MintOp row m d a => row_ok W tbl st Mint row m d a
  | BurnOp row m d a => row_ok W tbl st Burn row m d a
  end.

Definition step_ok (W : world) (tbl : list site) (st : list bop) : bool := forallb (op_ok W tbl st) st.

(* the bank: supply per denomination (sends move balances, never supply) *)
Definition supply := nat -> Z.
Definition delta (d : nat) (o : bop) : Z :=
  match o with
  | Send _ _ _ _ => 0
  | MintOp _ _ d' a => if Nat.eqb d' d then a else 0
  | BurnOp _ _ d' a => if Nat.eqb d' d then - a else 0
  end.
Definition apply_op (s : supply) (o : bop) : supply :=
  match o with
  | Send _ _ _ _ => s
  | MintOp _ _ d a => upd s d (s d + a)
  | BurnOp _ _ d a => upd s d (s d - a)
  end.
Definition apply_step (s : supply) (st : list bop) : supply := fold_left apply_op st s.
Definition run (h : list (list bop)) (s : supply) : supply := fold_left apply_step h s.

(* bookkeeping used in the statements *)
Fixpoint zsum_map {A} (f : A -> Z) (l : list A) : Z := match l with [] => 0 | x :: r => f x + zsum_map f r end.
Definition minted (d : nat) (h : list (list bop)) : Z :=
  zsum_map (fun st => zsum_map (fun o => match o with MintOp _ _ d' a => if Nat.eqb d' d then a else 0 | _ => 0 end) st) h.
Definition burned (d : nat) (h : list (list bop)) : Z :=
  zsum_map (fun st => zsum_map (fun o => match o with BurnOp _ _ d' a => if Nat.eqb d' d then a else 0 | _ => 0 end) st) h.
Definition collects_from_zero (W : world) (d : nat) (st : list bop) : bool :=
  existsb (fun o => match o with Send f t d' _ => Nat.eqb f (w_zero W) && Nat.eqb t (w_burner W) && Nat.eqb d d' | _ => false end) st.

Definition mints_of (d : nat) (st : list bop) : list (nat * string * Z) :=
  flat_map (fun o => match o with MintOp r m d' a => if Nat.eqb d' d then [(r, m, a)] else [] | _ => [] end) st.
Definition burns_of (d : nat) (st : list bop) : list (nat * string * Z) :=
  flat_map (fun o => match o with BurnOp r m d' a => if Nat.eqb d' d then [(r, m, a)] else [] | _ => [] end) st.
