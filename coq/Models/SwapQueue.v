(* C04 - the end-of-block swap batch of x/amm (definitions only; proofs in Proofs/SwapQueueProofs.v).

   Modelled exactly (as coded in /repo):
     - msg_server_swap_exact_amount_in/out.go, msg_server_swap_by_denom.go: the handler dry-runs the
       route on a cache context that is never written and, on success, appends the request under the
       next index of the transient store ([enqueue], [msg_req]); the by-denom handler forwards the
       Recipient only on its exact-in branch;
     - abci.go ExecuteSwapRequests: the selection loop with its four outcomes, every ApplySwapRequest on
       a cache context written only on success, deletion of requests ([iter], [loop]); the selection
       (SelectOneSwapRequest / SelectReverseSwapRequest) and the stacked-slippage comparison are
       PARAMETERS of the loop (theorems hold for all of them); the coded selection over the real store
       keys is [sel1c]/[sel2c];
     - route_exact_amount_in.go / route_exact_amount_out.go: hop loop, per-hop recipient, per-hop limit
       (1 / TokenOutMinAmount; insExpected[i] with insExpected[0] := TokenInMaxAmount), chaining;
     - keeper_swap_exact_amount_in/out.go + update_pool_for_swap.go: order of checks and transfers of a
       hop: sender->pool, pool->recipient, fee/treasury/revenue transfers, optional treasury->recipient
       bonus, hooks; bank overdraft = error; any error discards the whole request (cache context).
   Taken from the implementation (choices, universally quantified in the theorems): the priced amount
   of every hop, insExpected, the fee / nested fee-swap transfers between the pool's own addresses, the
   bonus amount, and whether pricing or a hook failed. *)
From Coq Require Import ZArith List Bool Arith.
From Elys Require Import Base.Res Base.Fn.
Import ListNotations.
Open Scope Z_scope.

Definition bank := nat -> nat -> Z.            (* address -> denom -> balance *)

(* e_blocked: bank's blocked-address list (module accounts that must not receive funds), consulted by the swap
   handlers since fix: a75f29f *)
Record env := mkEnv { e_pool : nat -> nat; e_treas : nat -> nat; e_rev : nat -> nat; e_blocked : nat -> bool }.

Inductive role := RPool | RTreas | RRev.
Definition role_addr (e : env) (p : nat) (r : role) : nat :=
  match r with RPool => e_pool e p | RTreas => e_treas e p | RRev => e_rev e p end.

(* bank SendCoins: invalid (non-positive) coins and overdrafts are errors *)
Definition send (b : bank) (from to d : nat) (amt : Z) : res bank :=
  if amt <=? 0 then Err 10 else
  if b from d <? amt then Err 11 else
  let b1 := upd2 b from d (b from d - amt) in
  Ok (upd2 b1 to d (b1 to d + amt)).

Definition sysop := (role * role * nat * Z)%type.

Fixpoint sys_sends (e : env) (p : nat) (b : bank) (l : list sysop) : res bank :=
  match l with
  | [] => Ok b
  | (rf, rt, d, x) :: r => do b1 <- send b (role_addr e p rf) (role_addr e p rt) d x; sys_sends e p b1 r
  end.

Record hopc := mkHop {
  h_fail_pre : bool;        (* pool lookup / pricing / liquidity error before any transfer *)
  h_amt : Z;                (* exact-in: token out amount; exact-out: token in amount *)
  h_sys : list sysop;       (* swap fee, weight-breaking fee, revenue transfer, nested fee conversion *)
  h_bonus : Z;              (* weight-balance bonus, treasury -> hop recipient, paid when positive *)
  h_fail_post : bool        (* a later step of UpdatePoolForSwap (book update, hook) failed *)
}.

(* UpdatePoolForSwap *)
Definition do_hop (e : env) (b : bank) (s to p din : nat) (ain : Z) (dout : nat) (aout : Z) (c : hopc) : res bank :=
  do b1 <- send b s (e_pool e p) din ain;
  do b2 <- send b1 (e_pool e p) to dout aout;
  do b3 <- sys_sends e p b2 (h_sys c);
  do b4 <- (if 0 <? h_bonus c then send b3 (e_treas e p) to dout (h_bonus c) else Ok b3);
  if h_fail_post c then Err 5 else Ok b4.

Definition is_nil {A} (l : list A) : bool := match l with [] => true | _ => false end.

(* RouteExactAmountIn + InternalSwapExactAmountIn; hops = (pool id, token out denom) *)
Fixpoint in_loop (e : env) (s rc : nat) (hops : list (nat * nat)) (cs : list hopc) (lim : Z)
         (din : nat) (ain : Z) (b : bank) : res bank :=
  match hops with
  | [] => Ok b
  | (p, dout) :: rest =>
      match cs with
      | [] => Err 9
      | c :: cs' =>
          let last := is_nil rest in
          let to := if last then rc else s in
          let minout := if last then lim else 1 in
          if Nat.eqb din dout then Err 2 else
          if h_fail_pre c then Err 1 else
          if h_amt c <=? 0 then Err 3 else
          if h_amt c <? minout then Err 4 else
          do b1 <- do_hop e b s to p din ain dout (h_amt c) c;
          in_loop e s rc rest cs' lim dout (h_amt c) b1
      end
  end.

(* RouteExactAmountOut + InternalSwapExactAmountOut; hops = (pool id, token in denom).
   [coded = true] is the code as it is: every hop pays out to the request's recipient.
   [coded = false] is the repaired routing (intermediate hops pay the sender, as exact-in does). *)
Definition out_to (coded last : bool) (s rc : nat) : nat := if last then rc else if coded then rc else s.

Fixpoint out_loop (e : env) (coded : bool) (s rc : nat) (hops : list (nat * nat)) (cs : list hopc) (lim : Z)
         (ins : list Z) (dfin : nat) (afin : Z) (b : bank) : res bank :=
  match hops with
  | [] => Ok b
  | (p, din) :: rest =>
      match cs with
      | [] => Err 9
      | c :: cs' =>
          let last := is_nil rest in
          let nxt := match rest, ins with
                     | [], _ => Some (dfin, afin, [])
                     | (_, din2) :: _, x :: ins' => Some (din2, x, ins')
                     | _, _ => None
                     end in
          match nxt with
          | None => Err 9
          | Some (dout, aout, ins') =>
              if Nat.eqb din dout then Err 2 else
              if h_fail_pre c then Err 1 else
              if h_amt c <=? 0 then Err 3 else
              if lim <? h_amt c then Err 4 else
              do b1 <- do_hop e b s (out_to coded last s rc) p din (h_amt c) dout aout c;
              out_loop e coded s rc rest cs' aout ins' dfin afin b1
          end
      end
  end.

Inductive skind := KIn | KOut.

Record req := mkReq {
  r_idx : nat;                  (* index in the transient store (last-swap-request-index + 1) *)
  r_kind : skind;
  r_sender : nat;
  r_rcpt : nat;
  r_hops : list (nat * nat);    (* exact-in: (pool, token out denom); exact-out: (pool, token in denom) *)
  r_denom : nat;                (* exact-in: TokenIn.Denom;  exact-out: TokenOut.Denom *)
  r_amt : Z;                    (* exact-in: TokenIn.Amount; exact-out: TokenOut.Amount *)
  r_limit : Z;                  (* exact-in: TokenOutMinAmount; exact-out: TokenInMaxAmount *)
  r_key : list nat;             (* bytes of the transient store key (types.TKeyPrefixSwapExactAmountIn/Out) *)
  r_rpfx : list nat             (* bytes of the reversed prefix used by SelectReverseSwapRequest *)
}.

Record choice := mkCh {
  c_fail : bool;                (* route validation / multihop fee / estimation failed before the hop loop *)
  c_ins : list Z;               (* exact-out: insExpected (length = number of hops; entry 0 is overwritten) *)
  c_hops : list hopc
}.

Definition apply_in (e : env) (b : bank) (r : req) (c : choice) : res bank :=
  if c_fail c then Err 1 else
  if is_nil (r_hops r) then Err 6 else
  in_loop e (r_sender r) (r_rcpt r) (r_hops r) (c_hops c) (r_limit r) (r_denom r) (r_amt r) b.

Definition apply_out_gen (coded : bool) (e : env) (b : bank) (r : req) (c : choice) : res bank :=
  if c_fail c then Err 1 else
  if is_nil (r_hops r) then Err 6 else
  if negb (Nat.eqb (length (c_ins c)) (length (r_hops r))) then Err 9 else
  out_loop e coded (r_sender r) (r_rcpt r) (r_hops r) (c_hops c) (r_limit r) (tl (c_ins c)) (r_denom r) (r_amt r) b.

(* ApplySwapRequest *)
Definition settle_gen (coded : bool) (e : env) (b : bank) (r : req) (c : choice) : res bank :=
  match r_kind r with KIn => apply_in e b r c | KOut => apply_out_gen coded e b r c end.
(* The two sites where the tree departed from the property (both confirmed on the real code and repaired):
   [coded = true]  RouteExactAmountOut as it was before fix: e1a97d2 (every hop's output paid to the recipient);
   [fwd = false]   SwapByDenom as it was before fix: f444cb8 (Recipient not forwarded on the exact-out branch).
   The constants record the tree as it is NOW (both repaired); the pre-fix variants survive only for the
   [_refuted] theorems of Props/C04.v. *)
Definition cur_out_coded : bool := false.
Definition cur_bydenom_fwd : bool := true.
Definition settle := settle_gen cur_out_coded.  (* the code as it is *)
Definition settle_fixed := settle_gen false.

(* ---- messages and the transient queue ---- *)

Inductive msg :=
| MIn (r : req)                (* MsgSwapExactAmountIn *)
| MOut (r : req)               (* MsgSwapExactAmountOut *)
| MByDenom (r : req).          (* MsgSwapByDenom with the route it resolved to; r_rcpt = msg.Recipient *)

Definition set_rcpt (r : req) (a : nat) : req :=
  mkReq (r_idx r) (r_kind r) (r_sender r) a (r_hops r) (r_denom r) (r_amt r) (r_limit r) (r_key r) (r_rpfx r).

(* the request the handler stores; before fix: f444cb8 ([fwd = false]) SwapByDenom built the exact-out message
   without Recipient, which SwapExactAmountOut then defaults to the sender *)
Definition msg_req_gen (fwd : bool) (m : msg) : req :=
  match m with
  | MIn r => r
  | MOut r => r
  | MByDenom r => match r_kind r with KIn => r | KOut => if fwd then r else set_rcpt r (r_sender r) end
  end.
Definition msg_req := msg_req_gen cur_bydenom_fwd.

Record st := mkSt { s_bank : bank; s_q : list req; s_last : nat }.

(* the handler: dry run on a cache context that is dropped, then Set...Requests(index = last+1) *)
Definition enqueue (e : env) (s : st) (m : msg) (c : choice) : res st :=
  let r := msg_req m in
  if e_blocked e (r_rcpt r) then Err 12 else      (* recipient is a blocked module account *)
  do _ <- settle e (s_bank s) r c;
  if negb (Nat.eqb (r_idx r) (S (s_last s))) then Err 99 else
  Ok (mkSt (s_bank s) (s_q s ++ [r]) (S (s_last s))).

Definition del (m : req) (q : list req) : list req :=
  filter (fun x => negb (Nat.eqb (r_idx x) (r_idx m))) q.

(* one deletion from the queue: the request, whether its cache context was written, bank before/after *)
Record ev := mkEv { ev_req : req; ev_applied : bool; ev_before : bank; ev_after : bank; ev_choice : choice }.

Section Batch.
  Variable e : env.
  Variable coded : bool.
  Variable sel1 : list req -> option req.            (* SelectOneSwapRequest(ctx, []) *)
  Variable sel2 : list req -> req -> option req.     (* SelectReverseSwapRequest(ctx, msg1) *)
  Variable ch : nat -> bool -> req -> choice.        (* amounts resolved in iteration n, first/second try *)
  Variable lt : nat -> bool.                         (* stackedSlippage1.LT(stackedSlippage2) in iteration n *)

  (* one iteration of the for-loop of ExecuteSwapRequests; None = break *)
  Definition iter (n : nat) (q : list req) (b : bank) : option (list req * bank * list ev) :=
    match sel1 q with
    | None => None
    | Some m1 =>
        let c1 := ch n false m1 in
        match sel2 q m1 with
        | None =>
            match settle_gen coded e b m1 c1 with
            | Ok b' => Some (del m1 q, b', [mkEv m1 true b b' c1])
            | _ => Some (del m1 q, b, [mkEv m1 false b b c1])
            end
        | Some m2 =>
            let c2 := ch n true m2 in
            match settle_gen coded e b m1 c1, settle_gen coded e b m2 c2 with
            | Ok b1, Ok b2 =>
                if lt n then Some (del m1 q, b1, [mkEv m1 true b b1 c1])
                else Some (del m2 q, b2, [mkEv m2 true b b2 c2])
            | Ok _, _ => Some (del m2 q, b, [mkEv m2 false b b c2])
            | _, Ok _ => Some (del m1 q, b, [mkEv m1 false b b c1])
            | _, _ => Some (del m2 (del m1 q), b, [mkEv m1 false b b c1; mkEv m2 false b b c2])
            end
        end
    end.

  (* the for-loop; None = fuel exhausted (proved impossible with fuel > |queue|) *)
  Fixpoint loop (fuel n : nat) (q : list req) (b : bank) (tr : list ev) : option (list req * bank * list ev) :=
    match fuel with
    | O => None
    | S f =>
        match iter n q b with
        | None => Some (q, b, tr)
        | Some (q', b', evs) => loop f (S n) q' b' (tr ++ evs)
        end
    end.

  Definition exec_requests (q : list req) (b : bank) := loop (2 * length q + 1) 0 q b [].

  (* amm EndBlocker followed by Commit (transient store reset) *)
  Definition end_block (s : st) : option (st * list ev) :=
    match exec_requests (s_q s) (s_bank s) with
    | None => None
    | Some (_, b, tr) => Some (mkSt b [] 0, tr)
    end.
End Batch.

(* ---- the selection as coded, over the real store keys ---- *)

Fixpoint key_ltb (a b : list nat) : bool :=
  match a, b with
  | [], [] => false
  | [], _ :: _ => true
  | _ :: _, [] => false
  | x :: r, y :: t => if Nat.ltb x y then true else if Nat.ltb y x then false else key_ltb r t
  end.

Fixpoint has_prefix (p k : list nat) : bool :=
  match p, k with
  | [], _ => true
  | _ :: _, [] => false
  | x :: r, y :: t => Nat.eqb x y && has_prefix r t
  end.

Fixpoint min_key (l : list req) : option req :=
  match l with
  | [] => None
  | x :: r => match min_key r with
              | None => Some x
              | Some m => if key_ltb (r_key m) (r_key x) then Some m else Some x
              end
  end.

Definition is_in (r : req) : bool := match r_kind r with KIn => true | KOut => false end.

(* SelectOneSwapRequest(ctx, prefix): first key of the exact-in store under the prefix, else of the exact-out store *)
Definition sel_first (pfx : list nat) (q : list req) : option req :=
  match min_key (filter (fun r => is_in r && has_prefix pfx (r_key r)) q) with
  | Some m => Some m
  | None => min_key (filter (fun r => negb (is_in r) && has_prefix pfx (r_key r)) q)
  end.
Definition sel1c (q : list req) : option req := sel_first [] q.
Definition sel2c (q : list req) (m : req) : option req := sel_first (r_rpfx m) q.
