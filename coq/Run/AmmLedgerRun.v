(* Correspondence evaluator for Models/AmmLedger.v: replays, step by step, the pool-related bank
   operations the real application committed (read from the SDK's bank events) through the ledger
   machine, and compares reserves, pool bank balances and liquidity records with what the keepers
   report after every transaction and every block. Level B: blocks that consist of exactly one swap
   are additionally replayed through the handler model [swap_handler true]. *)
From Coq Require Import ZArith List Bool Arith.
From Elys Require Import Base.Res Base.Fn Models.AmmLedger.
Import ListNotations.
Open Scope Z_scope.

Record cobs := mkObs { o_res : list (nat * nat * Z * Z); o_liq : list (nat * Z) }.

Definition lookup2 (l : list (nat * nat * Z * Z)) (sel : Z * Z -> Z) (p d : nat) : Z :=
  match find (fun '(p', d', _, _) => Nat.eqb p p' && Nat.eqb d d') l with
  | Some (_, _, r, b) => sel (r, b) | None => 0 end.
Definition lookup1 (l : list (nat * Z)) (d : nat) : Z :=
  match find (fun '(d', _) => Nat.eqb d d') l with Some (_, v) => v | None => 0 end.

Definition init_of (o : cobs) : amm :=
  mkAmm (lookup2 (o_res o) fst) (lookup2 (o_res o) snd) (lookup1 (o_liq o)) (fun _ _ => 0).

Definition matches (s : amm) (o : cobs) : bool :=
  forallb (fun '(p, d, r, b) => (reserve s p d =? r) && (pbank s p d =? b)) (o_res o) &&
  forallb (fun '(d, l) => liq s d =? l) (o_liq o).

(* optional Level-B view of the same step *)
Record bswap := mkB { b_p : nat; b_din : nat; b_dout : nat; b_ain : Z; b_aout : Z; b_fee : Z; b_wb : Z; b_conv : option nested }.

Definition step_ok (s : amm) (ops : list aop) (b : option bswap) (o : cobs) : amm * bool :=
  let s' := atx s ops in
  let okA := matches s' o in
  let okB := match b with
             | None => true
             | Some w => match swap_handler true s (b_p w) (b_din w) (b_dout w) (b_ain w) (b_aout w) (b_fee w) (b_wb w) (b_conv w) with
                         | Ok t => matches (mkAmm (reserve t) (pbank t) (liq t) (donated s')) o
                         | _ => false end
             end in
  (s', okA && okB).

Fixpoint replay (s : amm) (l : list (list aop * option bswap * cobs)) (idx : Z) : list Z :=
  match l with
  | [] => []
  | (ops, b, o) :: r => let '(s', ok) := step_ok s ops b o in if ok then replay s' r (idx + 1) else [idx]
  end.

Record lcase := mkLC { lc_id : Z; lc_init : cobs; lc_steps : list (list aop * option bswap * cobs) }.

Definition mismatches (cs : list lcase) : list (Z * Z) :=
  flat_map (fun c => map (fun i => (lc_id c, i)) (replay (init_of (lc_init c)) (lc_steps c) 0)) cs.
