(* Differential evaluator for Base/Zdec.v: (opcode, a, b, expected raw integer). *)
From Coq Require Import ZArith List Bool.
From Elys Require Import Base.Zdec.
Import ListNotations.
Open Scope Z_scope.

Definition zdec_eval (op : nat) (a b : Z) : Z :=
  match op with
  | 0%nat => dmul a b | 1%nat => dmul_trunc a b | 2%nat => dmul_round_up a b | 3%nat => dmul_int a b
  | 4%nat => dquo a b | 5%nat => dquo_trunc a b | 6%nat => dquo_round_up a b | 7%nat => dquo_int a b
  | 8%nat => round_int a | 9%nat => trunc_int a | 10%nat => dceil a | 11%nat => trunc_dec a
  | _ => 0
  end.

Definition mismatches (cs : list (Z * nat * Z * Z * Z)) : list Z :=
  flat_map (fun '(id, op, a, b, e) => if zdec_eval op a b =? e then [] else [id]) cs.
