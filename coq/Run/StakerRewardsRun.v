(* C18 - the per-block EdenB amount of the estaking end blocker against Models/StakerRewards.v (evaluated by vm_compute on
   the case files written by harness/c18_stake_test.go, TestC18Rewards).
   A case = (history id, list of rows); a row = (total bonded ELYS + committed Eden + committed EdenB after the block,
   EdenBoostApr as a raw LegacyDec, TotalBlocksPerYear, EdenB found on the cons_redistribute account after the block = the
   amount minted by UpdateStakersRewards in that block, the begin blocker having swept the previous one). *)
From Coq Require Import ZArith List Bool.
From Elys Require Import Base.Zdec Models.Blocks Models.StakerRewards.
Import ListNotations.
Open Scope Z_scope.

Fixpoint row_mismatches (k : nat) (rows : list (Z * Z * Z * Z)) : list nat :=
  match rows with
  | [] => []
  | (total, apr, tbpy, obs) :: r =>
      if (edenb_amount total apr tbpy =? obs) then row_mismatches (S k) r else k :: row_mismatches (S k) r
  end.

Definition rw_mismatches (cases : list (nat * list (Z * Z * Z * Z))) : list (nat * nat) :=
  flat_map (fun c => match row_mismatches 0 (snd c) with [] => [] | k :: _ => [(fst c, k)] end) cases.
