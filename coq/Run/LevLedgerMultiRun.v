(* Correspondence evaluator for Models/LevLedgerMulti.v. Per step (tx or block) the harness reports which positions of which
   leveraged-LP pool changed and by how much (open / close amounts) and what the keepers report afterwards: EVERY pool's
   recorded total, the module's open counter, and every touched or stored position's pool, amount and the shares committed
   at its address. A position must be stored in the machine of its own pool and in no other. *)
From Coq Require Import ZArith List Bool Arith.
From Elys Require Import Base.Res Base.Fn Models.SumLedger Models.LevLedger Models.LevLedgerMulti.
Import ListNotations.
Open Scope Z_scope.

Record mlobs := mkMLO { mo_totals : list (nat * Z); mo_count : Z; mo_pos : list (nat * nat * Z * Z) }.

Definition mlmatches (s : mlev) (o : mlobs) : bool :=
  forallb (fun '(p, t) => total (l_sl (ml_pool s p)) =? t) (mo_totals o) &&
  (ml_count s =? mo_count o) &&
  forallb (fun '(p, k, a, c) =>
             let t := ml_pool s p in
             (parts (l_sl t) k =? a) && (l_comm t k =? c) && (Bool.eqb (mem_key k (keys (l_sl t))) (negb (a =? 0))) &&
             forallb (fun '(q, _) => Nat.eqb q p || negb (mem_key k (keys (l_sl (ml_pool s q))))) (mo_totals o)) (mo_pos o).

Fixpoint mlreplay (s : mlev) (l : list (list (nat * lop) * mlobs)) (idx : Z) : list Z :=
  match l with
  | [] => []
  | (ops, o) :: r => let s' := mlrun s ops in if mlmatches s' o then mlreplay s' r (idx + 1) else [idx]
  end.

Record mlevcase := mkMLevC { mlv_id : Z; mlv_steps : list (list (nat * lop) * mlobs) }.
Definition mismatches (cs : list mlevcase) : list (Z * Z) :=
  flat_map (fun c => map (fun i => (mlv_id c, i)) (mlreplay mlev_empty (mlv_steps c) 0)) cs.
