(* Correspondence evaluator for Models/OwnerFlow.v + Generated/OwnerFlow.v (C17, owner-scoped part).
   The harness delivers, through the production router, messages signed by an ATTACKER that name objects
   of a VICTIM (positions, orders, commitments, pending rewards, ...) and records per delivery: module,
   request type, whether the harness expected the type to be object-scoped (it built a targeted case
   for it by hand), whether every id in the message was foreign, the result kind (0 ok / 1 err / 2 panic),
   whether any of the victim's objects differed on the handler's own branch afterwards, and whether any
   store differed at all.
   The model is the GENERATED flow skeleton of that handler, executed against the adversary that picks the
   victim's object at every Select and overwrites whatever is selected at every Write:
     - if the victim's object survives that run, the implementation must have left the victim's objects alone;
     - if the skeleton is "strictly compared" (id lookup, then owner comparison, before anything else) and the
       message names only foreign objects, the implementation must have failed without touching any store;
     - a type the harness targets by hand must be classified A/B/C (or be in the reviewed list). *)
From Coq Require Import ZArith String List Bool.
From Elys Require Import Models.OwnerFlow Generated.OwnerFlow.
Import ListNotations.
Open Scope string_scope.

Record ocase := mkOC {
  oc_id : Z; oc_mod : string; oc_req : string;
  oc_expect_scoped : bool; oc_only_foreign : bool;
  oc_kind : Z; oc_foreign_changed : bool; oc_any_changed : bool
}.

Definition find_flow (m r : string) : option oflow :=
  find (fun h => String.eqb (of_mod h) m && String.eqb (of_req h) r) oflows.

Fixpoint adv_step (s : ostep) (last : string) : list ch * string :=
  match s with
  | ORead _ | OCompare _ _ => ([], last)
  | OCheck => ([CCont], last)
  | OSelect _ n _ => ([CPick 1], n)
  | OWrite _ _ => ([CPut last (Some (mkObj "attacker" 1))], last)
  | OLoop _ b => let '(c, l) := adv_body b last in (CIter 1 :: c, l)
  | OInner _ _ _ b => adv_body b last
  end
with adv_body (b : obody) (last : string) : list ch * string :=
  match b with
  | ONil => ([], last)
  | OCons s r => let '(c1, l1) := adv_step s last in let '(c2, l2) := adv_body r l1 in ((c1 ++ c2)%list, l2)
  end.

Definition victim_store : ostore := fun i => if Nat.eqb i 1 then Some (mkObj "victim" 0) else None.

Definition survives (h : oflow) : bool :=
  let msg : message := fun f => if String.eqb f (of_signer h) then "attacker" else "" in
  match res_store (run_flow h msg victim_store (fst (adv_body (of_body h) ""))) 1%nat with
  | Some o => String.eqb (o_owner o) "victim" && Nat.eqb (o_ver o) 0
  | None => false
  end.

Definition ocase_ok (c : ocase) : bool :=
  match find_flow (oc_mod c) (oc_req c) with
  | None => false
  | Some h =>
    match of_class h with
    | CE => negb (oc_expect_scoped c)
    | _ =>
      if is_reviewed h then true else
        (if survives h then negb (oc_foreign_changed c) else true)
        && (if strictly_compared h && oc_only_foreign c then negb (Z.eqb (oc_kind c) 0) && negb (oc_any_changed c) else true)
        && (if oc_expect_scoped c then owner_scoped_class h else true)
    end
  end.

Definition omismatches (cs : list ocase) : list (Z * Z) :=
  flat_map (fun c => if ocase_ok c then [] else [(oc_id c, 1%Z)]) cs.
