(* Correspondence evaluator for Models/Vesting.v: replays the operations the harness executed on
   the real application and compares, after every step, the result kind and the acted account. *)
From Coq Require Import ZArith List Bool.
From Elys Require Import Base.Res Models.Vesting.
Import ListNotations.
Open Scope Z_scope.

(* o_usdc: the account's wallet of the liquid denom; o_mod: the commitment module's balance of it;
   an entry is (total, claimed, start, num, denom tag: 0 = uelys, 1 = the liquid denom) *)
Record obs := mkO { o_kind : Z; o_acct : nat; o_eden : Z; o_elys : Z; o_usdc : Z; o_mod : Z;
                    o_vs : list (Z * Z * Z * Z * Z) }.

Definition proj_vs (a : acct) : list (Z * Z * Z * Z * Z) :=
  map (fun v => (v_total v, v_claimed v, v_start v, v_num v, v_den v)) (a_vs a).

Fixpoint list_eqb {A} (eqb : A -> A -> bool) (a b : list A) : bool :=
  match a, b with
  | [], [] => true
  | x :: r, y :: t => eqb x y && list_eqb eqb r t
  | _, _ => false
  end.

Definition q_eqb (a b : Z * Z * Z * Z * Z) : bool :=
  let '(a1, a2, a3, a4, a5) := a in let '(b1, b2, b3, b4, b5) := b in
  (a1 =? b1) && (a2 =? b2) && (a3 =? b3) && (a4 =? b4) && (a5 =? b5).

Definition acct_matches (a : acct) (o : obs) : bool :=
  (a_eden a =? o_eden o) && (a_elys a =? o_elys o) && (a_usdc a =? o_usdc o) && list_eqb q_eqb (proj_vs a) (o_vs o).

Definition step_matches (clamp : bool) (s : state) (o : op) (e : obs) : state * bool :=
  let r := step_gen clamp s o in
  let s' := match r with Ok s' => s' | _ => s end in
  (s', (kind r =? o_kind e) && acct_matches (get_acct s' (o_acct e)) e && (s_mod s' =? o_mod e)).

Fixpoint replay (clamp : bool) (s : state) (l : list (op * obs)) (idx : Z) : list Z :=
  match l with
  | [] => []
  | (o, e) :: r =>
      let '(s', ok) := step_matches clamp s o e in
      if ok then replay clamp s' r (idx + 1) else [idx]   (* first diverging step *)
  end.

Record vcase := mkC { c_id : Z; c_p : params; c_init : list (Z * Z * Z); c_steps : list (op * obs) }.

Definition mismatches (clamp : bool) (cs : list vcase) : list (Z * Z) :=
  flat_map (fun c => map (fun i => (c_id c, i)) (replay clamp (init_state (c_p c) (c_init c)) (c_steps c) 0)) cs.
