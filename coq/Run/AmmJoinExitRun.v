(* Correspondence evaluator for Models/AmmJoinExit.v. Every case carries the inputs given to the real
   Go function and what it returned (result kind 0 ok / 1 err / 2 panic, and all integers on success);
   [mismatches] lists the ids of the cases on which the model computes anything different. *)
From Coq Require Import ZArith List Bool.
From Elys Require Import Base.Res Base.Zdec Models.AmmSwap Models.WeightFee Models.AmmJoinExit Models.WeightFeeJoinExit.
Import ListNotations.
Open Scope Z_scope.

Fixpoint zl_eqb (a b : list Z) : bool :=
  match a, b with
  | [], [] => true
  | x :: r, y :: t => (x =? y) && zl_eqb r t
  | _, _ => false
  end.

Inductive ccase :=
| CJoinCoins (id : Z) (R : list Z) (Sh : Z) (t : list (nat * Z)) (k shares : Z) (j R' : list Z) (Sh' : Z)
| CJoinShares (id : Z) (R : list Z) (Sh so : Z) (k : Z) (needed : list Z) (shares : Z) (j R' : list Z) (Sn : Z)
| CExit (id : Z) (R : list Z) (Sh sh : Z) (k : Z) (outs R' : list Z) (Sn : Z)
| CKeeperExit (id : Z) (R : list Z) (Sh sh : Z) (k : Z) (outs R' : list Z) (Sn : Z)
| COJoin (id : Z) (R : list Z) (Sh : Z) (d : nat) (amt : Z) (acc prices weights : list Z) (wbf : Z)
         (k tv shares : Z) (R' : list Z) (Sn : Z)
| COExit (id : Z) (R : list Z) (Sh sh : Z) (d : nat) (acc prices weights : list Z) (wbf : Z)
         (k out : Z) (R' : list Z) (Sn : Z)
| CSingle (id : Z) (B w tw a fee Sh pw : Z) (y wn shares : Z)
(* the same two oracle operations with the weight-breaking fee COMPUTED by Models/WeightFee.v from the params
   (multiplier, exponent, portion, threshold); [bonus] = the weightBalanceBonus the Go function returned *)
| COJoinW (id : Z) (R : list Z) (Sh : Z) (d : nat) (amt : Z) (acc prices weights : list Z) (mu ex po th : Z)
          (k shares bonus : Z) (R' : list Z) (Sn : Z)
| COExitW (id : Z) (R : list Z) (Sh sh : Z) (d : nat) (acc prices weights : list Z) (mu ex po th : Z)
          (k out bonus : Z) (R' : list Z) (Sn : Z).

Definition check (c : ccase) : Z * bool :=
  match c with
  | CJoinCoins id R Sh t k shares j R' Sn =>
      (id, match join_coins R Sh t with
           | Ok (sh, jj, RR, SS) => (k =? 0) && (sh =? shares) && zl_eqb jj j && zl_eqb RR R' && (SS =? Sn)
           | r => kind r =? k
           end)
  | CJoinShares id R Sh so k needed shares j R' Sn =>
      (id, match join_shares R Sh so with
           | Ok (nd, (sh, jj, RR, SS)) =>
               (k =? 0) && zl_eqb nd needed && (sh =? shares) && zl_eqb jj j && zl_eqb RR R' && (SS =? Sn)
           | r => kind r =? k
           end)
  | CExit id R Sh sh k outs R' Sn =>
      (id, match exit_prorata R Sh sh with
           | Ok (oo, RR, SS) => (k =? 0) && zl_eqb oo outs && zl_eqb RR R' && (SS =? Sn)
           | r => kind r =? k
           end)
  | CKeeperExit id R Sh sh k outs R' Sn =>
      (id, match keeper_exit R Sh sh with
           | Ok (oo, RR, SS) => (k =? 0) && zl_eqb oo outs && zl_eqb RR R' && (SS =? Sn)
           | r => kind r =? k
           end)
  | COJoin id R Sh d amt acc prices weights wbf k tv shares R' Sn =>
      (id, match join_oracle R Sh d amt acc prices weights wbf with
           | Ok (sh, RR, SS) => (k =? 0) && (sh =? shares) && zl_eqb RR R' && (SS =? Sn)
                                && match tvl R acc prices weights with Ok T => T =? tv | _ => false end
           | r => kind r =? k
           end)
  | COExit id R Sh sh d acc prices weights wbf k out R' Sn =>
      (id, match exit_oracle R Sh sh d acc prices weights wbf with
           | Ok (oo, RR, SS) => (k =? 0) && (oo =? out) && zl_eqb RR R' && (SS =? Sn)
           | r => kind r =? k
           end)
  | CSingle id B w tw a fee Sh pw y wn shares =>
      (id, (single_join_wn w tw =? wn) && (single_join_y B w tw a fee =? y) && (single_join_shares Sh pw =? shares))
  | COJoinW id R Sh d amt acc prices weights mu ex po th k shares bonus R' Sn =>
      (id, match join_oracle_wf R Sh d amt acc prices weights (mkWP mu ex po th) with
           | Ok (sh, RR, SS, bb) => (k =? 0) && (sh =? shares) && (bb =? bonus) && zl_eqb RR R' && (SS =? Sn)
           | r => kind r =? k
           end)
  | COExitW id R Sh sh d acc prices weights mu ex po th k out bonus R' Sn =>
      (id, match exit_oracle_wf R Sh sh d acc prices weights (mkWP mu ex po th) with
           | Ok (oo, RR, SS, bb) => (k =? 0) && (oo =? out) && (bb =? bonus) && zl_eqb RR R' && (SS =? Sn)
           | r => kind r =? k
           end)
  end.

Definition mismatches (cs : list ccase) : list Z :=
  flat_map (fun c => let '(id, ok) := check c in if ok then [] else [id]) cs.
