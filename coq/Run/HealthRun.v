(* Correspondence evaluator for Models/Health.v (C10): every health value the harness observed on the real keepers
   (leveragelp GetPositionHealth, perpetual GetMTPHealth) together with the quantities it is computed from, read on the same
   context: the model must give the same number (or the same failure kind). A C10 case now is the close/open steps of
   Run/CloseGuardRun.v plus the health evaluations of the same history. *)
From Coq Require Import ZArith List Bool.
From Elys Require Import Base.Res Base.Zdec Models.CloseGuard Run.CloseGuardRun Models.Health.
Import ListNotations.
Open Scope Z_scope.

Inductive hcase :=
| HLev (idx exit borrowed stacked paid health : Z)
| HPerp (idx : Z) (long : bool) (liab unpaid custody : Z) (est_liab est_custody : option Z) (k health : Z).
   (* k: 0 = a value was returned, 1 = error, 2 = panic *)

Definition hcheck (c : hcase) : Z * bool :=
  match c with
  | HLev i e b s p h => (i, lev_health_of e b s p =? h)
  | HPerp i lg l u c el ec k h =>
      (i, match perp_health lg l u c el ec with
          | Ok v => (k =? 0) && (v =? h)
          | r => Res.kind r =? k
          end)
  end.

Record c10h := mkC10H { hc_case : c10case; hc_health : list hcase }.
Definition mkC10h (id : Z) (steps : list cstep) (hs : list hcase) : c10h := mkC10H (mkC10 id steps) hs.

(* (history, step) of every disagreeing close/open step, then (history, - index - 1) of every disagreeing health value *)
Definition mismatches_h (cs : list c10h) : list (Z * Z) :=
  mismatches (map hc_case cs) ++
  flat_map (fun c => flat_map (fun h => let '(i, ok) := hcheck h in if ok then [] else [(c_id (hc_case c), - i - 1)])
                              (hc_health c)) cs.
