(* Correspondence evaluator for Models/PerpBacking.v.  Per transaction / block the harness reports the units it classified
   from the bank events, the MTP store and the pool aggregates (amm operation with its hook check, open / consolidation,
   user close, ClosePositions items), and afterwards per asset the amm reserve and the perpetual pool's long custody, short
   custody, long collateral and short liabilities.  The model replays the units with the code's own discipline
   (item_asis): every reported transaction must be ACCEPTED by the model (all its checks pass, no transfer fails) and all
   numbers must agree. *)
From Coq Require Import ZArith List Bool Arith.
From Elys Require Import Base.Res Base.Fn Base.Zdec Models.PerpBacking.
Import ListNotations.
Open Scope Z_scope.

Definition b_assets : list nat := [0%nat; 1%nat].   (* 0 = uusdc, 1 = uatom *)

(* funding store from the entries the harness read: (height, cumulative long amount, cumulative short amount), first stored first *)
Definition fs_of (l : list (Z * (Z * Z))) : fstore :=
  mkFS (fun h => existsb (fun e => fst e =? h) l)
       (fun h => match find (fun e => fst e =? h) l with Some e => fst (snd e) | None => 0 end)
       (fun h => match find (fun e => fst e =? h) l with Some e => snd (snd e) | None => 0 end)
       (match l with [] => 0 | e :: _ => fst e end).

Record bobs := mkBO { bo_rsv : list Z; bo_lcu : list Z; bo_scu : list Z; bo_lco : list Z; bo_sli : list Z }.

Fixpoint fn_matches (f : nat -> Z) (d : nat) (l : list Z) : bool :=
  match l with [] => true | v :: r => (f d =? v) && fn_matches f (S d) r end.

Definition obs_matches (s : bst) (o : bobs) : bool :=
  fn_matches (rsv s) 0 (bo_rsv o) && fn_matches (lcu s) 0 (bo_lcu o) && fn_matches (scu s) 0 (bo_scu o) &&
  fn_matches (lco s) 0 (bo_lco o) && fn_matches (sli s) 0 (bo_sli o).

(* a reported transaction succeeded on the implementation: the model must accept it too *)
Definition unit_accepted (s : bst) (u : bunit) : bool :=
  match u with UTx l => is_ok (hrun b_assets s l) | UClosePositions _ => true end.

Fixpoint units_accepted (s : bst) (l : list bunit) : bool :=
  match l with [] => true | u :: r => unit_accepted s u && units_accepted (ustep item_asis b_assets s u) r end.

Fixpoint breplay (s : bst) (l : list (list bunit * bobs)) (idx : Z) : list Z :=
  match l with
  | [] => []
  | (us, o) :: r =>
      let s' := brun item_asis b_assets s us in
      if units_accepted s us && obs_matches s' o then breplay s' r (idx + 1) else [idx]
  end.

(* the first step only loads the observed state (fixture liquidity) *)
Definition b_init (o : bobs) : bst :=
  let f := fun l d => nth d l 0 in
  mkB (f (bo_rsv o)) (f (bo_lcu o)) (f (bo_scu o)) (f (bo_lco o)) (f (bo_sli o)).

(* probes of the real GetFundingDistributionValue / FundingFeeDistribution on contexts in which the current block's entry
   exists (the production order: begin blocker before the block's transactions) *)
Record bprobe := mkBP { bp_fs : list (Z * (Z * Z)); bp_start : Z; bp_cur : Z; bp_long : Z; bp_short : Z }.
Record dprobe := mkDP { dp_side : side; dp_fs : list (Z * (Z * Z)); dp_cur : Z; dp_share : Z; dp_price : Z; dp_delta : Z }.
Definition bprobe_ok (p : bprobe) : bool :=
  let '(l, s) := fdv (fs_of (bp_fs p)) (bp_start p) (bp_cur p) in (l =? bp_long p) && (s =? bp_short p).
Definition dprobe_ok (p : dprobe) : bool :=
  fund_dist (dp_side p) (fs_of (dp_fs p)) (dp_cur p) (dp_share p) (dp_price p) =? dp_delta p.

Record bcase := mkBC { bc_id : Z; bc_init : bobs; bc_steps : list (list bunit * bobs); bc_fdv : list bprobe; bc_dist : list dprobe }.
Definition bmismatches (cs : list bcase) : list (Z * Z) :=
  flat_map (fun c => map (fun i => (bc_id c, i)) (breplay (b_init (bc_init c)) (bc_steps c) 0) ++
                     (if forallb bprobe_ok (bc_fdv c) then [] else [(bc_id c, -1)]) ++
                     (if forallb dprobe_ok (bc_dist c) then [] else [(bc_id c, -2)])) cs.

(* number of ClosePositions items of a case that leave a transfer behind (reported next to the mismatches) *)
Fixpoint aborts_in (s : bst) (l : list (list bunit * bobs)) : Z :=
  match l with
  | [] => 0
  | (us, _) :: r =>
      (if abort_free b_assets s us then 0 else 1) + aborts_in (brun item_asis b_assets s us) r
  end.
