(* Correspondence evaluator for Models/Shares.v (one machine per pool). Per step the harness reports
   the share mints / burns the bank committed (from coinbase / burn events, with the account the shares
   went to / came from) and, afterwards, TotalShares, bank supply, commitment-module balance and the
   committed shares of every touched account. *)
From Coq Require Import ZArith List Bool Arith.
From Elys Require Import Base.Res Base.Fn Models.SumLedger Models.Shares.
Import ListNotations.
Open Scope Z_scope.

Record shobs := mkShO { so_pool : nat; so_tshares : Z; so_supply : Z; so_custody : Z; so_comm : list (nat * Z) }.

Definition shmatches (s : shares) (o : shobs) : bool :=
  (sh_tshares s =? so_tshares o) && (total (sh_sl s) =? so_supply o) && (sh_custody s =? so_custody o) &&
  forallb (fun '(k, c) => parts (sh_sl s) k =? c) (so_comm o).

Definition pstate := nat -> shares.
Definition pupd (f : pstate) (p : nat) (s : shares) : pstate := fun x => if Nat.eqb x p then s else f x.

Fixpoint apply_ops (f : pstate) (ops : list (nat * shop)) : pstate :=
  match ops with [] => f | (p, o) :: r => apply_ops (pupd f p (shexec (f p) o)) r end.

Fixpoint shreplay (f : pstate) (l : list (list (nat * shop) * list shobs)) (idx : Z) : list Z :=
  match l with
  | [] => []
  | (ops, obs) :: r =>
      let f' := apply_ops f ops in
      if forallb (fun o => shmatches (f' (so_pool o)) o) obs then shreplay f' r (idx + 1) else [idx]
  end.

Record shcase := mkShC { shc_id : Z; shc_steps : list (list (nat * shop) * list shobs) }.
Definition mismatches (cs : list shcase) : list (Z * Z) :=
  flat_map (fun c => map (fun i => (shc_id c, i)) (shreplay (fun _ => sh_empty) (shc_steps c) 0)) cs.
