(* Correspondence evaluator for Models/AmmSwap.v.
   A case is (id, kind, arguments, (result code, v1, v2)) with the values the REAL Go function returned:
     kind 0  types.Pow(base, exp)                               args [base; exp]               -> v1 = result
     kind 1  Pool.CalcOutAmtGivenIn                             args pool(11) ++ [a; fee]      -> v1 = out, v2 = slippage
     kind 2  Pool.CalcInAmtGivenOut                             args pool(11) ++ [o; fee]      -> v1 = in,  v2 = slippage
     kind 3  oracle Pool.SwapOutAmtGivenIn, final value formula args [a;p_in;p_out;ratio;slip;wbf;fee] -> v1 = out, v2 = oracleOutAmount
     kind 4  oracle Pool.SwapInAmtGivenOut, final value formula args [o;p_in;p_out;ratio;slip;wbf;fee] -> v1 = in,  v2 = oracleInAmount
     kind 5  bonus decision of UpdatePoolForSwap                args [use_oracle;base;bonus;treasury] -> v1 = bonus paid from treasury
     kind 6  CalcGivenInSlippage kernel                         args [resized;p_in;p_out;balancer_out] -> v1
     kind 7  CalcGivenOutSlippage kernel                        args [resized;p_in;p_out;balancer_in]  -> v1
     kind 8  resized amount                                     args [a; ratio]                -> v1
     kind 9  oracle Pool.SwapOutAmtGivenIn, WHOLE function      args pool(11) ++ [a; ratio; wbf; fee] -> v1 = out, v2 = slippageAmount
     kind 10 oracle Pool.SwapInAmtGivenOut, WHOLE function      args pool(11) ++ [o; ratio; wbf; fee] -> v1 = in,  v2 = slippageAmount
     kind 11 ApplyDiscount                                      args [fee; discount]           -> v1
   result code: 0 ok ; 100 + n = returned error with code n (E_* of the model) ; 200 = panic (any). *)
From Coq Require Import ZArith List Bool.
From Elys Require Import Base.Res Base.Zdec Models.AmmSwap.
Import ListNotations.
Open Scope Z_scope.

Definition code2 (r : res (Z * Z)) : Z * Z * Z :=
  match r with
  | Ok (a, b) => (0, a, b)
  | Err c => (100 + Z.of_nat c, 0, 0)
  | Panic _ => (200, 0, 0)
  end.

Definition code1 (r : res Z) : Z * Z * Z := code2 (do x <- r; Ok (x, 0)).

Definition mk_pool (l : list Z) : option (pool * list Z) :=
  match l with
  | bi :: bo :: wi :: wo :: ai :: ao :: uo :: si :: so :: pi :: po :: rest =>
      Some (mkPool bi bo wi wo ai ao (negb (uo =? 0)) si so pi po, rest)
  | _ => None
  end.

Definition bad : Z * Z * Z := (-1, -1, -1).

Definition eval_case (kind : Z) (args : list Z) : Z * Z * Z :=
  match kind with
  | 0 => match args with [b; e] => code1 (pow b e) | _ => bad end
  | 1 => match mk_pool args with Some (p, [a; fee]) => code2 (calc_out p a fee) | _ => bad end
  | 2 => match mk_pool args with Some (p, [o; fee]) => code2 (calc_in p o fee) | _ => bad end
  | 3 => match args with [a; pi; po; ra; sl; wbf; fee] => code2 (oracle_out a pi po ra sl wbf fee) | _ => bad end
  | 4 => match args with [o; pi; po; ra; sl; wbf; fee] => code2 (oracle_in o pi po ra sl wbf fee) | _ => bad end
  | 5 => match args with [uo; base; bonus; tr] => code1 (bonus_paid (negb (uo =? 0)) base bonus tr) | _ => bad end
  | 6 => match args with [r; pi; po; b] => code1 (given_in_slippage r pi po b) | _ => bad end
  | 7 => match args with [r; pi; po; b] => code1 (given_out_slippage r pi po b) | _ => bad end
  | 8 => match args with [a; ra] => code1 (resized_amount a ra) | _ => bad end
  | 9 => match mk_pool args with
         | Some (p, [a; ra; wbf; fee]) => code2 (do '(out, s, _) <- oracle_swap_out p a ra wbf fee; Ok (out, s))
         | _ => bad end
  | 10 => match mk_pool args with
          | Some (p, [o; ra; wbf; fee]) => code2 (do '(inn, s, _) <- oracle_swap_in p o ra wbf fee; Ok (inn, s))
          | _ => bad end
  | 11 => match args with [f; d] => code1 (apply_discount f d) | _ => bad end
  | _ => bad
  end.

Definition t_eqb (x y : Z * Z * Z) : bool :=
  let '(a1, a2, a3) := x in let '(b1, b2, b3) := y in (a1 =? b1) && (a2 =? b2) && (a3 =? b3).

(* M lists (case id, model result) for every disagreeing case *)
Definition mismatches (cs : list (Z * Z * list Z * (Z * Z * Z))) : list (Z * (Z * Z * Z)) :=
  flat_map (fun '(id, kind, args, e) =>
              let r := eval_case kind args in if t_eqb r e then [] else [(id, r)]) cs.
