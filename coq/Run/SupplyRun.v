(* Correspondence evaluator for Models/Supply.v over the REGENERATED table of mint/burn sites.
   A case: the classes of the interned denominations, the interned zero / burner / commitment accounts,
   the bank supplies at the start, and per step (one transaction or one block of the real application)
   the committed bank operations read from the SDK's bank events (every coinbase / burn attributed by the
   harness to a row of the table) together with the bank supplies observed afterwards. The model must
   accept every step ([step_ok]) and reproduce every observed supply. *)
From Coq Require Import ZArith List Bool String Arith.
From Elys Require Import Base.Fn Models.Supply Generated.MintSites.
Import ListNotations.
Open Scope Z_scope.

Definition table : list site := sites ++ sdk_sites.

Record scase := mkSC {
  sc_id : Z;
  sc_dcl : list (nat * rdenom);
  sc_zero : nat; sc_burner : nat; sc_commit : nat;
  sc_supply0 : list (nat * Z);
  sc_steps : list (list bop * list (nat * Z)) }.

Definition supply_of (l : list (nat * Z)) : supply :=
  fun d => match find (fun p => Nat.eqb (fst p) d) l with Some p => snd p | None => 0 end.

Fixpoint sreplay (W : world) (s : supply) (l : list (list bop * list (nat * Z))) (idx : Z) : list Z :=
  match l with
  | [] => []
  | (ops, obs) :: r =>
      let s' := apply_step s ops in
      if step_ok W table ops && forallb (fun '(d, v) => s' d =? v) obs then sreplay W s' r (idx + 1) else [idx]
  end.

Definition mismatches (cs : list scase) : list (Z * Z) :=
  flat_map (fun c =>
    let W := mkW (dcl_of (sc_dcl c)) (sc_zero c) (sc_burner c) (sc_commit c) in
    map (fun i => (sc_id c, i)) (sreplay W (supply_of (sc_supply0 c)) (sc_steps c) 0)) cs.
