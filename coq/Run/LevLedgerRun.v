(* Correspondence evaluator for Models/LevLedger.v. Per step (tx or block) the harness reports which
   positions changed and by how much (open / close amounts) and what the keepers report afterwards:
   pool total, open counter, every touched position's amount and the shares committed at its address. *)
From Coq Require Import ZArith List Bool Arith.
From Elys Require Import Base.Res Base.Fn Models.SumLedger Models.LevLedger.
Import ListNotations.
Open Scope Z_scope.

Record lobs := mkLO { lo_total : Z; lo_count : Z; lo_pos : list (nat * Z * Z) }.

Definition lmatches (s : lev) (o : lobs) : bool :=
  (total (l_sl s) =? lo_total o) && (count (l_sl s) =? lo_count o) &&
  forallb (fun '(k, a, c) => (parts (l_sl s) k =? a) && (l_comm s k =? c) &&
                             (Bool.eqb (mem_key k (keys (l_sl s))) (negb (a =? 0)))) (lo_pos o).

Fixpoint lreplay (s : lev) (l : list (list lop * lobs)) (idx : Z) : list Z :=
  match l with
  | [] => []
  | (ops, o) :: r => let s' := lrun s ops in if lmatches s' o then lreplay s' r (idx + 1) else [idx]
  end.

Record levcase := mkLevC { lv_id : Z; lv_steps : list (list lop * lobs) }.
Definition mismatches (cs : list levcase) : list (Z * Z) :=
  flat_map (fun c => map (fun i => (lv_id c, i)) (lreplay lev_empty (lv_steps c) 0)) cs.
