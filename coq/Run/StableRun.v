(* Correspondence evaluator for Models/Stable.v: replays what the harness executed on the real
   application. A step is  (pre, main, kind, obs):  [pre] are environment ops (OExt wallet syncs) that
   must succeed; [main] is ONE transaction (all-or-nothing list of handler calls) whose result kind
   (0 ok / 1 err / 2 panic) and resulting state are compared with the implementation:
   TotalValue, share supply, module balance and every listed account. *)
From Coq Require Import ZArith List Bool.
From Elys Require Import Base.Res Base.Zdec Models.Stable.
Import ListNotations.
Open Scope Z_scope.

Record obs := mkO { o_tv : Z; o_sup : Z; o_cash : Z; o_accts : list (nat * (Z * Z * Z * Z * Z)) }.
Record vstep := mkStep { st_pre : list op; st_main : list op; st_kind : Z; st_obs : obs }.
Record vcase := mkC { c_id : Z; c_tv : Z; c_sup : Z; c_cash : Z;
                      c_accts : list (Z * Z * Z * Z * Z); c_steps : list vstep }.

Definition acct_eqb (a : acct) (x : Z * Z * Z * Z * Z) : bool :=
  let '(w, sh, b, st, pd) := x in
  (a_wallet a =? w) && (a_shares a =? sh) && (a_borrowed a =? b) && (a_stacked a =? st) && (a_paid a =? pd).

Definition obs_matches (s : state) (o : obs) : bool :=
  (s_tv s =? o_tv o) && (s_supply s =? o_sup o) && (s_cash s =? o_cash o) &&
  forallb (fun '(u, x) => acct_eqb (get_acct s u) x) (o_accts o).

Definition step_matches (s : state) (v : vstep) : state * bool :=
  match steps s (st_pre v) with
  | Ok s1 =>
      let r := steps s1 (st_main v) in
      let s2 := match r with Ok s' => s' | _ => s1 end in
      (s2, (kind r =? st_kind v) && obs_matches s2 (st_obs v))
  | _ => (s, false)
  end.

Fixpoint replay (s : state) (l : list vstep) (idx : Z) : list Z :=
  match l with
  | [] => []
  | v :: r => let '(s', ok) := step_matches s v in
              if ok then replay s' r (idx + 1) else [idx]     (* first diverging step *)
  end.

Definition init_of (c : vcase) : state :=
  mkS (c_tv c) (c_sup c) (c_cash c)
      (map (fun '(w, sh, b, st, pd) => mkA w sh b st pd) (c_accts c)).

Definition mismatches (cs : list vcase) : list (Z * Z) :=
  flat_map (fun c => map (fun i => (c_id c, i)) (replay (init_of c) (c_steps c) 0)) cs.

(* constructor-like helper so that case files can write account observations with nat indices *)
Definition ao (u : nat) (w sh b st pd : Z) : nat * (Z * Z * Z * Z * Z) := (u, (w, sh, b, st, pd)).
