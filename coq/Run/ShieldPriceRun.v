(* Correspondence evaluator for Models/ShieldPrice.v: for every spot-order attempt of an execute request for which the
   oracle holds a price record of both sides, the harness emits the inputs (oracle records read from x/oracle, decimals
   from the fixture's table); the market price the keeper returned for that attempt - the value the replay of
   Run/ShieldRun.v is driven with - is looked up in the step itself and must equal [market_price] of the inputs. *)
From Coq Require Import ZArith List Bool.
From Elys Require Import Base.Res Models.Shield Run.ShieldRun Models.ShieldPrice.
Import ListNotations.
Open Scope Z_scope.

Record pcheck := mkP { p_step : Z; p_id : Z; p_pin : Z; p_din : Z; p_pout : Z; p_dout : Z }.
Record pcase := mkPC { pc_case : vcase; pc_prices : list pcheck }.

(* the resolved market price of spot order [p_id] in step [p_step] *)
Definition keeper_price (c : vcase) (k : pcheck) : option (option Z) :=
  match nth_error (c_steps c) (Z.to_nat (p_step k)) with
  | Some (OExecute _ sids _, _) =>
      match find (fun x : Z * reso => fst x =? p_id k) sids with
      | Some (_, r) => Some (r_price r)
      | None => None
      end
  | _ => None
  end.

Definition pcheck_ok (fixed : bool) (c : vcase) (k : pcheck) : bool :=
  match keeper_price c k with
  | None => false
  | Some kp =>
      match price_gen fixed (p_pin k) (p_din k) (p_pout k) (p_dout k) with
      | None => true       (* a per-base-unit value rounds to zero: the code substitutes the amm spot price (not modelled) *)
      | Some m => match kp with Some v => v =? m | None => false end
      end
  end.

(* (case id, 1000000 + step) of every price computation the model does not reproduce *)
Definition price_mismatches (fixed : bool) (cs : list pcase) : list (Z * Z) :=
  flat_map (fun pc => map (fun k => (c_id (pc_case pc), 1000000 + p_step k))
                          (filter (fun k => negb (pcheck_ok fixed (pc_case pc) k)) (pc_prices pc))) cs.
