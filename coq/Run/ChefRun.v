(* Correspondence evaluator for Models/Chef.v: replays what the harness executed on the real application.
   A case starts from the empty ledger (init_state) at the height at which the fixture ran; every step is one
   op (a transaction or an end blocker) with the result kind observed on the implementation (0 ok / 1 err /
   2 panic) and the observations made afterwards: module balances, acc-per-share, TotalCommitted, committed
   shares and (pending, debt) of the listed slots, plus checksums over ALL (account, pool, denom) slots so
   that a slot that changed without being listed is noticed. *)
From Coq Require Import ZArith List Bool Arith.
From Elys Require Import Base.Res Base.Zdec Models.Chef.
Import ListNotations.
Open Scope Z_scope.

Record obs := mkO {
  o_chef : list (nat * Z);
  o_acc : list (nat * nat * Z);
  o_tot : list (nat * Z);
  o_bal : list (nat * nat * Z);
  o_slot : list (nat * nat * nat * Z * Z);     (* account, pool, denom, pending, debt *)
  o_sums : Z * Z * Z;                          (* sum pending, sum debt, sum bal over all slots *)
  o_height : Z;
  o_xden : list (nat * list nat) }.
Record vstep := mkStep { st_ops : list op; st_kind : Z; st_obs : obs }.   (* the ops of ONE transaction / block, in order *)
Record vcase := mkC { c_id : Z; c_fx : fixes; c_par : params; c_nu : nat; c_np : nat; c_h : Z;
                      c_dens : list nat; c_steps : list vstep }.

Definition sum_over (n m : nat) (ds : list nat) (f : nat -> nat -> nat -> Z) : Z :=
  sumn n (fun u => sumn m (fun p => fold_right (fun d x => f u p d + x) 0 ds)).

Fixpoint list_eqb (a b : list nat) : bool :=
  match a, b with
  | [], [] => true
  | x :: r, y :: t => Nat.eqb x y && list_eqb r t
  | _, _ => false
  end.

Definition obs_matches (ds : list nat) (s : state) (o : obs) : bool :=
  forallb (fun '(d, v) => chef s d =? v) (o_chef o) &&
  forallb (fun '(p, d, v) => acc s p d =? v) (o_acc o) &&
  forallb (fun '(p, v) => tot s p =? v) (o_tot o) &&
  forallb (fun '(u, p, v) => bal s u p =? v) (o_bal o) &&
  forallb (fun '(u, p, d, pe, de) => (pend s u p d =? pe) && (debt s u p d =? de)) (o_slot o) &&
  (let '(sp, sd, sb) := o_sums o in
   (sum_over (nu s) (np s) ds (pend s) =? sp) && (sum_over (nu s) (np s) ds (debt s) =? sd) &&
   (sumn (nu s) (fun u => sumn (np s) (fun p => bal s u p)) =? sb)) &&
  (height s =? o_height o) &&
  forallb (fun '(p, l) => list_eqb (xden s p) l) (o_xden o).

(* The model state is a record of functions; every op wraps them in another closure. To keep the replay linear the
   evaluator tabulates the functions over the case's universe after every step (strict [let]s: the VM evaluates the
   tables once). Outside the universe the original function is consulted, so [freeze] is pointwise the identity. *)
Definition tab1 (n : nat) (f : nat -> Z) : list Z := map f (seq 0 n).
Definition get1 (l : list Z) (f : nat -> Z) (i : nat) : Z := match nth_error l i with Some v => v | None => f i end.
Definition tab2 (n m : nat) (f : nat -> nat -> Z) : list (list Z) := map (fun i => tab1 m (f i)) (seq 0 n).
Definition get2 (l : list (list Z)) (f : nat -> nat -> Z) (i j : nat) : Z :=
  match nth_error l i with Some r => get1 r (f i) j | None => f i j end.
Definition tab3 (n m k : nat) (f : nat -> nat -> nat -> Z) : list (list (list Z)) := map (fun i => tab2 m k (f i)) (seq 0 n).
Definition get3 (l : list (list (list Z))) (f : nat -> nat -> nat -> Z) (i j k : nat) : Z :=
  match nth_error l i with Some r => get2 r (f i) j k | None => f i j k end.

Definition freeze (nd : nat) (s : state) : state :=
  let c := tab1 nd (chef s) in
  let a := tab2 (np s) nd (acc s) in
  let t := tab1 (np s) (tot s) in
  let b := tab2 (nu s) (np s) (bal s) in
  let pe := tab3 (nu s) (np s) nd (pend s) in
  let de := tab3 (nu s) (np s) nd (debt s) in
  let xs := map (xden s) (seq 0 (np s)) in
  mkS (nu s) (np s) (get1 c (chef s)) (get2 a (acc s)) (get1 t (tot s)) (get2 b (bal s)) (get3 pe (pend s)) (get3 de (debt s))
      (fun p => match nth_error xs p with Some l => l | None => xden s p end) (incs s) (height s) (nextid s).

Fixpoint steps (fx : fixes) (P : params) (s : state) (l : list op) : res state :=
  match l with [] => Ok s | o :: r => do s1 <- step fx P s o; steps fx P s1 r end.

Definition step_matches (fx : fixes) (P : params) (ds : list nat) (s : state) (v : vstep) : state * bool :=
  let r := steps fx P s (st_ops v) in
  let s2 := match r with Ok s' => freeze (length ds) s' | _ => s end in
  (s2, (kind r =? st_kind v) && obs_matches ds s2 (st_obs v)).

Fixpoint replay (fx : fixes) (P : params) (ds : list nat) (s : state) (l : list vstep) (idx : Z) : list Z :=
  match l with
  | [] => []
  | v :: r => let '(s', ok) := step_matches fx P ds s v in
              if ok then replay fx P ds s' r (idx + 1) else [idx]     (* first diverging step *)
  end.

Definition mismatches (cs : list vcase) : list (Z * Z) :=
  flat_map (fun c => map (fun i => (c_id c, i))
                         (replay (c_fx c) (c_par c) (c_dens c) (init_state (c_nu c) (c_np c) (c_h c)) (c_steps c) 0)) cs.

(* constructor-like helpers so that case files can write nat indices without scope annotations *)
Definition cz (d : nat) (v : Z) : nat * Z := (d, v).
Definition az (p d : nat) (v : Z) : nat * nat * Z := (p, d, v).
Definition sl (u p d : nat) (pe de : Z) : nat * nat * nat * Z * Z := (u, p, d, pe, de).
Definition xd (p : nat) (l : list nat) : nat * list nat := (p, l).
