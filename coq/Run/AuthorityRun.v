(* Correspondence evaluator for Models/Authority.v + Generated/Handlers.v.
   The harness delivers real messages through the production router and records, per delivery:
   module, request type, whether the signer was the governance authority, whether the signer owned
   the addressed object, the result kind (0 ok / 1 err / 2 panic) and whether ANY store of the
   application differed after the handler returned (observed on the handler's own branch, before
   baseapp would discard it). The model is run in its most permissive resolution of the
   nondeterminism (every Write changes the abstract state 0 into 1, nothing else fails):
     - if even that run ends in an error with the state still 0, the model FORCES a rejection and
       the implementation must have rejected without touching any store;
     - if the implementation changed a store, the permissive run must end with state 1
       (otherwise the translator missed a write or a whole handler: completeness of the table). *)
From Coq Require Import ZArith String List Bool.
From Elys Require Import Base.Res Models.Authority Generated.Handlers.
Import ListNotations.
Open Scope string_scope.

Record acase := mkC {
  c_id : Z; c_mod : string; c_req : string;
  c_auth : bool;      (* the signer is the governance authority *)
  c_owner : bool;     (* the signer owns the object the message addresses (or none is addressed) *)
  c_kind : Z; c_changed : bool
}.

Definition find_handler (m r : string) : option handler :=
  find (fun h => String.eqb (h_mod h) m && String.eqb (h_req h) r) handlers.

Definition permissive (h : handler) (c : acase) : res unit * nat :=
  let signer := if c_auth c then "gov" else "user" in
  let msg : message := fun f => if String.eqb f (h_signer h) then signer else "" in
  let owner := fun _ : nat => if c_owner c then Some signer else Some "somebody-else" in
  run_handler owner h msg "gov" 0%nat (repeat (ChWrite 1%nat) (length (h_skel h))).

Definition case_ok (c : acase) : bool :=
  match find_handler (c_mod c) (c_req c) with
  | None => false
  | Some h =>
    let '(r, s') := permissive h c in
    let forced := negb (is_ok r) && Nat.eqb s' 0 in
    (if forced then negb (Z.eqb (c_kind c) 0) && negb (c_changed c) else true)
    && (if c_changed c then negb (Nat.eqb s' 0) else true)
  end.

Definition mismatches (cs : list acase) : list (Z * Z) :=
  flat_map (fun c => if case_ok c then [] else [(c_id c, 0%Z)]) cs.
