(* Correspondence evaluator for Models/Commit.v.
   App cases: replays the operations the harness executed on the real application (messages through
   the router, keeper calls as the other modules make them) from the empty ledger and compares, after
   every step, the result kind, the acting account (committed entries with their lock-ups in store
   order, claimed, share wallets), Params.TotalCommitted and the module account's bank balance; at
   the end every account.
   Pure cases: types.Commitments.AddCommittedTokens / DeductFromCommitted called directly. *)
From Coq Require Import ZArith List Bool.
From Elys Require Import Base.Res Models.Commit.
Import ListNotations.
Open Scope Z_scope.

Definition tok_obs := (Z * Z * list (Z * Z))%type.   (* denom, amount, lock-ups (amount, unlock) *)

Definition proj_tok (t : ctok) : tok_obs :=
  (t_denom t, t_amt t, map (fun k => (l_amt k, l_unlock k)) (t_locks t)).
Definition unproj_tok (o : tok_obs) : ctok :=
  let '(d, a, ls) := o in mkT d a (map (fun '(x, u) => mkLk x u) ls).

Fixpoint list_eqb {A} (eqb : A -> A -> bool) (a b : list A) : bool :=
  match a, b with
  | [], [] => true
  | x :: r, y :: t => eqb x y && list_eqb eqb r t
  | _, _ => false
  end.
Definition pair_eqb (a b : Z * Z) : bool := (fst a =? fst b) && (snd a =? snd b).
Definition tok_eqb (a b : tok_obs) : bool :=
  let '(d1, a1, l1) := a in let '(d2, a2, l2) := b in
  (d1 =? d2) && (a1 =? a2) && list_eqb pair_eqb l1 l2.

Definition fmatch (f : Z -> Z) (l : list (Z * Z)) : bool := forallb (fun '(d, x) => f d =? x) l.

Record aobs := mkAO { ao_acct : nat; ao_com : list tok_obs; ao_cl : list (Z * Z); ao_wal : list (Z * Z) }.

Definition acct_matches (s : state) (o : aobs) : bool :=
  let A := get_acct (s_led s) (ao_acct o) in
  list_eqb tok_eqb (map proj_tok (a_com A)) (ao_com o) && fmatch (a_claimed A) (ao_cl o) && fmatch (a_wallet A) (ao_wal o).

Record obs := mkO {
  o_kind : Z;      (* implementation result: 0 ok, 1 err, 2 panic *)
  o_mode : Z;      (* 0: the model must give the same kind (the op is a commitment handler);
                      1: composite message of another module: it may also fail for reasons outside the
                         ledger, so only "implementation ok -> model ok" is required, and a failed
                         message must leave the ledger unchanged;
                      2: reconstructed fixture step: the model must accept it, nothing is compared yet
                         (every account is compared in full right after the fixture) *)
  o_a : aobs;
  o_tot : list (Z * Z);
  o_mod : list (Z * Z)
}.

Definition step_matches (fu fb : bool) (s : state) (o : op) (e : obs) : state * bool :=
  let r := step_gen fu fb s o in
  let s' := if o_kind e =? 0 then match r with Ok s' => s' | _ => s end else s in
  let kind_ok := if o_mode e =? 0 then kind r =? o_kind e
                 else if o_kind e =? 0 then is_ok r else true in
  if o_mode e =? 2 then (s', is_ok r) else
  (s', kind_ok && acct_matches s' (o_a e) && fmatch (s_total s') (o_tot e) && fmatch (s_mod (s_led s')) (o_mod e)).

Fixpoint replay (fu fb : bool) (s : state) (l : list (op * obs)) (idx : Z) : state * list Z :=
  match l with
  | [] => (s, [])
  | (o, e) :: r =>
      let '(s', ok) := step_matches fu fb s o e in
      if ok then replay fu fb s' r (idx + 1) else (s', [idx])   (* first diverging step *)
  end.

Record acase := mkC { c_id : Z; c_n : nat; c_steps : list (op * obs); c_final : list aobs }.

Definition acase_mismatch (fu fb : bool) (c : acase) : list (Z * Z) :=
  let '(s, bad) := replay fu fb (init_state (c_n c)) (c_steps c) 0 in
  match bad with
  | i :: _ => [(c_id c, i)]
  | [] => if forallb (acct_matches s) (c_final c) then [] else [(c_id c, -1)]
  end.

(* ---- pure cases ---- *)
Inductive pop := PAdd (d amt unlock : Z) | PDed (d amt now : Z) (liq : bool).

Record pcase := mkPC { pc_id : Z; pc_init : list tok_obs; pc_steps : list (pop * Z * list tok_obs) }.

Fixpoint preplay (l : list ctok) (steps : list (pop * Z * list tok_obs)) (idx : Z) : list Z :=
  match steps with
  | [] => []
  | (p, k, e) :: r =>
      let res := match p with
                 | PAdd d amt u => Ok (add_committed d amt u l)
                 | PDed d amt now liq => deduct_committed d amt now liq l
                 end in
      let l' := match res with Ok l' => l' | _ => l end in
      if (kind res =? k) && list_eqb tok_eqb (map proj_tok l') e then preplay l' r (idx + 1) else [idx]
  end.

Definition pcase_mismatch (c : pcase) : list (Z * Z) :=
  map (fun i => (pc_id c, i)) (preplay (map unproj_tok (pc_init c)) (pc_steps c) 0).

Inductive anycase := CApp (c : acase) | CPure (c : pcase).

Definition mismatches (fu fb : bool) (cs : list anycase) : list (Z * Z) :=
  flat_map (fun c => match c with CApp c => acase_mismatch fu fb c | CPure c => pcase_mismatch c end) cs.
