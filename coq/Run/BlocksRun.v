(* C18 - replay of observed blocks against the generated table (evaluated by vm_compute on the case files
   written by harness/c18_test.go).
   A case = (history id, list of blocks); a block = (observed result of the real FinalizeBlock+Commit: 0 ok,
   1 error returned, 2 panic; list of (blocker id = index in the table, raw result of that blocker when the same
   block was run blocker by blocker on a throw-away branch: Elys blockers at keeper level)).
   The model maps the raw results through the table (an error value of an Elys keeper blocker fails the block
   only if the module method propagates it; a panic always does) and predicts the block result. *)
From Coq Require Import ZArith List Bool String.
From Elys Require Import Base.Res Models.Blocks.
Import ListNotations.
Open Scope Z_scope.

Definition raw_of (raws : list (Z * Z)) (id : Z) : Z :=
  match find (fun r => Z.eqb (fst r) id) raws with Some r => snd r | None => 0 end.

Definition effective (b : blocker) (r : Z) : Z :=
  if (r =? 0) then 0
  else if (r =? 1) then (if b_elys b then (if b_propagates b then 1 else 0) else 1)
  else 2.

Fixpoint predict_from (tbl : list blocker) (id : Z) (ph : phase) (raws : list (Z * Z)) : Z :=
  match tbl with
  | [] => 0
  | b :: r =>
      if phase_eqb (b_phase b) ph then
        let e := effective b (raw_of raws id) in
        if (e =? 0) then predict_from r (id + 1) ph raws else e
      else predict_from r (id + 1) ph raws
  end.

Definition predict (tbl : list blocker) (raws : list (Z * Z)) : Z :=
  let b := predict_from tbl 0 PBegin raws in
  if (b =? 0) then predict_from tbl 0 PEnd raws else b.

Fixpoint block_mismatches (tbl : list blocker) (k : nat) (blocks : list (Z * list (Z * Z))) : list nat :=
  match blocks with
  | [] => []
  | (obs, raws) :: r =>
      if (predict tbl raws =? obs) then block_mismatches tbl (S k) r else k :: block_mismatches tbl (S k) r
  end.

Definition mismatches (tbl : list blocker) (cases : list (nat * list (Z * list (Z * Z)))) : list (nat * nat) :=
  flat_map (fun c => match block_mismatches tbl 0 (snd c) with [] => [] | k :: _ => [(fst c, k)] end) cases.
