(* Correspondence evaluator for Models/Shield.v: replays the operations the harness executed on the
   real application (with the resolved market prices / inner results) and compares, after every
   step, the result kind, every user wallet, every escrow account ever created and the pending
   order lists. *)
From Coq Require Import ZArith List Bool.
From Elys Require Import Base.Res Models.Shield.
Import ListNotations.
Open Scope Z_scope.

(* observation: kind; user wallets (user, [uusdc;uatom;uelys]); escrows (perp?, id, [..]); pending orders *)
Record obs := mkOb {
  ob_kind : Z;
  ob_users : list (Z * list Z);
  ob_escs : list (bool * Z * list Z);
  ob_ords : list order
}.

Fixpoint list_eqb {A} (eqb : A -> A -> bool) (a b : list A) : bool :=
  match a, b with
  | [], [] => true
  | x :: r, y :: t => eqb x y && list_eqb eqb r t
  | _, _ => false
  end.

Definition order_eqb (a b : order) : bool :=
  Bool.eqb (o_perp a) (o_perp b) && (o_id a =? o_id b) && (o_owner a =? o_owner b) && (o_type a =? o_type b) &&
  (o_base a =? o_base b) && (o_quote a =? o_quote b) && (o_rate a =? o_rate b) && (o_den a =? o_den b) &&
  (o_amt a =? o_amt b) && (o_tp a =? o_tp b) && (o_pool a =? o_pool b) && (o_asset a =? o_asset b).

Definition bals (b : bank) (a : addr) : list Z := map (b a) all_denoms.

Definition users_ok (b : bank) (l : list (Z * list Z)) : bool :=
  forallb (fun x : Z * list Z => list_eqb Z.eqb (bals b (AUser (fst x))) (snd x)) l.

Definition escs_ok (b : bank) (l : list (bool * Z * list Z)) : bool :=
  forallb (fun x : bool * Z * list Z => list_eqb Z.eqb (bals b (if fst (fst x) then APerp (snd (fst x)) else ASpot (snd (fst x)))) (snd x)) l.

(* the real store iterates spot orders and perpetual orders separately, each by id *)
Definition ords_ok (l : list order) (e : list order) : bool :=
  list_eqb order_eqb (filter (fun o => negb (o_perp o)) l ++ filter o_perp l) e.

Definition step_matches (fixed : bool) (s : state) (o : op) (e : obs) : state * bool :=
  let r := step_gen fixed s o in
  let s' := match r with Ok s' => s' | _ => s end in
  (s', (kind r =? ob_kind e) && users_ok (bk s') (ob_users e) && escs_ok (bk s') (ob_escs e) && ords_ok (ords s') (ob_ords e)).

Fixpoint replay (fixed : bool) (s : state) (l : list (op * obs)) (idx : Z) : list Z :=
  match l with
  | [] => []
  | (o, e) :: r =>
      let '(s', ok) := step_matches fixed s o e in
      if ok then replay fixed s' r (idx + 1) else [idx]
  end.

Record vcase := mkC { c_id : Z; c_init : list (Z * Z * Z); c_steps : list (op * obs) }.

Definition zero_bank : bank := fun _ _ => 0.

Definition mismatches (fixed : bool) (cs : list vcase) : list (Z * Z) :=
  flat_map (fun c => map (fun i => (c_id c, i))
     (replay fixed (init_state (set_wallets zero_bank (c_init c))) (c_steps c) 0)) cs.
