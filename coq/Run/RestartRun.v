(* Correspondence evaluator for C19.
   The harness runs three replicas of the REAL application on the same generated history:
     A  a node that never stops,
     B  a second fresh instance (its own process-level map iteration orders),
     C  a node on a database that is re-opened (application object dropped and rebuilt, loadLatest) after
        some heights,
   and records per committed block: whether C was restarted after the previous commit, the leading 8 bytes of
   each replica's application hash, and of a digest of the block's transaction results (kind + events) and
   block events (as a multiset). It also reads the keeper structs of the live application by reflection and
   reports every field that can hold state (map, slice, chan, pointer to data ...) with its package/struct/name.

   The model's prediction (Proofs/RestartProofs.v: run_agree / restart_invisible, given the table obligations
   over Generated/Determinism.v) is that the three traces are EQUAL, and that the code has no memory cell:
     - any block where the replicas differ is reported as (case id, height);
     - any state-holding field that reflection finds and the regenerated table does not classify as state is
       reported as (case id, -1 - index): the translator missed it (completeness of the table). *)
From Coq Require Import ZArith String List Bool.
From Elys Require Import Base.Res Models.Restart Generated.Determinism.
Import ListNotations.
Open Scope Z_scope.

Record blockobs := mkO {
  o_height : Z; o_restarted : bool;
  o_hashA : Z; o_hashB : Z; o_hashC : Z;
  o_txA : Z; o_txB : Z; o_txC : Z
}.

Record rcase := mkCase {
  c_id : Z;
  c_blocks : list blockobs;
  c_live_state_fields : list (string * string * string)   (* (package, struct, field) found by reflection *)
}.

Definition block_ok (o : blockobs) : bool :=
  Z.eqb (o_hashA o) (o_hashB o) && Z.eqb (o_hashA o) (o_hashC o) && Z.eqb (o_txA o) (o_txB o) && Z.eqb (o_txA o) (o_txC o).

Fixpoint first_bad (l : list blockobs) : option Z :=
  match l with
  | [] => None
  | o :: r => if block_ok o then first_bad r else Some (o_height o)
  end.

(* the table knows the field and says it is state (so the obligation already failed on it) *)
Definition table_flags (x : string * string * string) : bool :=
  let '(p, s, n) := x in
  existsb (fun f => String.eqb (f_pkg f) p && String.eqb (f_struct f) s && String.eqb (f_name f) n && negb (no_memory_state f)) fields.

Fixpoint first_missed (i : Z) (l : list (string * string * string)) : option Z :=
  match l with
  | [] => None
  | x :: r => if table_flags x then first_missed (i + 1) r else Some (-1 - i)
  end.

Definition mismatches (cs : list rcase) : list (Z * Z) :=
  flat_map (fun c =>
    match first_bad (c_blocks c) with
    | Some h => [(c_id c, h)]
    | None => match first_missed 0 (c_live_state_fields c) with Some k => [(c_id c, k)] | None => [] end
    end) cs.
