(* Correspondence evaluator for Models/Oracle.v: replays the operations the harness executed on the real
   application and compares, after every step, the result kind, the number of stored prices, and
   GetAssetPrice of EVERY name of the history's alphabet / GetAssetPriceFromDenom of every denom.
   The harness sends the expected lookup vectors as deltas against the previous step. *)
From Coq Require Import ZArith NArith List Bool String Ascii.
From Elys Require Import Base.Res Models.Oracle.
Import ListNotations.

Definition B (s : string) : bytes := map N_of_ascii (list_ascii_of_string s).

(* asset, source, price, provider, timestamp, height *)
Definition pobs := option (bytes * bytes * Z * N * N * N).

Definition proj (r : option price) : pobs :=
  option_map (fun v => (p_asset v, p_source v, p_price v, p_provider v, p_ts v, p_height v)) r.

Definition pobs_eqb (a b : pobs) : bool :=
  match a, b with
  | None, None => true
  | Some (a1, a2, a3, a4, a5, a6), Some (b1, b2, b3, b4, b5, b6) =>
      beqb a1 b1 && beqb a2 b2 && (a3 =? b3)%Z && (a4 =? b4)%N && (a5 =? b5)%N && (a6 =? b6)%N
  | _, _ => false
  end.

Fixpoint list_eqb {A} (eqb : A -> A -> bool) (a b : list A) : bool :=
  match a, b with
  | [], [] => true
  | x :: r, y :: t => eqb x y && list_eqb eqb r t
  | _, _ => false
  end.

Record sobs := mkO {
  o_kind : Z;                       (* 0 ok, 1 err, 2 panic *)
  o_count : N;                      (* len(GetAllPrice) *)
  o_prices : list (nat * pobs);     (* changed entries of the GetAssetPrice vector *)
  o_denoms : list (nat * Z)         (* changed entries of the GetAssetPriceFromDenom vector *)
}.

Definition apply_deltas {A} (l : list A) (d : list (nat * A)) : list A :=
  fold_left (fun l e => upd_nth (fst e) (snd e) l) d l.

Record ev := mkEv { e_s : state; e_p : list pobs; e_d : list Z }.

Definition step_matches (fixed : bool) (qs ds : list bytes) (e : ev) (o : op) (x : sobs) : ev * bool :=
  let r := step (e_s e) o in
  let s' := match r with Ok s' => s' | _ => e_s e end in
  let ep := apply_deltas (e_p e) (o_prices x) in
  let ed := apply_deltas (e_d e) (o_denoms x) in
  (mkEv s' ep ed,
   (kind r =? o_kind x)%Z
   && (N.of_nat (List.length (st_prices s')) =? o_count x)%N
   && list_eqb pobs_eqb (map (fun q => proj (lookup fixed s' q)) qs) ep
   && list_eqb Z.eqb (map (price_from_denom fixed s') ds) ed).

Fixpoint replay (fixed : bool) (qs ds : list bytes) (e : ev) (l : list (op * sobs)) (idx : Z) : list Z :=
  match l with
  | [] => []
  | (o, x) :: r =>
      let '(e', ok) := step_matches fixed qs ds e o x in
      if ok then replay fixed qs ds e' r (idx + 1)%Z else [idx]    (* first diverging step *)
  end.

Record ocase := mkC {
  c_id : Z; c_init : state; c_names : list bytes; c_denoms : list bytes; c_steps : list (op * sobs)
}.

Definition mismatches (fixed : bool) (cs : list ocase) : list (Z * Z) :=
  flat_map (fun c =>
    map (fun i => (c_id c, i))
        (replay fixed (c_names c) (c_denoms c)
                (mkEv (c_init c) (map (fun _ => None) (c_names c)) (map (fun _ => 0%Z) (c_denoms c)))
                (c_steps c) 0%Z)) cs.
