(* Correspondence evaluator for Models/AccPool.v: per step and per denom the harness reports the three
   source records (reserve, liabilities, custody) and the accounted pool's TotalTokens / NonAmmPoolTokens
   as the keepers report them; the model (hook discipline after the fix: commits) predicts the latter two. *)
From Coq Require Import ZArith List Bool.
From Elys Require Import Base.Res Models.AccPool.
Import ListNotations.
Open Scope Z_scope.

Definition arow := (Z * Z * Z * Z * Z)%type.   (* R, L, C, T, N *)

Fixpoint areplay (s : acc) (l : list arow) (idx : Z) : list Z :=
  match l with
  | [] => []
  | (R', L', C', T', N') :: r =>
      let s' := fixed_step s R' L' C' in
      if (a_T s' =? T') && (a_N s' =? N') then areplay s' r (idx + 1) else [idx]
  end.

Record acase := mkAC { ac_id : Z; ac_denoms : list (list arow) }.  (* one row list per denom; first row = initial state *)

Definition run_denom (rows : list arow) : list Z :=
  match rows with
  | [] => []
  | (R, L, C, T, N) :: r => if (T =? R + L - C) && (N =? L - C) then areplay (mkAcc R L C T N) r 1 else [0]
  end.

Definition mismatches (cs : list acase) : list (Z * Z) :=
  flat_map (fun c => map (fun i => (ac_id c, i)) (flat_map run_denom (ac_denoms c))) cs.
