(* Correspondence evaluator for Models/PerpLedger.v: per step the harness reports which MTPs appeared,
   changed (per field delta) or disappeared, and afterwards the 12 recorded aggregates of every perpetual pool
   (field = 12 * pool slot + side x asset x {liabilities, custody, collateral}; up to two pools) and the module's open
   counter. An MTP contributes only to the fields of its own pool. *)
From Coq Require Import ZArith List Bool Arith.
From Elys Require Import Base.Res Base.Fn Models.SumLedger Models.PerpLedger.
Import ListNotations.
Open Scope Z_scope.

Definition all_fields : list nat := seq 0 24.

Record pobs := mkPO { po_agg : list Z; po_cnt : Z }.

Fixpoint agg_matches (s : perp) (f : nat) (l : list Z) : bool :=
  match l with [] => true | v :: r => (agg s f =? v) && agg_matches s (S f) r end.

Fixpoint preplay (s : perp) (l : list (list pop * pobs)) (idx : Z) : list Z :=
  match l with
  | [] => []
  | (ops, o) :: r =>
      let s' := ptx all_fields s ops in
      if agg_matches s' 0 (po_agg o) && (cnt s' =? po_cnt o) then preplay s' r (idx + 1) else [idx]
  end.

Record pcase := mkPC { pc_id : Z; pc_steps : list (list pop * pobs) }.
Definition mismatches (cs : list pcase) : list (Z * Z) :=
  flat_map (fun c => map (fun i => (pc_id c, i)) (preplay perp_empty (pc_steps c) 0)) cs.
