(* Correspondence evaluator for Models/CloseGuard.v (C10). Every observed step is self-contained:
   the positions of both modules, the owners' balances and both safety factors BEFORE the step, the step
   with the values the harness resolved at the moment of each decision (health recomputed on a throw-away
   context, price, pay-out), and what changed on the real application. The model replays the decision and
   must arrive at exactly the observed positions and balances (and, for opens / owner closes, the same
   verdict). *)
From Coq Require Import ZArith List Bool.
From Elys Require Import Base.Res Models.CloseGuard.
Import ListNotations.
Open Scope Z_scope.

(* observed position record: size, collateral, principal, stop-loss, take-profit, long *)
Definition P (size coll princ : Z) (sl tp : option Z) (long : bool) : pos := mkPos size 0 coll princ sl tp long.

Record sdesc := mkSD { sd_lev : list (Z * Z * pos); sd_perp : list (Z * Z * pos);
                       sd_funds : list (Z * Z * Z); sd_sfl : Z; sd_sfp : Z }.

Definition build_pm (l : list (Z * Z * pos)) : pmap :=
  fold_left (fun m '(o, i, p) => pset m o i (Some p)) l (fun _ _ => None).
Definition build_f (l : list (Z * Z * Z)) : fmap :=
  fold_left (fun f '(o, d, v) => fun o' d' => if (o' =? o) && (d' =? d) then v else f o' d') l (fun _ _ => 0).
Definition build (d : sdesc) : state := mkSt (build_pm (sd_lev d)) (build_pm (sd_perp d)) (build_f (sd_funds d)) (sd_sfl d) (sd_sfp d).

Inductive cop :=
| CLevMsg (tx_ok : bool) (liq stop : list item)
| CPerpMsg (tx_ok : bool) (liq stop take : list item)
| CSweep (page : list item)
| COwnerClose (c : ownerclose) (impl_ok : bool)
| COpen (o : openop) (impl_ok : bool).

(* model post-state and whether the verdict agrees with the implementation's *)
Definition apply (s : state) (c : cop) : state * bool :=
  match c with
  | CLevMsg ok liq stop => (lev_close_positions s ok liq stop, true)
  | CPerpMsg ok liq stop take => (perp_close_positions s ok liq stop take, true)
  | CSweep page => (lev_sweep s page, true)
  | COwnerClose oc impl_ok =>
      let r := owner_close s oc in (run_tx (fun s => owner_close s oc) s, Bool.eqb (is_ok r) impl_ok)
  | COpen o impl_ok =>
      let r := open_step s o in (run_tx (fun s => open_step s o) s, Bool.eqb (is_ok r) impl_ok)
  end.

Definition oz_eqb (a b : option Z) : bool :=
  match a, b with None, None => true | Some x, Some y => x =? y | _, _ => false end.
Definition pos_eqb (a b : option pos) : bool :=
  match a, b with
  | None, None => true
  | Some p, Some q => (p_size p =? p_size q) && (p_coll p =? p_coll q) && (p_princ p =? p_princ q) &&
                      oz_eqb (p_sl p) (p_sl q) && oz_eqb (p_tp p) (p_tp q) && Bool.eqb (p_long p) (p_long q)
  | _, _ => false
  end.

Fixpoint find_p (l : list (Z * Z * option pos)) (o i : Z) : option (option pos) :=
  match l with
  | [] => None
  | (o', i', v) :: r => if (o' =? o) && (i' =? i) then Some v else find_p r o i
  end.
Fixpoint find_f (l : list (Z * Z * Z)) (o d : Z) : option Z :=
  match l with
  | [] => None
  | (o', d', v) :: r => if (o' =? o) && (d' =? d) then Some v else find_f r o d
  end.

(* expected value of a key after the step: what the harness saw change, otherwise what it was before *)
Definition expect_p (pre : pmap) (chg : list (Z * Z * option pos)) (o i : Z) : option pos :=
  match find_p chg o i with Some v => v | None => pre o i end.
Definition expect_f (pre : fmap) (chg : list (Z * Z * Z)) (o d : Z) : Z :=
  match find_f chg o d with Some v => v | None => pre o d end.

Definition check_pm (pre post : pmap) (keys : list (Z * Z * pos)) (chg : list (Z * Z * option pos)) : bool :=
  forallb (fun '(o, i, _) => pos_eqb (post o i) (expect_p pre chg o i)) keys &&
  forallb (fun '(o, i, _) => pos_eqb (post o i) (expect_p pre chg o i)) chg.
Definition check_f (pre post : fmap) (keys chg : list (Z * Z * Z)) : bool :=
  forallb (fun '(o, d, _) => post o d =? expect_f pre chg o d) keys &&
  forallb (fun '(o, d, _) => post o d =? expect_f pre chg o d) chg.

Record cstep := mkStep { cs_idx : Z; cs_pre : sdesc; cs_op : cop;
                         cs_lev : list (Z * Z * option pos); cs_perp : list (Z * Z * option pos);
                         cs_funds : list (Z * Z * Z) }.

Definition check_step (c : cstep) : bool :=
  let s := build (cs_pre c) in
  let '(s', verdict) := apply s (cs_op c) in
  verdict &&
  check_pm (st_lev s) (st_lev s') (sd_lev (cs_pre c)) (cs_lev c) &&
  check_pm (st_perp s) (st_perp s') (sd_perp (cs_pre c)) (cs_perp c) &&
  check_f (st_funds s) (st_funds s') (sd_funds (cs_pre c)) (cs_funds c) &&
  (st_sfl s' =? sd_sfl (cs_pre c)) && (st_sfp s' =? sd_sfp (cs_pre c)).

Record c10case := mkC10 { c_id : Z; c_steps : list cstep }.

Definition mismatches (cs : list c10case) : list (Z * Z) :=
  flat_map (fun c => map (fun st => (c_id c, cs_idx st)) (filter (fun st => negb (check_step st)) (c_steps c))) cs.

(* item constructors used by the generated case text *)
Definition It (o i : Z) (settle health : option Z) (liab : Z) (hook : bool) (health2 price : option Z) (c : closeres) : item :=
  mkItem o i settle health liab hook health2 price c.
