(* Correspondence evaluator for Models/WeightFee.v (C03 part): extends Run/AmmSwapRun.v [eval_case] by the kinds
     kind 12 oracle Pool.SwapOutAmtGivenIn, WHOLE function WITH the weight-breaking fee computed by the model
             args pool(11) ++ [in_first; a; ratio; perp; fee; mult; exp; portion; thr] -> v1 = out, v2 = weightBalanceBonus
     kind 13 oracle Pool.SwapInAmtGivenOut, the same      args pool(11) ++ [in_first; o; ratio; perp; fee; mult; exp; portion; thr]
                                                                                         -> v1 = in,  v2 = weightBalanceBonus
     kind 14 GetWeightBreakingFee                          args [fin_in; fin_out; tgt_in; tgt_out; ini_in; ini_out; dd; mult; exp] -> v1
     kind 15 Pool.WeightDistanceFromTarget                 args [amt1; w1; p1; amt2; w2; p2; ...] -> v1
     kind 16 GetDenomOracleAssetWeight / GetDenomNormalizedWeight of the asset at position k
                                                           args [k; amt1; w1; p1; ...] -> v1 = oracle weight, v2 = target weight
   Every other kind is evaluated by AmmSwapRun.eval_case. Result code as there. *)
From Coq Require Import ZArith List Bool.
From Elys Require Import Base.Res Base.Zdec Models.AmmSwap Models.WeightFee Run.AmmSwapRun.
Import ListNotations.
Open Scope Z_scope.

Fixpoint mk_assets (l : list Z) : list asset :=
  match l with
  | a :: w :: p :: r => (a, w, p) :: mk_assets r
  | _ => []
  end.

Definition eval_case_wf (kind : Z) (args : list Z) : Z * Z * Z :=
  match kind with
  | 12 => match mk_pool args with
          | Some (p, [inf; a; ra; perp; fee; mu; ex; po; th]) =>
              let f := negb (inf =? 0) in
              code2 (do '(out, _, _, bonus) <- oracle_swap_out_wf p (pool_assets p f) (pos_in f) (pos_out f) a ra perp fee
                                                 (mkWP mu ex po th); Ok (out, bonus))
          | _ => bad end
  | 13 => match mk_pool args with
          | Some (p, [inf; o; ra; perp; fee; mu; ex; po; th]) =>
              let f := negb (inf =? 0) in
              code2 (do '(inn, _, _, bonus) <- oracle_swap_in_wf p (pool_assets p f) (pos_in f) (pos_out f) o ra perp fee
                                                 (mkWP mu ex po th); Ok (inn, bonus))
          | _ => bad end
  | 14 => match args with
          | [fi; fo; ti; to; ii; io; dd; mu; ex] => code1 (get_wbf (mkWP mu ex 0 0) fi fo ti to ii io dd)
          | _ => bad end
  | 15 => code1 (weight_distance (mk_assets args))
  | 16 => match args with
          | k :: r => let l := mk_assets r in
                      code2 (do o <- oracle_weight_of l (Z.to_nat k); do t <- target_weight_of l (Z.to_nat k); Ok (o, t))
          | _ => bad end
  | _ => eval_case kind args
  end.

Definition mismatches_wf (cs : list (Z * Z * list Z * (Z * Z * Z))) : list (Z * (Z * Z * Z)) :=
  flat_map (fun '(id, kind, args, e) =>
              let r := eval_case_wf kind args in if t_eqb r e then [] else [(id, r)]) cs.
