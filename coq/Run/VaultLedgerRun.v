(* Correspondence evaluator for Models/VaultLedger.v. Per step (one transaction or one block) the harness
   reports the primitive vault operations it observed (kind from the bank events on the module account and
   the debt-store deltas, amounts from the implementation) and what the keepers report afterwards:
   Params.TotalValue, the module account's deposit-denom balance, and for every borrower address seen so
   far whether a Debt record is stored and its three fields. Every reported step succeeded on the real
   code, so the model must accept it (an Err of the model is a divergence) and must land on the same
   TotalValue, cash, record set and record fields. *)
From Coq Require Import ZArith List Bool Arith.
From Elys Require Import Base.Res Base.Fn Models.SumLedger Models.VaultLedger.
Import ListNotations.
Open Scope Z_scope.

Record vobs := mkVO { vo_tv : Z; vo_cash : Z; vo_n : Z; vo_debts : list (nat * bool * Z * Z * Z) }.

Definition vmatches (v : vault) (o : vobs) : bool :=
  (v_tv v =? vo_tv o) && (v_cash v =? vo_cash o) && (Z.of_nat (length (v_keys v)) =? vo_n o) &&
  forallb (fun '(k, present, b, s, p) =>
             Bool.eqb (mem_key k (v_keys v)) present && (v_b v k =? b) && (v_s v k =? s) && (v_p v k =? p))
          (vo_debts o).

Fixpoint vreplay (v : vault) (l : list (list vop * vobs)) (idx : Z) : list Z :=
  match l with
  | [] => []
  | (ops, o) :: r =>
      match vsteps vstep_fixed v ops with
      | Ok v' => if vmatches v' o then vreplay v' r (idx + 1) else [idx]
      | _ => [idx]
      end
  end.

Record vcase := mkVC { vc_id : Z; vc_steps : list (list vop * vobs) }.
Definition mismatches (cs : list vcase) : list (Z * Z) :=
  flat_map (fun c => map (fun i => (vc_id c, i)) (vreplay vault_empty (vc_steps c) 0)) cs.
