(* Correspondence evaluator for Models/SwapQueue.v (C04): one case = one block of the real application.
   The transactions are replayed through [enqueue] with the amounts a dry run of the real route produced
   (the model must take the same accept/reject decision from the message's own limit), then the end
   blocker is replayed through [loop] with the CODED selection over the real store keys; the script
   supplies, per iteration, the amounts resolved for the first/second try and the slippage comparison.
   The model must (1) never run out of fuel, (2) delete/execute exactly the requests the real end
   blocker executed, in the same order, and drop the others, (3) reproduce every observed balance. *)
From Coq Require Import ZArith List Bool Arith.
From Elys Require Import Base.Res Base.Fn Models.SwapQueue.
Import ListNotations.
Open Scope Z_scope.

Definition bank_of (l : list (nat * nat * Z)) : bank :=
  fun a d => match find (fun x => Nat.eqb (fst (fst x)) a && Nat.eqb (snd (fst x)) d) l with
             | Some x => snd x | None => 0 end.

Definition env_of (l : list (nat * (nat * nat * nat))) (blocked : list nat) : env :=
  let get := fun p => match find (fun x => Nat.eqb (fst x) p) l with Some x => snd x | None => (0, 0, 0)%nat end in
  mkEnv (fun p => fst (fst (get p))) (fun p => snd (fst (get p))) (fun p => snd (get p))
        (fun a => existsb (Nat.eqb a) blocked).

Definition fail_choice : choice := mkCh true [] [].

Record qcase := mkQ {
  q_id : Z;
  q_pools : list (nat * (nat * nat * nat));      (* pool id -> (pool address, rebalance treasury, revenue address) *)
  q_blocked : list nat;                           (* addresses on bank's blocked list (BankKeeper.BlockedAddr) *)
  q_init : list (nat * nat * Z);                  (* balances when the block starts *)
  q_txs : list (msg * choice * Z);                (* message, dry-run amounts, observed result kind (0 ok / 1 err) *)
  q_script : list (choice * choice * bool);       (* per iteration of the batch loop *)
  q_applied : list nat;                           (* observed: indices of the executed requests, in order *)
  q_dropped : list nat;                           (* observed: indices of the requests that left no trace *)
  q_obs : list (nat * nat * Z)                    (* observed balances after the end blocker *)
}.

Fixpoint run_txs_chk (e : env) (s : st) (l : list (msg * choice * Z)) (i : Z) : st * list Z :=
  match l with
  | [] => (s, [])
  | (m, c, k) :: r =>
      let res := enqueue e s m c in
      if kind res =? k then run_txs_chk e (match res with Ok s' => s' | _ => s end) r (i + 1)
      else (s, [i])
  end.

Fixpoint nat_list_eqb (a b : list nat) : bool :=
  match a, b with
  | [], [] => true
  | x :: r, y :: t => Nat.eqb x y && nat_list_eqb r t
  | _, _ => false
  end.

Definition subset (a b : list nat) : bool := forallb (fun x => existsb (Nat.eqb x) b) a.

Fixpoint first_diff (b : bank) (l : list (nat * nat * Z)) (i : Z) : list Z :=
  match l with
  | [] => []
  | (a, d, v) :: r => if b a d =? v then first_diff b r (i + 1) else [i]
  end.

Definition replay (c : qcase) : list Z :=
  let e := env_of (q_pools c) (q_blocked c) in
  let '(s, bad) := run_txs_chk e (mkSt (bank_of (q_init c)) [] 0) (q_txs c) 0 in
  match bad with
  | _ :: _ => bad
  | [] =>
      let ch := fun n (second : bool) (_ : req) =>
                  match nth_error (q_script c) n with
                  | Some (c1, c2, _) => if second then c2 else c1
                  | None => fail_choice end in
      let lt := fun n => match nth_error (q_script c) n with Some (_, _, l) => l | None => false end in
      match end_block e cur_out_coded sel1c sel2c ch lt s with
      | None => [1000]                                  (* fuel exhausted *)
      | Some (s', tr) =>
          let applied := map (fun v => r_idx (ev_req v)) (filter ev_applied tr) in
          let dropped := map (fun v => r_idx (ev_req v)) (filter (fun v => negb (ev_applied v)) tr) in
          if negb (nat_list_eqb applied (q_applied c)) then [1001]
          else if negb (subset dropped (q_dropped c) && subset (q_dropped c) dropped) then [1002]
          else if negb (is_nil (s_q s')) then [1003]
          else first_diff (s_bank s') (q_obs c) 2000
      end
  end.

Definition mismatches (cs : list qcase) : list (Z * Z) :=
  flat_map (fun c => map (fun i => (q_id c, i)) (replay c)) cs.
